package main

// C19 — bytes from network peers cannot crash handlers or skew what is recorded.
// Drives the real parseRawClientHello / looksLike* / getVersion / tlsHandler / clientHelloConn
// (through the add-only hook caskethttp/httpserver/verif_export_c19.go), the push middleware
// (Link headers), the FastCGI client and handler against a scripted loopback responder,
// the replacer, basicauth and an in-process server for raw requests.

import (
	"bufio"
	"bytes"
	"crypto/tls"
	"encoding/hex"
	"encoding/json"
	"fmt"
	"io"
	"log"
	"net"
	"net/http"
	"net/http/httptest"
	"net/url"
	"os"
	"path/filepath"
	"sort"
	"strconv"
	"strings"
	"sync"
	"time"

	"github.com/tmpim/casket"
	_ "github.com/tmpim/casket/caskethttp"
	"github.com/tmpim/casket/caskethttp/fastcgi"
	"github.com/tmpim/casket/caskethttp/httpserver"
	"github.com/tmpim/casket/caskethttp/push"
	"github.com/tmpim/casket/caskettls"
)

// ---------------------------------------------------------------------------------------------
// input format (byte strings are hex so that replays are exact)
// ---------------------------------------------------------------------------------------------
type c19Info struct {
	Version uint16   `json:"version"`
	Ciphers []uint16 `json:"ciphers"`
	Exts    []uint16 `json:"exts"`
	Comp    string   `json:"comp"`
	Curves  []uint16 `json:"curves"`
	Points  string   `json:"points"`
}
type c19Ext struct {
	K      string   `json:"k"` // curves | points | other
	Type   uint16   `json:"type,omitempty"`
	Curves []uint16 `json:"curves,omitempty"`
	Body   string   `json:"body,omitempty"` // points list or opaque body
}
type c19Hello struct {
	Version uint16   `json:"version"`
	Random  string   `json:"random"`
	Sid     string   `json:"sid"`
	Ciphers []uint16 `json:"ciphers"`
	Comp    string   `json:"comp"`
	Exts    []c19Ext `json:"exts"`
}
type c19Rec struct {
	Type    int    `json:"type"`
	Content string `json:"content"`
	Pad     int    `json:"pad"`
}
type c19In struct {
	Kind   string    `json:"kind"`
	Data   string    `json:"data,omitempty"`
	Hello  *c19Hello `json:"hello,omitempty"`
	Which  int       `json:"which,omitempty"`
	Info   *c19Info  `json:"info,omitempty"`
	UA     string    `json:"ua,omitempty"`
	Name   string    `json:"name,omitempty"`
	BC     bool      `json:"bluecoat,omitempty"`
	FC     bool      `json:"fcckv2,omitempty"`
	Sizes  []int     `json:"sizes,omitempty"`
	Values []string  `json:"values,omitempty"`
	FailAt *int      `json:"failat,omitempty"`
	Recs   []c19Rec  `json:"recs,omitempty"`
	Tail   int       `json:"tail,omitempty"`
	Buf    int       `json:"buf,omitempty"`
	KLen   int       `json:"klen,omitempty"`
	VLen   int       `json:"vlen,omitempty"`
	Empty  string    `json:"empty,omitempty"`
	Sub    string    `json:"sub,omitempty"`
	Conns  [][]string `json:"conns,omitempty"`
}

func c19Hex(s string) []byte {
	b, err := hex.DecodeString(s)
	if err != nil {
		panic("bad hex in C19 input: " + err.Error())
	}
	return b
}
func c19H(b []byte) string { return hex.EncodeToString(b) }

// c19Bytes emits a byte string as a Coq term, run-length encoding long runs so that large
// cases stay small: (app (hex "..") (app (rep 97 65535) (hex "..")))
func c19Bytes(b []byte) string {
	if len(b) < 512 {
		return cBytes(b)
	}
	var parts []string
	start := 0
	i := 0
	for i < len(b) {
		j := i
		for j < len(b) && b[j] == b[i] {
			j++
		}
		if j-i >= 64 {
			if i > start {
				parts = append(parts, cBytes(b[start:i]))
			}
			parts = append(parts, fmt.Sprintf("(rep %d %d)", b[i], j-i))
			start = j
		}
		i = j
	}
	if start < len(b) {
		parts = append(parts, cBytes(b[start:]))
	}
	if len(parts) == 0 {
		return "[]"
	}
	t := parts[len(parts)-1]
	for k := len(parts) - 2; k >= 0; k-- {
		t = "(app " + parts[k] + " " + t + ")"
	}
	return t
}

func c19U16List(xs []uint16) string {
	it := make([]string, len(xs))
	for i, x := range xs {
		it[i] = cN(uint64(x))
	}
	return cList(it)
}

func (i *c19Info) term() string {
	return cApp("mkInfo", cN(uint64(i.Version)), c19U16List(i.Ciphers), c19U16List(i.Exts),
		cBytes(c19Hex(i.Comp)), c19U16List(i.Curves), cBytes(c19Hex(i.Points)))
}
func (i *c19Info) real() caskettls.ClientHelloInfo {
	var cur []tls.CurveID
	for _, c := range i.Curves {
		cur = append(cur, tls.CurveID(c))
	}
	return caskettls.ClientHelloInfo{Version: i.Version, CipherSuites: i.Ciphers, Extensions: i.Exts,
		CompressionMethods: c19Hex(i.Comp), Curves: cur, Points: c19Hex(i.Points)}
}
func c19InfoOf(r caskettls.ClientHelloInfo) *c19Info {
	o := &c19Info{Version: r.Version, Ciphers: r.CipherSuites, Exts: r.Extensions,
		Comp: c19H(r.CompressionMethods), Points: c19H(r.Points)}
	for _, c := range r.Curves {
		o.Curves = append(o.Curves, uint16(c))
	}
	return o
}
func c19OptInfo(i *c19Info) string {
	if i == nil {
		return "None"
	}
	return "(Some " + i.term() + ")"
}

func (h *c19Hello) term() string {
	var es []string
	for _, e := range h.Exts {
		switch e.K {
		case "curves":
			es = append(es, cApp("ECurves", c19U16List(e.Curves)))
		case "points":
			es = append(es, cApp("EPoints", cBytes(c19Hex(e.Body))))
		default:
			es = append(es, cApp("EOther", cN(uint64(e.Type)), cBytes(c19Hex(e.Body))))
		}
	}
	return cApp("mkHello", cN(uint64(h.Version)), cBytes(c19Hex(h.Random)), cBytes(c19Hex(h.Sid)),
		c19U16List(h.Ciphers), cBytes(c19Hex(h.Comp)), cList(es))
}

func c19be16(n int) []byte { return []byte{byte(n >> 8), byte(n)} }

// encode is the harness's own encoder of a structured hello (the Coq side has encode_hello;
// the judge checks that both produce the same bytes)
func (h *c19Hello) encode() []byte {
	var exts []byte
	for _, e := range h.Exts {
		var body []byte
		typ := int(e.Type)
		switch e.K {
		case "curves":
			typ = 10
			body = c19be16(2 * len(e.Curves))
			for _, c := range e.Curves {
				body = append(body, c19be16(int(c))...)
			}
		case "points":
			typ = 11
			p := c19Hex(e.Body)
			body = append([]byte{byte(len(p))}, p...)
		default:
			body = c19Hex(e.Body)
		}
		exts = append(exts, c19be16(typ)...)
		exts = append(exts, c19be16(len(body))...)
		exts = append(exts, body...)
	}
	var b []byte
	b = append(b, c19be16(int(h.Version))...)
	b = append(b, c19Hex(h.Random)...)
	sid := c19Hex(h.Sid)
	b = append(b, byte(len(sid)))
	b = append(b, sid...)
	b = append(b, c19be16(2*len(h.Ciphers))...)
	for _, c := range h.Ciphers {
		b = append(b, c19be16(int(c))...)
	}
	comp := c19Hex(h.Comp)
	b = append(b, byte(len(comp)))
	b = append(b, comp...)
	b = append(b, c19be16(len(exts))...)
	b = append(b, exts...)
	out := []byte{1, byte(len(b) >> 16), byte(len(b) >> 8), byte(len(b))}
	return append(out, b...)
}

// c19Field is a length field inside an encoded hello: offset, width in bytes, end of the data it covers
type c19Field struct{ off, size, end int }

// fields locates every length field of the encoding produced by encode()
func (h *c19Hello) fields() []c19Field {
	var fs []c19Field
	sid, comp := c19Hex(h.Sid), c19Hex(h.Comp)
	p := 4 + 2 + 32
	fs = append(fs, c19Field{p, 1, p + 1 + len(sid)})
	p += 1 + len(sid)
	fs = append(fs, c19Field{p, 2, p + 2 + 2*len(h.Ciphers)})
	p += 2 + 2*len(h.Ciphers)
	fs = append(fs, c19Field{p, 1, p + 1 + len(comp)})
	p += 1 + len(comp)
	total := len(h.encode())
	fs = append(fs, c19Field{p, 2, total})
	p += 2
	for _, e := range h.Exts {
		var bl int
		switch e.K {
		case "curves":
			bl = 2 + 2*len(e.Curves)
		case "points":
			bl = 1 + len(c19Hex(e.Body))
		default:
			bl = len(c19Hex(e.Body))
		}
		fs = append(fs, c19Field{p + 2, 2, p + 4 + bl})
		switch e.K {
		case "curves":
			fs = append(fs, c19Field{p + 4, 2, p + 4 + bl})
		case "points":
			fs = append(fs, c19Field{p + 4, 1, p + 4 + bl})
		}
		p += 4 + bl
	}
	return fs
}

// c19FieldMutate changes one length field by a small delta and/or cuts the message at the
// end of the data a field covers (+-1): the inputs bounds checks are written for
func c19FieldMutate(r *Rand, h *c19Hello) []byte {
	b := h.encode()
	fs := h.fields()
	f := fs[r.Intn(len(fs))]
	if r.Chance(70) {
		d := []int{-2, -1, 1, 2, 3}[r.Intn(5)]
		if f.size == 1 {
			b[f.off] = byte(int(b[f.off]) + d)
		} else {
			v := int(b[f.off])<<8 | int(b[f.off+1])
			v += d
			b[f.off], b[f.off+1] = byte(v>>8), byte(v)
		}
	}
	if r.Chance(50) {
		g := fs[r.Intn(len(fs))]
		cut := g.end + r.Range(-2, 1)
		if r.Chance(30) {
			cut = g.off + r.Range(0, g.size)
		}
		if cut >= 0 && cut < len(b) {
			b = b[:cut]
			if r.Chance(50) && len(b) > fs[3].off+1 { // keep the total extensions length consistent
				n := len(b) - fs[3].off - 2
				if n >= 0 {
					b[fs[3].off], b[fs[3].off+1] = byte(n>>8), byte(n)
				}
			}
		}
	}
	return b
}

// ---------------------------------------------------------------------------------------------
// helpers: panic capture, fake connection, pusher, loopback FastCGI responder
// ---------------------------------------------------------------------------------------------
func c19Try(f func()) (panicked bool, msg string) {
	defer func() {
		if r := recover(); r != nil {
			panicked = true
			msg = fmt.Sprint(r)
		}
	}()
	f()
	return
}

type c19Addr string

func (a c19Addr) Network() string { return "tcp" }
func (a c19Addr) String() string  { return string(a) }

type c19Conn struct {
	segs [][]byte
	i    int
}

func (c *c19Conn) Read(b []byte) (int, error) {
	if c.i >= len(c.segs) {
		return 0, io.EOF
	}
	s := c.segs[c.i]
	c.i++
	return copy(b, s), nil
}
func (c *c19Conn) Write(b []byte) (int, error)        { return len(b), nil }
func (c *c19Conn) Close() error                       { return nil }
func (c *c19Conn) LocalAddr() net.Addr                { return c19Addr("192.0.2.1:443") }
func (c *c19Conn) RemoteAddr() net.Addr               { return c19Addr("192.0.2.7:50000") }
func (c *c19Conn) SetDeadline(t time.Time) error      { return nil }
func (c *c19Conn) SetReadDeadline(t time.Time) error  { return nil }
func (c *c19Conn) SetWriteDeadline(t time.Time) error { return nil }

type c19Pusher struct {
	*httptest.ResponseRecorder
	pushed []string
	failAt int
}

func (p *c19Pusher) Push(target string, opts *http.PushOptions) error {
	n := len(p.pushed)
	p.pushed = append(p.pushed, target)
	if p.failAt >= 0 && n == p.failAt {
		return fmt.Errorf("push refused")
	}
	return nil
}

// the loopback FastCGI responder: reads one request (until the empty stdin record or EOF),
// hands the decoded params to the current script, writes the script's bytes, half-closes.
type c19Responder struct {
	ln     net.Listener
	mu     sync.Mutex
	script func(params map[string]string) []byte
}

var c19Resp *c19Responder

func c19GetResponder() *c19Responder {
	if c19Resp != nil {
		return c19Resp
	}
	ln, err := net.Listen("tcp", "127.0.0.1:0")
	if err != nil {
		panic(err)
	}
	r := &c19Responder{ln: ln}
	go func() {
		for {
			c, err := ln.Accept()
			if err != nil {
				return
			}
			go r.serve(c)
		}
	}()
	c19Resp = r
	return r
}

func (r *c19Responder) serve(c net.Conn) {
	defer c.Close()
	br := bufio.NewReaderSize(c, 1<<16)
	var params []byte
	complete := false
	for {
		var h [8]byte
		if _, err := io.ReadFull(br, h[:]); err != nil {
			break
		}
		n := int(h[4])<<8 | int(h[5])
		body := make([]byte, n+int(h[6]))
		if _, err := io.ReadFull(br, body); err != nil {
			break
		}
		if h[1] == 4 {
			params = append(params, body[:n]...)
		}
		if h[1] == 5 && n == 0 {
			complete = true
			break
		}
	}
	pm := map[string]string{}
	for len(params) > 0 {
		rd := func() (int, bool) {
			if len(params) == 0 {
				return 0, false
			}
			if params[0] < 128 {
				v := int(params[0])
				params = params[1:]
				return v, true
			}
			if len(params) < 4 {
				return 0, false
			}
			v := int(params[0]&0x7f)<<24 | int(params[1])<<16 | int(params[2])<<8 | int(params[3])
			params = params[4:]
			return v, true
		}
		kl, ok1 := rd()
		vl, ok2 := rd()
		if !ok1 || !ok2 || kl+vl > len(params) {
			break
		}
		pm[string(params[:kl])] = string(params[kl : kl+vl])
		params = params[kl+vl:]
	}
	r.mu.Lock()
	s := r.script
	r.mu.Unlock()
	if complete && s != nil {
		c.Write(s(pm))
	}
	if tc, ok := c.(*net.TCPConn); ok {
		tc.CloseWrite()
	}
	io.Copy(io.Discard, br) // wait for the client to close
}

// run sets the script and runs f (which makes at most one connection). The script callback runs
// before the response is written, i.e. before f can return normally.
func (r *c19Responder) run(script func(map[string]string) []byte, f func(addr string)) {
	r.mu.Lock()
	r.script = script
	r.mu.Unlock()
	f(r.ln.Addr().String())
}

func c19EncRec(typ int, content []byte, pad int) []byte {
	b := []byte{1, byte(typ), 0, 1, byte(len(content) >> 8), byte(len(content)), byte(pad), 0}
	b = append(b, content...)
	return append(b, make([]byte, pad)...)
}

var c19EndRequest = []byte{1, 3, 0, 1, 0, 8, 0, 0, 0, 0, 0, 0, 0, 0, 0, 0}

func c19Response(hdr string, body string) []byte {
	b := c19EncRec(6, []byte(hdr+"\r\n\r\n"+body), 0)
	b = append(b, c19EncRec(6, nil, 0)...)
	return append(b, c19EndRequest...)
}

var c19Root string

func c19GetRoot() string {
	if c19Root != "" {
		return c19Root
	}
	base := os.Getenv("VERIF_ROOT")
	if base == "" {
		base = os.TempDir()
	}
	d := filepath.Join(base, "run", "c19root")
	os.MkdirAll(filepath.Join(d, "d"), 0o755)
	os.WriteFile(filepath.Join(d, "a.txt"), []byte("a"), 0o644)
	os.WriteFile(filepath.Join(d, "x.php"), []byte("<?php"), 0o644)
	os.WriteFile(filepath.Join(d, "d", "i.php"), []byte("<?php"), 0o644)
	c19Root = d
	return d
}

// fastcgi handler built by the directive's real setup, pointing at the loopback responder
func c19FcgiHandler(addr string) (httpserver.Handler, error) {
	c := casket.NewTestController("http", "fastcgi / "+addr+"\n")
	cfg := httpserver.GetConfig(c)
	cfg.Root = c19GetRoot()
	action, err := casket.DirectiveAction("http", "fastcgi")
	if err != nil {
		return nil, err
	}
	if err := action(c); err != nil {
		return nil, err
	}
	return compile(cfg.Middleware(), handlerFunc(func(w http.ResponseWriter, r *http.Request) (int, error) {
		return 404, nil
	})), nil
}

// ---------------------------------------------------------------------------------------------
// runner
// ---------------------------------------------------------------------------------------------
var c19Which = []string{"firefox", "chrome", "edge", "safari", "tor", "heartbeat"}

func c19FiveCurves(i *c19Info) bool {
	want := []uint16{29, 23, 24, 25, 256}
	if i == nil || len(i.Curves) != 5 {
		return false
	}
	for k := range want {
		if i.Curves[k] != want[k] {
			return false
		}
	}
	return true
}

func c19Run(in0 interface{}) Result {
	in := in0.(*c19In)
	switch in.Kind {
	case "parse", "hello":
		var data []byte
		if in.Kind == "hello" {
			data = in.Hello.encode()
		} else {
			data = c19Hex(in.Data)
		}
		var got *c19Info
		p, msg := c19Try(func() { got = c19InfoOf(httpserver.VerifC19ParseRawClientHello(data)) })
		if p {
			got = nil
		}
		res := Result{Obs: map[string]interface{}{"panic": msg, "info": got}, Sig: "parse", Class: in.Kind}
		if p {
			res.Direct = "parseRawClientHello panicked: " + msg
		}
		if in.Kind == "hello" {
			res.Term = cApp("CHello", in.Hello.term(), cBytes(data), c19OptInfo(got))
			res.Sig = "hello"
			res.Nontrivial = true
			res.Class = fmt.Sprintf("hello:exts%d", c19Bucket(len(in.Hello.Exts)))
		} else {
			res.Term = cApp("CParse", cBytes(data), c19OptInfo(got))
			res.Nontrivial = len(data) >= 42
			depth := 0
			if got != nil {
				depth = c19Depth(got)
			}
			res.Class = fmt.Sprintf("parse:depth%d", depth)
		}
		return res
	case "looks":
		var b bool
		p, msg := c19Try(func() { b = httpserver.VerifC19LooksLike(c19Which[in.Which], in.Info.real()) })
		obs := 0
		if b {
			obs = 1
		}
		if p {
			obs = 2
		}
		sig := "looks:" + c19Which[in.Which]
		if in.Which == 0 && c19FiveCurves(in.Info) {
			sig = "heur:firefox-five-curves"
		}
		res := Result{Term: cApp("CLooks", cN(uint64(in.Which)), in.Info.term(), cN(uint64(obs))),
			Obs: map[string]interface{}{"result": obs, "panic": msg}, Sig: sig, Nontrivial: true,
			Class: fmt.Sprintf("looks:%s:%d", c19Which[in.Which], obs)}
		if p {
			res.Direct = "looksLike" + c19Which[in.Which] + " panicked: " + msg
		}
		return res
	case "mitm":
		ua := string(c19Hex(in.UA))
		checked, mitm := false, false
		next := http.HandlerFunc(func(w http.ResponseWriter, r *http.Request) {
			if v, ok := r.Context().Value(httpserver.MitmCtxKey).(bool); ok {
				checked, mitm = true, v
			}
		})
		req := httptest.NewRequest("GET", "https://example.test/", nil)
		req.RemoteAddr = "192.0.2.7:50000"
		req.Header["User-Agent"] = []string{ua}
		if in.BC {
			req.Header.Set("X-BlueCoat-Via", "1")
		}
		if in.FC {
			req.Header.Set("X-FCCKV2", "1")
		}
		h := httpserver.VerifC19TLSHandler(next, map[string]caskettls.ClientHelloInfo{req.RemoteAddr: in.Info.real()})
		p, msg := c19Try(func() { h.ServeHTTP(httptest.NewRecorder(), req) })
		tv := false
		c19Try(func() {
			v := httpserver.VerifC19GetVersion(ua, "Firefox")
			tv = v == 45.0 || v == 52.0
		})
		obs := 0
		if checked {
			obs = 1
			if mitm {
				obs = 2
			}
		}
		if p {
			obs = 3
		}
		sig := "mitm"
		if c19FiveCurves(in.Info) {
			sig = "heur:firefox-five-curves"
		}
		res := Result{Term: cApp("CMitm", in.Info.term(), cStr(ua), cBool(in.BC), cBool(in.FC), cBool(tv), cN(uint64(obs))),
			Obs: map[string]interface{}{"result": obs, "panic": msg, "ua": ua}, Sig: sig, Nontrivial: obs != 0,
			Class: fmt.Sprintf("mitm:%d", obs)}
		if p {
			res.Direct = "tlsHandler.ServeHTTP panicked: " + msg
		}
		return res
	case "version":
		ua, name := string(c19Hex(in.UA)), string(c19Hex(in.Name))
		var v float64
		p, msg := c19Try(func() { v = httpserver.VerifC19GetVersion(ua, name) })
		obs := strconv.FormatFloat(v, 'f', -1, 64)
		res := Result{Term: cApp("CVersion", cStr(ua), cStr(name), cBool(p), cStr(obs)),
			Obs: map[string]interface{}{"version": obs, "panic": msg, "ua": ua}, Sig: "version", Nontrivial: v != -1,
			Class: fmt.Sprintf("version:found=%v", v != -1)}
		if p {
			res.Direct = "getVersion panicked: " + msg
		}
		return res
	case "conn":
		wire := c19Hex(in.Data)
		var segs [][]byte
		rest := wire
		total := 0
		for _, n := range in.Sizes {
			if n > len(rest) {
				n = len(rest)
			}
			segs = append(segs, rest[:n])
			rest = rest[n:]
			total += n
		}
		fc := &c19Conn{segs: segs}
		hc, get := httpserver.VerifC19NewHelloConn(fc)
		var pass []byte
		readErr := ""
		p, msg := c19Try(func() {
			buf := make([]byte, 1<<17)
			for range segs {
				n, err := hc.Read(buf)
				pass = append(pass, buf[:n]...)
				if err != nil {
					readErr = err.Error()
				}
			}
			if _, err := hc.Read(buf); err != io.EOF { // the EOF read
				readErr = fmt.Sprint("final read: ", err)
			}
		})
		var rec *c19Info
		if info, ok := get(); ok {
			rec = c19InfoOf(info)
		}
		// the implementation's own parse of the record body, and the class of the segmentation
		direct := &c19Info{}
		bodyLen := -1
		if len(wire) >= 5 {
			bodyLen = int(wire[3])<<8 | int(wire[4])
			if len(wire) >= 5+bodyLen {
				c19Try(func() { direct = c19InfoOf(httpserver.VerifC19ParseRawClientHello(wire[5 : 5+bodyLen])) })
			}
		}
		sig := "conn:safe-segmentation"
		cum := 0
		for _, s := range segs {
			cum += len(s)
			if bodyLen >= 0 && cum >= 5 && cum < 5+bodyLen {
				sig = "conn:read-ends-inside-record"
			}
		}
		res := Result{Term: cApp("CConn", cBytes(wire), cNatList(in.Sizes), cBool(p), c19OptInfo(rec), cBytes(pass), direct.term()),
			Obs: map[string]interface{}{"recorded": rec, "direct": direct, "panic": msg, "passed": len(pass)},
			Sig: sig, Nontrivial: bodyLen >= 0 && total >= 5+bodyLen && len(segs) > 1,
			Class: fmt.Sprintf("%s:segs%d", sig, c19Bucket(len(segs)))}
		if p {
			res.Direct = "clientHelloConn.Read panicked: " + msg
		} else if readErr != "" {
			res.Direct = "clientHelloConn.Read returned an error the underlying connection did not produce: " + readErr
		}
		return res
	case "link":
		var vals []string
		for _, v := range in.Values {
			vals = append(vals, string(c19Hex(v)))
		}
		m := push.Middleware{Next: handlerFunc(func(w http.ResponseWriter, r *http.Request) (int, error) {
			w.Header()["Link"] = vals
			return 0, nil
		})}
		pw := &c19Pusher{ResponseRecorder: httptest.NewRecorder(), failAt: -1}
		fa := "None"
		if in.FailAt != nil {
			pw.failAt = *in.FailAt
			fa = "(Some " + cNat(*in.FailAt) + ")"
		}
		p, msg := c19Try(func() { m.ServeHTTP(pw, httptest.NewRequest("GET", "http://example.test/", nil)) })
		sig := "link"
		for _, v := range vals {
			for _, piece := range strings.Split(v, ",") {
				li, ri := strings.Index(piece, "<"), strings.Index(piece, ">")
				if li >= 0 && ri >= 0 && ri < li {
					sig = "link:gt-before-lt"
				}
			}
		}
		var vt, pt []string
		for _, v := range vals {
			vt = append(vt, cStr(v))
		}
		for _, t := range pw.pushed {
			pt = append(pt, cStr(t))
		}
		if p {
			pt = nil
		}
		res := Result{Term: cApp("CLink", cList(vt), fa, cBool(p), cList(pt)),
			Obs: map[string]interface{}{"pushed": pw.pushed, "panic": msg, "values": vals}, Sig: sig,
			Nontrivial: len(pw.pushed) > 0 || p, Class: fmt.Sprintf("%s:pushed%d", sig, c19Bucket(len(pw.pushed)))}
		if p {
			res.Direct = "push middleware panicked on Link header: " + msg
		}
		return res
	case "stream", "recs":
		var wire []byte
		if in.Kind == "recs" {
			for _, r := range in.Recs {
				wire = append(wire, c19EncRec(r.Type, c19Hex(r.Content), r.Pad)...)
			}
			if in.Tail == 0 {
				wire = append(wire, c19EndRequest...)
			}
		} else {
			wire = c19Hex(in.Data)
		}
		bufsz := in.Buf
		if bufsz <= 0 {
			bufsz = 4096
		}
		var got []byte
		ecode := 0
		var p bool
		var msg string
		c19GetResponder().run(func(map[string]string) []byte { return wire }, func(addr string) {
			p, msg = c19Try(func() {
				cl, err := fastcgi.Dial("tcp", addr)
				if err != nil {
					panic("harness: dial: " + err.Error())
				}
				defer cl.Close()
				rd, err := cl.Do(map[string]string{}, nil)
				if err != nil {
					ecode = 8
					return
				}
				buf := make([]byte, bufsz)
				for it := 0; it < len(wire)+16; it++ {
					n, err := rd.Read(buf)
					got = append(got, buf[:n]...)
					if err != nil {
						switch {
						case err == io.EOF:
							ecode = 1
						case err == io.ErrUnexpectedEOF:
							ecode = 2
						case strings.Contains(err.Error(), "invalid header version"):
							ecode = 3
						default:
							ecode = 9
						}
						return
					}
				}
			})
		})
		var term string
		if in.Kind == "recs" {
			var rt []string
			for _, r := range in.Recs {
				rt = append(rt, cApp("mkRec", cN(uint64(r.Type)), c19Bytes(c19Hex(r.Content)), cNat(r.Pad)))
			}
			term = cApp("CRecs", cList(rt), cN(uint64(in.Tail)), c19Bytes(wire), cBool(p), c19Bytes(got), cN(uint64(ecode)))
		} else {
			term = cApp("CStream", c19Bytes(wire), cBool(p), c19Bytes(got), cN(uint64(ecode)))
		}
		res := Result{Term: term, Obs: map[string]interface{}{"len": len(got), "err": ecode, "panic": msg}, Sig: "fcgi-" + in.Kind,
			Nontrivial: len(got) > 0 || ecode > 1, Class: fmt.Sprintf("fcgi-%s:err%d", in.Kind, ecode)}
		if p {
			res.Direct = "FastCGI response reader panicked: " + msg
		}
		return res
	case "pairs", "status", "gate":
		var p bool
		var msg string
		status := 0
		rr := httptest.NewRecorder()
		name := strings.Repeat("X", c19Max(in.KLen-5, 1))
		seenV := -1
		script := func(pm map[string]string) []byte {
			if v, ok := pm["HTTP_"+name]; ok {
				seenV = len(v)
			}
			if in.Kind == "status" {
				return c19Response("Status: "+string(c19Hex(in.Data))+"\r\nContent-Type: text/plain", "ok")
			}
			return c19Response("Content-Type: text/plain", "ok")
		}
		reqPath := "/x.php"
		if in.Kind == "gate" {
			reqPath = string(c19Hex(in.Data))
		}
		c19GetResponder().run(script, func(addr string) {
			h, err := c19FcgiHandler(addr)
			if err != nil {
				panic("harness: fastcgi setup: " + err.Error())
			}
			req := &http.Request{Method: "GET", URL: &url.URL{Path: reqPath}, Header: http.Header{}, Proto: "HTTP/1.1",
				Host: "example.test", RemoteAddr: "192.0.2.7:50000", Body: http.NoBody}
			if in.Kind == "pairs" {
				req.Header[name] = []string{strings.Repeat("v", in.VLen)}
			}
			p, msg = c19Try(func() { status, _ = h.ServeHTTP(rr, req) })
		})
		switch in.Kind {
		case "pairs":
			klen := 5 + len(name)
			sig := "fcgi-pairs"
			if klen > 65492 {
				sig = "fcgi-pairs:name-over-65492"
			}
			res := Result{Term: cApp("CPairs", cZ(int64(klen)), cZ(int64(in.VLen)), cBool(p), cZ(int64(seenV))),
				Obs: map[string]interface{}{"status": status, "value_len_received": seenV, "panic": msg}, Sig: sig,
				Nontrivial: 8+klen+in.VLen > 65400, Class: fmt.Sprintf("%s:panic=%v", sig, p)}
			if p {
				res.Direct = "fastcgi writePairs panicked: " + msg
			}
			return res
		case "status":
			tok := string(c19Hex(in.Data))
			obs := 0
			if status == 502 {
				obs = 1
			}
			if p {
				obs = 2
			}
			sig := "fcgi-status"
			if c, err := strconv.Atoi(strings.SplitN(tok, " ", 2)[0]); tok != "" && err == nil && (c < 100 || c > 999) {
				sig = "fcgi-status:outside-100-999"
			}
			code := int64(rr.Code)
			if obs != 0 {
				code = 0
			}
			res := Result{Term: cApp("CStatus", cStr(tok), cN(uint64(obs)), cZ(code)),
				Obs: map[string]interface{}{"returned": status, "written": rr.Code, "panic": msg, "token": tok}, Sig: sig,
				Nontrivial: true, Class: fmt.Sprintf("%s:%d", sig, obs)}
			if p {
				res.Direct = "fastcgi handler panicked on backend Status header: " + msg
			}
			return res
		default:
			fpath := strings.TrimRight(reqPath, " .")
			_, serr := os.Stat(c19GetRoot() + fpath)
			sig := "fcgi-path"
			if fpath == "" {
				sig = "fcgi-path:empty"
			}
			res := Result{Term: cApp("CGate", cStr(reqPath), cBool(serr == nil), cBool(p)),
				Obs: map[string]interface{}{"status": status, "panic": msg, "path": reqPath}, Sig: sig,
				Nontrivial: true, Class: fmt.Sprintf("%s:panic=%v", sig, p)}
			if p {
				res.Direct = "fastcgi handler panicked on request path: " + msg
			}
			return res
		}
	case "tls":
		return c19RunTLS(in)
	case "replace":
		return c19RunReplace(in)
	case "basicauth", "http", "tlsraw":
		return c19RunTotal(in)
	case "hellotrail", "hellocut", "helloconn", "pool", "fseg", "label", "xff", "ws":
		return c19RunB(in)
	case "seq":
		return c19RunSeq(in)
	case "hostonly":
		return c19RunHostOnly(in)
	}
	panic("bad kind " + in.Kind)
}

func c19Max(a, b int) int {
	if a > b {
		return a
	}
	return b
}
func c19Bucket(n int) int {
	switch {
	case n <= 3:
		return n
	case n <= 8:
		return 8
	}
	return 99
}

// how far the parser got: 0 nothing, 1 version, 2 ciphers, 3 compression, 4 extensions
func c19Depth(i *c19Info) int {
	d := 0
	if i.Version != 0 {
		d = 1
	}
	if len(i.Ciphers) > 0 {
		d = 2
	}
	if len(i.Comp) > 0 {
		d = 3
	}
	if len(i.Exts) > 0 {
		d = 4
	}
	if len(i.Curves) > 0 || len(i.Points) > 0 {
		d = 5
	}
	return d
}

// ---- full path: real listener + TLS handshake with a segmented ClientHello + request ----
type c19SegConn struct {
	net.Conn
	sizes []int
	first []byte
	done  bool
}

func (c *c19SegConn) Write(b []byte) (int, error) {
	if c.done {
		return c.Conn.Write(b)
	}
	c.done = true
	c.first = append([]byte(nil), b...)
	rest := b
	for _, n := range c.sizes {
		if n > len(rest) {
			n = len(rest)
		}
		if n == 0 {
			continue
		}
		if _, err := c.Conn.Write(rest[:n]); err != nil {
			return 0, err
		}
		rest = rest[n:]
		if len(rest) > 0 {
			time.Sleep(4 * time.Millisecond)
		}
	}
	if len(rest) > 0 {
		if _, err := c.Conn.Write(rest); err != nil {
			return 0, err
		}
	}
	return len(b), nil
}

// deterministic randomness for the TLS client so that a case replays with the same hello
type c19DetRand struct{ r *Rand }

func (d c19DetRand) Read(p []byte) (int, error) {
	for i := range p {
		p[i] = byte(d.r.U64())
	}
	return len(p), nil
}

var (
	c19TLSServer *httpserver.Server
	c19TLSAddr   string
)

func c19GetTLSServer() (*httpserver.Server, string) {
	if c19TLSServer != nil {
		return c19TLSServer, c19TLSAddr
	}
	s := c19NewTLSServer()
	ln, err := s.Listen()
	if err != nil {
		panic("harness: Listen: " + err.Error())
	}
	go s.Serve(ln)
	c19TLSServer, c19TLSAddr = s, ln.Addr().String()
	return c19TLSServer, c19TLSAddr
}

func c19NewTLSServer() *httpserver.Server {
	casket.Quiet = true
	log.SetOutput(c19Log)
	c := casket.NewTestController("http", "tls self_signed\n")
	c.Key = "127.0.0.1"
	cfg := httpserver.GetConfig(c)
	cfg.Addr = httpserver.Address{Original: "https://127.0.0.1", Scheme: "https", Host: "127.0.0.1", Port: "0"}
	cfg.TLS.Hostname = "127.0.0.1"
	action, err := casket.DirectiveAction("http", "tls")
	if err == nil {
		err = action(c)
	}
	if err != nil {
		panic("harness: tls setup: " + err.Error())
	}
	cfg.AddMiddleware(func(next httpserver.Handler) httpserver.Handler {
		return handlerFunc(func(w http.ResponseWriter, r *http.Request) (int, error) {
			m := "unknown"
			if v, ok := r.Context().Value(httpserver.MitmCtxKey).(bool); ok {
				m = fmt.Sprint(v)
			}
			w.Header().Set("X-Mitm", m)
			w.WriteHeader(200)
			return 0, nil
		})
	})
	s, err := httpserver.NewServer("127.0.0.1:0", []*httpserver.SiteConfig{cfg})
	if err != nil {
		panic("harness: NewServer: " + err.Error())
	}
	return s
}

func c19RunTLS(in *c19In) Result {
	s, addr := c19GetTLSServer()
	c19Log.take()
	raw, err := net.DialTimeout("tcp", addr, time.Second)
	if err != nil {
		panic("harness: dial tls server: " + err.Error())
	}
	defer raw.Close()
	raw.SetDeadline(time.Now().Add(3 * time.Second))
	seed := uint64(len(in.Sizes))
	for _, n := range in.Sizes {
		seed = seed*1000003 + uint64(n)
	}
	sc := &c19SegConn{Conn: raw, sizes: in.Sizes}
	tc := tls.Client(sc, &tls.Config{InsecureSkipVerify: true, ServerName: "127.0.0.1", Rand: c19DetRand{NewRand(seed)},
		CurvePreferences: []tls.CurveID{tls.X25519, tls.CurveP256}, NextProtos: []string{"http/1.1"}, MaxVersion: tls.VersionTLS12})
	ok := false
	mitm := ""
	var rec *c19Info
	if err := tc.Handshake(); err == nil {
		fmt.Fprintf(tc, "GET / HTTP/1.1\r\nHost: 127.0.0.1\r\nUser-Agent: %s\r\n\r\n", string(c19Hex(in.UA)))
		if resp, err := http.ReadResponse(bufio.NewReader(tc), nil); err == nil {
			io.Copy(io.Discard, resp.Body)
			ok = resp.StatusCode == 200
			mitm = resp.Header.Get("X-Mitm")
		}
	}
	if info, have := httpserver.VerifC19HelloInfoOf(s, raw.LocalAddr().String()); have {
		rec = c19InfoOf(info)
	}
	tc.Close()
	wire := sc.first
	direct := &c19Info{}
	bodyLen := -1
	if len(wire) >= 5 {
		bodyLen = int(wire[3])<<8 | int(wire[4])
		if len(wire) >= 5+bodyLen {
			c19Try(func() { direct = c19InfoOf(httpserver.VerifC19ParseRawClientHello(wire[5 : 5+bodyLen])) })
		}
	}
	sig := "tls:safe-segmentation"
	cum := 0
	for _, n := range in.Sizes {
		cum += n
		if bodyLen >= 0 && cum >= 5 && cum < 5+bodyLen {
			sig = "conn:read-ends-inside-record"
		}
	}
	logs := c19Log.take()
	res := Result{Term: cApp("CTls", cBytes(wire), cNatList(in.Sizes), cBool(ok), c19OptInfo(rec), direct.term()),
		Obs: map[string]interface{}{"ok": ok, "mitm": mitm, "recorded": rec, "direct": direct, "hello_record_len": len(wire)},
		Sig: sig, Nontrivial: ok, Class: sig, Key: sig + fmt.Sprint(in.Sizes)}
	if strings.Contains(logs, "panic") {
		res.Direct = "TLS connection handling panicked: " + c19Trunc(logs, 300)
	}
	return res
}

// ---- replacer ----
var c19Menu = []string{"{>X-A}", "{>x-a}", "{>X-Missing}", "{~ck}", "{~nock}", "{?q}", "{?noq}", "{label1}", "{label2}",
	"{label3}", "{label9}", "{label0}", "{labelx}", "{label}", "{host}", "{method}", "{proto}", "{scheme}", "{hostonly}",
	"{rewrite_path}", "{file}", "{dir}", "{nope}", "{}", "{>}", "{~}", "{?}", "{$}", "{$C19_UNSET_VAR}", "{$C19_UNSET_VAR=dflt}",
	"{<X-Resp}", "{port}", "{remote}", "{rewrite_uri}", "{mitm}", "{user}"}

func c19ReplaceRequest() *http.Request {
	req := httptest.NewRequest("GET", "http://a.b.example.test:8080/dir/file.txt?q=qv&z=1", nil)
	req.RemoteAddr = "192.0.2.7:50000"
	req.Header["X-A"] = []string{"va1", "va2"}
	req.Header.Set("Cookie", "ck=cookieval; other=1")
	return req
}

func c19RunReplace(in *c19In) Result {
	tmpl := string(c19Hex(in.Data))
	empty := string(c19Hex(in.Empty))
	var out string
	p, msg := c19Try(func() { out = httpserver.NewReplacer(c19ReplaceRequest(), nil, empty).Replace(tmpl) })
	// the substitution values, observed from the implementation one placeholder at a time
	var env []string
	for _, ph := range c19Menu {
		var v string
		pp, _ := c19Try(func() { v = httpserver.NewReplacer(c19ReplaceRequest(), nil, empty).Replace(ph) })
		if pp {
			continue
		}
		cls, name := 0, ph
		if len(ph) >= 3 {
			switch ph[1] {
			case '>':
				cls, name = 1, ph[2:len(ph)-1]
			case '~':
				cls, name = 3, ph[2:len(ph)-1]
			case '?':
				cls, name = 4, ph[2:len(ph)-1]
			case '$':
				cls, name = 5, ph[2:len(ph)-1]
			default:
				if strings.HasPrefix(ph, "{label") {
					cls, name = 6, ph[6:len(ph)-1]
				}
			}
		}
		env = append(env, cPair(cPair(cN(uint64(cls)), cStr(name)), cStr(v)))
	}
	res := Result{Term: cApp("CReplace", cStr(tmpl), cList(env), cStr(empty), cBool(p), cStr(out)),
		Obs: map[string]interface{}{"out": out, "panic": msg, "template": tmpl}, Sig: "replace",
		Nontrivial: strings.ContainsAny(tmpl, "{}"), Class: fmt.Sprintf("replace:braces=%v", strings.ContainsAny(tmpl, "{}"))}
	if p {
		res.Direct = "replacer.Replace panicked: " + msg
	}
	return res
}

// ---- exercised-only paths: basicauth on arbitrary Authorization headers, raw requests to a
// running in-process server whose config uses placeholders/matchers on headers, cookies, paths ----
type c19LogBuf struct {
	mu sync.Mutex
	b  bytes.Buffer
}

func (l *c19LogBuf) Write(p []byte) (int, error) {
	l.mu.Lock()
	defer l.mu.Unlock()
	return l.b.Write(p)
}
func (l *c19LogBuf) take() string {
	l.mu.Lock()
	defer l.mu.Unlock()
	s := l.b.String()
	l.b.Reset()
	return s
}

var (
	c19Inst    *casket.Instance
	c19SrvAddr string
	c19Log     = &c19LogBuf{}
)

func c19GetServer() string {
	if c19Inst != nil {
		return c19SrvAddr
	}
	root := c19GetRoot()
	casket.Quiet = true
	log.SetOutput(c19Log)
	resp := c19GetResponder()
	cf := fmt.Sprintf(`http://127.0.0.1:0 {
	root %s
	log / %s "{remote} {>User-Agent} {~sid} {?q} {path} {label1} {label2} {uri} {hostonly} {server_port} {>Cookie}"
	rewrite /rw {
		r ^/rw/(.*)$
		to /{1}?h={>X-H}&{query}
	}
	redir /old /new{uri}?c={~sid}
	header / X-Echo "{>X-In} {~sid} {label1} {dir} {file}"
	basicauth /secret user pass
	fastcgi /cgi %s
	push
	ext .txt .html
	mime .txt text/plain
}
http://fcgi.test:0 {
	root %s
	fastcgi / %s
}
`, root, filepath.Join(root, "..", "c19access.log"), resp.ln.Addr().String(), root, resp.ln.Addr().String())
	inst, err := casket.Start(casket.CasketfileInput{Contents: []byte(cf), Filepath: "Casketfile", ServerTypeName: "http"})
	if err != nil {
		panic("harness: casket.Start: " + err.Error())
	}
	c19Inst = inst
	a := inst.Servers()[0].Addr().String()
	_, port, _ := net.SplitHostPort(a)
	c19SrvAddr = "127.0.0.1:" + port
	return c19SrvAddr
}

func c19RunTotal(in *c19In) Result {
	switch in.Kind {
	case "basicauth":
		cfg, err := setupDirective("basicauth", "basicauth /secret user pass\n")
		if err != nil {
			panic("harness: basicauth setup: " + err.Error())
		}
		h := compile(cfg.Middleware(), handlerFunc(func(w http.ResponseWriter, r *http.Request) (int, error) { return 200, nil }))
		req := httptest.NewRequest("GET", "http://example.test/secret/x", nil)
		req.URL.Path = string(c19Hex(in.Sub))
		req.Header["Authorization"] = []string{string(c19Hex(in.Data))}
		status := 0
		p, msg := c19Try(func() { status, _ = h.ServeHTTP(httptest.NewRecorder(), req) })
		res := Result{Term: cApp("CTotal", "1%N", cBool(p)), Obs: map[string]interface{}{"status": status, "panic": msg},
			Sig: "basicauth", Nontrivial: status == 401 || status == 200, Class: fmt.Sprintf("basicauth:%d", status)}
		if p {
			res.Direct = "basicauth panicked: " + msg
		}
		return res
	case "tlsraw": // a raw TLS record written to the running TLS server: tlsHelloListener.Accept ->
		// clientHelloConn.Read -> parseRawClientHello inside net/http's connection goroutine
		_, addr := c19GetTLSServer()
		c19Log.take()
		raw := c19Hex(in.Data)
		conn, err := net.DialTimeout("tcp", addr, time.Second)
		if err != nil {
			panic("harness: dial tls server: " + err.Error())
		}
		conn.SetDeadline(time.Now().Add(2 * time.Second))
		conn.Write(raw)
		if tc, ok := conn.(*net.TCPConn); ok {
			tc.CloseWrite()
		}
		reply, _ := io.ReadAll(conn) // an alert or nothing; the server closes
		conn.Close()
		logs := ""
		for try := 0; try < 40; try++ { // the handshake error (or the panic) is logged by the connection goroutine
			logs += c19Log.take()
			if logs != "" {
				break
			}
			time.Sleep(5 * time.Millisecond)
		}
		p := strings.Contains(logs, "panic")
		res := Result{Term: cApp("CTotal", "3%N", cBool(p)), Obs: map[string]interface{}{"reply_len": len(reply), "log": c19Trunc(logs, 400)},
			Sig: "tlsraw", Nontrivial: len(raw) >= 5+42, Class: fmt.Sprintf("tlsraw:reply=%v", len(reply) > 0)}
		if p {
			res.Direct = "TLS connection handling panicked on the peer's ClientHello: " + c19Trunc(logs, 300)
		}
		return res
	default: // http: raw request bytes to the running server
		addr := c19GetServer()
		c19Log.take()
		raw := c19Hex(in.Data)
		var reply []byte
		c19GetResponder().mu.Lock()
		c19GetResponder().script = func(map[string]string) []byte { return c19Response("Content-Type: text/plain", "ok") }
		c19GetResponder().mu.Unlock()
		conn, err := net.DialTimeout("tcp", addr, time.Second)
		if err != nil {
			panic("harness: dial server: " + err.Error())
		}
		conn.SetDeadline(time.Now().Add(2 * time.Second))
		conn.Write(raw)
		if tc, ok := conn.(*net.TCPConn); ok {
			tc.CloseWrite()
		}
		reply, _ = io.ReadAll(conn)
		conn.Close()
		logs := c19Log.take()
		p := strings.Contains(logs, "[PANIC") || strings.Contains(logs, "panic serving")
		status := ""
		if len(reply) >= 12 {
			status = string(reply[9:12])
		}
		sig := "http"
		if rq, err := http.ReadRequest(bufio.NewReader(bytes.NewReader(raw))); err == nil {
			if strings.EqualFold(rq.Host, "fcgi.test") && strings.TrimRight(rq.URL.Path, " .") == "" {
				sig = "fcgi-path:empty"
			}
		}
		res := Result{Term: cApp("CTotal", "2%N", cBool(p)), Obs: map[string]interface{}{"status": status, "log": c19Trunc(logs, 400)},
			Sig: sig, Nontrivial: status != "" && status != "400", Class: "http:" + status}
		if p {
			res.Direct = "request handling panicked (recovered by the server): " + c19Trunc(logs, 300)
		}
		return res
	}
}

func c19Trunc(s string, n int) string {
	if len(s) > n {
		return s[:n]
	}
	return s
}

// ---------------------------------------------------------------------------------------------
// generators
// ---------------------------------------------------------------------------------------------
// captured browser hellos (handshake message without record header) from mitm_test.go
var c19Seeds = []struct{ ua, hex string }{
	{"Mozilla/5.0 (Macintosh; Intel Mac OS X 10_12_3) AppleWebKit/537.36 (KHTML, like Gecko) Chrome/56.0.2924.87 Safari/537.36",
		"010000c003031dae75222dae1433a5a283ddcde8ddabaefbf16d84f250eee6fdff48cdfff8a00000201a1ac02bc02fc02cc030cca9cca8cc14cc13c013c014009c009d002f0035000a010000777a7a0000ff010001000000000e000c0000096c6f63616c686f73740017000000230000000d00140012040308040401050308050501080606010201000500050100000000001200000010000e000c02683208687474702f312e3175500000000b00020100000a000a0008aaaa001d001700182a2a000100"},
	{"Mozilla/5.0 (iPhone; CPU iPhone OS 10_0_2 like Mac OS X) AppleWebKit/602.1.50 (KHTML, like Gecko) CriOS/56.0.2924.79 Mobile/14A456 Safari/602.1",
		"010000de030358b062c509b21410a6496b5a82bfec74436cdecebe8ea1da29799939bbd3c17200002c00ffc02cc02bc024c023c00ac009c008c030c02fc028c027c014c013c012009d009c003d003c0035002f000a0100008900000014001200000f66696e6572706978656c732e636f6d000a00080006001700180019000b00020100000d00120010040102010501060104030203050306033374000000100030002e0268320568322d31360568322d31350568322d313408737064792f332e3106737064792f3308687474702f312e310005000501000000000012000000170000"},
	{"Mozilla/5.0 (Macintosh; Intel Mac OS X 10.12; rv:51.0) Gecko/20100101 Firefox/51.0",
		"010000bd030375f9022fc3a6562467f3540d68013b2d0b961979de6129e944efe0b35531323500001ec02bc02fcca9cca8c02cc030c00ac009c013c01400330039002f0035000a010000760000000e000c0000096c6f63616c686f737400170000ff01000100000a000a0008001d001700180019000b00020100002300000010000e000c02683208687474702f312e31000500050100000000ff030000000d0020001e040305030603020308040805080604010501060102010402050206020202"},
	{"Mozilla/5.0 (Macintosh; Intel Mac OS X 10.12; rv:53.0) Gecko/20100101 Firefox/53.0",
		"010000b1030365d899820b999245d571c2f7d6b850f63ad931d3c68ceb9cf5a508421a871dc500001ec02bc02fcca9cca8c02cc030c00ac009c013c01400330039002f0035000a0100006a0000000e000c0000096c6f63616c686f737400170000ff01000100000a000a0008001d001700180019000b00020100002300000010000e000c02683208687474702f312e31000500050100000000000d0018001604030503060308040805080604010501060102030201"},
	{"Mozilla/5.0 (Macintosh; Intel Mac OS X 10.12; rv:55.0) Gecko/20100101 Firefox/55.0",
		"010001fc030331e380b7d12018e1202ef3327607203df5c5732b4fa5ab5abaf0b60034c2fb662070c836b9b89123e37f4f1074d152df438fa8ee8a0f89b036fd952f4fcc0b994f001c130113031302c02bc02fcca9cca8c02cc030c013c014002f0035000a0100019700000014001200000f63616464797365727665722e636f6d00170000ff01000100000a000e000c001d00170018001901000101000b0002010000230078c97e7716a041e2ea824571bef26a3dff2bf50a883cd15d904ab2d17deb514f6e0a079ee7c212c000178387ffafc2e530b6df6662f570aae134330f13c458a0eaad5a96a9696f572110918740b15db1143d19aaaa706942030b433a7e6150f62b443c0564e5b8f7ee9577bf3bf7faec8c67425b648ab54d880010000e000c02683208687474702f312e310005000501000000000028006b0069001d0020aee6e596155ee6f79f943e81ceabe0979d27fbbb8b9189ccb2ebc75226351f32001700410421875a44e510decac11ef1d7cfddd4dfe105d5cd3a2d42fba03ebde23e51e8ce65bda1b48be82d4848d1db2bfce68e94092e925a9ce0dbf5df35479558108489002b0009087f12030303020301000d0018001604030503060308040805080604010501060102030201002d000201010015002500000000000000000000000000000000000000000000000000000000000000000000000000"},
	{"Mozilla/5.0 (Windows NT 10.0; Win64; x64) AppleWebKit/537.36 (KHTML, like Gecko) Chrome/51.0.2704.79 Safari/537.36 Edge/14.14393",
		"010000bd030358a3c9bf05f734842e189fb6ce653b67b846e990bc1fc5fb8c397874d06020f1000038c02cc02bc030c02f009f009ec024c023c028c027c00ac009c014c01300390033009d009c003d003c0035002f000a006a00400038003200130100005c000500050100000000000a00080006001d00170018000b00020100000d00140012040105010201040305030203020206010603002300000010000e000c02683208687474702f312e310017000055000006000100020002ff01000100"},
	{"Mozilla/5.0 (Macintosh; Intel Mac OS X 10_12_3) AppleWebKit/602.4.8 (KHTML, like Gecko) Version/10.0.3 Safari/602.4.8",
		"010000d2030358a295b513c8140c6ff880f4a8a73cc830ed2dab2c4f2068eb365228d828732e00002600ffc02cc02bc024c023c00ac009c030c02fc028c027c014c013009d009c003d003c0035002f010000830000000e000c0000096c6f63616c686f7374000a00080006001700180019000b00020100000d00120010040102010501060104030203050306033374000000100030002e0268320568322d31360568322d31350568322d313408737064792f332e3106737064792f3308687474702f312e310005000501000000000012000000170000"},
	{"Mozilla/5.0 (iPhone; CPU iPhone OS 11_0 like Mac OS X) AppleWebKit/604.1.38 (KHTML, like Gecko) Version/11.0 Mobile/15A372 Safari/604.1",
		"010000dc030327fafb16708fcbe489fda332260d32b1a22bea6672a72b5e61d7b9963df1b10d000028c02cc02bc024c023c00ac009cca9c030c02fc028c027c014c013cca8009d009c003d003c0035002f0100008bff010001000000000f000d00000a6d69746d2e776174636800170000000d00140012040308040401050308050501080606010201000500050100000000337400000012000000100030002e0268320568322d31360568322d31350568322d313408737064792f332e3106737064792f3308687474702f312e31000b00020100000a00080006001d00170018"},
	{"Mozilla/5.0 (Windows NT 6.1; rv:45.0) Gecko/20100101 Firefox/45.0",
		"010000a40303137f05d4151f2d9095aee4254416d9dce73d6a1d857e8097ea20d021c04a7a81000016c02bc02fc00ac009c013c01400330039002f0035000a0100006500000014001200000f66696e6572706978656c732e636f6dff01000100000a00080006001700180019000b00020100337400000010000b000908687474702f312e31000500050100000000000d001600140401050106010201040305030603020304020202"},
	{"Mozilla/5.0 (Windows NT 6.1; rv:52.0) Gecko/20100101 Firefox/52.0",
		"010000b4030322e1f3aff4c37caba303c2ce53ba1689b3e70117a46f413d44f70a74cb6a496100001ec02bc02fcca9cca8c02cc030c00ac009c013c01400330039002f0035000a0100006d00000014001200000f66696e6572706978656c732e636f6d00170000ff01000100000a000a0008001d001700180019000b000201000010000b000908687474702f312e31000500050100000000ff030000000d0018001604030503060308040805080604010501060102030201"},
	{"curl/7.51.0",
		"010000a6030358a28c73a71bdfc1f09dee13fecdc58805dcce42ac44254df548f14645f7dc2c00004400ffc02cc02bc024c023c00ac009c008c030c02fc028c027c014c013c012009f009e006b0067003900330016009d009c003d003c0035002f000a00af00ae008d008c008b01000039000a00080006001700180019000b00020100000d00120010040102010501060104030203050306030005000501000000000012000000170000"},
	{"Mozilla/5.0 (Windows NT 10.0; Win64; x64) AppleWebKit/537.36 (KHTML, like Gecko) Chrome/56.0.2924.87 Safari/537.36",
		"010000c903033481e7af24e647ba5a79ec97e9264c1a1f990cf842f50effe22be52130d5af82000018c02bc02fc02cc030c013c014009c009d002f0035000a00ff0100008800000014001200000f66696e6572706978656c732e636f6d000b000403000102000a001c001a00170019001c001b0018001a0016000e000d000b000c0009000a00230000000d0020001e060106020603050105020503040104020403030103020303020102020203000500050100000000000f0001010010000e000c02683208687474702f312e31"},
}

func c19RandBytes(r *Rand, n int) []byte {
	b := make([]byte, n)
	for i := range b {
		b[i] = byte(r.U64())
	}
	return b
}

var c19ExtPool = []uint16{0, 5, 10, 11, 13, 15, 16, 18, 21, 23, 35, 43, 45, 51, 13172, 65281, 65283, 0x0a0a}
var c19CipherPool = []uint16{0x1301, 0x1303, 0x1302, 0xc02b, 0xc02f, 0xcca9, 0xcca8, 0xc02c, 0xc030, 0xc00a, 0xc009, 0xc013, 0xc014,
	0x33, 0x39, 0x2f, 0x35, 0xa, 0xff, 0x4, 0x5, 0xc024, 0xc023, 0xc028, 0xc027, 0x3d, 0x3c, 0x9d, 0x9c, 0x0a0a, 0x1a1a, 0xfafa, 0xc008}

// ---- systematic "short nested field at the very end" stream -------------------------------
// c19SplitHello cuts a well-formed hello message into the bytes before the extension block's
// length field and the raw extensions (type, body).
type c19RawExt struct {
	typ  int
	body []byte
}

func c19SplitHello(b []byte) (prefix []byte, exts []c19RawExt, ok bool) {
	if len(b) < 42 {
		return nil, nil, false
	}
	p := 39 + int(b[38])
	if p+2 > len(b) {
		return nil, nil, false
	}
	p += 2 + (int(b[p])<<8 | int(b[p+1]))
	if p+1 > len(b) {
		return nil, nil, false
	}
	p += 1 + int(b[p])
	if p+2 > len(b) {
		return nil, nil, false
	}
	prefix = append([]byte(nil), b[:p]...)
	d := b[p+2:]
	for len(d) >= 4 {
		l := int(d[2])<<8 | int(d[3])
		if 4+l > len(d) {
			break
		}
		exts = append(exts, c19RawExt{int(d[0])<<8 | int(d[1]), append([]byte(nil), d[4:4+l]...)})
		d = d[4+l:]
	}
	return prefix, exts, true
}

// c19JoinHello rebuilds the message: the last extension is written with the DECLARED length
// [declared] whatever its body length is; the extension-block length and the handshake
// length are fixed up so that the parser reaches the last extension.
func c19JoinHello(prefix []byte, exts []c19RawExt, last c19RawExt, declared int) []byte {
	var blk []byte
	for _, e := range exts {
		blk = append(blk, c19be16(e.typ)...)
		blk = append(blk, c19be16(len(e.body))...)
		blk = append(blk, e.body...)
	}
	blk = append(blk, c19be16(last.typ)...)
	blk = append(blk, c19be16(declared)...)
	blk = append(blk, last.body...)
	out := append([]byte(nil), prefix...)
	out = append(out, c19be16(len(blk))...)
	out = append(out, blk...)
	n := len(out) - 4
	out[1], out[2], out[3] = byte(n>>16), byte(n>>8), byte(n)
	return out
}

// bodies (declared length, bytes present) for an extension placed last: declared lengths
// 0..3 and a few more, inner list lengths consistent / zero / odd / larger than the outer one,
// fewer or more bytes present than declared
type c19LastBody struct {
	declared int
	body     string // hex
}

func c19LastBodies(typ int) []c19LastBody {
	var out []c19LastBody
	add := func(d int, hexs ...string) {
		for _, h := range hexs {
			out = append(out, c19LastBody{d, h})
		}
	}
	switch typ {
	case 10: // supported_groups: uint16 list length, uint16 ids
		add(0, "", "00", "000000")
		add(1, "00", "ff", "", "0000")
		add(2, "0000", "0001", "0002", "ffff", "00", "000200")
		add(3, "000100", "000000", "000200", "0001")
		add(4, "0002001d", "0004001d", "0001001d", "0000001d", "0003001d", "0002001d00")
		add(5, "0003001d00", "0002001d00", "0004001d00")
		add(6, "0004001d0017", "0006001d0017", "0002001d0017", "0004001d00")
		add(7, "0004001d0017")
	case 11: // ec_point_formats: uint8 list length, bytes
		add(0, "", "00", "000000")
		add(1, "00", "01", "ff", "", "0000")
		add(2, "0100", "0000", "0200", "ff00", "01")
		add(3, "020001", "030001", "010001", "000001", "0200")
		add(4, "02000100")
	default:
		add(0, "", "00", "000000")
		add(1, "00", "ff", "")
		add(2, "0000", "0002", "00")
		add(3, "000100", "0000")
	}
	return out
}

// messages that END inside or right after the session id / cipher suites / compression
// methods / extension-block length, with those fields at their minimal values
func c19TailVariants(fixed38 []byte) [][]byte {
	var out [][]byte
	tails := []string{"", "00", "0000", "0001", "0002", "000200", "0002c02b", "0003c02bc0", "0004c02b", "0002c02b00", "0002c02b01",
		"0002c02b0100", "0002c02b010000", "0002c02b01000000", "0002c02b0100000000", "0002c02b01000001", "0002c02b0000", "0002c02b000000",
		"0002c02b00000000", "000000", "00000000", "0000000000", "000001", "00000100", "0000ff", "ffff", "0002c02bff", "0002c02b0200",
		"0002c02b00000400", "0002c02b0000040000", "0002c02b000004000a", "0002c02b000004000a00", "0002c02b000004000a0000", "0002c02b000004000b0000",
		"0002c02b000005000a0000", "0002c02b000003000a00", "0002c02b000005000a000100", "0002c02b000005000b000100", "0002c02b000006000a00020000"}
	for _, s := range []int{0, 1, 2, 3, 4, 32, 33} {
		base := append([]byte(nil), fixed38...)
		base = append(base, byte(s))
		base = append(base, bytes.Repeat([]byte{0xab}, s)...)
		for _, tl := range tails {
			out = append(out, append(append([]byte(nil), base...), c19Hex(tl)...))
		}
		// the session id itself cut short
		if s > 0 {
			out = append(out, base[:len(base)-1])
		}
	}
	return out
}

// a random well-formed hello
func c19GenHello(r *Rand) *c19Hello {
	h := &c19Hello{Version: []uint16{0x0301, 0x0303, 0x0304, 0, 0xffff}[r.Intn(5)], Random: c19H(c19RandBytes(r, 32))}
	switch r.Intn(4) {
	case 0:
		h.Sid = ""
	case 1:
		h.Sid = c19H(c19RandBytes(r, 32))
	default:
		h.Sid = c19H(c19RandBytes(r, r.Intn(33)))
	}
	nc := r.Intn(20)
	if r.Chance(10) {
		nc = 0
	}
	for i := 0; i < nc; i++ {
		if r.Chance(85) {
			h.Ciphers = append(h.Ciphers, c19CipherPool[r.Intn(len(c19CipherPool))])
		} else {
			h.Ciphers = append(h.Ciphers, uint16(r.U64()))
		}
	}
	h.Comp = c19H(c19RandBytes(r, []int{0, 1, 1, 1, 2, 5}[r.Intn(6)]))
	ne := r.Intn(10)
	for i := 0; i < ne; i++ {
		switch {
		case r.Chance(20):
			n := []int{0, 1, 3, 4, 5, 6, 8}[r.Intn(7)]
			cur := []uint16{29, 23, 24, 25, 256, 257, 30, 0x2a2a}
			var cs []uint16
			for k := 0; k < n; k++ {
				if r.Chance(70) && k < len(cur) {
					cs = append(cs, cur[k])
				} else {
					cs = append(cs, uint16(r.U64()))
				}
			}
			h.Exts = append(h.Exts, c19Ext{K: "curves", Curves: cs})
		case r.Chance(15):
			h.Exts = append(h.Exts, c19Ext{K: "points", Body: c19H(c19RandBytes(r, r.Intn(4)))})
		default:
			t := c19ExtPool[r.Intn(len(c19ExtPool))]
			if r.Chance(15) {
				t = uint16(r.U64())
			}
			if t == 10 || t == 11 {
				t = 13
			}
			h.Exts = append(h.Exts, c19Ext{K: "other", Type: t, Body: c19H(c19RandBytes(r, []int{0, 0, 1, 2, 5, 20, 120}[r.Intn(7)]))})
		}
	}
	return h
}

// c19LastExtHellos enumerates structured hellos whose LAST extension has type [typ] and a declared
// length of [L] bytes, for the places where a parser reads an extension body before (or without)
// testing its length: the body is exactly L bytes (zeros, a consistent 16-bit or 8-bit inner list
// length, the same off by one in both directions, 0xff), optionally followed by 1 or 3 stray bytes,
// or one byte short of what is declared; the extensions length and the handshake length are
// always consistent with the bytes present, so the outer checks pass.  [pre] = extensions in front.
func c19LastExtHellos(typ uint16, L int, pre []c19Ext, all bool) [][]byte {
	var out [][]byte
	seen := map[string]bool{}
	fill := func(first []byte, pat byte) []byte {
		b := make([]byte, L)
		for i := range b {
			b[i] = pat
			if i%2 == 1 && pat == 0 {
				b[i] = 0x1d // 00 1d 00 1d ..: a list of curve ids / plausible list bytes
			}
		}
		copy(b, first)
		return b
	}
	u16 := func(n int) []byte { return []byte{byte(n >> 8), byte(n)} }
	bodies := [][]byte{
		fill(nil, 0),
		fill(u16(L-2), 0), fill(u16(L-1), 0), fill(u16(L-3), 0), fill(u16(L), 0), // 16-bit inner length: right, +1, -1, +2
		fill([]byte{byte(L - 1)}, 0), fill([]byte{byte(L)}, 0), fill([]byte{byte(L - 2)}, 0), // 8-bit inner length: right, +1, -1
		fill(nil, 0xff),
	}
	base := &c19Hello{Version: 0x0303, Random: c19H(bytes.Repeat([]byte{0x52}, 32)), Sid: "", Ciphers: []uint16{0xc02b, 0xc02f}, Comp: "00", Exts: pre}
	enc := base.encode() // handshake header(4) .. extensions length(2) .. extensions
	extOff := len(enc)
	for _, e := range pre {
		switch e.K {
		case "curves":
			extOff -= 4 + 2 + 2*len(e.Curves)
		case "points":
			extOff -= 4 + 1 + len(c19Hex(e.Body))
		default:
			extOff -= 4 + len(c19Hex(e.Body))
		}
	}
	extOff -= 2
	emit := func(tail []byte) {
		b := append([]byte(nil), enc...)
		b = append(b, tail...)
		n := len(b) - extOff - 2
		b[extOff], b[extOff+1] = byte(n>>8), byte(n)
		m := len(b) - 4
		b[1], b[2], b[3] = byte(m>>16), byte(m>>8), byte(m)
		if !seen[string(b)] {
			seen[string(b)] = true
			out = append(out, b)
		}
	}
	for _, body := range bodies {
		hdr := append(u16(int(typ)), u16(L)...)
		ext := append(append([]byte(nil), hdr...), body...)
		emit(ext)                                    // the extension ends the hello
		emit(append(append([]byte(nil), ext...), 0)) // one stray byte after it
		if all {
			emit(append(append([]byte(nil), ext...), 0, 10, 0)) // three stray bytes (not a whole extension header)
		}
		if L >= 1 {
			emit(ext[:len(ext)-1]) // one byte short of the declared length
		}
	}
	return out
}

// structure-aware mutation of a valid hello message
func c19Mutate(r *Rand, b []byte) []byte {
	b = append([]byte(nil), b...)
	n := 1 + r.Intn(3)
	for k := 0; k < n && len(b) > 0; k++ {
		switch r.Intn(9) {
		case 0: // truncate anywhere
			b = b[:r.Intn(len(b)+1)]
		case 1: // truncate near the fixed-part boundaries
			cut := []int{0, 1, 5, 6, 38, 39, 40, 41, 42, 43, 44, 71, 72, 73, 74}[r.Intn(15)]
			if cut < len(b) {
				b = b[:cut]
			}
		case 2: // off-by-small on a byte (length fields are everywhere)
			i := r.Intn(len(b))
			b[i] += byte(r.Range(-2, 2))
		case 3: // random byte
			b[r.Intn(len(b))] = byte(r.U64())
		case 4: // set a length-looking position to an extreme
			i := r.Intn(len(b))
			b[i] = []byte{0, 1, 0xff, 0x7f, 0x80}[r.Intn(5)]
		case 5: // drop the last 1..4 bytes
			d := r.Range(1, 4)
			if d < len(b) {
				b = b[:len(b)-d]
			}
		case 6: // append garbage
			b = append(b, c19RandBytes(r, r.Range(1, 6))...)
		case 7: // session id length byte
			if len(b) > 38 {
				b[38] = []byte{0, 31, 32, 33, 255, byte(len(b) - 39), byte(len(b) - 40), byte(len(b) - 38)}[r.Intn(8)]
			}
		case 8: // delete a byte in the middle
			i := r.Intn(len(b))
			b = append(b[:i], b[i+1:]...)
		}
	}
	return b
}

func c19InfoFromSeed(i int) *c19Info {
	b, _ := hex.DecodeString(c19Seeds[i].hex)
	out := &c19Info{}
	// a parser that panics on a captured hello must not take the generator down: the parse cases report it
	c19Try(func() { out = c19InfoOf(httpserver.VerifC19ParseRawClientHello(b)) })
	return out
}

func c19MutInfo(r *Rand, i *c19Info) *c19Info {
	o := &c19Info{Version: i.Version, Comp: i.Comp, Points: i.Points}
	o.Ciphers = append(o.Ciphers, i.Ciphers...)
	o.Exts = append(o.Exts, i.Exts...)
	o.Curves = append(o.Curves, i.Curves...)
	mut := func(xs []uint16, pool []uint16) []uint16 {
		if len(xs) == 0 || r.Chance(15) {
			return append(xs, pool[r.Intn(len(pool))])
		}
		switch r.Intn(5) {
		case 0:
			k := r.Intn(len(xs))
			return append(xs[:k:k], xs[k+1:]...)
		case 1:
			a, b := r.Intn(len(xs)), r.Intn(len(xs))
			xs[a], xs[b] = xs[b], xs[a]
			return xs
		case 2:
			k := r.Intn(len(xs) + 1)
			ys := append([]uint16{}, xs[:k]...)
			ys = append(ys, pool[r.Intn(len(pool))])
			return append(ys, xs[k:]...)
		case 3:
			return xs[:r.Intn(len(xs)+1)]
		default:
			xs[r.Intn(len(xs))] = pool[r.Intn(len(pool))]
			return xs
		}
	}
	for k := r.Intn(3); k >= 0; k-- {
		switch r.Intn(4) {
		case 0:
			o.Ciphers = mut(o.Ciphers, c19CipherPool)
		case 1:
			o.Exts = mut(o.Exts, c19ExtPool)
		case 2:
			o.Curves = mut(o.Curves, []uint16{29, 23, 24, 25, 256, 257, 30})
		case 3:
			// curve lists of every length 0..7 with the Firefox/Tor prefixes
			full := []uint16{29, 23, 24, 25, 256, 257, 258}
			o.Curves = append([]uint16{}, full[:r.Intn(8)]...)
			if r.Chance(30) && len(o.Curves) > 0 {
				o.Curves = o.Curves[1:]
			}
		}
	}
	return o
}

var c19UAs = []string{
	"Mozilla/5.0 (Windows NT 6.1; rv:45.0) Gecko/20100101 Firefox/45.0",
	"Mozilla/5.0 (Windows NT 6.1; rv:52.0) Gecko/20100101 Firefox/52.0",
	"Mozilla/5.0 (Windows NT 10.0; WOW64; rv:51.0) Gecko/20100101 Firefox/51.0",
	"Mozilla/5.0 (X11; Linux) Firefox/52.0",
	"Firefox/", "Firefox", "Windows Firefox/45", "Windows Firefox/52.", "Windows Firefox/5-2", "Windows Firefox/45.0.0 x", "Windows Firefox/4.5e1",
	"Mozilla/5.0 (iPhone) CriOS/56.0.2924.79 Mobile/14A456 Safari/602.1",
	"Mozilla/5.0 (Windows NT 10.0; WOW64; Trident/7.0; rv:11.0) like Gecko",
	"MSIE", "Edge", "Chrome", "Safari", "", "curl/7.51.0", "Chrome Firefox Safari", "\xff\xfeFirefox/\x0052", "Firefox/ 52",
}

func c19GenUA(r *Rand) string {
	if r.Chance(45) {
		return c19Seeds[r.Intn(len(c19Seeds))].ua
	}
	if r.Chance(60) {
		return c19UAs[r.Intn(len(c19UAs))]
	}
	parts := []string{"Firefox", "/", "Windows", " ", "45", "52", ".", "0", "-", "Chrome", "Edge", "Safari", "CriOS", "MSIE", "Trident", "x", "/52.0", "/45.0 "}
	var sb strings.Builder
	for k := r.Intn(7); k >= 0; k-- {
		sb.WriteString(parts[r.Intn(len(parts))])
	}
	return sb.String()
}

func c19GenVersionUA(r *Rand) (string, string) {
	name := []string{"Firefox", "Chrome", "Version", "", "x"}[r.Intn(5)]
	if r.Chance(35) {
		return c19GenUA(r), name
	}
	vers := []string{"45.0", "52.0", "52", "56.0.2924.87", "1-2-3", "-", ".", "..", "1.", ".5", "1.2.3.4.5", "007", "12345678901234567890", "1e3", "0x10", "inf", "",
		"5-2.0-1", "4.5.0", "1_0", "+3", "3.14159"}
	pre := []string{"", "Mozilla/5.0 ", name, " " + name + " ", name + "/x " + " "}[r.Intn(5)]
	post := []string{"", " ", " like Gecko", " " + name + "/9.9", "  "}[r.Intn(5)]
	return pre + name + "/" + vers[r.Intn(len(vers))] + post, name
}

func c19LinkPieces(r *Rand) string {
	atoms := []string{"<", ">", ",", ";", "=", " ", "\t", "/a.css", "/b.js", "as", "style", "rel", "preload", "nopush", "//cdn/x", "http://h/x",
		"https://h/y", "\xc2\xa0", "\xe2\x80\xa8", "\xc2", "\x85", "\xe3\x80\x80", "\"", "x", "</r>", "</r2>; as=script", "</n>; nopush", "; nopush=1", "<>", "><"}
	var sb strings.Builder
	for k := r.Intn(9); k >= 0; k-- {
		sb.WriteString(atoms[r.Intn(len(atoms))])
	}
	return sb.String()
}

func c19GenLink(r *Rand) []string {
	n := 1 + r.Intn(3)
	var out []string
	for i := 0; i < n; i++ {
		switch {
		case r.Chance(45): // well-formed with noise
			var parts []string
			for k := r.Intn(4); k >= 0; k-- {
				uri := []string{"/a.css", "/b.js", "//cdn/x", "http://h/x", " /sp ", "", "/q?x=1", "https://h/"}[r.Intn(8)]
				p := "<" + uri + ">"
				for j := r.Intn(3); j > 0; j-- {
					p += []string{"; rel=preload", ";as=style", "; nopush", ";nopush=", "; =x", ";", "; a=b=c", "; \xc2\xa0nopush\xc2\xa0"}[r.Intn(8)]
				}
				parts = append(parts, p)
			}
			out = append(out, strings.Join(parts, []string{",", ", ", " ,"}[r.Intn(3)]))
		default:
			out = append(out, c19LinkPieces(r))
		}
	}
	return out
}

func c19GenStream(r *Rand) []byte {
	var b []byte
	n := r.Intn(5)
	for i := 0; i < n; i++ {
		typ := []int{6, 6, 6, 7, 0, 11, 255, 1}[r.Intn(8)]
		cl := []int{0, 1, 7, 8, 9, 100, 255, 256}[r.Intn(8)]
		b = append(b, c19EncRec(typ, c19RandBytes(r, cl), []int{0, 0, 1, 7, 255}[r.Intn(5)])...)
	}
	switch r.Intn(6) {
	case 0:
		b = append(b, c19EndRequest...)
	case 1: // truncated header
		b = append(b, c19EncRec(6, []byte("abc"), 5)[:r.Range(1, 7)]...)
	case 2: // truncated body/padding
		rec := c19EncRec(6, c19RandBytes(r, r.Range(1, 40)), r.Intn(8))
		b = append(b, rec[:r.Range(8, len(rec)-1)]...)
	case 3: // bad version
		rec := c19EncRec(6, []byte("zz"), 0)
		rec[0] = byte(r.Intn(4)) * 2
		b = append(b, rec...)
	case 4: // random garbage
		b = append(b, c19RandBytes(r, r.Intn(30))...)
	}
	if len(b) > 0 && r.Chance(25) {
		b[r.Intn(len(b))] ^= byte(1 << uint(r.Intn(8)))
	}
	return b
}

func c19GenTemplate(r *Rand) string {
	lit := []string{"a", "b", " ", "\\", "{", "}", ">", "~", "?", "$", "l", "e", "1", "=", "\\{", "\\}", "\\\\", "label", "{label", "}{", "{{", "}}", "\\{a\\}"}
	var sb strings.Builder
	for k := r.Intn(8); k >= 0; k-- {
		if r.Chance(45) {
			sb.WriteString(c19Menu[r.Intn(len(c19Menu))])
		} else {
			sb.WriteString(lit[r.Intn(len(lit))])
		}
	}
	return sb.String()
}

func c19GenRaw(r *Rand) []byte {
	paths := []string{"/", "/a.txt", "/a", "/d/", "/secret/x", "/rw/a.txt", "/rw/%7Bpath%7D", "/old", "/old/x?y={uri}", "/cgi/x.php", "/cgi", "//", "/%00", "/..%2f..", "/a.txt/",
		"/{path}", "/%7B%3EX-H%7D", "*", "http://127.0.0.1", "http://127.0.0.1?x", "/d", "/. .", "/a.txt. ."}
	methods := []string{"GET", "HEAD", "POST", "OPTIONS", "PUT", "get", "PRI"}
	hdrs := []string{"User-Agent: {>User-Agent}{", "User-Agent: }{", "Cookie: sid={~sid}; a", "Cookie: sid", "Cookie: =;;=", "Cookie: sid=\"x", "X-H: {1}{query}", "X-In: \\{\\}",
		"X-In: {label1}", "Authorization: Basic", "Authorization: Basic ", "Authorization: Basic !!!", "Authorization: Basic dXNlcjpwYXNz", "Authorization: Basic dXNlcg==", "Authorization: basic dXNlcjo=",
		"Accept-Encoding: gzip", "Content-Length: 0", "X-Http2-Push: 1", "Referer: {}", "X-In: \xff\xfe", "Cookie: sid=" + strings.Repeat("x", 300), "X-Forwarded-For: {remote}"}
	hosts := []string{"127.0.0.1", "127.0.0.1", "127.0.0.1", "127.0.0.1", "127.0.0.1", "127.0.0.1", "127.0.0.1:80", "fcgi.test", "fcgi.test", "FCGI.test", "a.b.c", "", ".", "..", "a..b", "[::1]", "[::1", "x:y:z", "a.b:99999", "{label1}.x", strings.Repeat("a.", 60) + "b"}
	var sb strings.Builder
	p := paths[r.Intn(len(paths))]
	if r.Chance(30) {
		p += []string{"?q={q}", "?q=%zz", "?q=1&q=2", "?", "?{", "#f"}[r.Intn(6)]
	}
	fmt.Fprintf(&sb, "%s %s HTTP/1.%d\r\n", methods[r.Intn(len(methods))], p, r.Intn(2))
	fmt.Fprintf(&sb, "Host: %s\r\n", hosts[r.Intn(len(hosts))])
	for k := r.Intn(4); k > 0; k-- {
		sb.WriteString(hdrs[r.Intn(len(hdrs))] + "\r\n")
	}
	sb.WriteString("Connection: close\r\n\r\n")
	return []byte(sb.String())
}

func c19Gen(r *Rand, tier string) []interface{} {
	var out []interface{}
	mult := 1
	if tier == "thorough" {
		mult = 10
	}
	add := func(in *c19In) { out = append(out, in) }
	hx := func(s string) string { return c19H([]byte(s)) }

	// --- ClientHello parser: seeds, every truncation of two seeds, mutations, random bytes, structured hellos
	for _, s := range c19Seeds {
		add(&c19In{Kind: "parse", Data: s.hex})
	}
	for _, si := range []int{2, 8} {
		b := c19Hex(c19Seeds[si].hex)
		step := 1
		if tier != "thorough" {
			step = 3
		}
		for n := 0; n <= len(b); n += step {
			add(&c19In{Kind: "parse", Data: c19H(b[:n])})
		}
	}
	// --- systematic: every seed x every extension type the parser looks into (10, 11) and a few it
	// skips, rebuilt so that this extension is the LAST one, with declared lengths 0..7, inner
	// list lengths zero/odd/too large, fewer/more bytes present than declared; outer lengths fixed up
	{
		types := []int{10, 11, 0, 13, 16, 43, 5, 35, 0xff01}
		for si := range c19Seeds {
			prefix, exts, ok := c19SplitHello(c19Hex(c19Seeds[si].hex))
			if !ok {
				continue
			}
			for ti, typ := range types {
				if ti >= 2 && tier != "thorough" && si%4 != 0 {
					continue // extension types without a case in the switch: fewer seeds in the quick tier
				}
				var others []c19RawExt
				for _, e := range exts {
					if e.typ != typ {
						others = append(others, e)
					}
				}
				for bi, lb := range c19LastBodies(typ) {
					keep := others
					if bi%5 == 4 {
						keep = exts // keep an earlier extension of the same type as well
					}
					if bi%7 == 6 {
						keep = nil // the only extension
					}
					msg := c19JoinHello(prefix, keep, c19RawExt{typ, c19Hex(lb.body)}, lb.declared)
					add(&c19In{Kind: "parse", Data: c19H(msg)})
					if ti < 2 && lb.declared <= 1 && si%3 == 0 { // the same hello through clientHelloConn
						wire := append([]byte{22, 3, 1, byte(len(msg) >> 8), byte(len(msg))}, msg...)
						add(&c19In{Kind: "conn", Data: c19H(wire), Sizes: []int{len(wire)}})
					}
				}
			}
		}
		for _, si := range []int{0, 2, 5} {
			for _, b := range c19TailVariants(c19Hex(c19Seeds[si].hex)[:38]) {
				add(&c19In{Kind: "parse", Data: c19H(b)})
			}
			if tier != "thorough" {
				break
			}
		}
	}
	for i := 0; i < 400*mult; i++ {
		var base []byte
		if r.Chance(50) {
			base = c19Hex(c19Seeds[r.Intn(len(c19Seeds))].hex)
		} else {
			base = c19GenHello(r).encode()
		}
		add(&c19In{Kind: "parse", Data: c19H(c19Mutate(r, base))})
	}
	for i := 0; i < 550*mult; i++ {
		h := c19GenHello(r)
		if r.Chance(40) { // make sure curves/points extensions are present and last
			h.Exts = append(h.Exts, c19Ext{K: []string{"curves", "points", "other"}[r.Intn(3)], Type: 13, Curves: []uint16{29, 23, 24}, Body: "0001"})
		}
		add(&c19In{Kind: "parse", Data: c19H(c19FieldMutate(r, h))})
	}
	for i := 0; i < 60*mult; i++ {
		add(&c19In{Kind: "parse", Data: c19H(c19RandBytes(r, []int{0, 1, 41, 42, 43, 44, 45, 50, 75, 76, 120}[r.Intn(11)]))})
	}
	// every extension type in LAST position with a declared length of 0..3 (thorough: 0..5) and a body
	// of exactly that many bytes (see c19LastExtHellos): through the parser, through clientHelloConn
	// (one read and two reads), and — a subset — as a raw record to the running TLS server
	{
		types := []uint16{0, 5, 10, 11, 13, 16, 35, 43, 51, 65281, 0x0a0a, 0x1234}
		maxL := 3
		if tier == "thorough" {
			types = append(append([]uint16(nil), c19ExtPool...), 0x1234, 0xffff, 1, 9, 12)
			maxL = 5
		}
		pres := [][]c19Ext{nil, {{K: "other", Type: 0, Body: c19H([]byte{0, 7, 0, 0, 4, 'a', '.', 'b', 'c'})}, {K: "curves", Curves: []uint16{29, 23, 24}}, {K: "points", Body: "00"}}}
		record := func(h []byte) []byte { return append([]byte{22, 3, 1, byte(len(h) >> 8), byte(len(h))}, h...) }
		for _, t := range types {
			for L := 0; L <= maxL; L++ {
				for pi, pre := range pres {
					if pi > 0 && tier != "thorough" && t != 10 && t != 11 && t != 0x1234 {
						continue // quick tier: extensions in front only for the types the parser looks into, and an unknown one
					}
					for vi, h := range c19LastExtHellos(t, L, pre, tier == "thorough") {
						add(&c19In{Kind: "parse", Data: c19H(h)})
						if vi < 4 || tier == "thorough" {
							w := record(h)
							add(&c19In{Kind: "conn", Data: c19H(w), Sizes: []int{len(w)}})
							if vi == 0 || (tier == "thorough" && vi%4 == 0) {
								add(&c19In{Kind: "conn", Data: c19H(w), Sizes: []int{7, len(w)}})
							}
						}
						if pi == 0 && (vi < 2 || (tier == "thorough" && vi < 8)) {
							add(&c19In{Kind: "tlsraw", Data: c19H(record(h))})
						}
					}
				}
			}
		}
	}
	for i := 0; i < 300*mult; i++ {
		if i%2 == 0 {
			add(&c19In{Kind: "hello", Hello: c19GenHello(r)})
		} else { // server_name, ALPN, duplicate supported_groups / ec_point_formats, large unknown bodies
			add(&c19In{Kind: "hello", Hello: c19GenHelloRich(r)})
		}
	}

	// --- heuristics and the handler's decision
	for si := range c19Seeds {
		inf := c19InfoFromSeed(si)
		for w := range c19Which {
			add(&c19In{Kind: "looks", Which: w, Info: inf})
		}
		add(&c19In{Kind: "mitm", Info: inf, UA: hx(c19Seeds[si].ua)})
	}
	// boundary shapes of the lists the heuristics index into
	{
		ffE := []uint16{23, 65281, 10, 11, 35, 16, 5, 13}
		torE := []uint16{10, 11, 16, 5, 13}
		safE := []uint16{10, 11, 13, 13172, 16, 5, 18, 23}
		iosE := []uint16{65281, 0, 23, 13, 5, 13172, 18, 16, 11, 10}
		ffC := []uint16{0xc02b, 0xc02f, 0xc00a, 0x2f, 0x35, 0xa}
		safC := []uint16{49196, 49195, 49188, 49187, 49162, 49161, 49200, 49199, 49192, 49191, 49172, 49171, 157, 156, 61, 60, 53, 47}
		curveSets := [][]uint16{{}, {29}, {23}, {23, 24}, {29, 23}, {23, 24, 25}, {29, 23, 24}, {29, 23, 24, 25}, {30, 23, 24, 25}, {23, 24, 25, 26},
			{29, 23, 24, 25, 257}, {29, 23, 24, 25, 256, 257}, {29, 23, 24, 25, 256, 258}, {29, 23, 24, 25, 256, 257, 258}, {29, 23, 24, 26, 256}, {23, 24, 25, 29, 30}, {29, 23, 25}}
		for _, cs := range curveSets {
			add(&c19In{Kind: "looks", Which: 0, Info: &c19Info{Version: 771, Ciphers: ffC, Exts: ffE, Comp: "00", Curves: cs, Points: "00"}})
			add(&c19In{Kind: "looks", Which: 4, Info: &c19Info{Version: 771, Ciphers: ffC, Exts: torE, Comp: "00", Curves: cs, Points: "00"}})
			add(&c19In{Kind: "looks", Which: 1, Info: &c19Info{Version: 771, Ciphers: append([]uint16{0x0a0a}, ffC...), Exts: ffE, Comp: "00", Curves: cs, Points: "00"}})
		}
		edgeSets := [][]uint16{{}, {5}, {5, 10}, {5, 10, 11}, {10, 5}, {0, 5, 10}, {0, 5, 10, 11}, {5, 5, 10, 11}, {5, 10, 11, 5}, {5, 10, 11, 5, 10}, {5, 10, 11, 5, 10, 11},
			{0, 23, 5, 10, 11, 35, 5}, {5, 11, 10}, {10, 11, 5}, {10, 11, 13, 5, 10}}
		for _, es := range edgeSets {
			add(&c19In{Kind: "looks", Which: 2, Info: &c19Info{Version: 771, Ciphers: []uint16{0xc02c, 0xc02b}, Exts: es, Comp: "00", Curves: []uint16{29, 23, 24}, Points: "00"}})
			add(&c19In{Kind: "mitm", UA: hx("Mozilla/5.0 (Windows NT 10.0) Edge/14.14393"), Info: &c19Info{Version: 771, Ciphers: []uint16{0xc02c}, Exts: es, Comp: "00"}})
		}
		for _, es := range [][]uint16{safE, iosE, {10, 11, 13}, {}} {
			for _, cs := range [][]uint16{{}, {255}, safC, append([]uint16{255}, safC...), {0x0a0a}, {255, 0x0a0a}} {
				add(&c19In{Kind: "looks", Which: 3, Info: &c19Info{Version: 771, Ciphers: cs, Exts: es, Comp: "00", Curves: []uint16{23, 24, 25}, Points: "00"}})
				add(&c19In{Kind: "mitm", UA: hx("Mozilla/5.0 (Macintosh) Version/10.0.3 Safari/602.4.8"), Info: &c19Info{Version: 771, Ciphers: cs, Exts: es, Comp: "00"}})
			}
		}
		for _, cs := range curveSets { // through the handler: Firefox and Tor user agents
			add(&c19In{Kind: "mitm", UA: hx("Mozilla/5.0 (X11; Linux) Gecko/20100101 Firefox/55.0"), Info: &c19Info{Version: 771, Ciphers: ffC, Exts: ffE, Comp: "00", Curves: cs}})
			add(&c19In{Kind: "mitm", UA: hx("Mozilla/5.0 (Windows NT 6.1; rv:52.0) Gecko/20100101 Firefox/52.0"), Info: &c19Info{Version: 771, Ciphers: ffC, Exts: torE, Comp: "00", Curves: cs}})
		}
	}
	for i := 0; i < 500*mult; i++ {
		inf := c19MutInfo(r, c19InfoFromSeed(r.Intn(len(c19Seeds))))
		add(&c19In{Kind: "looks", Which: r.Intn(len(c19Which)), Info: inf})
	}
	for i := 0; i < 300*mult; i++ {
		inf := c19InfoFromSeed(r.Intn(len(c19Seeds)))
		if r.Chance(60) {
			inf = c19MutInfo(r, inf)
		}
		if r.Chance(8) {
			inf = &c19Info{}
		}
		add(&c19In{Kind: "mitm", Info: inf, UA: hx(c19GenUA(r)), BC: r.Chance(4), FC: r.Chance(4)})
	}
	for i := 0; i < 250*mult; i++ {
		ua, name := c19GenVersionUA(r)
		add(&c19In{Kind: "version", UA: hx(ua), Name: hx(name)})
	}

	// --- clientHelloConn: whole record in one read, all 2-segmentations around the boundaries, random cuts
	for i := 0; i < 110*mult; i++ {
		var body []byte
		switch {
		case r.Chance(60):
			body = c19Hex(c19Seeds[r.Intn(len(c19Seeds))].hex)
		case r.Chance(50):
			body = c19GenHello(r).encode()
		default:
			body = c19Mutate(r, c19Hex(c19Seeds[r.Intn(len(c19Seeds))].hex))
		}
		wire := append([]byte{22, 3, 1, byte(len(body) >> 8), byte(len(body))}, body...)
		if r.Chance(10) { // declared length differs from what follows
			wire[4] += byte(r.Range(-3, 3))
		}
		if r.Chance(20) {
			wire = append(wire, c19RandBytes(r, r.Range(1, 40))...)
		}
		total := len(wire)
		var sizes []int
		switch r.Intn(5) {
		case 0:
			sizes = []int{total}
		case 1: // two reads, cut near a boundary
			c := []int{1, 2, 3, 4, 5, 6, 7, 5 + len(body) - 1, 5 + len(body), 5 + len(body) + 1, total - 1, 46, 47, 48}[r.Intn(14)]
			if c < 1 || c >= total {
				c = total / 2
			}
			sizes = []int{c, total - c}
		case 2: // header bytes dribbling in, then the rest at once
			k := r.Range(1, 4)
			for j := 0; j < k; j++ {
				sizes = append(sizes, 1)
			}
			sizes = append(sizes, total)
		case 3: // three random reads
			a := r.Range(1, total-1)
			b := r.Range(1, c19Max(total-a, 1))
			sizes = []int{a, b, total}
		default: // many small reads, possibly not delivering everything
			left := total
			for left > 0 && len(sizes) < 12 {
				n := r.Range(0, c19Max(left/2, 1)+3)
				sizes = append(sizes, n)
				left -= n
			}
			if r.Chance(70) {
				sizes = append(sizes, total)
			}
		}
		add(&c19In{Kind: "conn", Data: c19H(wire), Sizes: sizes})
	}

	// --- full path: real TLS handshakes with the ClientHello written in pieces
	tlsSizes := [][]int{{}, {1}, {4}, {2, 2}, {1, 1, 1, 1}, {3, 1}, {100000}, {5}, {6}, {10}, {4, 1}, {4, 100}, {120}, {1, 1, 1, 1, 1}}
	for _, sz := range tlsSizes {
		add(&c19In{Kind: "tls", Sizes: sz, UA: hx(c19Seeds[r.Intn(len(c19Seeds))].ua)})
	}
	for i := 0; i < 3*mult; i++ {
		add(&c19In{Kind: "tls", Sizes: []int{r.Range(1, 4), r.Range(1, 300)}, UA: hx("Mozilla/5.0 Firefox/55.0")})
	}

	// --- Link headers from upstream
	for i := 0; i < 500*mult; i++ {
		in := &c19In{Kind: "link"}
		for _, v := range c19GenLink(r) {
			in.Values = append(in.Values, hx(v))
		}
		if r.Chance(12) {
			f := r.Intn(3)
			in.FailAt = &f
		}
		add(in)
	}

	// --- FastCGI records from the backend
	for i := 0; i < 150*mult; i++ {
		add(&c19In{Kind: "stream", Data: c19H(c19GenStream(r)), Buf: []int{1, 3, 8, 64, 4096}[r.Intn(5)]})
	}
	for i := 0; i < 120*mult; i++ {
		in := &c19In{Kind: "recs", Tail: r.Intn(2), Buf: []int{1, 7, 64, 4096}[r.Intn(4)]}
		for k := r.Intn(5); k > 0; k-- {
			in.Recs = append(in.Recs, c19Rec{Type: []int{6, 6, 6, 7, 1, 11}[r.Intn(6)], Content: c19H(c19RandBytes(r, []int{0, 1, 8, 9, 60, 255, 256, 300}[r.Intn(8)])), Pad: []int{0, 0, 3, 7, 255}[r.Intn(5)]})
		}
		add(in)
	}
	// the largest records a backend can send: content+padding around 2^16 (uint16 arithmetic on
	// the two header fields would wrap here)
	for _, cp := range [][2]int{{65535, 255}, {65535, 1}, {65281, 255}, {65280, 255}, {65535, 0}} {
		add(&c19In{Kind: "recs", Tail: cp[1] % 2, Buf: 4096, Recs: []c19Rec{{Type: 6, Content: c19H(bytes.Repeat([]byte{0x61}, cp[0])), Pad: cp[1]},
			{Type: 6, Content: "7a", Pad: 7}}})
	}
	// --- header name/value sizes around writePairs' truncation
	pairs := [][2]int{{20, 10}, {20, 65472}, {20, 65473}, {20, 65471}, {20, 70000}, {65000, 0}, {65000, 492}, {65000, 493}, {65000, 491},
		{65491, 1}, {65492, 0}, {65492, 1}, {65492, 5}, {65490, 2}, {65490, 3}, {65491, 0}, {40000, 40000}, {127, 128}, {128, 127},
		{65493, 0}, {65493, 3}, {65500, 1}, {65501, 2}, {66000, 100}, {131100, 7}} // the last six: a name that leaves no room for the value
	for _, kv := range pairs {
		add(&c19In{Kind: "pairs", KLen: kv[0], VLen: kv[1]})
	}
	for i := 0; i < 8*mult; i++ {
		k := r.Range(6, 65492)
		add(&c19In{Kind: "pairs", KLen: k, VLen: c19Max(65500-8-k+r.Range(-3, 3), 0)})
	}
	// --- Status header sent by the backend
	toks := []string{"200", "404", "100", "999", "99", "1000", "0", "-1", "-200", "1000 OK", "99999999999", "+200", "abc", "", "20x", "2 00", "9223372036854775808", "200.0", "0x10", "1_0", "٣٠٠", "101", "304", "500", "+", "-"}
	for _, t := range toks {
		add(&c19In{Kind: "status", Data: hx(t)})
	}
	// --- request paths reaching the fastcgi handler
	for _, p := range []string{"/", "/a.txt", "/x.php", "/d/", "/d", "/nonexistent", "/a.txt. .", "/d/.", "a.txt", "/ .", "/d/i.php", "/x.php/info", "x"} {
		add(&c19In{Kind: "gate", Data: hx(p)})
	}
	// --- placeholders
	for _, ph := range c19Menu {
		add(&c19In{Kind: "replace", Data: hx(ph), Empty: hx("-")})
	}
	for i := 0; i < 500*mult; i++ {
		add(&c19In{Kind: "replace", Data: hx(c19GenTemplate(r)), Empty: hx([]string{"-", "", "EMPTY"}[r.Intn(3)])})
	}
	// --- exercised only
	auths := []string{"", "Basic", "Basic ", "Basic !!!", "Basic dXNlcjpwYXNz", "Basic dXNlcg==", "basic dXNlcjo=", "Basic Og==", "Bearer x", "Basic dXNlcjpwYXNz extra", "Basic \xff\xff", "Basic " + strings.Repeat("QUFB", 200)}
	apaths := []string{"/secret/x", "/secret", "/secretx", "/SECRET/", "/", "", "secret", "/secret/../x", "//secret"}
	for i := 0; i < 40*mult; i++ {
		add(&c19In{Kind: "basicauth", Data: hx(auths[r.Intn(len(auths))]), Sub: hx(apaths[r.Intn(len(apaths))])})
	}
	for i := 0; i < 150*mult; i++ {
		add(&c19In{Kind: "http", Data: c19H(c19GenRaw(r))})
	}
	c19GenB(r, tier, add)
	c19GenC(r, tier, add)
	_ = sort.Strings
	return out
}

func init() {
	register(&Property{
		ID: "C19", Imports: "V.Lib V.C19_Model", Judge: "judge", Shard: 250,
		Rule: "cases = real parseRawClientHello / looksLike* / tlsHandler / getVersion / clientHelloConn (hook), push middleware on Link headers, FastCGI client+handler against a scripted loopback responder and over a scripted short-read connection, replacer ({labelN} on hostile Hosts), proxy middleware in front of a loopback backend (X-Forwarded-For), websocket text tunnel in front of /bin/cat, basicauth, raw requests to an in-process server, raw ClientHello records to the running TLS server and connections that leave bytes in its pooled tee buffers before a real handshake; structured hellos (server_name, ALPN, groups, points, unknown) whole, with trailing bytes, cut at every field boundary, and end to end as record + following bytes in random read segmentations; hellos whose LAST extension (every type) has declared length 0..3 with a body of exactly that size and inner list lengths right/off by one are enumerated through the parser, clientHelloConn and the TLS server; non-trivial = hello of >=42 bytes, heuristic evaluated, UA that is checked, multi-read delivery of a complete record, Link value that pushes or panics, record stream with data or a framing error, pair near the truncation limit, template with braces, request answered other than 400, label found, forwarded header seen, message with bytes held back; distinct = distinct Coq case term",
		Gen:  c19Gen,
		Decode: func(raw json.RawMessage) (interface{}, error) {
			in := &c19In{}
			return in, json.Unmarshal(raw, in)
		},
		Run: c19Run,
	})
}
