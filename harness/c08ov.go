package main

// C08 — attempts that OVERLAP in time.  A gated plugin directive (executed after all the others) holds attempt B
// inside its setup - B is already registered in casket's instance list - while other attempts run to their end
// (loads, reloads of running instances, refused reloads, stops); then B is released and fails (at the gated
// directive, at Listen, in a startup callback) or succeeds.  Observed: casket.Instances() (the configuration of
// every entry, which entries serve) before B, while B is held, after the inner attempts, after B returned; and, after
// casket.Stop(), which sites still answer and which listening sockets are left.

import (
	"bytes"
	"context"
	"encoding/json"
	"fmt"
	"io"
	"log"
	"net"
	"os"
	"os/exec"
	"path/filepath"
	"runtime/debug"
	"strings"
	"time"

	"github.com/tmpim/casket"
	"github.com/tmpim/casket/caskethttp/httpserver"
)

type c08OvOp struct {
	K  string `json:"k"`            // load | reload | reload-bad | stop
	ID int    `json:"id,omitempty"` // load / reload: the marker of the new configuration
	T  int    `json:"t,omitempty"`  // reload / reload-bad / stop: the marker of the running instance it is applied to
	On int    `json:"on,omitempty"` // load / reload: the configuration has this many `on` lines (event hooks)
}

type c08Ov struct {
	Pre   []c08OvOp `json:"pre"`             // before B begins
	BMode string    `json:"bmode"`           // load | reload
	BT    int       `json:"bt,omitempty"`    // reload: the instance B restarts
	BID   int       `json:"bid"`             // marker of B's configuration
	BFail string    `json:"bfail,omitempty"` // "" B succeeds | directive | listen | startup
	Inner []c08OvOp `json:"inner"`           // while B is held inside its setup
}

type c08OvOut struct {
	Fatal      string  `json:"fatal,omitempty"`
	Pre        []int   `json:"pre"`   // result of every op: 0 ok 1 error 2 panic 3 hang 4 no such instance
	Inner      []int   `json:"inner"`
	Entered    bool    `json:"entered"` // B reached the gated directive
	BRes       int     `json:"bres"`
	BErr       string  `json:"berr,omitempty"`
	O1         c08Obs  `json:"o1"` // before B
	O2         c08Obs  `json:"o2"` // B held
	O3         c08Obs  `json:"o3"` // after the inner attempts, B still held
	O4         c08Obs  `json:"o4"` // after B returned
	Still      []int   `json:"still"`       // markers of the sites that still answer after casket.Stop()
	SocksAfter int     `json:"socks_after"` // listening sockets left after casket.Stop()
	NInstAfter int     `json:"ninst_after"`
	Errs       []string `json:"errs,omitempty"`
}

func c08OvChildMain(args []string) int {
	debug.SetGCPercent(-1)
	var in c08In
	data, err := io.ReadAll(os.Stdin)
	if err == nil {
		err = json.Unmarshal(data, &in)
	}
	emit := func(o *c08OvOut) int {
		b, _ := json.Marshal(o)
		os.Stdout.Write(append(b, '\n'))
		return 0
	}
	if err != nil || len(args) < 1 || in.Ov == nil {
		return emit(&c08OvOut{Fatal: "bad input"})
	}
	ov := in.Ov
	ch := &c08Child{dir: args[0], logbuf: &c08LogBuf{}, names: map[string]int{}, ownInos: map[uint64]bool{}}
	casket.Quiet = true
	log.SetOutput(ch.logbuf)
	os.MkdirAll(filepath.Join(ch.dir, "root"), 0o755)
	os.WriteFile(filepath.Join(ch.dir, "root", "index.html"), []byte("index of the site\n"), 0o644)
	ch.busy, err = net.Listen("tcp", "127.0.0.1:0")
	if err != nil {
		return emit(&c08OvOut{Fatal: "cannot listen"})
	}
	ch.busyPort = ch.busy.Addr().(*net.TCPAddr).Port
	ch.busyIno = c08ListenerIno(ch.busy)
	ch.ownInos[ch.busyIno] = true
	entered, release := make(chan struct{}, 4), make(chan struct{})
	stdout := os.Stdout
	os.Stdout, _ = os.Open(os.DevNull)
	httpserver.RegisterDevDirective("c08startup", "")
	httpserver.RegisterDevDirective("c08gate", "")
	os.Stdout = stdout
	casket.RegisterPlugin("c08startup", casket.Plugin{ServerType: "http", Action: func(c *casket.Controller) error {
		for c.Next() {
			c.OnStartup(func() error { return fmt.Errorf("c08: startup callback of the plugin refuses to start") })
		}
		return nil
	}})
	casket.RegisterPlugin("c08gate", casket.Plugin{ServerType: "http", Action: func(c *casket.Controller) error {
		for c.Next() {
			a := c.RemainingArgs()
			entered <- struct{}{}
			select {
			case <-release:
			case <-time.After(30 * time.Second):
				return fmt.Errorf("c08: the gate was never opened")
			}
			if len(a) > 0 && a[0] == "fail" {
				return fmt.Errorf("c08: the gated directive refuses its arguments")
			}
		}
		return nil
	}})
	out := &c08OvOut{Still: []int{}}
	find := func(id int) *casket.Instance {
		for _, inst := range casket.Instances() {
			if inst.Casketfile() != nil {
				if m := c08CfgRe.FindStringSubmatch(string(inst.Casketfile().Body())); m != nil && m[1] == fmt.Sprint(id) {
					return inst
				}
			}
		}
		return nil
	}
	addrs := map[int]string{}
	note := func(id int) {
		if inst := find(id); inst != nil {
			for _, s := range inst.Servers() {
				if s.Addr() != nil {
					addrs[id] = s.Addr().String()
				}
			}
		}
	}
	step := 0
	text := func(c *c08Cfg) string { step++; return ch.render(c, step) }
	guarded := func(f func() error) (res int) {
		done := make(chan int, 1)
		go func() {
			defer func() {
				if r := recover(); r != nil {
					out.Errs = append(out.Errs, fmt.Sprint(r))
					done <- 2
				}
			}()
			if err := f(); err != nil {
				out.Errs = append(out.Errs, c08ErrString(err))
				done <- 1
			} else {
				done <- 0
			}
		}()
		select {
		case r := <-done:
			return r
		case <-time.After(c08OpTimeout):
			return 3
		}
	}
	run := func(op c08OvOp) int {
		switch op.K {
		case "load":
			r := guarded(func() error {
				cfg := &c08Cfg{ID: op.ID, Addrs: []int{1}}
				if op.On > 0 {
					cfg.Effs = []c08Eff{{K: "on", N: op.On}}
				}
				_, err := casket.Start(ch.input(text(cfg)))
				return err
			})
			note(op.ID)
			return r
		case "reload", "reload-bad":
			old := find(op.T)
			if old == nil {
				return 4
			}
			cfg := &c08Cfg{ID: op.ID, Addrs: []int{1}}
			if op.On > 0 {
				cfg.Effs = []c08Eff{{K: "on", N: op.On}}
			}
			if op.K == "reload-bad" {
				cfg.Effs = append(cfg.Effs, c08Eff{K: "bad", N: 2})
			}
			r := guarded(func() error {
				_, err := old.Restart(ch.input(text(cfg)))
				return err
			})
			note(op.ID)
			return r
		case "stop":
			inst := find(op.T)
			if inst == nil {
				return 4
			}
			return guarded(func() error {
				inst.ShutdownCallbacks()
				return inst.Stop()
			})
		}
		return 4
	}
	for _, op := range ov.Pre {
		out.Pre = append(out.Pre, run(op))
	}
	ch.observe(1, &out.O1)
	// B
	bcfg := &c08Cfg{ID: ov.BID, Addrs: []int{1}}
	gate := "c08gate"
	switch ov.BFail {
	case "directive":
		gate = "c08gate fail"
	case "listen":
		bcfg.Addrs = []int{9}
	case "startup":
		bcfg.Effs = []c08Eff{{K: "log", OK: false, Via: "plugin"}}
	}
	btext := strings.Replace(text(bcfg), "\n}\n", "\n\t"+gate+"\n}\n", 1)
	var bold *casket.Instance
	if ov.BMode == "reload" {
		bold = find(ov.BT)
	}
	bdone := make(chan [2]interface{}, 1)
	go func() {
		defer func() {
			if r := recover(); r != nil {
				bdone <- [2]interface{}{2, fmt.Sprint(r)}
			}
		}()
		var err error
		switch {
		case ov.BMode == "reload" && bold == nil:
			bdone <- [2]interface{}{4, "no instance"}
			return
		case ov.BMode == "reload":
			_, err = bold.Restart(ch.input(btext))
		default:
			_, err = casket.Start(ch.input(btext))
		}
		if err != nil {
			bdone <- [2]interface{}{1, c08ErrString(err)}
		} else {
			bdone <- [2]interface{}{0, ""}
		}
	}()
	var early *[2]interface{}
	select {
	case <-entered:
		out.Entered = true
	case r := <-bdone:
		early = &r
	case <-time.After(c08OpTimeout):
	}
	ch.observe(2, &out.O2)
	for _, op := range ov.Inner {
		out.Inner = append(out.Inner, run(op))
	}
	ch.observe(3, &out.O3)
	close(release)
	switch {
	case early != nil:
		out.BRes, out.BErr = (*early)[0].(int), (*early)[1].(string)
	default:
		select {
		case r := <-bdone:
			out.BRes, out.BErr = r[0].(int), r[1].(string)
		case <-time.After(c08OpTimeout):
			out.BRes, out.BErr = 3, "watchdog: attempt did not return"
		}
	}
	note(ov.BID)
	ch.observe(4, &out.O4)
	// the SIGTERM path: everything casket knows of is stopped
	stopped := make(chan struct{})
	go func() {
		for _, inst := range casket.Instances() {
			inst.ShutdownCallbacks()
		}
		casket.Stop()
		close(stopped)
	}()
	select {
	case <-stopped:
	case <-time.After(c08OpTimeout):
		out.Errs = append(out.Errs, "casket.Stop() did not return")
	}
	time.Sleep(20 * time.Millisecond)
	ids := make([]int, 0, len(addrs))
	for id := range addrs {
		ids = append(ids, id)
	}
	for i := range ids { // sorted
		for j := i + 1; j < len(ids); j++ {
			if ids[j] < ids[i] {
				ids[i], ids[j] = ids[j], ids[i]
			}
		}
	}
	for _, id := range ids {
		if st, _ := c08GetOnce(addrs[id], nil); st != 0 {
			out.Still = append(out.Still, id)
		}
	}
	socks, _ := ch.listenSockets()
	out.SocksAfter = len(socks)
	out.NInstAfter = len(casket.Instances())
	return emit(out)
}

func init() { extraCommands["c08ovchild"] = c08OvChildMain }

func c08OvOpTerm(op c08OvOp, res int) string {
	var t string
	switch op.K {
	case "load":
		t = cApp("OvLoad", cN(uint64(op.ID)))
	case "reload":
		t = cApp("OvReload", cN(uint64(op.T)), cN(uint64(op.ID)))
	case "reload-bad":
		t = cApp("OvReloadBad", cN(uint64(op.T)), cN(uint64(op.ID)))
	default:
		t = cApp("OvStop", cN(uint64(op.T)))
	}
	return cPair(cPair(t, cN(uint64(res))), cN(uint64(op.On)))
}

func c08IIterm(xs [][]int) string {
	it := make([]string, len(xs))
	for i, x := range xs {
		it[i] = c08IntsTerm(x)
	}
	return cList(it)
}

func c08RunOverlap(in *c08In) Result {
	ov := in.Ov
	c08Seq.Lock()
	c08Seq.n++
	dir := filepath.Join(c08Scratch(), fmt.Sprintf("ov%d", c08Seq.n))
	c08Seq.Unlock()
	os.MkdirAll(dir, 0o755)
	defer os.RemoveAll(dir)
	data, _ := json.Marshal(in)
	ctx, cancel := context.WithTimeout(context.Background(), c08ChildTimeout)
	defer cancel()
	cmd := exec.CommandContext(ctx, os.Args[0], "c08ovchild", dir)
	cmd.Env = append(os.Environ(), "GOMAXPROCS=2")
	cmd.Stdin = bytes.NewReader(data)
	raw, err := cmd.Output()
	var out c08OvOut
	crashed := ""
	if jerr := json.Unmarshal(bytes.TrimSpace(raw), &out); jerr != nil || out.Fatal != "" {
		crashed = fmt.Sprintf("child: %v %v %s", err, jerr, out.Fatal)
	}
	for len(out.Pre) < len(ov.Pre) {
		out.Pre = append(out.Pre, 3)
	}
	for len(out.Inner) < len(ov.Inner) {
		out.Inner = append(out.Inner, 3)
	}
	if crashed != "" {
		out.BRes = 3
	}
	var pre, inner []string
	for i, op := range ov.Pre {
		pre = append(pre, c08OvOpTerm(op, out.Pre[i]))
	}
	for i, op := range ov.Inner {
		inner = append(inner, c08OvOpTerm(op, out.Inner[i]))
	}
	bmode := "OvBLoad"
	if ov.BMode == "reload" {
		bmode = cApp("OvBReload", cN(uint64(ov.BT)))
	}
	fail := map[string]int{"": 0, "directive": 1, "listen": 2, "startup": 3}[ov.BFail]
	term := cApp("COverlap", cList(pre), bmode, cN(uint64(ov.BID)), cN(uint64(fail)), cList(inner), cBool(out.Entered), cN(uint64(out.BRes)),
		c08IntsTerm(out.O1.Ids), c08IntsTerm(out.O2.Ids), c08IntsTerm(out.O3.Ids), c08IIterm(out.O3.Sites), c08IntsTerm(out.O4.Ids), c08IIterm(out.O4.Sites),
		c08IntsTerm(out.Still), cN(uint64(out.SocksAfter)), cN(uint64(out.NInstAfter)),
		cN(uint64(len(out.O1.Hooks))), cN(uint64(len(out.O3.Hooks))), cN(uint64(len(out.O4.Hooks))))
	what := ov.BFail
	if what == "" {
		what = "succeeds"
	}
	sig := fmt.Sprintf("overlap:%s:%s", ov.BMode, what)
	if out.BRes == 1 && len(out.O4.Hooks) < len(out.O3.Hooks) {
		// the hooks a load or reload registered while B was held are gone after B was refused; one class of its
		// own (F-C08-7) as long as everything else is in order: the list is the list of the held state without B,
		// every site was stopped by casket.Stop()
		var want []int
		for _, id := range out.O3.Ids {
			if id != ov.BID {
				want = append(want, id)
			}
		}
		if c08EqInts(want, out.O4.Ids) && len(out.Still) == 0 && out.SocksAfter == 0 && out.NInstAfter == 0 {
			sig = "overlap:hooks-registered-meanwhile-lost"
		}
	}
	key, _ := json.Marshal(in)
	return Result{Term: term, Obs: map[string]interface{}{"out": out, "crashed": crashed}, Sig: sig,
		Key: string(key), Nontrivial: out.Entered && len(ov.Inner) > 0, Class: fmt.Sprintf("overlap:%s:%s:inner=%d", ov.BMode, what, len(ov.Inner))}
}

// c08GenOverlap: one or two running instances; B a load or a reload of one of them, failing at the gated directive /
// at Listen / in a startup callback, or succeeding; while B is held 1-3 attempts on the OTHER instances: a reload that
// succeeds (the list shifts in front of B's entry), a refused reload, a load, a stop
func c08GenOverlap(r *Rand, tier string) []*c08In {
	var out []*c08In
	next := 0
	fresh := func() int { next++; return 100 + next }
	mk := func(npre int, bmode string, bfail string, inner func(live []int, b int) []c08OvOp) {
		next = 0
		ov := &c08Ov{BMode: bmode, BFail: bfail}
		var live []int
		for i := 0; i < npre; i++ {
			id := fresh()
			ov.Pre = append(ov.Pre, c08OvOp{K: "load", ID: id})
			live = append(live, id)
		}
		others := live
		if bmode == "reload" {
			ov.BT = live[len(live)-1]
			others = live[:len(live)-1]
		}
		ov.BID = fresh()
		ov.Inner = inner(append([]int(nil), others...), ov.BID)
		out = append(out, &c08In{Name: fmt.Sprintf("overlap-%s-%s", bmode, bfail), Ov: ov})
	}
	fails := []string{"directive", "listen", "startup", ""}
	// the deterministic scenarios: another instance is reloaded / stopped / loaded / refused while B is held
	for _, bf := range fails {
		mk(1, "load", bf, func(live []int, b int) []c08OvOp { return []c08OvOp{{K: "reload", T: live[0], ID: fresh()}} })
		mk(1, "load", bf, func(live []int, b int) []c08OvOp { return []c08OvOp{{K: "stop", T: live[0]}} })
		mk(1, "load", bf, func(live []int, b int) []c08OvOp { return []c08OvOp{{K: "load", ID: fresh()}} })
		mk(1, "load", bf, func(live []int, b int) []c08OvOp { return []c08OvOp{{K: "reload-bad", T: live[0], ID: fresh()}} })
		mk(2, "load", bf, func(live []int, b int) []c08OvOp {
			return []c08OvOp{{K: "stop", T: live[0]}, {K: "reload", T: live[1], ID: fresh()}}
		})
		mk(2, "reload", bf, func(live []int, b int) []c08OvOp { return []c08OvOp{{K: "reload", T: live[0], ID: fresh()}} })
		mk(0, "load", bf, func(live []int, b int) []c08OvOp { return []c08OvOp{{K: "load", ID: fresh()}} })
		// the attempts completing meanwhile register event hooks
		mk(1, "load", bf, func(live []int, b int) []c08OvOp { return []c08OvOp{{K: "reload", T: live[0], ID: fresh(), On: 2}} })
		mk(1, "load", bf, func(live []int, b int) []c08OvOp { return []c08OvOp{{K: "load", ID: fresh(), On: 1}} })
		mk(1, "load", bf, func(live []int, b int) []c08OvOp { return nil })
	}
	n := 12
	if tier == "thorough" {
		n = 250
	}
	for k := 0; k < n; k++ {
		bmode := "load"
		npre := r.Range(1, 3)
		if r.Chance(30) {
			bmode = "reload"
			npre = r.Range(2, 3)
		}
		mk(npre, bmode, r.Pick(fails), func(live []int, b int) []c08OvOp {
			var ops []c08OvOp
			for j := r.Range(1, 3); j > 0; j-- {
				switch {
				case len(live) == 0 || r.Chance(20):
					id := fresh()
					ops = append(ops, c08OvOp{K: "load", ID: id})
					live = append(live, id)
				case r.Chance(45):
					i := r.Intn(len(live))
					id := fresh()
					ops = append(ops, c08OvOp{K: "reload", T: live[i], ID: id})
					live = append(append(live[:i:i], live[i+1:]...), id)
				case r.Chance(40):
					ops = append(ops, c08OvOp{K: "reload-bad", T: live[r.Intn(len(live))], ID: fresh()})
				default:
					i := r.Intn(len(live))
					ops = append(ops, c08OvOp{K: "stop", T: live[i]})
					live = append(live[:i:i], live[i+1:]...)
				}
			}
			return ops
		})
	}
	return out
}
