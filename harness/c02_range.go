package main

// C02: Range and conditional requests (http.ServeContent behind staticfiles.serveFile).
// A case carries a Range header verbatim and, symbolically, validators that c02Do turns into header
// values from the ETag / Last-Modified of a probe (HEAD without these headers) of the same target:
//   INM:     etag | weak | star | list -> a tag matches (class 1);  other -> none matches (2)
//   IMS:     same | later -> not modified since (1);  earlier -> modified (2);  junk -> ignored (0)
//   IfRange: etag | date -> holds (1);  weak | other | olddate -> fails (2)
// The body pieces of a 200 / 206 answer are located in the files ON DISK (every regular file below
// the fixture base, whatever tree it belongs to): a piece is attributed to the files whose size is
// the total the answer states and whose bytes [start, start+len) are exactly the piece.

import (
	"bytes"
	"fmt"
	"io"
	"mime"
	"mime/multipart"
	"net/http"
	"os"
	"path"
	"path/filepath"
	"regexp"
	"sort"
	"strconv"
	"strings"
	"time"
)

func (in *c02In) isRange() bool {
	return in.Range != "" || in.INM != "" || in.IMS != "" || in.IfRange != ""
}

type c02Part struct {
	Start uint64   `json:"start"`
	Len   uint64   `json:"len"`
	Total uint64   `json:"total"`
	IDs   []uint64 `json:"ids"`
}

func c02CondClasses(in *c02In) (inm, ims, ifr uint64) {
	switch in.INM {
	case "etag", "weak", "star", "list":
		inm = 1
	case "other":
		inm = 2
	}
	switch in.IMS {
	case "same", "later":
		ims = 1
	case "earlier":
		ims = 2
	}
	switch in.IfRange {
	case "etag", "date":
		ifr = 1
	case "weak", "other", "olddate":
		ifr = 2
	}
	return
}

// c02CondHeaders adds the Range / conditional headers to hdr, built from the probe's validators.
func c02CondHeaders(in *c02In, tree *c02Tree, hdr map[string]string, probe http.Header) {
	etag, lm := `"none"`, time.Unix(1000000000, 0)
	// a client can compute the validators of a file it is not shown (modification time and size in
	// base 36): when the probe carries none, they are those of the regular file the cleaned path names
	if p, _, ok := c02Split(in.Target); ok {
		if fi, err := os.Stat(filepath.Join(tree.Dir, filepath.FromSlash(path.Clean("/"+p)))); err == nil && fi.Mode().IsRegular() {
			etag, lm = c02Etag(fi), fi.ModTime()
		}
	}
	if probe != nil {
		if e := probe.Get("Etag"); e != "" {
			etag = e
		}
		if t, err := http.ParseTime(probe.Get("Last-Modified")); err == nil {
			lm = t
		}
	}
	if in.Range != "" {
		hdr["Range"] = in.Range
	}
	switch in.INM {
	case "etag":
		hdr["If-None-Match"] = etag
	case "weak":
		hdr["If-None-Match"] = "W/" + etag
	case "star":
		hdr["If-None-Match"] = "*"
	case "list":
		hdr["If-None-Match"] = `"zzz", ` + etag
	case "other":
		hdr["If-None-Match"] = `"zzz", W/"yyy"`
	}
	switch in.IMS {
	case "same":
		hdr["If-Modified-Since"] = lm.UTC().Format(http.TimeFormat)
	case "later":
		hdr["If-Modified-Since"] = lm.Add(time.Hour).UTC().Format(http.TimeFormat)
	case "earlier":
		hdr["If-Modified-Since"] = lm.Add(-time.Hour).UTC().Format(http.TimeFormat)
	case "junk":
		hdr["If-Modified-Since"] = "yesterday"
	}
	switch in.IfRange {
	case "etag":
		hdr["If-Range"] = etag
	case "weak":
		hdr["If-Range"] = "W/" + etag
	case "other":
		hdr["If-Range"] = `"zzz"`
	case "date":
		hdr["If-Range"] = lm.UTC().Format(http.TimeFormat)
	case "olddate":
		hdr["If-Range"] = lm.Add(-time.Hour).UTC().Format(http.TimeFormat)
	}
}

type c02DiskFile struct {
	id   uint64
	data []byte
}

// c02DiskFiles: every regular file below the fixture base with the identity it has for a site
// rooted in tree (1 for a file that is not in that tree).
var c02DiskCache = map[*c02Tree][]c02DiskFile{}

func c02DiskFiles(tree *c02Tree) []c02DiskFile {
	if tree != c02Q { // only the sequences' tree changes on disk
		if l, ok := c02DiskCache[tree]; ok {
			return l
		}
		l := c02DiskFilesRead(tree)
		c02DiskCache[tree] = l
		return l
	}
	return c02DiskFilesRead(tree)
}

func c02DiskFilesRead(tree *c02Tree) []c02DiskFile {
	fx := c02Fixture()
	ids := map[string]uint64{}
	for _, n := range tree.nodes() {
		if !n.Dir {
			ids[n.Path] = n.ID
		}
	}
	var out []c02DiskFile
	filepath.Walk(fx.base, func(p string, fi os.FileInfo, err error) error {
		if err != nil || !fi.Mode().IsRegular() {
			return nil
		}
		if tree != c02Q && strings.HasPrefix(p, filepath.Join(fx.base, "q")+string(filepath.Separator)) {
			return nil // the twin copy of the main tree (same bytes, same sizes): the sequences' root
		}
		b, err := os.ReadFile(p)
		if err != nil {
			return nil
		}
		id := uint64(c02OutsideID)
		if rel, err := filepath.Rel(tree.Dir, p); err == nil && !strings.HasPrefix(rel, "..") {
			if v, ok := ids["/"+filepath.ToSlash(rel)]; ok {
				id = v
			}
		}
		out = append(out, c02DiskFile{id, b})
		return nil
	})
	return out
}

func c02Locate(files []c02DiskFile, start, total uint64, piece []byte) []uint64 {
	seen := map[uint64]bool{}
	for _, f := range files {
		if uint64(len(f.data)) == total && start+uint64(len(piece)) <= total && bytes.Equal(f.data[start:start+uint64(len(piece))], piece) {
			seen[f.id] = true
		}
	}
	// trees have files of the same size with the same tail: a piece that is, byte for byte and at
	// its place, a piece of a file of this tree is not attributed to another tree as well
	if len(seen) > 1 {
		delete(seen, c02OutsideID)
	}
	var out []uint64
	for id := range seen {
		out = append(out, id)
	}
	if len(out) == 0 {
		out = []uint64{c02UnknownID}
	}
	sort.Slice(out, func(i, j int) bool { return out[i] < out[j] })
	return out
}

var c02CRRe = regexp.MustCompile(`^bytes (\d+)-(\d+)/(\d+)$`)

// c02Parts cuts the body of a 200 / 206 file answer to GET into its pieces.
func c02Parts(tree *c02Tree, status int, h http.Header, body []byte) []c02Part {
	files := c02DiskFiles(tree)
	one := func(cr string, piece []byte) c02Part {
		m := c02CRRe.FindStringSubmatch(cr)
		if m == nil {
			return c02Part{Len: uint64(len(piece)), IDs: []uint64{c02UnknownID}}
		}
		a, _ := strconv.ParseUint(m[1], 10, 64)
		b, _ := strconv.ParseUint(m[2], 10, 64)
		tot, _ := strconv.ParseUint(m[3], 10, 64)
		p := c02Part{Start: a, Len: uint64(len(piece)), Total: tot}
		if b+1 != a+uint64(len(piece)) { // "bytes 90-89/90" is how a range of no bytes (suffix length 0) is written
			p.IDs = []uint64{c02UnknownID}
		} else {
			p.IDs = c02Locate(files, a, tot, piece)
		}
		return p
	}
	if status == 200 {
		return []c02Part{{Start: 0, Len: uint64(len(body)), Total: uint64(len(body)), IDs: c02Locate(files, 0, uint64(len(body)), body)}}
	}
	mt, params, _ := mime.ParseMediaType(h.Get("Content-Type"))
	if mt == "multipart/byteranges" {
		var out []c02Part
		mr := multipart.NewReader(bytes.NewReader(body), params["boundary"])
		for {
			pt, err := mr.NextRawPart()
			if err != nil {
				if err != io.EOF {
					out = append(out, c02Part{IDs: []uint64{c02UnknownID}})
				}
				break
			}
			b, _ := io.ReadAll(pt)
			out = append(out, one(pt.Header.Get("Content-Range"), b))
		}
		return out
	}
	return []c02Part{one(h.Get("Content-Range"), body)}
}

// c02Sizes: identity -> size of the regular files of the tree, as stat reported them.
func c02Sizes(tree *c02Tree) string {
	type kv struct{ id, size uint64 }
	var l []kv
	for s, id := range tree.size {
		if id == c02OutsideID {
			continue
		}
		n, _ := strconv.ParseUint(s, 10, 64)
		l = append(l, kv{id, n})
	}
	sort.Slice(l, func(i, j int) bool { return l[i].id < l[j].id })
	items := make([]string, len(l))
	for i, e := range l {
		items[i] = cPair(cN(e.id), cN(e.size))
	}
	return cList(items)
}

func c02PartsTerm(ps []c02Part) string {
	items := make([]string, len(ps))
	for i, p := range ps {
		items[i] = cPair(cPair(cN(p.Start), cN(p.Len)), cNList(p.IDs))
	}
	return cList(items)
}

var c02Ranges = []string{
	"bytes=0-0", "bytes=0-4", "bytes=3-", "bytes=-5", "bytes=-0", "bytes=-1", "bytes=5-9", "bytes=0-", "bytes=2-2",
	"bytes=0-999", "bytes=10-999999999999", "bytes=-999", "bytes=999-", "bytes=999-1000", "bytes=9223372036854775807-",
	"bytes=0-1,3-4", "bytes=0-2, 5-7 ,-2", "bytes=0-0,-1", "bytes=1-3,2-5", "bytes=0-5,0-5", "bytes=0-9,0-9,0-9,0-9,0-9,0-9",
	"bytes=999-,0-1", "bytes=999-,1000-", "bytes=,0-1,,", "bytes= 1 - 2 ", "bytes=\t1-2", "bytes=4-,-4",
	"bytes=5-2", "bytes=a-b", "bytes=1", "bytes=", "bytes=-", "bytes=--1", "bytes=-+2", "bytes=+1-+3", "bytes=1-2-3", "bytes=0x1-2",
	"bytes=9223372036854775808-", "bytes=-9223372036854775808", "bytes=1-99999999999999999999", "Bytes=0-1", "bytes 0-1", "items=0-1", "bytes=0-1;q=1",
	"bytes=3-3,1-1,2-2", "bytes=-3,0-0", "bytes=1-,2-,3-",
}

// c02GenRange: Range / conditional headers on files, index pages, precompressed siblings, hidden
// files and their siblings, directories and listings; GET and HEAD.
func c02GenRange(r *Rand, thorough bool) []interface{} {
	var out []interface{}
	targets := []string{"/a.txt", "/dir/", "/dir/e", "/hsib.txt", "/hidx/", "/secret.txt", "/Casketfile", "/hsib.txt.gz", "/", "/dir", "/A.TXT", "//a.txt", "/dir/../a.txt", "/%61.txt"}
	for _, e := range c02All() {
		if e.Kind != 'd' {
			targets = append(targets, e.Path)
		} else if e.Path != "/" {
			targets = append(targets, e.Path+"/")
		}
	}
	// directed: what is hidden (and what has a hidden sibling / index page) under every kind of header
	for _, t := range append(append([]string{}, c02Hide()...), "/hsib.txt", "/hidx/", "/hidx/index.html", "/a.txt", "/b.txt", "/dir/") {
		for _, ae := range []string{"", "gzip", "br, zstd, gzip"} {
			for _, m := range []string{"GET", "HEAD"} {
				out = append(out,
					&c02In{Site: "static", Method: m, Target: t, AE: ae, Range: "bytes=0-4"},
					&c02In{Site: "static", Method: m, Target: t, AE: ae, Range: "bytes=2-3,-2"},
					&c02In{Site: "static", Method: m, Target: t, AE: ae, INM: "etag"},
					&c02In{Site: "static", Method: m, Target: t, AE: ae, IMS: "same"},
					&c02In{Site: "browse", Method: m, Target: t, AE: ae, Range: "bytes=1-", IfRange: "etag"},
					&c02In{Site: "browse", Method: m, Target: t, AE: ae, Range: "bytes=1-", IfRange: "date"},
					&c02In{Site: "origin-sub", Method: m, Target: t, AE: ae, Range: "bytes=999-", INM: "other"})
			}
		}
	}
	rnd := func(max int) string { return strconv.Itoa(r.Intn(max)) }
	n := 400
	if thorough {
		n = 4500
	}
	for i := 0; i < n; i++ {
		in := &c02In{Site: r.Pick([]string{"static", "static", "browse", "scoped", "origin-sub"}), Method: "GET", Target: r.Pick(targets), AE: r.Pick(c02AEs)}
		if r.Chance(25) {
			in.Method = "HEAD"
		}
		switch k := r.Intn(100); {
		case k < 45:
			in.Range = r.Pick(c02Ranges)
		case k < 70:
			a := r.Intn(40)
			in.Range = "bytes=" + strconv.Itoa(a) + "-" + strconv.Itoa(a+r.Intn(30))
			for j := r.Intn(4); j > 0; j-- {
				in.Range += r.Pick([]string{",", ", ", " ,"}) + r.Pick([]string{rnd(60) + "-", "-" + rnd(60), rnd(20) + "-" + rnd(80)})
			}
		case k < 80:
		default:
			in.Range = r.Pick(c02Ranges[:27])
		}
		if in.Range == "" || r.Chance(35) {
			switch r.Intn(3) {
			case 0:
				in.INM = r.Pick([]string{"etag", "weak", "star", "list", "other"})
			case 1:
				in.IMS = r.Pick([]string{"same", "later", "earlier", "junk"})
			default:
				in.INM = r.Pick([]string{"etag", "other", "other"})
				in.IMS = r.Pick([]string{"same", "earlier"})
			}
		}
		if in.Range != "" && r.Chance(35) {
			in.IfRange = r.Pick([]string{"etag", "weak", "other", "date", "olddate"})
		}
		out = append(out, in)
	}
	return out
}

var _ = fmt.Sprint
