package main

import (
	"bytes"
	"encoding/json"
	"fmt"
	"hash/fnv"
	"io"
	"net/http"
	"net/http/httptest"
	"reflect"
	"strings"
	"sync"
	"sync/atomic"
	"time"
	"unsafe"

	"github.com/tmpim/casket/casketfile"
	"github.com/tmpim/casket/caskethttp/proxy"
)

type c05Host struct {
	U bool  `json:"u,omitempty"`
	F int32 `json:"f,omitempty"`
	C int64 `json:"c,omitempty"`
	M int64 `json:"m,omitempty"`
}
type c05In struct {
	Kind    string    `json:"kind"`   // policy | static | retry
	Policy  string    `json:"policy"` // first round_robin ip_hash uri_hash header header_nonames header_empty random least_conn
	Prime   int       `json:"prime,omitempty"`
	Key     string    `json:"key,omitempty"`
	MF      int32     `json:"mf,omitempty"`
	Pool    []c05Host `json:"pool,omitempty"`
	Base    []bool    `json:"base,omitempty"`    // retry: initially healthy?
	Failing []bool    `json:"failing,omitempty"` // retry: backend fails every forward
	Chunked bool      `json:"chunked,omitempty"`
	BodyLen int       `json:"bodylen,omitempty"`
	RT      *c05RT    `json:"rt,omitempty"` // kind retryt: timed retry loop (c05_retry.go)
	Robin   uint32    `json:"robin,omitempty"` // kind rrseq: value the RoundRobin counter is set to
	M       int       `json:"m,omitempty"`     // kind rrseq: number of consecutive Selects
	Conc    *c04Conc  `json:"conc,omitempty"`  // kind retryconc: concurrent schedule (c05_conc.go, machinery of c04_conc.go)
	RRB     *c05RRB   `json:"rrb,omitempty"`   // kind rrblocks: several round_robin blocks served alternately (c05_conc.go)
	Mid     *c04In    `json:"mid,omitempty"`   // kind retrymid: backends that die mid-body (c05_seq.go, machinery of c04_retry.go)
	Seq     *c05Seq   `json:"seq,omitempty"`   // kind retryseq: several requests over time through one proxy (c05_seq.go)
}

// setRobin sets the unexported uint32 counter of a RoundRobin policy (4 * 10^9 Selects are not replayed)
func setRobin(rr *proxy.RoundRobin, v uint32) {
	f := reflect.ValueOf(rr).Elem().FieldByName("robin")
	*(*uint32)(unsafe.Pointer(f.UnsafeAddr())) = v
}

// c05AbortUp is the parsed upstream with an emergency exit: once abort is set the next Select panics
// out of a retry loop that does not end
type c05AbortUp struct {
	proxy.Upstream
	abort *int32
}

func (u *c05AbortUp) Select(r *http.Request) *proxy.UpstreamHost {
	if atomic.LoadInt32(u.abort) != 0 {
		panic(c05Abort{})
	}
	return u.Upstream.Select(r)
}

func fnv32a(s string) uint32 {
	h := fnv.New32a()
	h.Write([]byte(s))
	return h.Sum32()
}

func c05Pol(in *c05In) (proxy.Policy, string, *http.Request) {
	req := httptest.NewRequest("GET", "http://example.test/", nil)
	switch in.Policy {
	case "first":
		return &proxy.First{}, "PFirst", req
	case "round_robin":
		return &proxy.RoundRobin{}, cApp("PRoundRobin", cN(uint64(in.Prime))), req
	case "ip_hash":
		req.RemoteAddr = in.Key + ":4711"
		return &proxy.IPHash{}, cApp("PHash", cN(uint64(fnv32a(in.Key)))), req
	case "uri_hash":
		req.RequestURI = in.Key
		return &proxy.URIHash{}, cApp("PHash", cN(uint64(fnv32a(in.Key)))), req
	case "header":
		req.Header.Set("X-Key", in.Key)
		return &proxy.Header{Names: []string{"X-Key"}}, cApp("PHeaderValue", cN(uint64(fnv32a(in.Key)))), req
	case "header_nonames":
		return &proxy.Header{}, "PHeaderNoNames", req
	case "header_empty":
		return &proxy.Header{Names: []string{"X-Key"}}, "PRandom", req // falls back to the shared round robin: spec only
	case "random":
		return &proxy.Random{}, "PRandom", req
	case "least_conn":
		return &proxy.LeastConn{}, "PLeastConn", req
	}
	panic("bad policy " + in.Policy)
}

func c05PoolTerm(pool []c05Host) string {
	var hs []string
	for _, h := range pool {
		hs = append(hs, cApp("mk_host", cBool(h.U), cZ(int64(h.F)), cZ(h.C), cZ(h.M)))
	}
	return cList(hs)
}

func cOptNat(i int) string {
	if i < 0 {
		return "None"
	}
	return fmt.Sprintf("(Some %d%%nat)", i)
}

func hostsOf(u proxy.Upstream) proxy.HostPool {
	return reflect.ValueOf(u).Elem().FieldByName("Hosts").Interface().(proxy.HostPool)
}

func c05Run(in0 interface{}) Result {
	in := in0.(*c05In)
	avail := func(h c05Host, mf int32) bool {
		return !(h.U || h.F >= mf) && !(h.M > 0 && h.C >= h.M)
	}
	switch in.Kind {
	case "retryt":
		return c05RunTimed(in)
	case "retryconc":
		return c05RunRetryConc(in)
	case "rrblocks":
		return c05RunRRBlocks(in)
	case "retrymid":
		return c05RunRetryMid(in)
	case "retryseq":
		return c05RunRetrySeq(in)
	case "rrseq":
		rr := &proxy.RoundRobin{}
		setRobin(rr, in.Robin)
		var pool proxy.HostPool
		var av []string
		for i, h := range in.Pool {
			uh := &proxy.UpstreamHost{Name: fmt.Sprintf("h%d", i)}
			if h.U {
				uh.Unhealthy = 1
			}
			pool = append(pool, uh)
			av = append(av, cBool(!h.U))
		}
		req := httptest.NewRequest("GET", "http://example.test/", nil)
		var obs []int
		var terms []string
		for k := 0; k < in.M; k++ {
			got := rr.Select(pool, req)
			idx := -1
			for i, h := range pool {
				if h == got {
					idx = i
				}
			}
			obs = append(obs, idx)
			terms = append(terms, cOptNat(idx))
		}
		n := uint64(len(in.Pool))
		wrap := uint64(in.Robin)+uint64(in.M)*n >= 1<<32
		sig := "rrseq:nowrap"
		if wrap && n > 0 && (1<<32)%n != 0 {
			sig = "rrseq:wrap:size-not-dividing-2^32"
		} else if wrap {
			sig = "rrseq:wrap:size-dividing-2^32"
		}
		return Result{Term: cApp("CRRSeq", cN(uint64(in.Robin)), cList(av), cList(terms)), Obs: obs, Sig: sig, Nontrivial: wrap, Class: sig}
	case "policy":
		pol, pterm, req := c05Pol(in)
		var pool proxy.HostPool
		for i, h := range in.Pool {
			uh := &proxy.UpstreamHost{Name: fmt.Sprintf("h%d", i), Conns: h.C, MaxConns: h.M, Fails: h.F}
			if h.U {
				uh.Unhealthy = 1
			}
			pool = append(pool, uh)
		}
		if rr, ok := pol.(*proxy.RoundRobin); ok && in.Prime > 0 {
			up := proxy.HostPool{}
			for range in.Pool {
				up = append(up, &proxy.UpstreamHost{})
			}
			for k := 0; k < in.Prime; k++ {
				rr.Select(up, req)
			}
		}
		got := pol.Select(pool, req)
		idx := -1
		for i, h := range pool {
			if h == got {
				idx = i
			}
		}
		direct := ""
		if got != nil && idx < 0 {
			direct = "policy returned a host outside the pool"
		}
		nav := 0
		for _, h := range in.Pool {
			if avail(h, 1) {
				nav++
			}
		}
		return Result{Term: cApp("CPolicy", pterm, cZ(1), c05PoolTerm(in.Pool), cOptNat(idx)), Obs: idx,
			Sig: "policy:" + in.Policy, Direct: direct, Nontrivial: nav > 0 && nav < len(in.Pool), Class: "policy:" + in.Policy}
	case "static":
		_, pterm, req := c05Pol(in)
		names := make([]string, len(in.Pool))
		for i := range names {
			names[i] = fmt.Sprintf("http://127.0.0.1:%d", 10000+i)
		}
		polLine := in.Policy
		switch in.Policy {
		case "header":
			polLine = "header X-Key"
		case "header_nonames", "header_empty":
			return Result{Term: cApp("CStatic", "PHeaderNoNames", cZ(1), "[]", "None"), Obs: "skipped", Class: "static:skipped"}
		}
		text := fmt.Sprintf("proxy / %s {\n policy %s\n max_fails %d\n}\n", strings.Join(names, " "), polLine, in.MF)
		ups, err := proxy.NewStaticUpstreams(casketfile.NewDispenser("Testfile", strings.NewReader(text)), "")
		if err != nil || len(ups) != 1 {
			return Result{Term: cApp("CStatic", "PHeaderNoNames", cZ(1), "[]", "None"), Obs: fmt.Sprint("setup error ", err), Class: "static:setup-error", Direct: fmt.Sprint("upstream setup failed: ", err), Sig: "static:setup"}
		}
		defer ups[0].Stop()
		hosts := hostsOf(ups[0])
		for i, h := range in.Pool {
			hosts[i].Conns, hosts[i].MaxConns, hosts[i].Fails = h.C, h.M, h.F
			if h.U {
				hosts[i].Unhealthy = 1
			}
		}
		if in.Policy == "round_robin" {
			pterm = cApp("PRoundRobin", cN(0))
		}
		got := ups[0].Select(req)
		idx := -1
		for i, h := range hosts {
			if h == got {
				idx = i
			}
		}
		nav := 0
		for _, h := range in.Pool {
			if avail(h, in.MF) {
				nav++
			}
		}
		return Result{Term: cApp("CStatic", pterm, cZ(int64(in.MF)), c05PoolTerm(in.Pool), cOptNat(idx)), Obs: idx,
			Sig: "static:" + in.Policy, Nontrivial: nav > 0 && nav < len(in.Pool), Class: "static:" + in.Policy}
	case "retry":
		n := len(in.Base)
		var mu sync.Mutex
		var trace []int
		complete := true
		body := bodyOf(in.BodyLen)
		var servers []*httptest.Server
		for i := 0; i < n; i++ {
			i := i
			servers = append(servers, httptest.NewServer(http.HandlerFunc(func(w http.ResponseWriter, r *http.Request) {
				got, _ := io.ReadAll(r.Body)
				mu.Lock()
				trace = append(trace, i)
				if !bytes.Equal(got, body) {
					complete = false
				}
				mu.Unlock()
				if in.Failing[i] {
					if hj, ok := w.(http.Hijacker); ok {
						c, _, _ := hj.Hijack()
						c.Close()
						return
					}
				}
				w.Header().Set("X-Backend", fmt.Sprint(i))
				w.WriteHeader(200)
				fmt.Fprintf(w, "backend %d", i)
			})))
		}
		defer func() {
			for _, s := range servers {
				s.Close()
			}
		}()
		var names []string
		for _, s := range servers {
			names = append(names, s.URL)
		}
		text := fmt.Sprintf("proxy / %s {\n policy %s\n max_fails 1\n fail_timeout 30s\n try_duration 150ms\n try_interval 1ms\n}\n", strings.Join(names, " "), in.Policy)
		ups, err := proxy.NewStaticUpstreams(casketfile.NewDispenser("Testfile", strings.NewReader(text)), "")
		if err != nil || len(ups) != 1 {
			return Result{Term: cApp("CStatic", "PHeaderNoNames", cZ(1), "[]", "None"), Obs: fmt.Sprint("setup error ", err), Class: "retry:setup-error", Direct: fmt.Sprint("upstream setup failed: ", err), Sig: "retry:setup"}
		}
		defer ups[0].Stop()
		hosts := hostsOf(ups[0])
		for i := range hosts {
			if !in.Base[i] {
				hosts[i].Unhealthy = 1
			}
		}
		var abort int32
		p := proxy.Proxy{Next: handlerFunc(func(w http.ResponseWriter, r *http.Request) (int, error) { return 404, nil }),
			Upstreams: []proxy.Upstream{&c05AbortUp{Upstream: ups[0], abort: &abort}}}
		var rd io.Reader = bytes.NewReader(body)
		if in.Chunked {
			rd = struct{ io.Reader }{rd} // hides the length: ContentLength = -1
		}
		req := httptest.NewRequest("POST", "http://example.test/up", rd)
		if in.Chunked {
			req.ContentLength = -1
		}
		req.RemoteAddr = "192.0.2.7:4711"
		rec := httptest.NewRecorder()
		// try_duration is 150ms: a request that has not returned after 5 s never will
		status, hung := -1, false
		done := make(chan struct{})
		go func() {
			defer close(done)
			defer func() {
				if x := recover(); x != nil {
					if _, ok := x.(c05Abort); !ok {
						panic(x)
					}
					hung = true
				}
			}()
			status, _ = p.ServeHTTP(rec, req)
		}()
		select {
		case <-done:
		case <-time.After(5 * time.Second):
			atomic.StoreInt32(&abort, 1)
			<-done
		}
		direct := ""
		if hung {
			direct = "Proxy.ServeHTTP did not return within 5s (try_duration 150ms): the retry loop does not end"
		}
		final := -1
		if status == 0 && rec.Code == 200 {
			fmt.Sscan(rec.Header().Get("X-Backend"), &final)
		}
		var pterm string
		switch in.Policy {
		case "first":
			pterm = "PFirst"
		case "round_robin":
			pterm = "(PRoundRobin 0%N)"
		case "ip_hash":
			pterm = cApp("PHash", cN(uint64(fnv32a("192.0.2.7"))))
		}
		bs := func(xs []bool) string {
			it := make([]string, len(xs))
			for i, x := range xs {
				it[i] = cBool(x)
			}
			return cList(it)
		}
		mu.Lock()
		tr := append([]int(nil), trace...)
		mu.Unlock()
		nfail := 0
		for i := range in.Failing {
			if in.Failing[i] && in.Base[i] {
				nfail++
			}
		}
		return Result{Term: cApp("CRetry", pterm, bs(in.Base), bs(in.Failing), cNatList(tr), cOptNat(final), cBool(complete)),
			Obs: map[string]interface{}{"trace": tr, "final": final, "status": status, "code": rec.Code, "bodies_complete": complete},
			Direct: direct, Sig: fmt.Sprintf("retry:%s:chunked=%v", in.Policy, in.Chunked), Nontrivial: nfail > 0, Class: fmt.Sprintf("retry:%s:fail%d", in.Policy, nfail)}
	}
	panic("bad kind")
}

func c05Gen(r *Rand, tier string) []interface{} {
	var out []interface{}
	pols := []string{"first", "round_robin", "ip_hash", "uri_hash", "header", "header_nonames", "header_empty", "random", "least_conn"}
	// exhaustive: pool sizes 1..N x all availability vectors (down / full variants) x keys covering every residue
	maxN := 5
	nRandom, nRetry := 600, 40
	if tier == "thorough" {
		maxN, nRandom, nRetry = 8, 20000, 400
	}
	keys := []string{}
	for i := 0; len(keys) < 24; i++ {
		keys = append(keys, fmt.Sprintf("10.0.%d.%d", i/7, i*13%251))
	}
	for n := 1; n <= maxN; n++ {
		for mask := 0; mask < 1<<n; mask++ {
			pool := make([]c05Host, n)
			for i := range pool {
				if mask>>i&1 == 0 {
					switch (mask + i) % 3 {
					case 0:
						pool[i] = c05Host{U: true}
					case 1:
						pool[i] = c05Host{F: 1}
					default:
						pool[i] = c05Host{C: 2, M: 2}
					}
				} else {
					pool[i] = c05Host{C: int64((mask * (i + 3)) % 4), M: 9}
				}
			}
			for _, pol := range []string{"first", "round_robin", "random", "least_conn", "header_nonames", "header_empty"} {
				out = append(out, &c05In{Kind: "policy", Policy: pol, Pool: pool, Prime: mask % (n + 2)})
			}
			// hashing: choose keys so that every residue of hash mod n occurs
			seen := map[uint32]bool{}
			for _, k := range keys {
				res := fnv32a(k) % uint32(n)
				if seen[res] {
					continue
				}
				seen[res] = true
				out = append(out, &c05In{Kind: "policy", Policy: "ip_hash", Key: k, Pool: pool})
				if mask%3 == 0 {
					out = append(out, &c05In{Kind: "policy", Policy: "uri_hash", Key: k, Pool: pool})
					out = append(out, &c05In{Kind: "policy", Policy: "header", Key: k, Pool: pool})
				}
				if mask%4 == 1 {
					out = append(out, &c05In{Kind: "static", Policy: "ip_hash", Key: k, Pool: pool, MF: 1})
				}
			}
		}
	}
	for i := 0; i < nRandom; i++ {
		n := r.Range(1, 9)
		pool := make([]c05Host, n)
		for j := range pool {
			pool[j] = c05Host{U: r.Chance(25), F: int32(r.Intn(3)), C: int64(r.Intn(4)), M: int64(r.Intn(4))}
			if r.Chance(50) {
				pool[j].F = 0
			}
		}
		in := &c05In{Kind: "policy", Policy: r.Pick(pols), Pool: pool, Prime: r.Intn(12), Key: fmt.Sprintf("k%d", r.Intn(1000))}
		if r.Chance(35) {
			in.Kind = "static"
			in.MF = int32(r.Range(1, 3))
			in.Policy = r.Pick([]string{"first", "round_robin", "ip_hash", "uri_hash", "header", "random", "least_conn"})
		}
		out = append(out, in)
	}
	for i := 0; i < nRetry; i++ {
		n := r.Range(1, 5)
		in := &c05In{Kind: "retry", Policy: r.Pick([]string{"first", "round_robin", "ip_hash"}), Chunked: r.Bool(), BodyLen: r.Pick2(0, 1, 100, 40000)}
		healthy := false
		for j := 0; j < n; j++ {
			b := r.Chance(80)
			f := r.Chance(55)
			in.Base = append(in.Base, b)
			in.Failing = append(in.Failing, f)
			if b && !f {
				healthy = true
			}
		}
		if !healthy && i%8 != 0 { // keep the slow all-fail case rare
			j := r.Intn(n)
			in.Base[j], in.Failing[j] = true, false
		}
		out = append(out, in)
	}
	out = append(out, c05GenTimed(r, tier)...)
	// round robin right below the uint32 wrap (counter set directly), pools of 1..6 hosts
	for n := 1; n <= 6; n++ {
		masks := []int{1<<n - 1, 1 << (n - 1), 1, (1<<n - 1) &^ 1}
		for _, mask := range masks {
			pool := make([]c05Host, n)
			for i := range pool {
				pool[i].U = mask>>i&1 == 0
			}
			for d := 0; d <= 2*n; d += 1 + n/3 {
				out = append(out, &c05In{Kind: "rrseq", Pool: pool, Robin: uint32(1<<32 - 1 - d), M: 2 * n})
			}
			out = append(out, &c05In{Kind: "rrseq", Pool: pool, Robin: uint32(r.Intn(1 << 30)), M: 3 * n})
		}
	}
	// own random stream for the kinds below: the cases above do not depend on how many are drawn
	rs := NewRand(r.U64())
	nConc, nBlocks := 24, 120
	nMid, nSeq := 48, 60
	if tier == "thorough" {
		nConc, nBlocks = 240, 1200
		nMid, nSeq = 480, 600
	}
	rq := NewRand(r.U64())
	for i := 0; i < nMid; i++ {
		out = append(out, &c05In{Kind: "retrymid", Mid: c04GenRetryBody(rq, i)})
	}
	for i := 0; i < nSeq; i++ {
		out = append(out, c05GenRetrySeq(rq, i))
	}
	for i := 0; i < nBlocks; i++ {
		out = append(out, c05GenRRBlocks(rs, i))
	}
	// the child-process cases are spread over the list, so that they land in different Coq shards
	step := len(out) / (nConc + 1)
	for i := 0; i < nConc; i++ {
		c := c05GenRetryConc(rs, i)
		at := (i + 1) * step
		out = append(out[:at], append([]interface{}{c}, out[at:]...)...)
	}
	return out
}

func (r *Rand) Pick2(xs ...int) int { return xs[r.Intn(len(xs))] }

func init() {
	register(&Property{
		ID: "C05", Imports: "V.Lib V.C05_Model", Judge: "judge",
		Rule: "exhaustive pools (size<=5 quick, <=8 thorough) x every availability vector x every policy x keys covering every hash residue, plus random pools/states through the exported policy types and through staticUpstream.Select (parsed proxy block), plus Proxy.ServeHTTP retry runs against loopback backends with scripted failures; retryconc: concurrent schedules in a child process (GOMAXPROCS/GC pinned) - requests with unique body patterns through one proxy with 2-3 hosts, try_duration and fail_timeout > 0, first attempts failing after the body was read, and between a failure and its retry other responses are relayed through the pooled buffers and LATE requests start and buffer their bodies: every attempt's body bytes are judged against the request's own pattern; rrblocks: 2-4 `policy round_robin` blocks parsed from one text and served alternately through Proxy.ServeHTTP, fairness judged per block; retrymid: one request whose first attempts reach backends that read k body bytes and die (scripted and real transport), every attempt judged on its bytes and its announced Content-Length; retryseq: 2-5 requests over time through one proxy with scripts that continue across requests, Fails of every host read at the start and end of every request and after the last one; non-trivial = a backend died with 0 < k < len bytes read / a sequence of >= 2 requests with a failed forward / some but not all hosts available / a retry with at least one failing available host / a concurrent schedule with >= 2 requests one of which retries a non-empty body / >= 2 blocks with >= 2 available hosts and >= 4 requests",
		Gen:    c05Gen,
		Decode: func(raw json.RawMessage) (interface{}, error) { in := &c05In{}; return in, json.Unmarshal(raw, in) },
		Run:    c05Run,
	})
}
