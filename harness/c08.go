package main

// C08 — a failed load or reload leaves nothing behind.
//
// Every case is a HISTORY of attempts (load = casket.LoadCasketfile + casket.Start, validate =
// casket.ValidateAndExecuteDirectives(justValidate), execute = the same with justValidate=false on an
// instance made by the VerifNewInstance hook, reload = Instance.Restart, sigusr1 = a real SIGUSR1
// through casket.TrapSignals and a registered Casketfile loader that reads a file) and environment changes
// (htpasswd file rewritten) that is executed IN-PROCESS in a fresh child process of the harness binary, on
// loopback (127.0.0.N:0).  Fault kinds: parse errors, bad directive arguments at four places of the directive
// order, htpasswd files, failing startup callbacks, ports in use, the Casketfile being unloadable at that
// moment (removed / unreadable / loader returning an error - for sigusr1: "the loader fails at signal time"),
// and a plugin directive whose setup panics during a reload (contained by Restart).  After every step the
// child records the process-global observables: result class and latency, len(casket.Instances()),
// casket.ListPlugins()["event_hooks"], which of these hooks run when the events are emitted, the process's
// LISTEN sockets (/proc/self/net/tcp{,6} joined with the fd table), the responses of every running site
// (marker header, basic-auth behaviour, log-roller behaviour), and which configurations' proxy health-check
// workers are probing a loopback backend.  Each history is run twice: as it is, and with the attempts on
// invalid configurations erased ("what a process that never saw the failures does").  The Coq side evaluates
// the faithful model on the same history (correspondence) and an executable statement of the property on the
// observations alone (frame of every failed attempt; valid => ok in bounded time; every surviving step
// indistinguishable from the failure-free run).

import (
	"bufio"
	"bytes"
	"context"
	"encoding/base64"
	"encoding/json"
	"fmt"
	"io"
	"log"
	"net"
	"net/http"
	"os"
	"os/exec"
	"os/signal"
	"path/filepath"
	"regexp"
	"runtime/debug"
	"sort"
	"strconv"
	"strings"
	"sync"
	"sync/atomic"
	"syscall"
	"time"

	"github.com/tmpim/casket"
	"github.com/tmpim/casket/caskethttp/httpserver"
)

// ---------------------------------------------------------------------------------------------
// case description

type c08Eff struct {
	K    string `json:"k"`              // bad | on | log | auth | proxy (with a health check of the loopback backend)
	N    int    `json:"n,omitempty"`    // on: number of hooks; bad: 0 early (timeouts) 1 mid (gzip) 2 late (redir) 3 a bad `on` line 4 after proxy (markdown)
	F    int    `json:"f,omitempty"`    // log / htpasswd file id
	U    int    `json:"u,omitempty"`    // auth: user id
	Size int    `json:"size,omitempty"` // log: rotate_size in MB
	OK   bool   `json:"ok,omitempty"`   // log: startup callback can open the file
	Via  string `json:"via,omitempty"`  // log with !OK: which startup callback fails: "" the one of `log` (output file in a missing directory), "errors" the one of `errors` (same), "plugin" an OnStartup callback of a plugin directive, "plugin-first" an OnFirstStartup callback of a plugin directive (runs for a load only: the line is inert in every other mode)
}

// c08Inert: the effect plays no part in an attempt of this mode (an OnFirstStartup callback is run by casket.Start only)
func c08Inert(mode string, e *c08Eff) bool {
	return e.K == "log" && !e.OK && e.Via == "plugin-first" && mode != "load"
}

type c08Cfg struct {
	ID    int      `json:"id"`
	Parse string   `json:"parse,omitempty"` // "", syntax, unknown, import, loader-gone | loader-unreadable | loader-error (the Casketfile cannot be loaded at that moment)
	Panic bool     `json:"panic,omitempty"` // reload / sigusr1 only: a plugin directive executed after all the others panics in its setup
	Effs  []c08Eff `json:"effs"`            // in directive execution order
	Addrs []int    `json:"addrs"`           // 1..3 = 127.0.0.N:0 ; 9 = a port held by someone else
}

type c08Ht struct {
	Present bool     `json:"present"`
	Users   [][2]int `json:"users,omitempty"`   // (user, password version): the entries in front of the damaged line (all of them when there is none)
	Bad     bool     `json:"bad,omitempty"`     // a line the parser rejects, after Users
	BadKind int      `json:"badkind,omitempty"` // 0 a line without separator, 1 an entry with a bcrypt hash (the parser of that format returns an error), 2 an entry with a {SHA} hash that is not base64
	After   [][2]int `json:"after,omitempty"`   // entries behind the damaged line (never read)
}

type c08Op struct {
	Kind string  `json:"kind"` // load | validate | reload | sigusr1 | write
	Cfg  *c08Cfg `json:"cfg,omitempty"`
	F    int     `json:"f,omitempty"`
	Ht   *c08Ht  `json:"ht,omitempty"`
	Roll bool    `json:"roll,omitempty"` // run the log-roller probe after this step
	Skip bool    `json:"skip,omitempty"` // (set by the runner) erased in the reference run
}

type c08In struct {
	Name  string           `json:"name,omitempty"`
	Files map[string]c08Ht `json:"files,omitempty"` // initial htpasswd files by id
	Ops   []c08Op          `json:"ops"`
	Lite  bool             `json:"lite,omitempty"` // (set by the runner) results and error classes only: nothing is observed between the steps
	Ov    *c08Ov           `json:"ov,omitempty"`   // attempts that overlap in time (c08ov.go); Ops is empty then
	Q     *c08Q            `json:"q,omitempty"`    // a history in a process with the QUIC flag on (c08q.go); Ops is empty then
}

// c08Fresh: what the same attempt does in a process that ran the history without the attempts on invalid
// configurations before it ("a process that did not see the earlier failures")
type c08Fresh struct {
	Res int    `json:"res"`
	EC  string `json:"ec,omitempty"`
	Err string `json:"err,omitempty"`
}

var c08ECCode = map[string]int{"": 0, "panic": 1, "loader": 2, "auth-user": 3, "auth-parse": 4, "auth-open": 5, "listen": 6, "startup": 7, "other": 8}

// observation after one step
type c08Obs struct {
	Res   int      `json:"res"` // 0 ok 1 error 2 panic/crash 3 hang 4 not run (no instance to reload)
	Ms    int64    `json:"ms"`
	Err   string   `json:"err,omitempty"`
	EC    string   `json:"ec,omitempty"`   // class of the error message
	Proc  string   `json:"proc,omitempty"` // set when /proc/self/net/tcp{,6} disagrees with the fd table
	NInst int      `json:"ninst"`
	Hooks []int    `json:"hooks"` // birth step of every registered hook, sorted
	Socks []uint64 `json:"socks"` // inodes of the process's LISTEN sockets, sorted
	Fds   int      `json:"fds"`   // file descriptors referring to them
	Sites [][]int  `json:"sites"` // per instance, the marker answered by each of its servers, sorted
	Auth  [][]int  `json:"auth"`  // per instance: status class without / with password 1 / with password 2
	Roll  int      `json:"roll"`  // 0 not probed, 1 no rotation, 2 rotated
	Fired []int    `json:"fired"` // birth step of every hook that ran when the three events were emitted, sorted
	Probe []int    `json:"probe"` // steps whose proxy health-check workers probed the loopback backend after this step, sorted
	Ids   []int    `json:"ids"`   // casket.Instances() in list order: the configuration each instance was made from (marker in its Casketfile; 0 = none)
}

const c08ChildTimeout = 90 * time.Second

// watchdog of one attempt: generous (the machine may be starved), but once several histories of a run
// have hung the remaining ones are not given the full time again
var c08OpTimeout = 8 * time.Second
var c08Hangs int32

// ---------------------------------------------------------------------------------------------
// validity of a configuration in an environment (mirrors C08_Model.cfg_valid; Coq recomputes it)

func c08HtOK(h c08Ht, u int) bool {
	if !h.Present || h.Bad {
		return false
	}
	for _, x := range h.Users {
		if x[0] == u {
			return true
		}
	}
	return false
}

func c08Valid(mode string, c *c08Cfg, env map[int]c08Ht) bool {
	if c.Parse != "" || c.Panic {
		return false
	}
	if !c08DirectivesOnly(mode) {
		// a validation stops after the directives: it never runs startup callbacks or listens
		if len(c.Addrs) == 0 {
			return false
		}
		for _, a := range c.Addrs {
			if a == 9 {
				return false
			}
		}
	}
	for _, e := range c.Effs {
		switch e.K {
		case "bad":
			return false
		case "log":
			if !e.OK && !c08DirectivesOnly(mode) && !c08Inert(mode, &e) {
				return false
			}
		case "auth":
			if !c08HtOK(env[e.F], e.U) {
				return false
			}
		}
	}
	return true
}

func c08EnvOf(in *c08In) map[int]c08Ht {
	env := map[int]c08Ht{}
	for k, v := range in.Files {
		n, _ := strconv.Atoi(k)
		env[n] = v
	}
	return env
}

// ---------------------------------------------------------------------------------------------
// child: executes one history in this (fresh) process

type c08Child struct {
	dir      string
	busy     net.Listener
	busyPort int
	busyIno  uint64
	logbuf   *c08LogBuf
	curMu    sync.Mutex
	names    map[string]int // hook name -> birth step
	trapAt   time.Time
	// the loopback backend the proxy directives of the configurations point to; it counts the health probes
	backend     net.Listener
	backendPort int
	ownInos     map[uint64]bool // LISTEN sockets of the harness itself (port blocker, backend)
	probeMu     sync.Mutex
	probes      map[int]int // step of the configuration (from the probe path) -> probes seen
	loaderErr   bool        // the registered Casketfile loader returns an error
	// QUIC histories (c08q.go): a port whose UDP side is held by the harness while its TCP side is free
	udpHold *net.UDPConn
	udpPort int
}

func (ch *c08Child) casketfilePath() string { return filepath.Join(ch.dir, "Casketfile") }

const c08ProbeInterval = 25 * time.Millisecond

// startBackend: a loopback HTTP server standing for the backend of every `proxy` line; a health probe of the
// configuration attempted in step s asks for /hc-s<s>.
func (ch *c08Child) startBackend() error {
	ln, err := net.Listen("tcp", "127.0.0.1:0")
	if err != nil {
		return err
	}
	ch.backend = ln
	ch.backendPort = ln.Addr().(*net.TCPAddr).Port
	ch.ownInos[c08ListenerIno(ln)] = true
	ch.probes = map[int]int{}
	go http.Serve(ln, http.HandlerFunc(func(w http.ResponseWriter, r *http.Request) {
		if strings.HasPrefix(r.URL.Path, "/hc-s") {
			if n, err := strconv.Atoi(r.URL.Path[5:]); err == nil {
				ch.probeMu.Lock()
				ch.probes[n]++
				ch.probeMu.Unlock()
			}
		}
		w.WriteHeader(200)
	}))
	return nil
}

func c08ListenerIno(ln net.Listener) uint64 {
	var ino uint64
	if f, err := ln.(*net.TCPListener).File(); err == nil {
		var st syscall.Stat_t
		if syscall.Fstat(int(f.Fd()), &st) == nil {
			ino = st.Ino
		}
		f.Close()
	}
	return ino
}

// probing: which configurations' health-check workers are alive now. In-flight probes of a worker that was
// just stopped are let through first; then the backend is watched for several probe intervals.
func (ch *c08Child) probing() []int {
	out := []int{}
	if ch.backend == nil {
		return out
	}
	time.Sleep(2 * c08ProbeInterval)
	ch.probeMu.Lock()
	ch.probes = map[int]int{}
	ch.probeMu.Unlock()
	time.Sleep(5 * c08ProbeInterval)
	ch.probeMu.Lock()
	for s := range ch.probes {
		out = append(out, s)
	}
	ch.probeMu.Unlock()
	sort.Ints(out)
	return out
}

var c08FiredRe = regexp.MustCompile(`Command "/bin/true [^"]*" with ID ([0-9a-f-]+)`)

// fired emits the three events `on` knows and reports which registered hooks ran (by birth step).
func (ch *c08Child) fired() []int {
	out := []int{}
	mark := ch.logbuf.Len()
	casket.EmitEvent(casket.InstanceStartupEvent, nil)
	casket.EmitEvent(casket.ShutdownEvent, nil)
	casket.EmitEvent(casket.CertRenewEvent, nil)
	for _, m := range c08FiredRe.FindAllStringSubmatch(ch.logbuf.From(mark), -1) {
		if b, ok := ch.names["on-"+m[1]]; ok {
			out = append(out, b)
		} else {
			out = append(out, 999) // a hook that is not in the registry ran
		}
	}
	sort.Ints(out)
	return out
}

type c08LogBuf struct {
	mu  sync.Mutex
	buf bytes.Buffer
}

func (l *c08LogBuf) Write(p []byte) (int, error) {
	l.mu.Lock()
	defer l.mu.Unlock()
	return l.buf.Write(p)
}
func (l *c08LogBuf) Len() int { l.mu.Lock(); defer l.mu.Unlock(); return l.buf.Len() }
func (l *c08LogBuf) From(n int) string {
	l.mu.Lock()
	defer l.mu.Unlock()
	b := l.buf.Bytes()
	if n > len(b) {
		return ""
	}
	return string(b[n:])
}

func (ch *c08Child) htPath(f int) string  { return filepath.Join(ch.dir, fmt.Sprintf("ht%d", f)) }
func (ch *c08Child) logPath(f int) string { return filepath.Join(ch.dir, fmt.Sprintf("log%d.log", f)) }

func (ch *c08Child) writeHt(f int, h c08Ht) {
	p := ch.htPath(f)
	if !h.Present {
		os.Remove(p)
		return
	}
	var sb strings.Builder
	sb.WriteString("# htpasswd\n")
	for _, u := range h.Users {
		fmt.Fprintf(&sb, "u%d:pw%d\n", u[0], u[1])
	}
	if h.Bad {
		switch h.BadKind {
		case 1:
			sb.WriteString("u7:$2y$05$c4WoMPo3SXsafkva.HHa6uXQZWr7oboPiC2bT/r7q1BB8I2s0BRqC\n")
		case 2:
			sb.WriteString("u7:{SHA}this is not base64!\n")
		default:
			sb.WriteString("this line has no separator\n")
		}
	}
	for _, u := range h.After {
		fmt.Fprintf(&sb, "u%d:pw%d\n", u[0], u[1])
	}
	before, errB := os.Stat(p)
	os.WriteFile(p, []byte(sb.String()), 0o644)
	// a rewritten file is a new version of the file: it never keeps both the modification time and the
	// size of the old one (two writes within one tick of a coarse file-system clock would)
	if after, err := os.Stat(p); errB == nil && err == nil && after.Size() == before.Size() && after.ModTime().Equal(before.ModTime()) {
		os.Chtimes(p, time.Now(), before.ModTime().Add(time.Millisecond))
	}
}

var c08Events = []string{"startup", "shutdown", "certrenew"}

// render writes the Casketfile text of an abstract configuration. Lines are emitted in an order
// derived from the id (file order is irrelevant to execution order, C09).
func (ch *c08Child) render(c *c08Cfg, step int) string {
	var text strings.Builder
	for bi, a := range c.Addrs {
		key, bind := fmt.Sprintf("127.0.0.%d:0", a), fmt.Sprintf("127.0.0.%d", a)
		if a == 9 {
			key, bind = fmt.Sprintf("127.0.0.1:%d", ch.busyPort), "127.0.0.1"
		}
		if a == 8 {
			key, bind = fmt.Sprintf("127.0.0.1:%d", ch.udpPort), "127.0.0.1"
		}
		lines := []string{
			"root " + filepath.Join(ch.dir, "root"),
			"bind " + bind,
			fmt.Sprintf("header / X-Cfg c%d", c.ID),
		}
		for _, e := range c.Effs {
			if bi > 0 && e.K != "auth" {
				continue // process-global effects are configured in the first server block only
			}
			switch e.K {
			case "bad":
				switch e.N {
				case 0:
					lines = append(lines, "timeouts bogus")
				case 1:
					lines = append(lines, "gzip {\n\t\tbogus_subdirective\n\t}")
				case 4:
					lines = append(lines, "markdown /md {\n\t\tbogus_subdirective\n\t}")
				case 3:
					// a bad line of the `on` directive after good ones: the directive registers nothing
					lines = append(lines, fmt.Sprintf("on startup /bin/true c%d-a", c.ID), fmt.Sprintf("on shutdown /bin/true c%d-b", c.ID),
						fmt.Sprintf("on no-such-event /bin/true c%d-c", c.ID))
				default:
					lines = append(lines, "redir / /elsewhere 999")
				}
			case "on":
				for i := 0; i < e.N; i++ {
					lines = append(lines, fmt.Sprintf("on %s /bin/true c%d-%d", c08Events[i%3], c.ID, i))
				}
			case "log":
				p := ch.logPath(e.F)
				if !e.OK {
					p = filepath.Join(ch.dir, "missing-dir", "x.log")
					switch e.Via {
					case "errors":
						lines = append(lines, "errors "+filepath.Join(ch.dir, "missing-dir", "e.log"))
						continue
					case "plugin":
						lines = append(lines, "c08startup")
						continue
					case "plugin-first":
						lines = append(lines, "c08startup first")
						continue
					}
				}
				lines = append(lines, fmt.Sprintf("log / %s \"{>X-Pad}\" {\n\t\trotate_size %d\n\t}", p, e.Size))
			case "auth":
				lines = append(lines, fmt.Sprintf("basicauth / u%d htpasswd=../ht%d", e.U, e.F))
			case "proxy":
				lines = append(lines, fmt.Sprintf("proxy /api 127.0.0.1:%d {\n\t\thealth_check /hc-s%d\n\t\thealth_check_interval %s\n\t\thealth_check_timeout 2s\n\t}",
					ch.backendPort, step, c08ProbeInterval))
			}
		}
		if bi == 0 && c.Panic {
			lines = append(lines, "c08panic")
		}
		if bi == 0 && c.Parse == "unknown" {
			lines = append(lines, "frobnicate everything")
		}
		if bi == 0 && c.Parse == "import" {
			lines = append(lines, "import "+filepath.Join(ch.dir, "no-such-file.conf"))
		}
		// rotate the lines by the id so that file order differs from execution order
		k := c.ID % len(lines)
		var logs []string
		for _, l := range lines {
			if strings.HasPrefix(l, "log ") {
				logs = append(logs, l)
			}
		}
		lines = append(lines[k:], lines[:k]...)
		// ... but the lines of ONE directive keep their order (their startup callbacks run in file order)
		for i, l := range lines {
			if strings.HasPrefix(l, "log ") {
				lines[i], logs = logs[0], logs[1:]
			}
		}
		text.WriteString(key + " {\n\t" + strings.Join(lines, "\n\t") + "\n}\n")
	}
	out := text.String()
	if c.Parse == "syntax" {
		// the closing brace of the last server block is missing (the parser accepts that when the last
		// token happens to be the "}" of a sub-block, so a plain directive is made the last line)
		out = strings.TrimSuffix(out, "}\n") + "\theader / X-End 1\n"
	}
	return out
}

func (ch *c08Child) input(text string) casket.Input {
	return casket.CasketfileInput{Contents: []byte(text), Filepath: filepath.Join(ch.dir, "Casketfile"), ServerTypeName: "http"}
}

// listenSockets returns the inodes of the LISTEN sockets this process holds descriptors for (without the
// harness's own port blocker) and the number of descriptors referring to them: every entry of the fd table
// that is a stream socket in the listening state (SO_ACCEPTCONN).
func (ch *c08Child) listenSockets() ([]uint64, int) {
	seen := map[uint64]bool{}
	var inos []uint64
	fds := 0
	ents, _ := os.ReadDir("/proc/self/fd")
	for _, e := range ents {
		fd, err := strconv.Atoi(e.Name())
		if err != nil {
			continue
		}
		l, err := os.Readlink("/proc/self/fd/" + e.Name())
		if err != nil || !strings.HasPrefix(l, "socket:[") {
			continue
		}
		ino, _ := strconv.ParseUint(strings.TrimSuffix(strings.TrimPrefix(l, "socket:["), "]"), 10, 64)
		if ch.ownInos[ino] {
			continue
		}
		if v, err := syscall.GetsockoptInt(fd, syscall.SOL_SOCKET, syscall.SO_ACCEPTCONN); err != nil || v == 0 {
			continue
		}
		if t, err := syscall.GetsockoptInt(fd, syscall.SOL_SOCKET, syscall.SO_TYPE); err != nil || t != syscall.SOCK_STREAM {
			continue
		}
		fds++
		if !seen[ino] {
			seen[ino] = true
			inos = append(inos, ino)
		}
	}
	sort.Slice(inos, func(i, j int) bool { return inos[i] < inos[j] })
	return inos, fds
}

// procNetListen is the same set as the kernel reports it in /proc/self/net/tcp{,6} (state 0A) restricted to
// the sockets of this process; read once per history (the tables hold every TIME_WAIT socket of the machine).
func (ch *c08Child) procNetListen() []uint64 {
	own := map[uint64]bool{}
	ents, _ := os.ReadDir("/proc/self/fd")
	for _, e := range ents {
		l, err := os.Readlink("/proc/self/fd/" + e.Name())
		if err != nil || !strings.HasPrefix(l, "socket:[") {
			continue
		}
		n, _ := strconv.ParseUint(strings.TrimSuffix(strings.TrimPrefix(l, "socket:["), "]"), 10, 64)
		own[n] = true
	}
	inos := []uint64{}
	for _, f := range []string{"/proc/self/net/tcp", "/proc/self/net/tcp6"} {
		b, err := os.ReadFile(f)
		if err != nil {
			continue
		}
		for i, line := range strings.Split(string(b), "\n") {
			if i == 0 || !strings.Contains(line, " 0A ") {
				continue
			}
			fs := strings.Fields(line)
			if len(fs) < 10 || fs[3] != "0A" {
				continue
			}
			ino, _ := strconv.ParseUint(fs[9], 10, 64)
			if own[ino] && !ch.ownInos[ino] {
				inos = append(inos, ino)
			}
		}
	}
	sort.Slice(inos, func(i, j int) bool { return inos[i] < inos[j] })
	return inos
}

func c08Get(addr string, hdr map[string]string) (int, string) {
	st, mark := c08GetOnce(addr, hdr)
	if st == 0 {
		st, mark = c08GetOnce(addr, hdr) // a starved machine is not a dead site: ask twice
	}
	return st, mark
}

func c08GetOnce(addr string, hdr map[string]string) (int, string) {
	conn, err := net.DialTimeout("tcp", addr, 3*time.Second)
	if err != nil {
		return 0, ""
	}
	defer conn.Close()
	conn.SetDeadline(time.Now().Add(5 * time.Second))
	var sb bytes.Buffer
	fmt.Fprintf(&sb, "GET / HTTP/1.1\r\nHost: %s\r\n", addr)
	for k, v := range hdr {
		fmt.Fprintf(&sb, "%s: %s\r\n", k, v)
	}
	sb.WriteString("Connection: close\r\n\r\n")
	if _, err := conn.Write(sb.Bytes()); err != nil {
		return 0, ""
	}
	resp, err := http.ReadResponse(bufio.NewReader(conn), nil)
	if err != nil {
		return 0, ""
	}
	io.Copy(io.Discard, resp.Body)
	resp.Body.Close()
	return resp.StatusCode, resp.Header.Get("X-Cfg")
}

func c08StatusClass(st int) int {
	switch {
	case st == 0:
		return 0
	case st >= 200 && st < 300:
		return 2
	case st == 401:
		return 4
	}
	return 9
}

func c08Basic(u, pw string) map[string]string {
	return map[string]string{"Authorization": "Basic " + base64.StdEncoding.EncodeToString([]byte(u+":"+pw))}
}

// authUser of the configuration an instance was started from (recovered from its Casketfile text)
var c08AuthRe = regexp.MustCompile(`basicauth / (u\d+) `)

// the configuration an instance was made from (the marker header of its Casketfile)
var c08CfgRe = regexp.MustCompile(`header / X-Cfg c(\d+)`)

func (ch *c08Child) observe(step int, o *c08Obs) {
	insts := casket.Instances()
	o.NInst = len(insts)
	// hooks
	names := casket.ListPlugins()["event_hooks"]
	o.Hooks = []int{}
	for _, n := range names {
		b, ok := ch.names[n]
		if !ok {
			b = step
			ch.names[n] = b
		}
		o.Hooks = append(o.Hooks, b)
	}
	sort.Ints(o.Hooks)
	o.Socks, o.Fds = ch.listenSockets()
	if o.Socks == nil {
		o.Socks = []uint64{}
	}
	o.Sites = [][]int{}
	o.Auth = [][]int{}
	o.Ids = []int{}
	for _, inst := range insts {
		ms := []int{}
		au := []int{0, 0, 0}
		user := "u1"
		id := 0
		if inst.Casketfile() != nil {
			if m := c08CfgRe.FindStringSubmatch(string(inst.Casketfile().Body())); m != nil {
				id, _ = strconv.Atoi(m[1])
			}
		}
		o.Ids = append(o.Ids, id)
		if inst.Casketfile() != nil {
			if m := c08AuthRe.FindStringSubmatch(string(inst.Casketfile().Body())); m != nil {
				user = m[1]
			}
		}
		for k, s := range inst.Servers() {
			if s.Addr() == nil {
				ms = append(ms, 0)
				continue
			}
			addr := s.Addr().String()
			st, mark := c08Get(addr, c08Basic(user, "pw1"))
			m := 0
			if st != 0 {
				m = 999
				if strings.HasPrefix(mark, "c") {
					if n, err := strconv.Atoi(mark[1:]); err == nil {
						m = n
					}
				}
			}
			ms = append(ms, m)
			if k == 0 {
				au[1] = c08StatusClass(st)
				st0, _ := c08Get(addr, nil)
				au[0] = c08StatusClass(st0)
				st2, _ := c08Get(addr, c08Basic(user, "pw2"))
				au[2] = c08StatusClass(st2)
			}
		}
		sort.Ints(ms)
		o.Sites = append(o.Sites, ms)
		o.Auth = append(o.Auth, au)
	}
	o.Fired = ch.fired()
	o.Probe = ch.probing()
}

// rollProbe writes a little more than 1 MB of access-log lines through the newest instance and reports
// whether the log file was rotated.
func (ch *c08Child) rollProbe(c *c08Cfg) int {
	insts := casket.Instances()
	if len(insts) == 0 {
		return 0
	}
	inst := insts[len(insts)-1]
	if len(inst.Servers()) == 0 || len(c.Addrs) == 0 {
		return 0
	}
	f := -1
	for _, e := range c.Effs {
		if e.K == "log" {
			f = e.F
		}
	}
	if f < 0 {
		return 0
	}
	// the log directive is configured in the first server block: write through that site
	addr := ""
	for _, sv := range inst.Servers() {
		if sv.Addr() != nil && strings.HasPrefix(sv.Addr().String(), fmt.Sprintf("127.0.0.%d:", c.Addrs[0])) {
			addr = sv.Addr().String()
		}
	}
	if addr == "" {
		return 0
	}
	pad := strings.Repeat("p", 120*1024)
	user := "u1"
	if m := c08AuthRe.FindStringSubmatch(string(inst.Casketfile().Body())); m != nil {
		user = m[1]
	}
	for i := 0; i < 10; i++ {
		h := c08Basic(user, "pw1")
		h["X-Pad"] = pad
		c08Get(addr, h)
	}
	m, _ := filepath.Glob(filepath.Join(ch.dir, fmt.Sprintf("log%d-*", f)))
	if len(m) > 0 {
		return 2
	}
	return 1
}

func c08ErrString(err error) string {
	s := err.Error()
	if len(s) > 400 {
		s = s[:400]
	}
	return s
}

func c08MsgClass(e string) string {
	switch {
	case strings.Contains(e, "panic contained"):
		return "panic"
	case strings.Contains(e, "loading updated Casketfile") || strings.Contains(e, "loading Casketfile"):
		return "loader"
	case strings.Contains(e, "not found in"):
		return "auth-user"
	case strings.Contains(e, "Get password matcher") && strings.Contains(e, "parsing htpasswd"):
		return "auth-parse"
	case strings.Contains(e, "Get password matcher"):
		return "auth-open"
	case strings.Contains(e, "address already in use"):
		return "listen"
	case strings.Contains(e, "no such file or directory") || strings.Contains(e, "c08: startup callback"):
		return "startup"
	}
	return "other"
}

// attempt runs one attempt under a watchdog; res 3 = did not return.
func (ch *c08Child) attempt(op *c08Op, step int) (int, string) {
	text := ch.render(op.Cfg, step)
	// the Casketfile the registered loader reads; a loader fault makes it unloadable at this moment
	ch.curMu.Lock()
	ch.loaderErr = false
	os.RemoveAll(ch.casketfilePath())
	switch op.Cfg.Parse {
	case "loader-gone":
	case "loader-unreadable":
		if os.Geteuid() == 0 {
			os.Mkdir(ch.casketfilePath(), 0o755) // reading a directory fails for root too
		} else {
			os.WriteFile(ch.casketfilePath(), []byte(text), 0o000)
		}
	case "loader-error":
		os.WriteFile(ch.casketfilePath(), []byte(text), 0o644)
		ch.loaderErr = true
	default:
		os.WriteFile(ch.casketfilePath(), []byte(text), 0o644)
	}
	ch.curMu.Unlock()
	loaderFault := strings.HasPrefix(op.Cfg.Parse, "loader-")
	// input: what the caller of the API hands over; with a loader fault it asks the loader first, as casketmain does
	input := func() (casket.Input, error) {
		if loaderFault {
			return casket.LoadCasketfile("http")
		}
		return ch.input(text), nil
	}
	type rr struct {
		res int
		err string
	}
	done := make(chan rr, 1)
	go func() {
		defer func() {
			if r := recover(); r != nil {
				done <- rr{2, fmt.Sprint(r)}
			}
		}()
		var err error
		switch op.Kind {
		case "load":
			var in casket.Input
			in, err = casket.LoadCasketfile("http")
			if err == nil {
				_, err = casket.Start(in)
			}
		case "validate":
			var in casket.Input
			if in, err = input(); err == nil {
				err = casket.ValidateAndExecuteDirectives(in, nil, true)
			}
		case "execute":
			var in casket.Input
			if in, err = input(); err == nil {
				err = casket.ValidateAndExecuteDirectives(in, casket.VerifNewInstance("http"), false)
			}
		case "reload":
			insts := casket.Instances()
			if len(insts) == 0 {
				done <- rr{4, "no instance"}
				return
			}
			var in casket.Input
			if in, err = input(); err == nil {
				var ni *casket.Instance
				ni, err = insts[0].Restart(in)
				if err == nil && ni == nil {
					err = fmt.Errorf("panic contained in Restart: it returned (nil, nil)")
				}
			}
		case "sigusr1":
			if len(casket.Instances()) == 0 {
				done <- rr{4, "no instance"}
				return
			}
			if d := time.Until(ch.trapAt.Add(120 * time.Millisecond)); d > 0 {
				time.Sleep(d) // let the handler goroutine install signal.Notify
			}
			mark := ch.logbuf.Len()
			syscall.Kill(os.Getpid(), syscall.SIGUSR1)
			sent := time.Now()
			for {
				s := ch.logbuf.From(mark)
				if !strings.Contains(s, "SIGUSR1: Reloading") && time.Since(sent) > 1200*time.Millisecond {
					// the handler goroutine had not installed signal.Notify yet: the signal was lost
					syscall.Kill(os.Getpid(), syscall.SIGUSR1)
					sent = time.Now()
				}
				if i := strings.Index(s, "[ERROR] SIGUSR1:"); i >= 0 && strings.Contains(s[i:], "\n") {
					line := s[i:]
					line = line[:strings.Index(line, "\n")]
					done <- rr{1, c08ErrString(fmt.Errorf("%s", line))}
					return
				}
				if i := strings.Index(s, "[PANIC] Restart:"); i >= 0 && strings.Contains(s[i:], "\n") {
					time.Sleep(5 * time.Millisecond)
					done <- rr{1, "panic contained in Restart (SIGUSR1): " + c08ErrString(fmt.Errorf("%s", strings.SplitN(s[i:], "\n", 2)[0]))}
					return
				}
				if strings.Contains(s, "[INFO] Reloading complete") {
					time.Sleep(5 * time.Millisecond)
					done <- rr{0, ""}
					return
				}
				time.Sleep(2 * time.Millisecond)
			}
		}
		if err != nil {
			done <- rr{1, c08ErrString(err)}
		} else {
			done <- rr{0, ""}
		}
	}()
	select {
	case r := <-done:
		return r.res, r.err
	case <-time.After(c08OpTimeout):
		return 3, "watchdog: attempt did not return"
	}
}

func c08ChildMain(args []string) int {
	debug.SetGCPercent(-1) // finalizers must not close leaked sockets behind the observer's back
	var in c08In
	data, err := io.ReadAll(os.Stdin)
	if err == nil {
		err = json.Unmarshal(data, &in)
	}
	if err != nil || len(args) < 1 {
		fmt.Println(`{"fatal":"bad input"}`)
		return 2
	}
	if len(args) > 1 {
		if ms, err := strconv.Atoi(args[1]); err == nil && ms > 0 {
			c08OpTimeout = time.Duration(ms) * time.Millisecond
		}
	}
	ch := &c08Child{dir: args[0], logbuf: &c08LogBuf{}, names: map[string]int{}, ownInos: map[uint64]bool{}}
	casket.Quiet = true
	log.SetOutput(ch.logbuf)
	os.MkdirAll(filepath.Join(ch.dir, "root"), 0o755)
	os.WriteFile(filepath.Join(ch.dir, "root", "index.html"), []byte("index of the site\n"), 0o644)
	for k, v := range in.Files {
		n, _ := strconv.Atoi(k)
		ch.writeHt(n, v)
	}
	ch.busy, err = net.Listen("tcp", "127.0.0.1:0")
	if err != nil {
		fmt.Println(`{"fatal":"cannot listen"}`)
		return 2
	}
	ch.busyPort = ch.busy.Addr().(*net.TCPAddr).Port
	ch.busyIno = c08ListenerIno(ch.busy)
	ch.ownInos[ch.busyIno] = true
	usesProxy, usesPanic, usesStartup := false, false, false
	for i := range in.Ops {
		if c := in.Ops[i].Cfg; c != nil {
			usesPanic = usesPanic || c.Panic
			for _, e := range c.Effs {
				usesProxy = usesProxy || e.K == "proxy"
				usesStartup = usesStartup || strings.HasPrefix(e.Via, "plugin")
			}
		}
	}
	if usesStartup {
		// a plugin directive whose startup callback (OnStartup, or OnFirstStartup with the argument `first`) fails
		stdout := os.Stdout
		os.Stdout, _ = os.Open(os.DevNull)
		httpserver.RegisterDevDirective("c08startup", "")
		os.Stdout = stdout
		casket.RegisterPlugin("c08startup", casket.Plugin{ServerType: "http", Action: func(c *casket.Controller) error {
			fail := func() error { return fmt.Errorf("c08: startup callback of the plugin refuses to start") }
			for c.Next() {
				if c.NextArg() && c.Val() == "first" {
					c.OnFirstStartup(fail)
				} else {
					c.OnStartup(fail)
				}
			}
			return nil
		}})
	}
	if usesProxy {
		if err := ch.startBackend(); err != nil {
			fmt.Println(`{"fatal":"cannot listen"}`)
			return 2
		}
	}
	if usesPanic {
		// a plugin directive, executed after all the others, whose setup panics
		stdout := os.Stdout // the registration prints a notice
		os.Stdout, _ = os.Open(os.DevNull)
		httpserver.RegisterDevDirective("c08panic", "")
		os.Stdout = stdout
		casket.RegisterPlugin("c08panic", casket.Plugin{ServerType: "http", Action: func(c *casket.Controller) error {
			panic("c08: the setup of this directive panics")
		}})
	}
	// the Casketfile loader: reads the file, like the -conf loader of casketmain
	casket.RegisterCasketfileLoader("c08", casket.LoaderFunc(func(serverType string) (casket.Input, error) {
		ch.curMu.Lock()
		defer ch.curMu.Unlock()
		if ch.loaderErr {
			return nil, fmt.Errorf("the configuration store is not reachable")
		}
		b, err := os.ReadFile(ch.casketfilePath())
		if err != nil {
			return nil, err
		}
		return casket.CasketfileInput{Contents: b, Filepath: ch.casketfilePath(), ServerTypeName: serverType}, nil
	}))
	for i := range in.Ops {
		if in.Ops[i].Kind == "sigusr1" && ch.trapAt.IsZero() {
			guard := make(chan os.Signal, 4) // SIGUSR1 must never take its default (terminating) action
			signal.Notify(guard, syscall.SIGUSR1)
			casket.TrapSignals()
			ch.trapAt = time.Now()
		}
	}
	w := bufio.NewWriter(os.Stdout)
	emit := func(o *c08Obs) {
		b, _ := json.Marshal(o)
		w.Write(b)
		w.WriteByte('\n')
		w.Flush()
	}
	var o0 c08Obs
	if !in.Lite {
		ch.observe(0, &o0)
	}
	emit(&o0)
	for i := range in.Ops {
		op := &in.Ops[i]
		var o c08Obs
		switch {
		case op.Kind == "write":
			ch.writeHt(op.F, *op.Ht)
		case op.Skip:
			o.Res = 5
		default:
			t0 := time.Now()
			o.Res, o.Err = ch.attempt(op, i+1)
			if o.Res == 1 {
				o.EC = c08MsgClass(o.Err)
			}
			o.Ms = time.Since(t0).Milliseconds()
		}
		if in.Lite {
			emit(&o)
			if o.Res == 3 {
				break
			}
			continue
		}
		ch.observe(i+1, &o)
		if op.Roll && o.Res == 0 {
			o.Roll = ch.rollProbe(op.Cfg)
		}
		if i == len(in.Ops)-1 || o.Res == 3 {
			if pn := ch.procNetListen(); !c08EqU64(pn, o.Socks) {
				o.Proc = fmt.Sprintf("fd table %v, /proc/self/net/tcp{,6} %v", o.Socks, pn)
			}
		}
		emit(&o)
		if o.Res == 3 {
			break // the process is wedged: nothing after a hang is meaningful
		}
	}
	return 0
}

// ---------------------------------------------------------------------------------------------
// parent: runs a history in a child process

func c08Scratch() string {
	return fmt.Sprintf("/var/tmp/verif-C08-%d", os.Getpid())
}

var c08Seq struct {
	sync.Mutex
	n int
}

// c08RunChild returns the observations (index 0 = before the first step). Missing trailing entries mean
// the child hung or died; crashed tells which.
func c08RunChild(in *c08In) (obs []c08Obs, crashed string) {
	c08Seq.Lock()
	c08Seq.n++
	dir := filepath.Join(c08Scratch(), fmt.Sprintf("h%d", c08Seq.n))
	c08Seq.Unlock()
	os.MkdirAll(dir, 0o755)
	defer os.RemoveAll(dir)
	data, _ := json.Marshal(in)
	ctx, cancel := context.WithTimeout(context.Background(), c08ChildTimeout)
	defer cancel()
	opMs := 8000
	if atomic.LoadInt32(&c08Hangs) >= 6 {
		opMs = 3000
	}
	cmd := exec.CommandContext(ctx, os.Args[0], "c08child", dir, strconv.Itoa(opMs))
	cmd.Env = append(os.Environ(), "GOMAXPROCS=2")
	cmd.Stdin = bytes.NewReader(data)
	var errb bytes.Buffer
	cmd.Stderr = &errb
	out, err := cmd.Output()
	for _, line := range strings.Split(string(out), "\n") {
		if strings.TrimSpace(line) == "" {
			continue
		}
		var o c08Obs
		if json.Unmarshal([]byte(line), &o) != nil {
			break
		}
		obs = append(obs, o)
	}
	if n := len(obs); n > 0 && obs[n-1].Res == 3 {
		atomic.AddInt32(&c08Hangs, 1)
	}
	if ctx.Err() != nil {
		crashed = "killed by the watchdog"
	} else if err != nil {
		tail := errb.String()
		if len(tail) > 300 {
			tail = tail[len(tail)-300:]
		}
		crashed = "child died: " + err.Error() + " " + tail
	}
	return obs, crashed
}

func init() {
	extraCommands["c08child"] = c08ChildMain
}

// ---------------------------------------------------------------------------------------------
// terms

func c08HtTerm(h c08Ht) string {
	var us []string
	for _, u := range h.Users {
		us = append(us, cPair(cN(uint64(u[0])), cN(uint64(u[1]))))
	}
	var after []string
	for _, u := range h.After {
		after = append(after, cPair(cN(uint64(u[0])), cN(uint64(u[1]))))
	}
	return cApp("Build_htfile", cBool(h.Present), cList(us), cBool(h.Bad), cList(after))
}

func c08CfgTerm(c *c08Cfg, mode string) string {
	pf := map[string]string{"": "PNone", "syntax": "PSyntax", "unknown": "PUnknown", "import": "PImport",
		"loader-gone": "PLoader", "loader-unreadable": "PLoader", "loader-error": "PLoader"}[c.Parse]
	if pf == "" {
		pf = "PSyntax"
	}
	var effs, addrs []string
	firstLog := -1
	for _, e := range c.Effs {
		switch e.K {
		case "bad":
			effs = append(effs, "EBad")
		case "on":
			effs = append(effs, cApp("EOn", cNat(e.N)))
		case "log":
			if c08Inert(mode, &e) {
				continue // an OnFirstStartup callback: not run by this kind of attempt
			}
			t := cApp("ELog", cN(uint64(e.F)), cN(uint64(e.Size)), cBool(e.OK))
			if !e.OK && e.Via == "plugin-first" && firstLog >= 0 {
				// casket.Start runs the OnFirstStartup callbacks before ALL the OnStartup callbacks: the failing
				// one comes before the startup callback of any `log` line (no roller is registered)
				effs = append(effs[:firstLog], append([]string{t}, effs[firstLog:]...)...)
				continue
			}
			if firstLog < 0 {
				firstLog = len(effs)
			}
			effs = append(effs, t)
		case "auth":
			effs = append(effs, cApp("EAuth", cN(uint64(e.F)), cN(uint64(e.U))))
		case "proxy":
			effs = append(effs, "EProxy")
		}
	}
	for _, a := range c.Addrs {
		if a == 9 {
			addrs = append(addrs, "ABusy")
		} else {
			addrs = append(addrs, cApp("AEph", cN(uint64(a))))
		}
	}
	return cApp("Build_cfg", cN(uint64(c.ID)), pf, cList(effs), cList(addrs))
}

var c08ModeTerm = map[string]string{"load": "Load", "validate": "Validate", "reload": "Reload", "sigusr1": "Sigusr1", "execute": "Execute"}

// c08DirectivesOnly: the attempt ends after the directives were executed (no startup callbacks, no listeners)
func c08DirectivesOnly(mode string) bool { return mode == "validate" || mode == "execute" }

func c08OpTerm(op *c08Op) string {
	if op.Kind == "write" {
		return cPair(cApp("OWrite", cN(uint64(op.F)), c08HtTerm(*op.Ht)), "false")
	}
	if op.Cfg.Panic {
		return cPair(cApp("OPanic", cBool(op.Kind == "sigusr1"), c08CfgTerm(op.Cfg, op.Kind)), cBool(op.Roll))
	}
	return cPair(cApp("OAttempt", c08ModeTerm[op.Kind], c08CfgTerm(op.Cfg, op.Kind)), cBool(op.Roll))
}

func c08IntsTerm(xs []int) string {
	it := make([]string, len(xs))
	for i, x := range xs {
		it[i] = cN(uint64(x))
	}
	return cList(it)
}

func c08ObsTerm(o *c08Obs) string {
	var sites, auth []string
	for _, s := range o.Sites {
		sites = append(sites, c08IntsTerm(s))
	}
	for _, s := range o.Auth {
		auth = append(auth, c08IntsTerm(s))
	}
	return cApp("Build_obs", cN(uint64(o.Res)), cBool(o.Ms >= 5000), cN(uint64(o.NInst)), c08IntsTerm(o.Hooks),
		cNList(o.Socks), cN(uint64(o.Fds)), cList(sites), cList(auth), cN(uint64(o.Roll)), c08IntsTerm(o.Fired), c08IntsTerm(o.Probe), c08IntsTerm(o.Ids))
}

// ---------------------------------------------------------------------------------------------
// classification (only used to name the class of a failing case; the verdict is Coq's)

func c08ErrClass(o *c08Obs) string {
	switch {
	case o.Res == 3:
		return "hang"
	case o.Res == 2:
		return "crash"
	case o.Res == 0:
		return "ok"
	case o.Res == 4:
		return "no-instance"
	}
	if o.EC != "" {
		return o.EC
	}
	return c08MsgClass(o.Err)
}

// stage at which the configuration is meant to fail, for the class name
func c08Stage(c *c08Cfg, env map[int]c08Ht, mode string) (stage string, onBefore bool) {
	if strings.HasPrefix(c.Parse, "loader-") {
		return "loader", false
	}
	if c.Parse != "" {
		return "parse", false
	}
	startup := false
	for _, e := range c.Effs {
		switch e.K {
		case "bad":
			return "badarg", onBefore
		case "on":
			if e.N > 0 {
				onBefore = true
			}
		case "log":
			if !e.OK && !c08Inert(mode, &e) {
				startup = true
			}
		case "auth":
			if !c08HtOK(env[e.F], e.U) {
				return "htpasswd", onBefore
			}
		}
	}
	if startup {
		return "startup", onBefore
	}
	busy, others := false, false
	for _, a := range c.Addrs {
		if a == 9 {
			busy = true
		} else {
			others = true
		}
	}
	if busy && others {
		return "listen-after-open", onBefore
	}
	if busy {
		return "listen", onBefore
	}
	if c.Panic {
		return "panic", onBefore
	}
	return "valid", onBefore
}

func c08EqInts(a, b []int) bool {
	if len(a) != len(b) {
		return false
	}
	for i := range a {
		if a[i] != b[i] {
			return false
		}
	}
	return true
}
func c08EqU64(a, b []uint64) bool {
	if len(a) != len(b) {
		return false
	}
	for i := range a {
		if a[i] != b[i] {
			return false
		}
	}
	return true
}
func c08EqII(a, b [][]int) bool {
	if len(a) != len(b) {
		return false
	}
	for i := range a {
		if !c08EqInts(a[i], b[i]) {
			return false
		}
	}
	return true
}

// c08InstsLive: every entry of casket.Instances() is a running instance: it has servers and each of them answers
// with the marker of the configuration the instance was made from
func c08InstsLive(o *c08Obs) bool {
	if len(o.Ids) != o.NInst || len(o.Sites) != o.NInst {
		return false
	}
	for i, ms := range o.Sites {
		if len(ms) == 0 {
			return false
		}
		for _, m := range ms {
			if m != o.Ids[i] {
				return false
			}
		}
	}
	return true
}

// c08Label names the first clause of the property that the observations violate ("pass" if none).
func c08Label(in *c08In, full, ref []c08Obs, fresh []*c08Fresh) string {
	env := c08EnvOf(in)
	// how each htpasswd file was last met by a FAILED attempt (the state the cache may remember)
	touch := map[int]string{}
	touched := func(c *c08Cfg) {
		if c.Parse != "" {
			return
		}
		for _, e := range c.Effs {
			if e.K == "bad" {
				return
			}
			if e.K == "auth" {
				h := env[e.F]
				switch {
				case !h.Present:
					touch[e.F] = "after-missing"
				case h.Bad:
					touch[e.F] = "after-malformed"
				case !c08HtOK(h, e.U):
					touch[e.F] = "after-nouser"
				default:
					touch[e.F] = "after-read"
				}
				if !c08HtOK(h, e.U) {
					return
				}
			}
		}
	}
	cause := func(c *c08Cfg) string {
		for _, e := range c.Effs {
			if e.K == "auth" {
				if t, ok := touch[e.F]; ok {
					return t
				}
			}
		}
		return "untouched"
	}
	if len(full) == 0 {
		return "no-observation"
	}
	for i := range in.Ops {
		op := &in.Ops[i]
		if i+1 >= len(full) {
			return "incomplete:" + op.Kind
		}
		o, prev := &full[i+1], &full[i]
		if op.Kind == "write" {
			env[op.F] = *op.Ht
			continue
		}
		mode := op.Kind
		rmode := mode
		if mode == "reload" || mode == "sigusr1" {
			rmode = "restart"
		}
		stage, onBefore := c08Stage(op.Cfg, env, mode)
		if c08DirectivesOnly(mode) && (stage == "startup" || strings.HasPrefix(stage, "listen")) {
			stage = "valid"
		}
		intended := stage
		if o.Res == 1 {
			// name the stage the attempt actually failed in (a stale htpasswd cache can carry an attempt
			// past the stage its configuration is invalid at)
			switch ec := c08ErrClass(o); {
			case ec == "listen":
				stage = "listen"
				if len(op.Cfg.Addrs) > 1 {
					stage = "listen-after-open"
				}
			case ec == "startup":
				stage = "startup"
			case strings.HasPrefix(ec, "auth"):
				stage = "htpasswd"
			case ec == "panic":
				stage = "panic"
			}
			if stage != intended && op.Cfg.Parse == "" {
				onBefore = false
				for _, e := range op.Cfg.Effs {
					if e.K == "on" && e.N > 0 {
						onBefore = true
					}
				}
			}
		}
		if o.Res == 3 || o.Res == 2 {
			return c08ErrClass(o) + ":" + mode + ":" + stage
		}
		if o.Ms >= 5000 {
			return "slow:" + mode + ":" + stage
		}
		if o.Res != 0 {
			hstage := stage
			if onBefore {
				hstage = "after-on"
			}
			switch {
			case o.NInst != prev.NInst || !c08EqInts(o.Ids, prev.Ids):
				return "frame:instances:" + mode + ":" + stage
			case !c08EqInts(o.Hooks, prev.Hooks):
				return "frame:hooks:" + mode + ":" + hstage
			case !c08EqU64(o.Socks, prev.Socks):
				return "frame:socks:" + rmode + ":" + stage
			case o.Fds != prev.Fds:
				return "frame:fds:" + rmode + ":" + stage
			case !c08EqII(o.Sites, prev.Sites):
				return "frame:sites:" + mode + ":" + stage
			case !c08EqII(o.Auth, prev.Auth):
				return "frame:auth:" + mode + ":" + stage
			case !c08EqInts(o.Fired, prev.Fired):
				return "frame:fired:" + mode + ":" + hstage
			case !c08EqInts(o.Probe, prev.Probe):
				if strings.HasPrefix(stage, "listen") {
					// the workers were started by the startup callbacks and a listener then failed to
					// bind: nothing runs the shutdown callbacks of the discarded instance (F-C08-5f..h)
					return "frame:probers:" + mode + ":after-startup"
				}
				return "frame:probers:" + mode
			}
		}
		if !c08EqInts(o.Fired, o.Hooks) {
			return "hooks-unreachable:" + mode + ":" + stage
		}
		if !c08InstsLive(o) {
			return "dead-instance:" + mode + ":" + stage
		}
		if c08Valid(mode, op.Cfg, env) {
			if i+1 >= len(ref) {
				return "reference-incomplete"
			}
			rf := &ref[i+1]
			switch {
			case o.Res != rf.Res:
				if ec := c08ErrClass(o); strings.HasPrefix(ec, "auth") {
					return "asif:res:" + ec + ":" + cause(op.Cfg)
				}
				return "asif:res:" + c08ErrClass(o)
			case (mode == "load" || c08DirectivesOnly(mode)) && o.Res != 0:
				return "valid-fails:" + mode + ":" + c08ErrClass(o)
			case o.NInst != rf.NInst || !c08EqInts(o.Ids, rf.Ids):
				return "asif:instances"
			case !c08EqInts(o.Hooks, rf.Hooks):
				return "asif:hooks"
			case len(o.Socks) != len(rf.Socks):
				return "asif:socks"
			case o.Fds != rf.Fds:
				return "asif:fds"
			case !c08EqII(o.Sites, rf.Sites):
				return "asif:sites"
			case !c08EqII(o.Auth, rf.Auth):
				return "asif:auth:" + cause(op.Cfg)
			case o.Roll != rf.Roll:
				return "asif:roll"
			case !c08EqInts(o.Fired, rf.Fired):
				return "asif:fired"
			case !c08EqInts(o.Probe, rf.Probe):
				return "asif:probers"
			}
		} else if o.Res == 0 {
			if stage == "htpasswd" {
				return "invalid-accepted:htpasswd-cached"
			}
			return "invalid-accepted:" + mode + ":" + stage
		}
		if i < len(fresh) && fresh[i] != nil {
			// the same attempt in a process that did not see the earlier failures
			fo := c08Obs{Res: fresh[i].Res, EC: fresh[i].EC, Err: fresh[i].Err}
			if now, fr := c08ErrClass(o), c08ErrClass(&fo); now != fr {
				return "retry:" + mode + ":" + intended + ":" + now + "-instead-of-" + fr
			}
		}
		if o.Res != 0 {
			touched(op.Cfg)
		}
	}
	return "pass"
}

// ---------------------------------------------------------------------------------------------
// running one case

func c08Prepare(in *c08In) {
	env := c08EnvOf(in)
	for i := range in.Ops {
		op := &in.Ops[i]
		if op.Kind == "write" {
			env[op.F] = *op.Ht
			continue
		}
		op.Skip = false
		if op.Cfg != nil && op.Kind != "reload" && op.Kind != "sigusr1" {
			op.Cfg.Panic = false // elsewhere a panic of a plugin unwinds into the caller: not an attempt that returns
		}
	}
}

func c08RunOne(in *c08In) Result {
	if in.Q != nil {
		return c08RunQuic(in)
	}
	if in.Ov != nil {
		return c08RunOverlap(in)
	}
	c08Prepare(in)
	full, crashF := c08RunChild(in)
	// the reference run: attempts on invalid configurations never happen
	refIn := c08In{Name: in.Name, Files: in.Files, Ops: make([]c08Op, len(in.Ops))}
	copy(refIn.Ops, in.Ops)
	env := c08EnvOf(in)
	erased := 0
	for i := range refIn.Ops {
		op := &refIn.Ops[i]
		if op.Kind == "write" {
			env[op.F] = *op.Ht
			continue
		}
		if !c08Valid(op.Kind, op.Cfg, env) {
			op.Skip = true
			erased++
		}
	}
	ref, crashR := full, ""
	if erased > 0 || crashF != "" {
		ref, crashR = c08RunChild(&refIn)
	}
	// the fresh-process outcome of every attempt on an invalid configuration that comes after another one: the
	// history up to it without the invalid attempts before it, then the attempt itself
	fresh := make([]*c08Fresh, len(in.Ops))
	seen := 0
	for i := range refIn.Ops {
		if !refIn.Ops[i].Skip {
			continue
		}
		seen++
		if seen < 2 || i+1 >= len(full) {
			continue
		}
		fin := c08In{Name: in.Name, Files: in.Files, Ops: make([]c08Op, i+1), Lite: true}
		copy(fin.Ops, refIn.Ops[:i+1])
		fin.Ops[i].Skip = false
		fo, crash := c08RunChild(&fin)
		switch {
		case len(fo) == i+2:
			fresh[i] = &c08Fresh{Res: fo[i+1].Res, EC: fo[i+1].EC, Err: fo[i+1].Err}
		case crash != "":
			fresh[i] = &c08Fresh{Res: 2, Err: crash}
		default:
			fresh[i] = &c08Fresh{Res: 3, Err: "the fresh process did not get as far as this attempt"}
		}
	}
	// a dead child: the step it died in counts as a crash
	if crashF != "" && len(full) > 0 && len(full) <= len(in.Ops) && full[len(full)-1].Res != 3 {
		dead := full[len(full)-1]
		dead.Res, dead.Err = 2, crashF
		full = append(full, dead)
	}
	if len(full) == 0 || len(ref) == 0 {
		return Result{Term: "(CHist [] [] (Build_obs 9%N false 0%N [] [] 0%N [] [] 0%N [] [] []) [] [] [])", Sig: "harness:no-observation",
			Obs: map[string]interface{}{"full": crashF, "ref": crashR}, Direct: "the history could not be run: " + crashF + crashR, Class: "harness-error"}
	}
	var envT, opsT, fullT, refT, freshT []string
	for k, v := range in.Files {
		n, _ := strconv.Atoi(k)
		envT = append(envT, cPair(cN(uint64(n)), c08HtTerm(v)))
	}
	sort.Strings(envT)
	for i := range in.Ops {
		opsT = append(opsT, c08OpTerm(&in.Ops[i]))
	}
	for i := 1; i < len(full); i++ {
		fullT = append(fullT, c08ObsTerm(&full[i]))
	}
	for i := 1; i < len(ref); i++ {
		refT = append(refT, c08ObsTerm(&ref[i]))
	}
	for i := range in.Ops {
		if fresh[i] == nil || i+1 >= len(full) {
			freshT = append(freshT, "None")
			continue
		}
		ec := full[i+1].EC
		if full[i+1].Res == 1 && ec == "" {
			ec = c08MsgClass(full[i+1].Err)
		}
		freshT = append(freshT, cApp("Some", cPair(cN(uint64(c08ECCode[ec])), cPair(cN(uint64(fresh[i].Res)), cN(uint64(c08ECCode[fresh[i].EC]))))))
	}
	label := c08Label(in, full, ref, fresh)
	direct := ""
	for i := range full {
		if full[i].Proc != "" {
			label, direct = "observer:procnet-mismatch", "LISTEN sockets by the fd table and by /proc/self/net/tcp{,6} differ: "+full[i].Proc
		}
	}
	fails, modes := 0, map[string]bool{}
	for i := range in.Ops {
		if in.Ops[i].Kind != "write" && i+1 < len(full) {
			modes[in.Ops[i].Kind] = true
			if full[i+1].Res != 0 {
				fails++
			}
		}
	}
	class := "replay"
	if parts := strings.Split(in.Name, "/"); len(parts) >= 3 && parts[0] == "tmpl" {
		class = strings.Join(parts[:3], "/")
	} else if parts[0] == "random" {
		class = fmt.Sprintf("random/steps=%d", len(in.Ops))
	} else if parts[0] == "corpus" {
		class = "corpus"
	}
	key, _ := json.Marshal(in)
	obs := map[string]interface{}{"label": label, "full": full[1:], "erased": erased}
	if erased > 0 {
		obs["ref"] = ref[1:]
	}
	if seen >= 2 {
		obs["fresh"] = fresh
	}
	return Result{
		Term: cApp("CHist", cList(envT), cList(opsT), c08ObsTerm(&full[0]), cList(fullT), cList(refT), cList(freshT)),
		Obs:  obs, Sig: label, Direct: direct, Key: string(key), Nontrivial: fails > 0 && len(full) == len(in.Ops)+1, Class: class,
	}
}

var (
	c08Batch     []*c08In
	c08BatchRes  = map[*c08In]Result{}
	c08BatchOnce sync.Once
)

func c08RunBatch() {
	var mu sync.Mutex
	var wg sync.WaitGroup
	sem := make(chan struct{}, 8)
	for _, in := range c08Batch {
		in := in
		wg.Add(1)
		sem <- struct{}{}
		go func() {
			defer wg.Done()
			defer func() { <-sem }()
			res := c08RunOne(in)
			mu.Lock()
			c08BatchRes[in] = res
			mu.Unlock()
		}()
	}
	wg.Wait()
	os.RemoveAll(c08Scratch())
}

func c08Run(in0 interface{}) Result {
	in := in0.(*c08In)
	if len(c08Batch) > 0 {
		c08BatchOnce.Do(c08RunBatch)
		if res, ok := c08BatchRes[in]; ok {
			return res
		}
	}
	res := c08RunOne(in)
	os.RemoveAll(c08Scratch())
	return res
}

// ---------------------------------------------------------------------------------------------
// generator

var c08Faults = []string{"syntax", "unknown", "import", "bad0", "bad1", "bad2", "badon", "ht-missing", "ht-bad", "ht-nouser",
	"startup", "busy", "busy-multi", "bad4", "loader-gone", "loader-unreadable", "loader-error"}

func c08LoaderFault(f string) bool { return strings.HasPrefix(f, "loader-") }

var c08Modes = []string{"load", "validate", "reload", "sigusr1", "execute"}

type c08Feat struct {
	On    int  // hooks registered by `on`
	Log   int  // 0 none, else rotate_size
	Auth  bool // basicauth with htpasswd
	Two   bool // two listen addresses
	Proxy bool // proxy with a health check of the loopback backend
}

// c08MkCfg builds a configuration with the given features and (optionally) one fault. htf = htpasswd file id.
func c08MkCfg(id int, ft c08Feat, fault string, htf int) *c08Cfg {
	c := &c08Cfg{ID: id, Addrs: []int{1}}
	if ft.Two {
		c.Addrs = []int{1, 2}
	}
	switch fault {
	case "syntax", "unknown", "import", "loader-gone", "loader-unreadable", "loader-error":
		c.Parse = fault
	case "busy":
		c.Addrs = []int{9}
	case "busy-multi":
		c.Addrs = append(c.Addrs, 9)
	}
	if fault == "bad0" {
		c.Effs = append(c.Effs, c08Eff{K: "bad", N: 0})
	}
	if fault == "badon" {
		c.Effs = append(c.Effs, c08Eff{K: "bad", N: 3})
	} else if ft.On > 0 {
		c.Effs = append(c.Effs, c08Eff{K: "on", N: ft.On})
	}
	if ft.Log > 0 {
		c.Effs = append(c.Effs, c08Eff{K: "log", F: 1, Size: ft.Log, OK: true})
	}
	if strings.HasPrefix(fault, "startup") {
		// the failing startup callback comes after the one that succeeds (and registers its roller): the one of
		// `log`, of `errors` (both: output file in a missing directory), or of a plugin directive (OnStartup / OnFirstStartup)
		via := strings.TrimPrefix(strings.TrimPrefix(fault, "startup"), "-")
		c.Effs = append(c.Effs, c08Eff{K: "log", F: 3, Size: 7, OK: false, Via: via})
		if strings.HasPrefix(via, "plugin") {
			ft.Proxy = false // a plugin's callbacks run after those of `proxy`; the model runs the failing callback before them
		}
	}
	if fault == "bad1" {
		c.Effs = append(c.Effs, c08Eff{K: "bad", N: 1})
	}
	if ft.Auth || strings.HasPrefix(fault, "ht-") {
		c.Effs = append(c.Effs, c08Eff{K: "auth", F: htf, U: 1})
	}
	if fault == "bad2" {
		c.Effs = append(c.Effs, c08Eff{K: "bad", N: 2})
	}
	if ft.Proxy {
		c.Effs = append(c.Effs, c08Eff{K: "proxy"})
	}
	if fault == "bad4" {
		c.Effs = append(c.Effs, c08Eff{K: "bad", N: 4})
	}
	if fault == "panic" {
		c.Panic = true
	}
	return c
}

func c08Users(us ...[2]int) *c08Ht { return &c08Ht{Present: true, Users: us} }

// c08Template: [a running site] ; one attempt in the given mode with the given fault ; [the environment is
// repaired / changed] ; a valid configuration using the same files, loaded or reloaded.
func c08Template(mode, fault string, ft c08Feat, pre bool, change bool, finalMode string, tag string) *c08In {
	in := &c08In{Name: fmt.Sprintf("tmpl/%s/%s/%s", mode, fault, tag), Files: map[string]c08Ht{"1": *c08Users([2]int{1, 1})}}
	id := 1
	htf := 1
	if strings.HasPrefix(fault, "ht-") {
		htf = 2
		if h := c08FaultFile(fault); h != nil {
			in.Files["2"] = *h
		}
	}
	if pre || mode == "reload" || mode == "sigusr1" || finalMode != "load" {
		pf := ft
		pf.Log = 0
		in.Ops = append(in.Ops, c08Op{Kind: "load", Cfg: c08MkCfg(id, pf, "", 1)})
		id++
	}
	in.Ops = append(in.Ops, c08Op{Kind: mode, Cfg: c08MkCfg(id, ft, fault, htf)})
	id++
	if htf == 2 {
		in.Ops = append(in.Ops, c08Op{Kind: "write", F: 2, Ht: c08Users([2]int{1, 2}, [2]int{2, 1})})
	} else if change && ft.Auth {
		in.Ops = append(in.Ops, c08Op{Kind: "write", F: 1, Ht: c08Users([2]int{1, 2})})
	}
	ff := ft
	if htf == 2 {
		ff.Auth = true
	}
	if ff.Log > 0 {
		ff.Log = 51 - ff.Log // 1 <-> 50
	}
	fin := c08MkCfg(id, ff, "", htf)
	in.Ops = append(in.Ops, c08Op{Kind: finalMode, Cfg: fin, Roll: ff.Log > 0})
	return in
}

// c08FaultFile: the htpasswd file (id 2) of an `ht-` fault; the configured user is u1.  nil = the file is missing
func c08FaultFile(fault string) *c08Ht {
	switch fault {
	case "ht-bad": // the damaged line stands BEHIND the configured user
		return &c08Ht{Present: true, Users: [][2]int{{1, 1}}, Bad: true}
	case "ht-bad-late": // ... in FRONT of the configured user, after another good line
		return &c08Ht{Present: true, Users: [][2]int{{2, 1}}, Bad: true, After: [][2]int{{1, 1}}}
	case "ht-bad-hash": // a hash the parser of its format returns an error for, between two good lines
		return &c08Ht{Present: true, Users: [][2]int{{1, 2}}, Bad: true, BadKind: 1, After: [][2]int{{2, 1}}}
	case "ht-bad-sha":
		return &c08Ht{Present: true, Users: [][2]int{{2, 1}, {1, 1}}, Bad: true, BadKind: 2}
	case "ht-nouser":
		return c08Users([2]int{2, 1})
	}
	return nil
}

// c08HtFaults: every way an htpasswd file makes a configuration invalid
var c08HtFaults = []string{"ht-missing", "ht-bad", "ht-bad-late", "ht-bad-hash", "ht-bad-sha", "ht-nouser"}

func c08CopyCfg(c *c08Cfg) *c08Cfg {
	d := *c
	d.Effs = append([]c08Eff(nil), c.Effs...)
	d.Addrs = append([]int(nil), c.Addrs...)
	return &d
}

// c08Retry: [a running site] ; the SAME invalid configuration attempted two or three times (modes[0], modes[1], ...)
// with the environment untouched ; [the environment is repaired] ; a valid configuration using the same files.
// The outcome of every attempt may depend on the configuration and the environment only: each retry is held
// against the same attempt made by a process that did not see the earlier ones.
func c08Retry(modes []string, fault string, ft c08Feat, pre bool, finalMode string, tag string) *c08In {
	in := &c08In{Name: fmt.Sprintf("tmpl/retry-%s/%s/%s", strings.Join(modes, "-"), fault, tag), Files: map[string]c08Ht{"1": *c08Users([2]int{1, 1})}}
	id, htf := 1, 1
	if strings.HasPrefix(fault, "ht-") {
		htf = 2
		if h := c08FaultFile(fault); h != nil {
			in.Files["2"] = *h
		}
	}
	for _, m := range modes {
		if m == "reload" || m == "sigusr1" {
			pre = true
		}
	}
	if pre || finalMode != "load" {
		pf := ft
		pf.Log = 0
		in.Ops = append(in.Ops, c08Op{Kind: "load", Cfg: c08MkCfg(id, pf, "", 1)})
		id++
	}
	bad := c08MkCfg(id, ft, fault, htf)
	id++
	for _, m := range modes {
		in.Ops = append(in.Ops, c08Op{Kind: m, Cfg: c08CopyCfg(bad)})
	}
	if htf == 2 {
		in.Ops = append(in.Ops, c08Op{Kind: "write", F: 2, Ht: c08Users([2]int{1, 2}, [2]int{2, 1})})
	}
	ff := ft
	if htf == 2 {
		ff.Auth = true
	}
	if ff.Log > 0 {
		ff.Log = 51 - ff.Log
	}
	in.Ops = append(in.Ops, c08Op{Kind: finalMode, Cfg: c08MkCfg(id, ff, "", htf), Roll: ff.Log > 0})
	return in
}

func c08RandCfg(r *Rand, id int, valid bool) *c08Cfg {
	ft := c08Feat{Two: r.Chance(25)}
	if r.Chance(45) {
		ft.On = 1 + r.Intn(2)
	}
	if r.Chance(35) {
		ft.Log = []int{1, 50}[r.Intn(2)]
	}
	ft.Auth = r.Chance(40)
	ft.Proxy = r.Chance(10)
	fault := ""
	if !valid {
		fault = c08Faults[r.Intn(len(c08Faults))]
		if fault == "startup" {
			fault = c08StartupFaults[r.Intn(len(c08StartupFaults))]
		}
	}
	htf := 1 + r.Intn(2)
	c := c08MkCfg(id, ft, fault, htf)
	if valid && r.Chance(10) {
		c.Addrs = []int{1 + r.Intn(3)}
	}
	return c
}

func c08RandHt(r *Rand) *c08Ht {
	switch r.Intn(9) {
	case 0:
		return &c08Ht{}
	case 1:
		return &c08Ht{Present: true, Users: [][2]int{{1, 1 + r.Intn(2)}}, Bad: true}
	case 2:
		return c08Users([2]int{2, 1})
	case 3: // a damaged line between good ones: the configured user in front of it or behind it
		if r.Bool() {
			return &c08Ht{Present: true, Users: [][2]int{{1, 1 + r.Intn(2)}}, Bad: true, BadKind: r.Intn(3), After: [][2]int{{2, 1}}}
		}
		return &c08Ht{Present: true, Users: [][2]int{{2, 1}}, Bad: true, BadKind: r.Intn(3), After: [][2]int{{1, 1 + r.Intn(2)}}}
	case 4: // the first line is damaged
		return &c08Ht{Present: true, Bad: true, BadKind: r.Intn(3), After: [][2]int{{1, 1}, {2, 1}}}
	}
	return c08Users([2]int{1, 1 + r.Intn(2)}, [2]int{2, 1})
}

// c08StartupFaults: a startup callback fails (the stage after the directives and MakeServers, before any listener)
var c08StartupFaults = []string{"startup", "startup-errors", "startup-plugin", "startup-plugin-first"}

// c08Tail: a running site; an attempt in the given mode that fails in a STARTUP CALLBACK; then at least two
// further steps - a valid reload, another valid reload (the other way), a reload refused at Listen with the
// running site's address kept (it inherits the listener of instances[0]), a last valid reload - with the
// instance list (length, which configuration each entry was made from, which of them serve) observed after
// every step: an instance that a failed start left in the list shows directly, becomes instances[0] after the
// first good reload and is what every later reload restarts.
func c08Tail(mode, fault string, ft c08Feat, sigFirst bool, tag string) *c08In {
	in := &c08In{Name: fmt.Sprintf("tmpl/%s/%s/tail-%s", mode, fault, tag), Files: map[string]c08Ht{"1": *c08Users([2]int{1, 1})}}
	pf := ft
	pf.Log = 0
	in.Ops = append(in.Ops, c08Op{Kind: "load", Cfg: c08MkCfg(1, pf, "", 1)})
	in.Ops = append(in.Ops, c08Op{Kind: mode, Cfg: c08MkCfg(2, ft, fault, 1)})
	a, b := "reload", "sigusr1"
	if sigFirst {
		a, b = b, a
	}
	in.Ops = append(in.Ops, c08Op{Kind: a, Cfg: c08MkCfg(3, pf, "", 1)})
	in.Ops = append(in.Ops, c08Op{Kind: b, Cfg: c08MkCfg(4, pf, "", 1)})
	in.Ops = append(in.Ops, c08Op{Kind: a, Cfg: c08MkCfg(5, c08Feat{}, "busy-multi", 1)})
	in.Ops = append(in.Ops, c08Op{Kind: b, Cfg: c08MkCfg(6, pf, "", 1)})
	return in
}

func c08Random(r *Rand, maxLen int, k int) *c08In {
	in := &c08In{Name: fmt.Sprintf("random/%d", k), Files: map[string]c08Ht{"1": *c08Users([2]int{1, 1})}}
	if r.Chance(50) {
		in.Files["2"] = *c08RandHt(r)
	}
	env := c08EnvOf(in)
	n := 2 + r.Intn(maxLen-1)
	live := false
	id := 1
	for i := 0; i < n; i++ {
		last := i == n-1
		if !last && r.Chance(18) {
			f := 1 + r.Intn(2)
			h := c08RandHt(r)
			in.Ops = append(in.Ops, c08Op{Kind: "write", F: f, Ht: h})
			env[f] = *h
			continue
		}
		wantValid := last || r.Chance(35)
		c := c08RandCfg(r, id, wantValid)
		id++
		if !last && r.Chance(22) {
			// an earlier configuration once more (whatever has happened to the files since), in whatever mode
			var prev []*c08Cfg
			for k := range in.Ops {
				if in.Ops[k].Cfg != nil {
					prev = append(prev, in.Ops[k].Cfg)
				}
			}
			if len(prev) > 0 {
				c = c08CopyCfg(prev[r.Intn(len(prev))])
				wantValid = false
			}
		}
		if wantValid && !c08Valid("load", c, env) {
			// the environment does not support the auth line: repair it first
			for _, e := range c.Effs {
				if e.K == "auth" {
					h := c08Users([2]int{1, 1 + r.Intn(2)})
					in.Ops = append(in.Ops, c08Op{Kind: "write", F: e.F, Ht: h})
					env[e.F] = *h
				}
			}
		}
		mode := c08Modes[r.Intn(len(c08Modes))]
		if !live && (mode == "reload" || mode == "sigusr1") {
			mode = "load"
		}
		if last && c08DirectivesOnly(mode) {
			mode = "load"
		}
		if !wantValid && (mode == "reload" || mode == "sigusr1") && r.Chance(12) {
			c = c08RandCfg(r, c.ID, true) // a plugin executed after its directives panics
			c.Panic = true
		}
		op := c08Op{Kind: mode, Cfg: c}
		if last {
			for _, e := range c.Effs {
				if e.K == "log" {
					op.Roll = true
				}
			}
		}
		in.Ops = append(in.Ops, op)
		if mode == "load" && c08Valid("load", c, env) {
			live = true
		}
	}
	return in
}

func c08Gen(r *Rand, tier string) []interface{} {
	var ins []*c08In
	rich := c08Feat{On: 1, Log: 1, Auth: true}
	bare := c08Feat{}
	for _, m := range c08Modes {
		for _, f := range c08Faults {
			if c08DirectivesOnly(m) && (f == "startup" || f == "busy" || f == "busy-multi") {
				continue // a validation never reaches these stages: the configuration is valid for it
			}
			fin := "load"
			if m == "reload" || m == "sigusr1" {
				fin = m
			}
			if c08LoaderFault(f) {
				// the Casketfile cannot be loaded at that moment (SIGUSR1: the loader fails at signal time)
				if c08DirectivesOnly(m) {
					continue
				}
				ins = append(ins, c08Template(m, f, bare, r.Bool(), false, fin, "bare"))
				ins = append(ins, c08Template(m, f, c08Feat{On: 2}, true, false, fin, "on2"))
				if tier == "thorough" || r.Chance(50) {
					ins = append(ins, c08Template(m, f, rich, true, r.Bool(), fin, "rich"))
				}
				continue
			}
			// health-check workers started while `proxy` is parsed (the faults before it do not reach it)
			if f == "bad2" || f == "bad4" || f == "startup" || f == "busy" || f == "busy-multi" || (tier == "thorough" && f != "badon") {
				ins = append(ins, c08Template(m, f, c08Feat{Proxy: true, On: 1}, m == "load" && r.Bool(), false, fin, "proxy"))
			}
			ins = append(ins, c08Template(m, f, bare, r.Bool(), false, fin, "bare"))
			ins = append(ins, c08Template(m, f, c08Feat{Auth: true, Two: f != "busy-multi" && r.Bool()}, r.Bool(), false, fin, "auth"))
			ins = append(ins, c08Template(m, f, c08Feat{Log: 50}, false, false, fin, "log"))
			if tier == "thorough" || r.Chance(50) {
				ins = append(ins, c08Template(m, f, rich, r.Bool(), r.Bool(), fin, "rich"))
			}
			if tier == "thorough" {
				ins = append(ins, c08Template(m, f, c08Feat{On: 2}, true, false, "reload", "on2"))
				ins = append(ins, c08Template(m, f, c08Feat{Log: 1, Two: f != "busy-multi"}, true, false, "sigusr1", "log1"))
				ins = append(ins, c08Template(m, f, c08Feat{Auth: true}, true, true, "load", "authchg"))
			}
		}
	}
	// a plugin whose setup panics during a reload (Restart contains the panic)
	for _, m := range []string{"reload", "sigusr1"} {
		for k, tag := range []string{"bare", "on2", "auth", "proxy"} {
			ft := []c08Feat{bare, {On: 2}, {Auth: true}, {Proxy: true, On: 1}}[k]
			if tag == "auth" && tier != "thorough" && m == "reload" {
				continue
			}
			ins = append(ins, c08Template(m, "panic", ft, true, false, m, tag))
		}
		// ... and the half-made instance it leaves in the list becomes instances[0]
		z := c08Template(m, "panic", c08Feat{On: 1}, true, false, "reload", "zombie")
		z.Ops = append(z.Ops, c08Op{Kind: "sigusr1", Cfg: c08MkCfg(7, c08Feat{On: 1}, "", 1)},
			c08Op{Kind: "reload", Cfg: c08MkCfg(8, bare, "busy-multi", 1)}, c08Op{Kind: "load", Cfg: c08MkCfg(9, bare, "", 1)})
		ins = append(ins, z)
	}
	// a failing startup callback of every kind, in every mode that runs them, followed by >= 2 further steps
	k := 0
	for _, f := range c08StartupFaults {
		for _, m := range []string{"load", "reload", "sigusr1"} {
			if f == "startup-plugin-first" && m != "load" {
				continue // an OnFirstStartup callback is run by casket.Start only
			}
			k++
			ins = append(ins, c08Tail(m, f, bare, k%2 == 0, "bare"))
			if tier == "thorough" || k%2 == 1 {
				ins = append(ins, c08Tail(m, f, c08Feat{On: 1, Log: 50}, k%2 == 1, "onlog"))
			}
		}
	}
	// the SAME invalid configuration attempted two and three times with the environment untouched
	retryFaults := append([]string{}, c08HtFaults...)
	for _, f := range c08Faults {
		if !strings.HasPrefix(f, "ht-") {
			retryFaults = append(retryFaults, f)
		}
	}
	for mi, m := range c08Modes {
		for fi, f := range retryFaults {
			ht := strings.HasPrefix(f, "ht-")
			if !ht && tier != "thorough" && !r.Chance(25) {
				continue
			}
			second := c08Modes[(mi+fi)%len(c08Modes)]
			third := c08Modes[(mi+2*fi+1)%len(c08Modes)]
			modes := []string{m, second}
			if (mi+fi)%2 == 0 {
				modes = append(modes, third)
			}
			skip := false
			for _, x := range modes {
				if c08DirectivesOnly(x) && (f == "startup" || f == "busy" || f == "busy-multi" || c08LoaderFault(f)) {
					skip = true // valid for (or not applicable to) a validation
				}
			}
			if skip {
				modes = []string{"load", "load"}
				if mi%2 == 1 {
					modes = []string{"load", "reload", "sigusr1"}
				}
				if mi >= 2 && tier != "thorough" {
					continue
				}
			}
			ft := bare
			if ht {
				ft = c08Feat{Auth: true, On: (mi + fi) % 2}
			} else if fi%2 == 0 {
				ft = c08Feat{On: 1, Auth: true}
			}
			fin := "load"
			if last := modes[len(modes)-1]; last == "reload" || last == "sigusr1" {
				fin = last
			}
			ins = append(ins, c08Retry(modes, f, ft, r.Bool(), fin, fmt.Sprintf("m%d", mi)))
		}
	}
	nrand, maxLen := 60, 6
	if tier == "thorough" {
		nrand, maxLen = 2200, 10
	}
	for k := 0; k < nrand; k++ {
		ins = append(ins, c08Random(r, maxLen, k))
	}
	ins = append(ins, c08GenOverlap(r, tier)...)
	ins = append(ins, c08GenQuic(r, tier)...)
	out := make([]interface{}, len(ins))
	for i, in := range ins {
		out[i] = in
	}
	c08Batch = ins
	return out
}

func init() {
	register(&Property{
		ID: "C08", Imports: "V.Lib V.C08_Model", Judge: "judge", Shard: 40,
		Rule:   "QUIC flag on (httpserver.QUIC): histories of load / validate / execute / reload / SIGUSR1 over configurations with a server whose UDP port is in use while its TCP port is free (Listen succeeds, ListenPacket fails) or whose TCP port is in use while its UDP port is free, as only / first / last / middle server, the refused attempt repeated, then a valid attempt, the release of the ports and a load of the refused configuration, LISTEN and UDP sockets with their descriptors observed after every step; overlapping attempts: a gated plugin directive holds attempt B (load / reload of a running instance; refused at the gated directive / at Listen / by a startup callback, or accepted) inside its setup while 0-3 other attempts run to their end (load, reload of another running instance, refused reload, stop; some with `on` hooks), casket.Instances() observed before B / B held / after the inner attempts / after B returned, then casket.Stop() and which sites still answer; histories of load (casket.Start) / validate / reload (Instance.Restart) / SIGUSR1 attempts and htpasswd-file rewrites, run in-process in a fresh child of the harness with a watchdog per attempt: templates {load, validate, reload, SIGUSR1, API-driven execute} x {syntax error, unknown directive, missing import, Casketfile removed / unreadable / loader error at that moment (SIGUSR1: at signal time, with a running configuration that has `on` hooks), bad argument early/mid/late/after proxy in directive order, bad `on` line after good ones, htpasswd missing/malformed/without the user, failing startup callback, port in use alone/after another listener, a plugin whose setup panics during a reload} x feature sets (on, log roller, basicauth htpasswd, proxy with a health check of a loopback backend, two listeners), each followed by a valid load/reload using the same files; the SAME invalid configuration attempted two and three times with the environment untouched (every pair / triple of modes; htpasswd files that are missing, lack the user, or have a line the parser rejects - no separator, a bcrypt hash, a {SHA} hash that is not base64 - behind / in front of the configured user and between good lines; a sample of the other faults, all of them in the thorough tier), each attempt on an invalid configuration that comes after another one held against the same attempt made by a process that did not see the earlier failures (result and class of the error message); every kind of failing startup callback (`log` / `errors` output file in a missing directory, OnStartup / OnFirstStartup callback of a plugin directive) in load / reload / SIGUSR1 followed by >= 2 further steps (valid reload, valid reload the other way, reload refused at Listen keeping the running address, valid reload) with casket.Instances() observed after every step (length, configuration of every entry, which entries serve); plus random histories (<= 6 steps quick, <= 10 thorough); every history is also run with the invalid attempts erased; after every step the events are emitted (which hooks run) and the backend is watched (whose workers probe); non-trivial = at least one attempt failed and the history ran to its end",
		Gen:    c08Gen,
		Decode: func(raw json.RawMessage) (interface{}, error) { in := &c08In{}; return in, json.Unmarshal(raw, in) },
		Run:    c08Run,
	})
}
