package main

import (
	"bufio"
	"context"
	"crypto/ecdsa"
	"crypto/elliptic"
	crand "crypto/rand"
	"crypto/tls"
	"crypto/x509"
	"crypto/x509/pkix"
	"encoding/json"
	"encoding/pem"
	"fmt"
	"io"
	"log"
	"math/big"
	"net"
	"net/http"
	"net/http/httptest"
	"os"
	"path/filepath"
	"reflect"
	"strconv"
	"strings"
	"sync"
	"time"

	"github.com/caddyserver/certmagic"
	"github.com/tmpim/casket"
	_ "github.com/tmpim/casket/caskethttp"
	"github.com/tmpim/casket/caskethttp/httpserver"
	"github.com/tmpim/casket/caskettls"
)

// ---------------------------------------------------------------- inputs
type c06Cfg struct {
	Nil      bool     `json:"nil,omitempty"`
	Host     string   `json:"host"`
	Enabled  bool     `json:"enabled"`
	Min      uint16   `json:"min,omitempty"`
	Max      uint16   `json:"max,omitempty"`
	Ciphers  []uint16 `json:"ciphers,omitempty"`
	Curves   []uint16 `json:"curves,omitempty"`
	ALPN     []string `json:"alpn,omitempty"`
	Prefer   bool     `json:"prefer,omitempty"`
	Auth     int      `json:"auth,omitempty"`
	Certs    []string `json:"certs,omitempty"` // logical names: ca0 ca1 missing garbage
	Insecure bool     `json:"insecure,omitempty"`
}
type c06Opt struct {
	K string   `json:"k"` // protocols | ciphers | clients | insecure | alpn
	A []string `json:"a,omitempty"`
}
type c06Site struct {
	Addr     string   `json:"addr"`
	Off      bool     `json:"off,omitempty"`
	Opts     []c06Opt `json:"opts,omitempty"`
	Auth     int      `json:"auth,omitempty"`
	Certs    []string `json:"certs,omitempty"`
	Insecure bool     `json:"insecure,omitempty"`
}
type c06In struct {
	Kind  string    `json:"kind"` // split | lookup | defaults | setup | serve | handshake
	S     string    `json:"s,omitempty"`
	Cfgs  []c06Cfg  `json:"cfgs,omitempty"`
	Dflt  string    `json:"dflt,omitempty"`
	Conn  *string   `json:"conn,omitempty"`
	SNI   string    `json:"sni,omitempty"`
	TLS   bool      `json:"tls,omitempty"`
	Twice bool      `json:"twice,omitempty"`
	Off   bool      `json:"off,omitempty"`
	Opts  []c06Opt  `json:"opts,omitempty"`
	Sites []c06Site `json:"sites,omitempty"`
	Host  *string   `json:"hosthdr,omitempty"` // nil = HTTP/1.0 request without Host (handshake kind)
	CMin  uint16    `json:"cmin,omitempty"`
	CMax  uint16    `json:"cmax,omitempty"`
}

// ---------------------------------------------------------------- files (inside the run directory)
var c06Files struct {
	once                 sync.Once
	dir, cert, key, root string
	clientCert           tls.Certificate
}

func c06SelfSigned(cn string, dns []string, ips []net.IP, ca bool) ([]byte, []byte, tls.Certificate) {
	key, err := ecdsa.GenerateKey(elliptic.P256(), crand.Reader)
	if err != nil {
		panic(err)
	}
	tpl := &x509.Certificate{SerialNumber: big.NewInt(time.Now().UnixNano()), Subject: pkix.Name{CommonName: cn},
		NotBefore: time.Now().Add(-time.Hour), NotAfter: time.Now().Add(48 * time.Hour),
		DNSNames: dns, IPAddresses: ips, IsCA: ca, BasicConstraintsValid: true,
		KeyUsage:    x509.KeyUsageDigitalSignature | x509.KeyUsageCertSign,
		ExtKeyUsage: []x509.ExtKeyUsage{x509.ExtKeyUsageServerAuth, x509.ExtKeyUsageClientAuth}}
	der, err := x509.CreateCertificate(crand.Reader, tpl, tpl, &key.PublicKey, key)
	if err != nil {
		panic(err)
	}
	kb, _ := x509.MarshalECPrivateKey(key)
	cp := pem.EncodeToMemory(&pem.Block{Type: "CERTIFICATE", Bytes: der})
	kp := pem.EncodeToMemory(&pem.Block{Type: "EC PRIVATE KEY", Bytes: kb})
	tc, _ := tls.X509KeyPair(cp, kp)
	return cp, kp, tc
}

var c06DNS = []string{"a.com", "b.com", "x.a.com", "y.x.a.com", "*.a.com", "*.x.a.com", "*.*.com", "*.com", "*", "b", "c",
	"localhost", "z.org", "c.org", "q.a.com", "w.b.com"}

func c06Setup() {
	c06Files.once.Do(func() {
		log.SetOutput(io.Discard)
		casket.Quiet = true
		d, err := filepath.Abs("c06files")
		if err != nil {
			panic(err)
		}
		os.MkdirAll(filepath.Join(d, "root"), 0o755)
		c06Files.dir, c06Files.root = d, filepath.Join(d, "root")
		for _, n := range []string{"ca0", "ca1"} {
			cp, _, _ := c06SelfSigned(n, nil, nil, true)
			os.WriteFile(filepath.Join(d, n), cp, 0o644)
		}
		os.WriteFile(filepath.Join(d, "garbage"), []byte("not a pem file\n"), 0o644)
		cp, kp, _ := c06SelfSigned("verif-server", c06DNS, []net.IP{net.ParseIP("127.0.0.1"), net.ParseIP("::1")}, false)
		c06Files.cert, c06Files.key = filepath.Join(d, "server.pem"), filepath.Join(d, "server.key")
		os.WriteFile(c06Files.cert, cp, 0o644)
		os.WriteFile(c06Files.key, kp, 0o600)
		_, _, c06Files.clientCert = c06SelfSigned("verif-client", nil, nil, false)
	})
}

func c06Path(name string) string { return filepath.Join(c06Files.dir, name) }
func c06Paths(names []string) []string {
	var out []string
	for _, n := range names {
		out = append(out, c06Path(n))
	}
	return out
}

var c06BadFiles = []string{"missing", "garbage"}

// ---------------------------------------------------------------- helpers
type c06Addr string

func (a c06Addr) Network() string { return "tcp" }
func (a c06Addr) String() string  { return string(a) }

type c06Conn struct {
	net.Conn
	local string
}

func (c c06Conn) LocalAddr() net.Addr { return c06Addr(c.local) }

func c06AesNi() bool {
	c := &caskettls.Config{}
	caskettls.SetDefaultTLSParams(c)
	return len(c.Ciphers) > 1 && c.Ciphers[1] == tls.TLS_ECDHE_ECDSA_WITH_AES_256_GCM_SHA384
}

func c06TLSPtr(c *caskettls.Config) uintptr {
	if c == nil {
		return 0
	}
	return reflect.ValueOf(c).Elem().FieldByName("tlsConfig").Pointer()
}

func c06U16(xs []uint16) string {
	it := make([]string, len(xs))
	for i, x := range xs {
		it[i] = cN(uint64(x))
	}
	return cList(it)
}

func c06TCfgTerm(host string, enabled bool, min, max uint16, ciphers []uint16, curves []uint16, alpn []string,
	prefer bool, auth int, certs []string, insecure bool) string {
	return cApp("mkT", cStr(host), cBool(enabled), cN(uint64(min)), cN(uint64(max)), c06U16(ciphers), c06U16(curves),
		cStrList(alpn), cBool(prefer), cN(uint64(auth)), cStrList(certs), cBool(insecure))
}

func (c *c06Cfg) term() string {
	if c.Nil {
		return "None"
	}
	return "(Some " + c06TCfgTerm(c.Host, c.Enabled, c.Min, c.Max, c.Ciphers, c.Curves, c.ALPN, c.Prefer, c.Auth, c.Certs, c.Insecure) + ")"
}

func (c *c06Cfg) build() *caskettls.Config {
	if c.Nil {
		return nil
	}
	var curves []tls.CurveID
	for _, x := range c.Curves {
		curves = append(curves, tls.CurveID(x))
	}
	return &caskettls.Config{Hostname: c.Host, Enabled: c.Enabled, ProtocolMinVersion: c.Min, ProtocolMaxVersion: c.Max,
		Ciphers: append([]uint16(nil), c.Ciphers...), CurvePreferences: curves, ALPN: append([]string(nil), c.ALPN...),
		PreferServerCipherSuites: c.Prefer, ClientAuth: tls.ClientAuthType(c.Auth), ClientCerts: c06Paths(c.Certs),
		InsecureDisableSNIMatching: c.Insecure, Manager: certmagic.NewDefault()}
}

func c06CurvesOf(cs []tls.CurveID) []uint16 {
	var out []uint16
	for _, x := range cs {
		out = append(out, uint16(x))
	}
	return out
}

func c06ErrClass(err error) int {
	switch {
	case strings.Contains(err.Error(), "cannot multiplex"):
		return 1
	case strings.Contains(err.Error(), "incompatible TLS configurations"):
		return 3
	}
	return 2
}

// c06Governing asks the listener-level tls.Config which site config governs hello.
func c06Governing(tc *tls.Config, cfgs []*caskettls.Config, hello *tls.ClientHelloInfo) (string, interface{}) {
	got, err := tc.GetConfigForClient(hello)
	if err != nil || got == nil {
		return "LNone", "nil config"
	}
	idx := 9999
	for i, c := range cfgs {
		if c06TLSPtr(c) == reflect.ValueOf(got).Pointer() {
			idx = i
		}
	}
	b := cApp("mkB", cN(uint64(got.MinVersion)), cN(uint64(got.MaxVersion)), c06U16(got.CipherSuites),
		c06U16(c06CurvesOf(got.CurvePreferences)), cStrList(got.NextProtos), cBool(got.PreferServerCipherSuites),
		cN(uint64(got.ClientAuth)))
	return cApp("LGov", cNat(idx), b), map[string]interface{}{"governing": idx, "min": got.MinVersion, "max": got.MaxVersion,
		"ciphers": got.CipherSuites, "client_auth": int(got.ClientAuth)}
}

func c06Hello(sni string, conn *string) *tls.ClientHelloInfo {
	h := &tls.ClientHelloInfo{ServerName: sni}
	if conn != nil {
		h.Conn = c06Conn{local: *conn}
	}
	return h
}

func c06OptStr(s *string) string {
	if s == nil {
		return "None"
	}
	return "(Some " + cStr(*s) + ")"
}

func c06OptsTerm(opts []c06Opt) string {
	var it []string
	for _, o := range opts {
		switch o.K {
		case "protocols":
			it = append(it, cApp("OProtocols", cStrList(o.A)))
		case "ciphers":
			it = append(it, cApp("OCiphers", cStrList(o.A)))
		case "clients":
			it = append(it, cApp("OClients", cStrList(o.A)))
		case "insecure":
			it = append(it, "OInsecure")
		case "alpn":
			it = append(it, cApp("OAlpn", cStrList(o.A)))
		}
	}
	return cList(it)
}

func c06OptsText(opts []c06Opt, indent string) string {
	var sb strings.Builder
	for _, o := range opts {
		k := o.K
		if k == "insecure" {
			k = "insecure_disable_sni_matching"
		}
		sb.WriteString(indent + k)
		for _, a := range o.A {
			sb.WriteString(" " + a)
		}
		sb.WriteString("\n")
	}
	return sb.String()
}

const c06Trivial = "(CSplit [] None)"

// c06RouterHost is the host vhostTrie.Match searches for when given hostname + "/".
func c06RouterHost(hostname string) string {
	h := strings.ToLower(strings.SplitN(hostname+"/", "/", 2)[0])
	if x, _, err := net.SplitHostPort(h); err == nil {
		return x
	}
	if len(h) > 1 && h[0] == '[' && h[len(h)-1] == ']' {
		return h[1 : len(h)-1]
	}
	return h
}

func c06HostOnly(s string) string {
	if h, _, err := net.SplitHostPort(s); err == nil {
		return h
	}
	return s
}

// ---------------------------------------------------------------- runner
func c06Run(in0 interface{}) (res Result) {
	c06Setup()
	in := in0.(*c06In)
	defer func() {
		if r := recover(); r != nil {
			res = Result{Term: c06Trivial, Obs: fmt.Sprint("panic: ", r), Sig: in.Kind + ":panic", Class: in.Kind + ":panic",
				Direct: fmt.Sprint("panic in ", in.Kind, ": ", r)}
		}
	}()
	aes := c06AesNi()
	switch in.Kind {
	case "split":
		h, _, err := net.SplitHostPort(in.S)
		var obs *string
		if err == nil {
			obs = &h
		}
		return Result{Term: cApp("CSplit", cStr(in.S), c06OptStr(obs)), Obs: map[string]interface{}{"host": obs}, Sig: "split",
			Class: fmt.Sprintf("split:ok=%v", err == nil), Nontrivial: strings.ContainsAny(in.S, ":[]")}

	case "lookup":
		var cfgs []*caskettls.Config
		var terms []string
		anyNil := false
		for i := range in.Cfgs {
			cfgs = append(cfgs, in.Cfgs[i].build())
			terms = append(terms, in.Cfgs[i].term())
			anyNil = anyNil || in.Cfgs[i].Nil
		}
		old := certmagic.Default.DefaultServerName
		certmagic.Default.DefaultServerName = in.Dflt
		defer func() { certmagic.Default.DefaultServerName = old }()
		orig := append([]*caskettls.Config(nil), cfgs...)
		tc, err := caskettls.MakeTLSConfig(cfgs)
		var obsT string
		var obs interface{}
		class := "lookup:"
		switch {
		case err != nil:
			obsT, obs = cApp("LErr", cN(uint64(c06ErrClass(err)))), "error: "+err.Error()
			class += fmt.Sprintf("err%d", c06ErrClass(err))
		case tc == nil:
			obsT, obs = "LNil", "no TLS config"
			class += "nil"
		default:
			obsT, obs = c06Governing(tc, orig, c06Hello(in.SNI, in.Conn))
			class += "governed"
		}
		sig := "lookup:plain"
		for i := range in.Cfgs {
			for j := range in.Cfgs {
				a, b := in.Cfgs[i], in.Cfgs[j]
				alias := func(h string) bool { return h == "" || h == "0.0.0.0" || h == "::" }
				if i < j && !a.Nil && !b.Nil && alias(a.Host) && alias(b.Host) && (a.Host != "" || b.Host != "") {
					sig = "lookup:unspecified-address-alias"
				}
			}
		}
		if anyNil {
			sig = "lookup:nil-config"
		}
		term := cApp("CLookup", cBool(aes), cStrList(c06BadFiles), cList(terms), cStr(in.Dflt), c06OptStr(in.Conn), cStr(in.SNI), obsT)
		return Result{Term: term, Obs: obs, Sig: sig, Class: class, Nontrivial: len(in.Cfgs) >= 2}

	case "defaults":
		c := &in.Cfgs[0]
		cfg := c.build()
		caskettls.SetDefaultTLSParams(cfg)
		if in.Twice {
			caskettls.SetDefaultTLSParams(cfg)
		}
		obsCfg := c06TCfgTerm(cfg.Hostname, cfg.Enabled, cfg.ProtocolMinVersion, cfg.ProtocolMaxVersion, cfg.Ciphers,
			c06CurvesOf(cfg.CurvePreferences), cfg.ALPN, cfg.PreferServerCipherSuites, int(cfg.ClientAuth), c.Certs, cfg.InsecureDisableSNIMatching)
		minSeen, maxSeen := cfg.ProtocolMinVersion, cfg.ProtocolMaxVersion
		tc, err := caskettls.MakeTLSConfig([]*caskettls.Config{cfg})
		var obsT string
		switch {
		case err != nil:
			obsT = cApp("LErr", cN(uint64(c06ErrClass(err))))
		case tc == nil:
			obsT = "LNil"
		default:
			obsT, _ = c06Governing(tc, []*caskettls.Config{cfg}, c06Hello(c.Host, nil))
		}
		term := cApp("CDefaults", cBool(aes), c06TCfgTerm(c.Host, c.Enabled, c.Min, c.Max, c.Ciphers, c.Curves, c.ALPN, c.Prefer, c.Auth, c.Certs, c.Insecure),
			cBool(in.Twice), obsCfg, obsT)
		return Result{Term: term, Obs: map[string]interface{}{"min": minSeen, "max": maxSeen, "ciphers": cfg.Ciphers},
			Sig: "defaults", Class: fmt.Sprintf("defaults:min0=%v:twice=%v", c.Min == 0, in.Twice), Nontrivial: true}

	case "setup":
		text := "tls off\n"
		if !in.Off {
			text = "tls {\n" + c06OptsText(in.Opts, "  ") + "}\n"
		}
		sc, err := setupDirective("tls", text)
		obsT := "None"
		var obs interface{} = "setup error"
		if err == nil {
			t := sc.TLS
			var certs []string
			for _, p := range t.ClientCerts {
				certs = append(certs, p)
			}
			obsT = "(Some " + c06TCfgTerm(t.Hostname, t.Enabled, t.ProtocolMinVersion, t.ProtocolMaxVersion, t.Ciphers,
				c06CurvesOf(t.CurvePreferences), t.ALPN, t.PreferServerCipherSuites, int(t.ClientAuth), certs, t.InsecureDisableSNIMatching) + ")"
			obs = map[string]interface{}{"enabled": t.Enabled, "min": t.ProtocolMinVersion, "max": t.ProtocolMaxVersion,
				"ciphers": t.Ciphers, "client_auth": int(t.ClientAuth)}
		} else {
			obs = "setup error: " + err.Error()
		}
		term := cApp("CSetup", cBool(aes), cBool(in.Off), c06OptsTerm(in.Opts), obsT)
		return Result{Term: term, Obs: obs, Sig: "setup", Class: fmt.Sprintf("setup:ok=%v", err == nil), Nontrivial: len(in.Opts) > 0}

	case "serve":
		return c06Serve(in, aes)
	case "handshake":
		return c06Handshake(in, aes)
	}
	panic("bad kind " + in.Kind)
}

var c06ServeALPN = []string{"h2", "http/1.1"}

func c06Serve(in *c06In, aes bool) Result {
	var group []*httpserver.SiteConfig
	var cfgs []*caskettls.Config
	var siteTerms []string
	var hosts []string
	served := -1
	for i, s := range in.Sites {
		a, err := httpserver.VerifC06SiteAddress(s.Addr)
		if err != nil {
			return Result{Term: c06Trivial, Obs: "address rejected: " + err.Error(), Sig: "serve:bad-address", Class: "serve:bad-address"}
		}
		cfg := &caskettls.Config{Hostname: a.Host, Enabled: !s.Off, ClientAuth: tls.ClientAuthType(s.Auth), ClientCerts: c06Paths(s.Certs),
			InsecureDisableSNIMatching: s.Insecure, ALPN: append([]string(nil), c06ServeALPN...), Manager: certmagic.NewDefault()}
		if !s.Off {
			caskettls.SetDefaultTLSParams(cfg)
		}
		hosts = append(hosts, a.Host)
		vh := a.VHost()
		siteTerms = append(siteTerms, cApp("mkS", cStr(vh), c06TCfgTerm(cfg.Hostname, cfg.Enabled, cfg.ProtocolMinVersion, cfg.ProtocolMaxVersion,
			cfg.Ciphers, c06CurvesOf(cfg.CurvePreferences), cfg.ALPN, cfg.PreferServerCipherSuites, s.Auth, s.Certs, s.Insecure)))
		site := &httpserver.SiteConfig{Addr: a, TLS: cfg}
		idx := i
		site.AddMiddleware(func(next httpserver.Handler) httpserver.Handler {
			return handlerFunc(func(w http.ResponseWriter, r *http.Request) (int, error) {
				served = idx
				w.WriteHeader(200)
				return 0, nil
			})
		})
		group = append(group, site)
		cfgs = append(cfgs, cfg)
	}
	old := certmagic.Default.DefaultServerName
	certmagic.Default.DefaultServerName = in.Dflt
	defer func() { certmagic.Default.DefaultServerName = old }()

	sig := c06ServeSig(in, hosts)
	var tlsT string = "None"
	if in.TLS {
		tlsT = "(Some " + cStr(in.SNI) + ")"
	}
	rhost := ""
	if in.Host != nil {
		rhost = *in.Host
	}
	mk := func(gov, obs string) string {
		return cApp("CServe", cBool(aes), cList(siteTerms), cStr(in.Dflt), c06OptStr(in.Conn), tlsT, cStr(rhost), gov, obs)
	}
	srv, err := httpserver.NewServer("127.0.0.1:0", group)
	if err != nil {
		return Result{Term: mk(cApp("LErr", cN(uint64(c06ErrClass(err)))), "SNoSite"), Obs: "NewServer error: " + err.Error(),
			Sig: sig, Class: fmt.Sprintf("serve:start-err%d", c06ErrClass(err))}
	}
	govT, govObs := "LNil", interface{}("plaintext listener")
	if srv.Server.TLSConfig == nil && in.TLS {
		// a plaintext listener never hands a TLS connection state to the handler
		in = &c06In{Kind: in.Kind, Sites: in.Sites, Dflt: in.Dflt, Conn: in.Conn, Host: in.Host}
		tlsT = "None"
	}
	if srv.Server.TLSConfig != nil {
		sni := ""
		if in.TLS {
			sni = in.SNI
		}
		govT, govObs = c06Governing(srv.Server.TLSConfig, cfgs, c06Hello(sni, in.Conn))
	}
	req := httptest.NewRequest("GET", "/", nil)
	req.Host = rhost
	if in.TLS {
		req.TLS = &tls.ConnectionState{ServerName: in.SNI, HandshakeComplete: true}
	}
	if in.Conn != nil {
		// the connection the handshake was made on: net/http puts its local address here
		req = req.WithContext(context.WithValue(req.Context(), http.LocalAddrContextKey, net.Addr(c06Addr(*in.Conn))))
	}
	rec := httptest.NewRecorder()
	srv.ServeHTTP(rec, req)
	obsT, what := "SNoSite", "no site"
	switch {
	case served >= 0:
		obsT, what = cApp("SServed", cNat(served)), fmt.Sprintf("served by site %d", served)
	case rec.Code == http.StatusForbidden:
		obsT, what = "SForbidden", "403"
	}
	demanding := false
	for _, s := range in.Sites {
		demanding = demanding || (s.Auth != 0 && !s.Insecure)
	}
	return Result{Term: mk(govT, obsT), Obs: map[string]interface{}{"handshake": govObs, "request": what, "status": rec.Code},
		Sig: sig, Class: "serve:" + strings.SplitN(what, " ", 2)[0] + ":" + strings.TrimPrefix(sig, "serve:"), Nontrivial: demanding && in.TLS}
}

// c06ServeSig names the class of a request/site-set for known findings (tight classes).
func c06ServeSig(in *c06In, hosts []string) string {
	rhost := ""
	if in.Host != nil {
		rhost = *in.Host
	}
	hostname := c06HostOnly(rhost)
	policy := func(s c06Site) string {
		p, pr := fmt.Sprint(s.Auth, s.Certs), ""
		for _, o := range s.Opts {
			if o.K == "clients" {
				p = fmt.Sprint(o.A)
			}
			if o.K == "protocols" {
				pr = fmt.Sprint(o.A)
			}
		}
		return p + "|" + pr
	}
	// two catch-all sites, at least one spelled 0.0.0.0 or ::, with different client policies or
	// protocol ranges (F-C06-3, repaired: the compatibility assert looked these up under the
	// unmapped name and never found the other; the class stays so that a regression is named)
	for i := range in.Sites {
		for j := range in.Sites {
			ki := hosts[i] == "" || hosts[i] == "0.0.0.0" || hosts[i] == "::"
			kj := hosts[j] == "" || hosts[j] == "0.0.0.0" || hosts[j] == "::"
			if i < j && ki && kj && (hosts[i] != "" || hosts[j] != "") && policy(in.Sites[i]) != policy(in.Sites[j]) {
				return "serve:unspecified-address-alias"
			}
		}
	}
	// a site whose name is nothing but "*" labels is found by the router through its
	// fallback hosts ("::" -> "*", "0.0.0.0" -> "*.*.*.*") for every request
	for _, h := range hosts {
		if h == "*" || h == "*.*.*.*" {
			return "serve:all-wildcard-site"
		}
	}
	// the router normalises the host once more than the port strip of serveHTTP does (a second
	// port strip, brackets of a port-less literal); the strict SNI = Host test has to look at the
	// routed name (F-C06-2, repaired: the class stays so that a regression is named)
	if c06RouterHost(hostname) != strings.ToLower(hostname) {
		return "serve:host-renormalized-by-router"
	}
	// no SNI, no Host: the handshake is governed by default-sni / the local-address site / the
	// catch-all, the request is routed to the catch-all site (F-C06-1, repaired: the class stays
	// so that a regression is named)
	if in.TLS && strings.TrimSpace(in.SNI) == "" && hostname == "" {
		return "serve:empty-sni-empty-host"
	}
	return "serve:plain"
}

// ---------------------------------------------------------------- real handshakes
func c06Handshake(in *c06In, aes bool) Result {
	var sb strings.Builder
	var raw []string
	var hosts []string
	for i, s := range in.Sites {
		a, err := httpserver.VerifC06SiteAddress(s.Addr)
		if err != nil {
			return Result{Term: c06Trivial, Obs: "address rejected: " + err.Error(), Sig: "handshake:bad-address", Class: "handshake:bad-address"}
		}
		hosts = append(hosts, a.Host)
		raw = append(raw, "("+cStr(a.VHost())+", "+cStr(a.Host)+", "+cBool(s.Off)+", "+c06OptsTerm(s.Opts)+")")
		fmt.Fprintf(&sb, "%s {\n  root %s\n", s.Addr, c06Files.root)
		if s.Off {
			sb.WriteString("  tls off\n")
		} else {
			fmt.Fprintf(&sb, "  tls %s %s {\n    no_redirect\n%s  }\n", c06Files.cert, c06Files.key, c06OptsText(s.Opts, "    "))
		}
		fmt.Fprintf(&sb, "  header / X-Site s%d\n}\n", i)
	}
	rhost, hostT := "", "None"
	if in.Host != nil {
		rhost = *in.Host
	}
	_ = hostT
	mk := func(start int, version uint16, asked bool, obs string) string {
		return cApp("CHandshake", cBool(aes), cList(raw), cStr("127.0.0.1:443"), cStr(in.Dflt), cStr(in.SNI), cN(uint64(in.CMin)), cN(uint64(in.CMax)),
			cStr(rhost), cN(uint64(start)), cN(uint64(version)), cBool(asked), obs)
	}
	sig := "handshake:plain"
	if s := c06ServeSig(&c06In{Sites: in.Sites, TLS: true, SNI: in.SNI, Host: in.Host, Dflt: in.Dflt}, hosts); s != "serve:plain" {
		sig = "handshake:" + strings.TrimPrefix(s, "serve:")
	}
	// certificate selection (certmagic) is not part of the property: give the listener a
	// certificate that names whatever the client is going to ask for
	names := append([]string(nil), c06DNS...)
	if n := strings.ToLower(in.SNI); n != "" {
		names = append(names, n)
	}
	if n := strings.ToLower(strings.TrimSpace(in.Dflt)); n != "" && net.ParseIP(n) == nil {
		names = append(names, n)
	}
	// the default server name (-default-sni) in force while the instance runs
	oldDflt := certmagic.Default.DefaultServerName
	certmagic.Default.DefaultServerName = in.Dflt
	defer func() { certmagic.Default.DefaultServerName = oldDflt }()
	cp, kp, _ := c06SelfSigned("verif-server", names, []net.IP{net.ParseIP("127.0.0.1"), net.ParseIP("::1")}, false)
	os.WriteFile(c06Files.cert, cp, 0o644)
	os.WriteFile(c06Files.key, kp, 0o600)
	inst, err := casket.Start(casket.CasketfileInput{Contents: []byte(sb.String()), Filepath: "Casketfile", ServerTypeName: "http"})
	if err != nil {
		cls := c06ErrClass(err)
		if cls == 2 {
			cls = 9
		}
		return Result{Term: mk(cls, 0, false, "SNoSite"), Obs: "start error: " + err.Error(), Sig: sig, Class: fmt.Sprintf("handshake:start-err%d", cls),
			Nontrivial: true}
	}
	defer inst.Stop()
	allOff := true
	for _, s := range in.Sites {
		allOff = allOff && s.Off
	}
	if allOff {
		// plaintext listener: there is no handshake to observe
		return Result{Term: mk(8, 0, false, "SNoSite"), Obs: "plaintext listener", Sig: sig, Class: "handshake:plaintext-listener"}
	}
	_, port, _ := net.SplitHostPort(inst.Servers()[0].Addr().String())
	asked := false
	d := &net.Dialer{Timeout: 5 * time.Second}
	conn, err := tls.DialWithDialer(d, "tcp", "127.0.0.1:"+port, &tls.Config{ServerName: in.SNI, InsecureSkipVerify: true,
		MinVersion: in.CMin, MaxVersion: in.CMax,
		GetClientCertificate: func(*tls.CertificateRequestInfo) (*tls.Certificate, error) {
			asked = true
			return &c06Files.clientCert, nil
		}})
	if err != nil {
		return Result{Term: mk(0, 0, false, "SNoSite"), Obs: map[string]interface{}{"handshake": "failed: " + err.Error()}, Sig: sig,
			Class: "handshake:failed", Nontrivial: true}
	}
	defer conn.Close()
	conn.SetDeadline(time.Now().Add(5 * time.Second))
	version := conn.ConnectionState().Version
	reqText := "GET / HTTP/1.1\r\nHost: " + rhost + "\r\nConnection: close\r\n\r\n"
	if in.Host == nil {
		reqText = "GET / HTTP/1.0\r\n\r\n"
	}
	io.WriteString(conn, reqText)
	obsT, what, status := "SNoSite", "no site", 0
	resp, err := http.ReadResponse(bufio.NewReader(conn), nil)
	if err == nil {
		io.Copy(io.Discard, resp.Body)
		resp.Body.Close()
		status = resp.StatusCode
		if x := resp.Header.Get("X-Site"); strings.HasPrefix(x, "s") {
			n, _ := strconv.Atoi(x[1:])
			obsT, what = cApp("SServed", cNat(n)), fmt.Sprintf("served by site %d", n)
		} else if status == http.StatusForbidden {
			obsT, what = "SForbidden", "403"
		}
	} else {
		what = "no response: " + err.Error()
	}
	return Result{Term: mk(0, version, asked, obsT), Obs: map[string]interface{}{"version": version, "certificate_requested": asked,
		"request": what, "status": status}, Sig: sig, Class: "handshake:" + strings.SplitN(what, " ", 2)[0] + ":" + strings.TrimPrefix(sig, "handshake:"),
		Nontrivial: true}
}

// ---------------------------------------------------------------- generators
var c06HostPool = []string{"a.com", "b.com", "x.a.com", "y.x.a.com", "*.a.com", "*.*.com", "*.x.a.com", "*.*.a.com", "", "0.0.0.0", "::",
	"127.0.0.1", "::1", "10.0.0.1", "localhost", "b", "*", "*.com", "*.*"}
var c06Labels = []string{"x", "y", "q", "a", "w", "zz"}
var c06CipherIDs = []uint16{49196, 49200, 49195, 49199, 52393, 52392, 49172, 49171, 49162, 49161, 53, 47, 49170, 10}
var c06CipherNames = []string{"ECDHE-ECDSA-AES256-GCM-SHA384", "ECDHE-RSA-AES256-GCM-SHA384", "ECDHE-ECDSA-AES128-GCM-SHA256",
	"ECDHE-RSA-AES128-GCM-SHA256", "ECDHE-ECDSA-WITH-CHACHA20-POLY1305", "ECDHE-RSA-WITH-CHACHA20-POLY1305", "ECDHE-RSA-AES256-CBC-SHA",
	"ECDHE-RSA-AES128-CBC-SHA", "ECDHE-ECDSA-AES256-CBC-SHA", "ECDHE-ECDSA-AES128-CBC-SHA", "RSA-AES256-CBC-SHA", "RSA-AES128-CBC-SHA",
	"ECDHE-RSA-3DES-EDE-CBC-SHA", "RSA-3DES-EDE-CBC-SHA"}
var c06Versions = []uint16{0x0301, 0x0302, 0x0303, 0x0304}

func c06Instantiate(r *Rand, pat string) string {
	labels := strings.Split(pat, ".")
	for i, l := range labels {
		if l == "*" {
			labels[i] = r.Pick(c06Labels)
		}
	}
	return strings.Join(labels, ".")
}

func c06Decorate(r *Rand, s string, spaces bool) string {
	if r.Chance(35) {
		b := []byte(s)
		for i := range b {
			if b[i] >= 'a' && b[i] <= 'z' && r.Chance(40) {
				b[i] -= 32
			}
		}
		s = string(b)
	}
	if spaces && r.Chance(12) {
		ws := []string{" ", "\t", "\n", " \r", "\v\f"}
		if r.Bool() {
			s = r.Pick(ws) + s
		}
		if r.Bool() {
			s = s + r.Pick(ws)
		}
	}
	return s
}

// c06NameFor picks a name aimed at the given host patterns: exact, wildcard instance, one label more
// or fewer, the literal pattern, unrelated, empty.
func c06NameFor(r *Rand, hosts []string) string {
	if len(hosts) == 0 || r.Chance(8) {
		return r.Pick([]string{"z.org", "c.org", "q", "com", "a.com.", "x..com", ".", "*"})
	}
	h := hosts[r.Intn(len(hosts))]
	switch k := r.Intn(100); {
	case k < 40:
		return c06Instantiate(r, h)
	case k < 55:
		return r.Pick(c06Labels) + "." + c06Instantiate(r, h)
	case k < 65:
		if i := strings.Index(h, "."); i >= 0 {
			return c06Instantiate(r, h[i+1:])
		}
		return c06Instantiate(r, h)
	case k < 75:
		return h
	case k < 83:
		return ""
	case k < 90:
		// replace the leftmost concrete label
		ls := strings.Split(c06Instantiate(r, h), ".")
		ls[0] = r.Pick(c06Labels)
		return strings.Join(ls, ".")
	default:
		return c06Instantiate(r, h) + r.Pick([]string{":80", ".", "x", ":"})
	}
}

func c06RandCfg(r *Rand, host string) c06Cfg {
	c := c06Cfg{Host: host, Enabled: true}
	if r.Chance(70) {
		c.Min = c06Versions[r.Intn(4)]
	}
	if r.Chance(70) {
		c.Max = c06Versions[r.Intn(4)]
	}
	if r.Chance(50) {
		c.Ciphers = append(c.Ciphers, 0x5600)
	}
	for k := r.Intn(4); k > 0; k-- {
		c.Ciphers = append(c.Ciphers, c06CipherIDs[r.Intn(len(c06CipherIDs))])
	}
	if len(c.Ciphers) > 1 && r.Chance(25) {
		c.Ciphers = append(c.Ciphers, c.Ciphers[len(c.Ciphers)-1]) // duplicate
	}
	for k := r.Intn(3); k > 0; k-- {
		c.Curves = append(c.Curves, []uint16{29, 23, 24, 25}[r.Intn(4)])
	}
	for k := r.Intn(3); k > 0; k-- {
		c.ALPN = append(c.ALPN, r.Pick([]string{"h2", "http/1.1", "acme-tls/1"}))
	}
	c.Prefer = r.Bool()
	if r.Chance(45) {
		c.Auth = r.Range(1, 4)
		for k := r.Intn(3); k > 0; k-- {
			c.Certs = append(c.Certs, r.Pick([]string{"ca0", "ca1"}))
		}
		if r.Chance(5) {
			c.Certs = append(c.Certs, r.Pick(c06BadFiles))
		}
	}
	c.Insecure = r.Chance(10)
	return c
}

func c06Mutate(r *Rand, c c06Cfg) c06Cfg {
	c.Ciphers = append([]uint16(nil), c.Ciphers...)
	c.Curves = append([]uint16(nil), c.Curves...)
	c.ALPN = append([]string(nil), c.ALPN...)
	c.Certs = append([]string(nil), c.Certs...)
	switch r.Intn(9) {
	case 0:
		c.Min = c06Versions[r.Intn(4)]
	case 1:
		c.Max = c06Versions[r.Intn(4)]
	case 2:
		c.Ciphers = append(c.Ciphers, c06CipherIDs[r.Intn(len(c06CipherIDs))])
	case 3:
		c.Curves = append(c.Curves, []uint16{29, 23, 24, 25}[r.Intn(4)])
	case 4:
		c.ALPN = append(c.ALPN, r.Pick([]string{"h2", "http/1.1", "spdy"}))
	case 5:
		c.Prefer = !c.Prefer
	case 6:
		c.Auth = (c.Auth + 1 + r.Intn(4)) % 5
	case 7:
		if c.Auth == 0 {
			c.Auth = r.Range(1, 4)
		}
		c.Certs = append(c.Certs, r.Pick([]string{"ca0", "ca1"}))
	case 8:
		if len(c.Ciphers) >= 2 {
			c.Ciphers[0], c.Ciphers[len(c.Ciphers)-1] = c.Ciphers[len(c.Ciphers)-1], c.Ciphers[0]
		}
	}
	return c
}

var c06Conns = []string{"127.0.0.1:443", "10.0.0.1:8443", "[::1]:443", "::1", "127.0.0.1", "noport", "[10.0.0.1]:1", "0.0.0.0:443"}

var c06SiteAddrs = []string{"a.com", "a.com:443", "A.com:443", "*.a.com", "*.a.com:443", "x.a.com", "x.a.com:443", "b.com:8443", "b.com",
	":443", "0.0.0.0", "0.0.0.0:443", "[::]:443", "[::]", "127.0.0.1", "127.0.0.1:443", "[::1]:443", "localhost", "b:443", "https://a.com",
	"https://b.com", "*.*.com", "10.0.0.1:443", "y.x.a.com:443", "*.x.a.com"}

func c06GenServe(r *Rand) *c06In {
	in := &c06In{Kind: "serve", TLS: !r.Chance(7)}
	n := r.Range(1, 4)
	var pats []string
	for i := 0; i < n; i++ {
		addr := r.Pick(c06SiteAddrs)
		if r.Chance(2) {
			addr = r.Pick([]string{"[::1]", "https://[::1]", "[::]", "*:443"})
		}
		s := c06Site{Addr: addr}
		if r.Chance(50) {
			switch r.Intn(4) {
			case 0:
				s.Auth = 1
			case 1:
				s.Auth = 2
			case 2:
				s.Auth, s.Certs = 4, []string{r.Pick([]string{"ca0", "ca1"})}
			case 3:
				s.Auth, s.Certs = 3, []string{"ca0"}
			}
			s.Insecure = r.Chance(10)
		}
		if r.Chance(2) {
			s.Off = true
		}
		in.Sites = append(in.Sites, s)
		if a, err := httpserver.VerifC06SiteAddress(addr); err == nil {
			pats = append(pats, a.Host)
		}
	}
	base := c06NameFor(r, pats)
	if base == "" && r.Chance(80) {
		base = r.Pick([]string{"z.org", "127.0.0.1", "a.com", "10.0.0.1"})
	}
	sni := base
	switch k := r.Intn(100); {
	case k < 30:
		sni = c06NameFor(r, pats) // crossed names
	case k < 36:
		sni = ""
	}
	in.SNI = c06Decorate(r, sni, true)
	host := c06Decorate(r, base, false)
	switch k := r.Intn(100); {
	case k < 35:
		host += ":" + r.Pick([]string{"443", "8443", "1", ""})
	case k < 40:
		host = "[" + host + "]:443"
	case k < 43:
		host = "[" + host + "]"
	case k < 46:
		// a port inside brackets and another outside; the SNI carries the inner one
		in.SNI = c06Decorate(r, base+":80", false)
		host = "[" + host + ":80]:90"
	case k < 49:
		host = ""
	}
	in.Host = &host
	if r.Chance(12) {
		in.Dflt = c06Decorate(r, c06NameFor(r, pats), true)
	}
	if r.Chance(60) {
		c := r.Pick(c06Conns)
		in.Conn = &c
	}
	return in
}

// c06GenSniLess aims at the handshake without SNI: a catch-all site (one of its spellings) that
// usually demands client certificates, next to sites named by local addresses and host names;
// no SNI (rarely white space), no or a crossed Host, default server name set now and then.
func c06GenSniLess(r *Rand) *c06In {
	in := &c06In{Kind: "serve", TLS: true}
	auth := func(s *c06Site, pct int) {
		if r.Chance(pct) {
			switch r.Intn(3) {
			case 0:
				s.Auth = 1
			case 1:
				s.Auth = 2
			case 2:
				s.Auth, s.Certs = 4, []string{"ca0"}
			}
			s.Insecure = r.Chance(6)
		}
	}
	ca := c06Site{Addr: r.Pick([]string{":443", ":443", "0.0.0.0:443", "[::]:443"})}
	auth(&ca, 85)
	in.Sites = append(in.Sites, ca)
	for k := r.Intn(3); k > 0; k-- {
		s := c06Site{Addr: r.Pick([]string{"127.0.0.1:443", "10.0.0.1:443", "[::1]:443", "a.com:443", "b.com", "*.a.com:443", "localhost",
			"*.a.com:443", "*.*.com:443", "*.x.a.com:443", "x.a.com:443"})}
		auth(&s, 30)
		in.Sites = append(in.Sites, s)
	}
	if r.Chance(15) {
		// a second catch-all spelling with the same policy
		s := ca
		s.Addr = r.Pick([]string{":443", "0.0.0.0:443", "[::]:443"})
		in.Sites = append(in.Sites, s)
	}
	p := r.Perm(len(in.Sites))
	sites := make([]c06Site, len(in.Sites))
	for i, j := range p {
		sites[i] = in.Sites[j]
	}
	in.Sites = sites
	if r.Chance(5) {
		in.SNI = r.Pick([]string{" ", "\t"})
	}
	host := ""
	switch k := r.Intn(100); {
	case k < 12:
		host = r.Pick([]string{"127.0.0.1", "10.0.0.1:443", "a.com", "[::1]:443", "z.org"})
	case k < 16:
		host = ":443"
	}
	in.Host = &host
	if r.Chance(40) {
		// the default server name: an instance of one of the sites' patterns (exact, through a
		// wildcard, one label more or fewer), or a name no site carries
		var pats []string
		for _, s := range in.Sites {
			if a, err := httpserver.VerifC06SiteAddress(s.Addr); err == nil && a.Host != "" {
				pats = append(pats, a.Host)
			}
		}
		d := r.Pick([]string{"a.com", "z.org", "x.a.com", "127.0.0.1", " ", "b.com", "q.x.a.com", "w.b.com"})
		if len(pats) > 0 && r.Chance(65) {
			if d2 := c06NameFor(r, pats); d2 != "" {
				d = d2
			}
		}
		in.Dflt = c06Decorate(r, d, true)
	}
	if r.Chance(85) {
		c := r.Pick([]string{"127.0.0.1:443", "10.0.0.1:8443", "[::1]:443", "127.0.0.1:443", "10.9.9.9:443", "127.0.0.1", "noport"})
		in.Conn = &c
	}
	return in
}

func c06GenLookup(r *Rand) *c06In {
	in := &c06In{Kind: "lookup"}
	n := r.Range(1, 5)
	mode := r.Intn(100) // <78 all TLS, <85 all plaintext, else mixed
	var hosts []string
	for i := 0; i < n; i++ {
		host := r.Pick(c06HostPool)
		var c c06Cfg
		same := -1
		for j := range in.Cfgs {
			if !in.Cfgs[j].Nil && in.Cfgs[j].Host == host {
				same = j
			}
		}
		if i > 0 && (same >= 0 || r.Chance(25)) {
			// same hostname as an earlier config: identical, or differing in one field
			j := same
			if j < 0 {
				j = r.Intn(i)
			}
			if !in.Cfgs[j].Nil {
				c = in.Cfgs[j]
				c.Ciphers = append([]uint16(nil), c.Ciphers...)
				if r.Chance(30) {
					c = c06Mutate(r, c)
				}
			} else {
				c = c06RandCfg(r, host)
			}
		} else {
			c = c06RandCfg(r, host)
		}
		switch {
		case mode < 78:
			c.Enabled = true
		case mode < 85:
			c.Enabled = false
		default:
			c.Enabled = r.Chance(60)
		}
		if r.Chance(3) {
			c = c06Cfg{Nil: true}
		}
		in.Cfgs = append(in.Cfgs, c)
		if !c.Nil {
			hosts = append(hosts, c.Host)
		}
	}
	if mode >= 85 && len(in.Cfgs) >= 2 {
		// a mixed group in every order: plaintext entry first, TLS entry first, nil entry first
		// (a nil entry stands for a site without TLS), the other kind somewhere behind it
		first, later := &in.Cfgs[0], &in.Cfgs[1+r.Intn(len(in.Cfgs)-1)]
		mkTLS := func(c *c06Cfg) {
			if c.Nil {
				*c = c06RandCfg(r, r.Pick(c06HostPool))
			}
			c.Enabled = true
		}
		mkPlain := func(c *c06Cfg) {
			if r.Chance(25) {
				*c = c06Cfg{Nil: true}
			} else {
				if c.Nil {
					*c = c06RandCfg(r, r.Pick(c06HostPool))
				}
				c.Enabled = false
			}
		}
		switch r.Intn(3) {
		case 0:
			mkPlain(first)
			if first.Nil {
				*first = c06RandCfg(r, r.Pick(c06HostPool))
				first.Enabled = false
			}
			mkTLS(later)
		case 1:
			mkTLS(first)
			mkPlain(later)
		case 2:
			*first = c06Cfg{Nil: true}
			mkTLS(later)
		}
		hosts = hosts[:0]
		for _, c := range in.Cfgs {
			if !c.Nil {
				hosts = append(hosts, c.Host)
			}
		}
	}
	in.SNI = c06Decorate(r, c06NameFor(r, hosts), true)
	if r.Chance(15) {
		in.Dflt = c06Decorate(r, c06NameFor(r, hosts), true)
	}
	if r.Chance(60) {
		c := r.Pick(c06Conns)
		in.Conn = &c
	}
	return in
}

// c06GenMixed: a listener group that mixes TLS and plaintext sites, for NewServer (serve) or
// casket.Start (handshake), with the plaintext site first, last or in the middle.
func c06GenMixed(r *Rand, kind string) *c06In {
	in := &c06In{Kind: kind, TLS: true}
	addrs := []string{"a.com:443", "b.com:443", "x.a.com:443", "*.a.com:443", ":443", "localhost:443"}
	if kind == "handshake" {
		addrs = []string{"a.com:0", "b.com:0", "x.a.com:0", "*.a.com:0", ":0", "localhost:0"}
	}
	p := r.Perm(len(addrs))
	n := r.Range(2, 4)
	for i := 0; i < n; i++ {
		s := c06Site{Addr: addrs[p[i]]}
		if kind == "handshake" {
			s.Opts = c06GenOpts(r, true)
		} else if r.Chance(50) {
			s.Auth = 2
		}
		in.Sites = append(in.Sites, s)
	}
	off := func(i int) { in.Sites[i].Off, in.Sites[i].Opts, in.Sites[i].Auth = true, nil, 0 }
	switch r.Intn(4) {
	case 0: // plaintext first
		off(0)
	case 1: // plaintext last
		off(n - 1)
	case 2: // plaintext first and somewhere else, TLS last
		off(0)
		if n > 2 {
			off(1)
		}
	case 3: // only the first is TLS
		for i := 1; i < n; i++ {
			off(i)
		}
	}
	host := r.Pick([]string{"a.com", "b.com", "x.a.com", "z.org", ""})
	in.SNI = host
	in.Host = &host
	in.CMin, in.CMax = 0x0301, 0x0304
	return in
}

func c06GenOpts(r *Rand, handshake bool) []c06Opt {
	var opts []c06Opt
	protoNames := []string{"tls1.0", "tls1.1", "tls1.2", "tls1.3"}
	if r.Chance(55) {
		a := r.Intn(4)
		switch k := r.Intn(10); {
		case k < 4:
			opts = append(opts, c06Opt{K: "protocols", A: []string{protoNames[a]}})
		case k < 9 || handshake:
			b := a + r.Intn(4-a)
			opts = append(opts, c06Opt{K: "protocols", A: []string{protoNames[a], protoNames[b]}})
		default:
			opts = append(opts, c06Opt{K: "protocols", A: []string{protoNames[a], protoNames[r.Intn(4)], "tls1.2"}})
		}
		if !handshake && r.Chance(8) {
			opts[len(opts)-1].A[0] = r.Pick([]string{"TLS1.2", "Tls1.3", "ssl3", "tls1.4"})
		}
	}
	if r.Chance(40) {
		var names []string
		for k := r.Range(1, 3); k > 0; k-- {
			if handshake {
				names = append(names, r.Pick([]string{"ECDHE-ECDSA-AES256-GCM-SHA384", "ECDHE-ECDSA-AES128-GCM-SHA256",
					"ECDHE-ECDSA-WITH-CHACHA20-POLY1305", "ECDHE-ECDSA-AES256-CBC-SHA", "ECDHE-ECDSA-AES128-CBC-SHA"}))
			} else {
				names = append(names, r.Pick(c06CipherNames))
			}
		}
		if !handshake && r.Chance(10) {
			names[0] = r.Pick([]string{strings.ToLower(names[0]), "AES-FOO", "TLS_FALLBACK_SCSV"})
		}
		opts = append(opts, c06Opt{K: "ciphers", A: names})
	}
	if r.Chance(50) {
		if handshake {
			opts = append(opts, c06Opt{K: "clients", A: []string{r.Pick([]string{"request", "require"})}})
		} else {
			switch r.Intn(6) {
			case 0:
				opts = append(opts, c06Opt{K: "clients", A: []string{"request"}})
			case 1:
				opts = append(opts, c06Opt{K: "clients", A: []string{"require"}})
			case 2:
				opts = append(opts, c06Opt{K: "clients", A: []string{"verify_if_given", "ca0"}})
			case 3:
				opts = append(opts, c06Opt{K: "clients", A: []string{"ca0", "ca1"}})
			case 4:
				opts = append(opts, c06Opt{K: "clients", A: []string{"verify_if_given"}})
			case 5:
				opts = append(opts, c06Opt{K: "clients", A: []string{"request", "ca1"}})
			}
		}
	}
	if r.Chance(12) {
		opts = append(opts, c06Opt{K: "insecure"})
	}
	if !handshake && r.Chance(15) {
		opts = append(opts, c06Opt{K: "alpn", A: []string{r.Pick([]string{"h2", "http/1.1"})}})
	}
	// order of sub-directives is free
	p := r.Perm(len(opts))
	out := make([]c06Opt, len(opts))
	for i, j := range p {
		out[i] = opts[j]
	}
	return out
}

var c06HandshakeAddrs = []string{"a.com:0", "*.a.com:0", "x.a.com:0", "b.com:0", ":0", "127.0.0.1:0", "b:0", "*:0", "localhost:0", "*.*.com:0",
	"0.0.0.0:0", "[::]:0", "A.com:0"}

func c06GenHandshake(r *Rand) *c06In {
	in := &c06In{Kind: "handshake"}
	n := r.Range(1, 3)
	var pats []string
	seen := map[string]bool{}
	for i := 0; i < n; i++ {
		addr := r.Pick(c06HandshakeAddrs)
		if seen[strings.ToLower(addr)] {
			continue
		}
		seen[strings.ToLower(addr)] = true
		s := c06Site{Addr: addr, Opts: c06GenOpts(r, true)}
		if r.Chance(3) {
			s.Off, s.Opts = true, nil
		}
		in.Sites = append(in.Sites, s)
		if a, err := httpserver.VerifC06SiteAddress(addr); err == nil {
			pats = append(pats, a.Host)
		}
	}
	base := c06NameFor(r, pats)
	if net.ParseIP(base) != nil || strings.HasSuffix(base, ".") || strings.ContainsAny(base, ":") {
		base = "" // the Go client sends no SNI for IP literals and strips trailing dots
	}
	in.SNI = c06Decorate(r, base, false)
	host := base
	if r.Chance(25) {
		host = c06NameFor(r, pats)
		if strings.ContainsAny(host, ":") {
			host = base
		}
	}
	if host == "" && r.Chance(60) {
		host = "127.0.0.1"
	}
	if r.Chance(30) {
		host += ":443"
	}
	in.Host = &host
	if base == "" && r.Chance(20) {
		in.Host = nil
	}
	if r.Chance(4) && base != "" {
		in.SNI = base + ":80"
		h := "[" + base + ":80]:90"
		in.Host = &h
	}
	if base == "" && r.Chance(45) {
		// no SNI: a default server name aimed at the sites' patterns (exact, through a wildcard, none)
		d := c06NameFor(r, pats)
		if d == "" || strings.ContainsAny(d, ":*") || strings.HasSuffix(d, ".") || strings.Contains(d, "..") {
			d = r.Pick([]string{"x.a.com", "z.org", "b.com", "q.a.com"})
		}
		in.Dflt = c06Decorate(r, d, false)
	}
	a := r.Intn(4)
	b := a + r.Intn(4-a)
	in.CMin, in.CMax = c06Versions[a], c06Versions[b]
	if r.Chance(50) {
		in.CMin, in.CMax = 0x0301, 0x0304
	}
	return in
}

func c06Gen(r *Rand, tier string) []interface{} {
	c06Setup()
	var out []interface{}
	nSplit, nLookup, nDefaults, nSetup, nServe, nSniLess, nHand, nMixed := 250, 1600, 200, 350, 1800, 400, 160, 60
	if tier == "thorough" {
		nSplit, nLookup, nDefaults, nSetup, nServe, nSniLess, nHand, nMixed = 2500, 16000, 2000, 3500, 18000, 4000, 1200, 600
	}
	// SplitHostPort: structured strings around brackets and colons
	parts := []string{"a", "b.com", "[", "]", ":", "80", "::1", "", "x", "]:", "[a", ":1"}
	for i := 0; i < nSplit; i++ {
		s := ""
		switch r.Intn(4) {
		case 0:
			s = r.Pick([]string{"a.com", "b", "", "::1", "[::1]", "[a.com]", "[b:80]", "a]", "[a"}) + r.Pick([]string{":80", ":", "", ":80:90", "]:1"})
		case 1:
			s = "[" + r.Pick([]string{"a.com", "::1", "b:80", "", "[x]", "a]b"}) + "]" + r.Pick([]string{":80", ":", "", "x:1", ":1:2"})
		default:
			for k := r.Range(0, 5); k > 0; k-- {
				s += r.Pick(parts)
			}
		}
		out = append(out, &c06In{Kind: "split", S: s})
	}
	for i := 0; i < nLookup; i++ {
		out = append(out, c06GenLookup(r))
	}
	for i := 0; i < nDefaults; i++ {
		c := c06RandCfg(r, r.Pick(c06HostPool))
		c.Enabled = !r.Chance(10)
		c.Certs = nil
		if c.Auth > 2 {
			c.Auth = 2
		}
		if r.Chance(40) {
			c.Ciphers = nil
		}
		out = append(out, &c06In{Kind: "defaults", Cfgs: []c06Cfg{c}, Twice: r.Chance(30)})
	}
	for i := 0; i < nSetup; i++ {
		in := &c06In{Kind: "setup", Off: r.Chance(6)}
		if !in.Off {
			in.Opts = c06GenOpts(r, false)
		}
		out = append(out, in)
	}
	for i := 0; i < nServe; i++ {
		out = append(out, c06GenServe(r))
	}
	for i := 0; i < nSniLess; i++ {
		out = append(out, c06GenSniLess(r))
	}
	for i := 0; i < nHand; i++ {
		out = append(out, c06GenHandshake(r))
	}
	for i := 0; i < nMixed; i++ {
		out = append(out, c06GenMixed(r, "serve"))
	}
	for i := 0; i < nMixed/5; i++ {
		out = append(out, c06GenMixed(r, "handshake"))
	}
	return out
}

func init() {
	register(&Property{
		ID: "C06", Imports: "V.Lib V.C06_Model", Judge: "judge",
		Rule: "cases = net.SplitHostPort strings; caskettls.MakeTLSConfig(configs).GetConfigForClient(hello) on config sets x SNI x default-sni x local address " +
			"(governing config by pointer identity, its tls.Config fields); SetDefaultTLSParams; the real tls directive setup; httpserver.NewServer + " +
			"ServeHTTP with crossed SNI/Host (local address of the connection in the request context), a stream without SNI against catch-all, local-address and named sites x default-sni; casket.Start + real loopback TLS handshakes (negotiated version, certificate request, response; without SNI also under a default server name); TLS/plaintext mixes with the plaintext, TLS or nil entry first for MakeTLSConfig, NewServer and casket.Start. " +
			"non-trivial = lookup with >=2 configs, split string containing ':[ ]', setup with sub-directives, serve on a TLS connection with a site " +
			"that demands client certificates, every handshake; distinct = distinct Coq case term",
		Gen: c06Gen,
		Decode: func(raw json.RawMessage) (interface{}, error) {
			in := &c06In{}
			return in, json.Unmarshal(raw, in)
		},
		Run:   c06Run,
		Shard: 300,
	})
}
