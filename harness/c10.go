package main

import (
	"bytes"
	"context"
	"encoding/json"
	"fmt"
	"os"
	"os/exec"
	"path/filepath"
	"regexp"
	"sort"
	"strings"
	"time"

	"github.com/tmpim/casket/casketfile"
)

// ---- inputs ----
type c10Line struct {
	Dir  string    `json:"dir"`
	Args []string  `json:"args,omitempty"`
	Sub  []c10Line `json:"sub,omitempty"`
}
type c10Block struct {
	Keys  []string  `json:"keys"`
	Lines []c10Line `json:"lines"`
}
type c10ETok struct {
	T  string `json:"t"`
	NL bool   `json:"nl,omitempty"` // starts on a new line relative to the previous token of its group
}
type c10EGroup struct {
	Dir  string    `json:"dir"`
	Toks []c10ETok `json:"toks"`
}
type c10EBlock struct {
	Keys   []string    `json:"keys"`
	Groups []c10EGroup `json:"groups"`
}
type c10In struct {
	Kind     string            `json:"kind"` // lex | parse
	Tag      string            `json:"tag,omitempty"`
	Text     string            `json:"text,omitempty"`  // lex: the input; parse: a label
	Main     string            `json:"main,omitempty"`  // the Casketfile
	Files    map[string]string `json:"files,omitempty"` // files next to it (relative paths)
	Dirs     []string          `json:"dirs,omitempty"`  // empty directories next to it
	Env      map[string]string `json:"env,omitempty"`   // extra environment (child only)
	Child    bool              `json:"child,omitempty"` // run in a child process under a watchdog (possible cycles)
	HasExp   bool              `json:"has_exp,omitempty"`
	NoImp    bool              `json:"noimp,omitempty"` // a soup without import directives: judged with the proved fuel (kind 1)
	Expected []c10EBlock       `json:"expected,omitempty"` // what the generating AST says
}

var c10Env = map[string]string{"V_A": "alpha", "V_E": "", "V_SP": "two words", "V_REC": "a{$V_A}b", "V_LOOP": "x{$V_LOOP}",
	"V_PCT": "{%V_A%}", "V_NL": "l1\nl2", "V_BR": "{", "V_IMP": "import", "V_F": "inc1.conf"}
var c10ErrRe = regexp.MustCompile(`^\S+:\d+ - `)
var c10Poisoned bool

const c10Cap = 100 // import bound used when evaluating the model (the implementation's maxImports is 10000)

func cRunes(s string) string {
	// printable ASCII (plus tab and line feed) goes into Coq string literals, everything else into
	// explicit rune lists; Go's decoder turns invalid bytes into U+FFFD, as bufio.ReadRune does
	var parts []string
	var cur strings.Builder
	var nums []string
	flushS := func() {
		if cur.Len() > 0 {
			parts = append(parts, "bs \""+cur.String()+"\"")
			cur.Reset()
		}
	}
	flushN := func() {
		if len(nums) > 0 {
			parts = append(parts, "["+strings.Join(nums, "; ")+"]%N")
			nums = nil
		}
	}
	for _, r := range []rune(s) {
		if (r >= 32 && r < 127) || r == '\n' || r == '\t' {
			flushN()
			if r == '"' {
				cur.WriteString("\"\"")
			} else {
				cur.WriteRune(r)
			}
		} else {
			flushS()
			nums = append(nums, fmt.Sprintf("%d", r))
		}
	}
	flushS()
	flushN()
	switch len(parts) {
	case 0:
		return "[]"
	case 1:
		return "(" + parts[0] + ")"
	}
	return "(" + strings.Join(parts, " ++ ") + ")"
}

func cRunesList(xs []string) string {
	it := make([]string, len(xs))
	for i, x := range xs {
		it[i] = cRunes(x)
	}
	return cList(it)
}

func c10EnvTerm(extra map[string]string) string {
	m := map[string]string{}
	for k, v := range c10Env {
		m[k] = v
	}
	for k, v := range extra {
		m[k] = v
	}
	keys := make([]string, 0, len(extra))
	for k := range extra {
		keys = append(keys, k)
	}
	sort.Strings(keys)
	var it []string
	for _, k := range keys {
		it = append(it, cPair(cStr(k), cStr(m[k])))
	}
	if len(it) == 0 {
		return "std_env"
	}
	return "(" + cList(it) + " ++ std_env)" // extra entries shadow the standard ones
}

// ---- observation ----
type c10OTok struct {
	F int    `json:"f"`
	L int    `json:"l"`
	T string `json:"t"`
	// what the implementation's Dispenser over the group's tokens answers with the cursor on the
	// previous token of the group: NextLine() (the isNextOnNewLine test, shared with nextOnSameLine /
	// NextBlock) and NextArg(); both false for the first token
	NL bool `json:"nl,omitempty"`
	SA bool `json:"sa,omitempty"`
}
type c10OGroup struct {
	Dir  string    `json:"dir"`
	Toks []c10OTok `json:"toks"`
}
type c10OBlock struct {
	Keys   []string    `json:"keys"`
	Groups []c10OGroup `json:"groups"`
}
type c10Obs struct {
	Class  string      `json:"class"` // ok | error | panic | timeout | killed
	Err    string      `json:"err,omitempty"`
	Panic  string      `json:"panic,omitempty"`
	Blocks []c10OBlock `json:"blocks,omitempty"`
	Files  []string    `json:"-"`
}

func c10ErrClass(msg string) int {
	if i := strings.Index(msg, " - Error during parsing: "); i >= 0 {
		m := msg[i+len(" - Error during parsing: "):]
		switch {
		case strings.HasPrefix(m, "Too many imports"):
			return 1
		case strings.HasPrefix(m, "Import requires"), strings.HasPrefix(m, "Import takes"), strings.HasPrefix(m, "File to import"),
			strings.HasPrefix(m, "Could not import"), strings.HasPrefix(m, "Failed to"), strings.HasPrefix(m, "Glob pattern"),
			strings.HasPrefix(m, "Could not read tokens"):
			return 2
		case strings.HasPrefix(m, "Wrong argument count"), strings.HasPrefix(m, "Unexpected token '{', expecting argument"):
			return 3
		}
	}
	return 0
}

// names: sorted relative paths of files and directories; id = index+1; the main input has id 0
func c10Names(in *c10In) []string {
	set := map[string]bool{"Casketfile": true}
	for n := range in.Files {
		set[n] = true
		for d := filepath.Dir(n); d != "." && d != "/"; d = filepath.Dir(d) {
			set[d] = true
		}
	}
	for _, d := range in.Dirs {
		set[d] = true
	}
	var names []string
	for n := range set {
		names = append(names, n)
	}
	sort.Strings(names)
	return names
}

func c10Observe(blocks []casketfile.ServerBlock, err error, panicked string, dir string, names []string) c10Obs {
	switch {
	case panicked != "":
		return c10Obs{Class: "panic", Panic: panicked}
	case err != nil:
		return c10Obs{Class: "error", Err: strings.ReplaceAll(err.Error(), dir, "DIR")}
	}
	id := map[string]int{"": 0}
	for i, n := range names {
		id[filepath.Join(dir, n)] = i + 1
	}
	o := c10Obs{Class: "ok"}
	for _, b := range blocks {
		ob := c10OBlock{Keys: b.Keys}
		for d, toks := range b.Tokens {
			g := c10OGroup{Dir: d}
			for _, t := range toks {
				f, ok := id[t.File]
				if !ok {
					f = 9999
				}
				g.Toks = append(g.Toks, c10OTok{F: f, L: t.Line, T: t.Text})
			}
			// the line structure as the real Dispenser sees it (exported operations only)
			dl := casketfile.NewDispenserTokens("", toks)
			da := casketfile.NewDispenserTokens("", toks)
			dl.Next()
			da.Next()
			for k := 1; k < len(toks); k++ {
				if g.Toks[k].NL = dl.NextLine(); !g.Toks[k].NL {
					dl.Next()
				}
				if g.Toks[k].SA = da.NextArg(); !g.Toks[k].SA {
					da.Next()
				}
			}
			ob.Groups = append(ob.Groups, g)
		}
		sort.SliceStable(ob.Groups, func(i, j int) bool { return ob.Groups[i].Dir < ob.Groups[j].Dir })
		o.Blocks = append(o.Blocks, ob)
	}
	return o
}

func c10ObsTerm(o c10Obs) string {
	switch o.Class {
	case "ok":
		var bl []string
		for _, b := range o.Blocks {
			var gs []string
			for _, g := range b.Groups {
				var ts []string
				for _, t := range g.Toks {
					ts = append(ts, "("+cN(uint64(t.F))+", "+cZ(int64(t.L))+", "+cRunes(t.T)+", ("+cBool(t.NL)+", "+cBool(t.SA)+"))")
				}
				gs = append(gs, cPair(cRunes(g.Dir), cList(ts)))
			}
			bl = append(bl, cPair(cRunesList(b.Keys), cList(gs)))
		}
		return cApp("OBlocks", cList(bl))
	case "error":
		return cApp("OError", cBool(c10ErrRe.MatchString(o.Err)), cN(uint64(c10ErrClass(o.Err))))
	case "panic":
		return "OPanic"
	}
	return "OTimeout"
}

func c10ExpTerm(in *c10In) string {
	if !in.HasExp {
		return "None"
	}
	var bl []string
	for _, b := range in.Expected {
		var gs []string
		for _, g := range b.Groups {
			var ts []string
			for _, t := range g.Toks {
				ts = append(ts, cPair(cRunes(t.T), cBool(t.NL)))
			}
			gs = append(gs, cPair(cRunes(g.Dir), cList(ts)))
		}
		bl = append(bl, cPair(cRunesList(b.Keys), cList(gs)))
	}
	return "(Some " + cList(bl) + ")"
}

// Go-side copy of the line-structure clause, used ONLY to classify the input (Sig)
func c10StructDeviates(o c10Obs, ex []c10EBlock) (textsOK bool, structOK bool) {
	textsOK, structOK = true, true
	if len(o.Blocks) != len(ex) {
		return false, false
	}
	for i, b := range o.Blocks {
		if strings.Join(b.Keys, "\x00") != strings.Join(ex[i].Keys, "\x00") || len(b.Groups) != len(ex[i].Groups) {
			return false, false
		}
		for j, g := range b.Groups {
			e := ex[i].Groups[j]
			if g.Dir != e.Dir || len(g.Toks) != len(e.Toks) {
				return false, false
			}
			for k, t := range g.Toks {
				if t.T != e.Toks[k].T {
					textsOK = false
				}
				if k > 0 && (t.NL != e.Toks[k].NL || t.SA == e.Toks[k].NL) {
					structOK = false
				}
			}
		}
	}
	return
}

// an `import <snippet or file of this input>` left in the output as two plain tokens
func c10UnexpandedImport(o c10Obs, in *c10In) bool {
	all := in.Main
	for _, c := range in.Files {
		all += "\n" + c
	}
	for _, b := range o.Blocks {
		for _, g := range b.Groups {
			for i := 0; i+1 < len(g.Toks); i++ {
				if g.Toks[i].T != "import" {
					continue
				}
				x := g.Toks[i+1].T
				if _, isFile := in.Files[x]; isFile || strings.Contains(all, "("+x+")") {
					return true
				}
				for name := range in.Files { // a glob pattern over files of this input
					if ok, _ := filepath.Match(x, name); ok {
						return true
					}
					if ok, _ := filepath.Match(x, filepath.Base(name)); ok {
						return true
					}
				}
			}
		}
	}
	return false
}

// ---- running the implementation ----
func c10ParseGuarded(path string, data []byte) (blocks []casketfile.ServerBlock, err error, panicked string, timedOut bool) {
	type out struct {
		b []casketfile.ServerBlock
		e error
		p string
	}
	ch := make(chan out, 1)
	go func() {
		defer func() {
			if r := recover(); r != nil {
				ch <- out{p: fmt.Sprint(r)}
			}
		}()
		b, e := casketfile.Parse(path, bytes.NewReader(data), nil)
		ch <- out{b: b, e: e}
	}()
	select {
	case o := <-ch:
		return o.b, o.e, o.p, false
	case <-time.After(5 * time.Second):
		return nil, nil, "", true
	}
}

func c10Base() string {
	base := os.Getenv("VERIF_ROOT")
	if base == "" {
		base = os.TempDir()
	}
	return filepath.Join(base, "run")
}

func c10Lex(text string) []string {
	d := casketfile.NewDispenser("x", strings.NewReader(text))
	var out []string
	for d.Next() {
		out = append(out, d.Val())
	}
	return out
}

// expansion written independently of the implementation's loop: one left-to-right pass per
// syntax, substituted text is not scanned again; an empty name stops the pass
func c10ExpandOne(s, open, close string, env map[string]string) string {
	var out strings.Builder
	for {
		i := strings.Index(s, open)
		if i < 0 {
			break
		}
		j := strings.Index(s[i:], close)
		if j < 0 {
			break
		}
		if j <= len(open) { // "{$}" : not a reference, and the scan gives up
			break
		}
		name := s[i+len(open) : i+j]
		out.WriteString(s[:i])
		out.WriteString(env[name])
		s = s[i+j+len(close):]
	}
	out.WriteString(s)
	return out.String()
}
func c10ExpandEnv(s string) string {
	return c10ExpandOne(c10ExpandOne(s, "{%", "%}", c10Env), "{$", "}", c10Env)
}

// glob oracle: what filepath.Glob returns for every (importing file, pattern) pair that can occur:
// the pattern token's own file decides the directory, also for tokens spliced from a snippet
func c10Globs(in *c10In, dir string, names []string) string {
	id := map[string]int{}
	for i, n := range names {
		id[filepath.Join(dir, n)] = i + 1
	}
	var entries []string
	from := append([]string{""}, names...)
	for fi, f := range from {
		var txt string
		fdir := dir
		if fi == 0 || f == "Casketfile" {
			txt = in.Main
		} else {
			c, ok := in.Files[f]
			if !ok {
				continue
			}
			txt = c
			fdir = filepath.Dir(filepath.Join(dir, f))
		}
		pats := map[string]bool{}
		toks := c10Lex(txt)
		for i := 0; i+1 < len(toks); i++ {
			if toks[i] == "import" || c10ExpandEnv(toks[i]) == "import" {
				pats[toks[i+1]] = true
				pats[c10ExpandEnv(toks[i+1])] = true
			}
		}
		var plist []string
		for p := range pats {
			if p != "" && !strings.ContainsRune(p, 0xFFFD) {
				plist = append(plist, p)
			}
		}
		sort.Strings(plist)
		for _, p := range plist {
			gp := p
			if !filepath.IsAbs(p) {
				gp = filepath.Join(fdir, p)
			}
			ms, err := filepath.Glob(gp)
			if err != nil {
				continue
			}
			var ids []string
			ok := true
			for _, m := range ms {
				k, known := id[m]
				if !known {
					ok = false
					break
				}
				ids = append(ids, cN(uint64(k)))
			}
			if ok {
				entries = append(entries, cPair(cPair(cN(uint64(fi)), cRunes(p)), cList(ids)))
			}
		}
	}
	return cList(entries)
}

func c10FilesTerm(in *c10In, names []string) string {
	var it []string
	for i, n := range names {
		var content string
		var ok bool
		if n == "Casketfile" {
			content, ok = in.Main, true
		} else {
			content, ok = in.Files[n]
		}
		if ok {
			it = append(it, cPair(cN(uint64(i+1)), "(Some "+cRunes(content)+")"))
		} else {
			it = append(it, cPair(cN(uint64(i+1)), "None"))
		}
	}
	return cList(it)
}

type c10Res struct {
	o   c10Obs
	g   string
	dir string
	in  *c10In // the input with the base directory filled in (c10Subst)
}

// c10BaseMark stands for the absolute path of the Casketfile's directory (known only when the case
// runs): `import @BASE@/sites/a/common.conf` is an import by absolute path
const c10BaseMark = "@BASE@"

func c10Subst(in *c10In, dir string) *c10In {
	has := strings.Contains(in.Main, c10BaseMark)
	for _, c := range in.Files {
		has = has || strings.Contains(c, c10BaseMark)
	}
	if !has {
		return in
	}
	cp := *in
	cp.Main = strings.ReplaceAll(in.Main, c10BaseMark, dir)
	cp.Files = map[string]string{}
	for n, c := range in.Files {
		cp.Files[n] = strings.ReplaceAll(c, c10BaseMark, dir)
	}
	return &cp
}

var c10ChildInputs []*c10In
var c10Futures = map[*c10In]chan c10Res{}
var c10PoolStarted bool

// possibly cyclic inputs cost seconds each on the implementation (10000 imports): run their child
// processes ahead of time, a few in parallel
func c10StartPool() {
	if c10PoolStarted {
		return
	}
	c10PoolStarted = true
	for k, v := range c10Env {
		os.Setenv(k, v)
	}
	os.Unsetenv("V_UNSET")
	sem := make(chan struct{}, 8)
	for _, in := range c10ChildInputs {
		ch := make(chan c10Res, 1)
		c10Futures[in] = ch
		go func(in *c10In, ch chan c10Res) {
			sem <- struct{}{}
			res := c10Exec(in)
			<-sem
			ch <- res
		}(in, ch)
	}
}

// c10Exec writes the files into a fresh directory, runs the implementation and asks filepath.Glob
func c10Exec(in0 *c10In) (res c10Res) {
	os.MkdirAll(c10Base(), 0o755)
	dir, _ := os.MkdirTemp(c10Base(), "c10")
	defer os.RemoveAll(dir)
	in := c10Subst(in0, dir)
	res.dir, res.in = dir, in
	for name, content := range in.Files {
		os.MkdirAll(filepath.Dir(filepath.Join(dir, name)), 0o755)
		os.WriteFile(filepath.Join(dir, name), []byte(content), 0o644)
	}
	for _, d := range in.Dirs {
		os.MkdirAll(filepath.Join(dir, d), 0o755)
	}
	path := filepath.Join(dir, "Casketfile")
	os.WriteFile(path, []byte(in.Main), 0o644)
	names := c10Names(in)
	res.g = c10Globs(in, dir, names)
	if in.Child {
		// a soup that imports itself through `import *` needs ~45 s for its 10000 imports on an idle
		// machine (each one splices every file of the directory again): leave room for a loaded one
		ctx, cancel := context.WithTimeout(context.Background(), 240*time.Second)
		defer cancel()
		cmd := exec.CommandContext(ctx, "sh", "-c", "ulimit -v 4000000; exec \"$0\" c10child \"$1\"", os.Args[0], path)
		cmd.Env = os.Environ()
		for k, v := range in.Env {
			cmd.Env = append(cmd.Env, k+"="+v)
		}
		outb, err := cmd.Output()
		switch {
		case ctx.Err() != nil:
			res.o = c10Obs{Class: "timeout"}
		case json.Unmarshal(outb, &res.o) != nil || res.o.Class == "":
			res.o = c10Obs{Class: "killed", Err: fmt.Sprint(err)} // memory cap or crash: did not terminate properly
		}
		return
	}
	blocks, err, p, to := c10ParseGuarded(path, []byte(in.Main))
	if to {
		c10Poisoned = true
		res.o = c10Obs{Class: "timeout"}
		return
	}
	res.o = c10Observe(blocks, err, p, dir, names)
	return
}

func c10Run(in0 interface{}) Result {
	in := in0.(*c10In)
	if c10Poisoned {
		return Result{Term: "(CLex [] [])", Obs: "skipped after a timeout", Class: "skipped", Sig: "skipped"}
	}
	for k, v := range c10Env {
		os.Setenv(k, v)
	}
	os.Unsetenv("V_UNSET")
	if in.Kind == "lex" {
		d := casketfile.NewDispenser("Testfile", strings.NewReader(in.Text))
		var toks []string
		n := 0
		for d.Next() {
			toks = append(toks, cPair(cZ(int64(d.Line())), cRunes(d.Val())))
			n++
		}
		return Result{Term: cApp("CLex", cRunes(in.Text), cList(toks)), Obs: n, Sig: "lex", Nontrivial: n >= 2, Class: fmt.Sprintf("lex:%dtok", min(n, 5))}
	}
	var res c10Res
	names := c10Names(in)
	if in.Child {
		c10StartPool()
		if f, ok := c10Futures[in]; ok {
			res = <-f
		} else {
			res = c10Exec(in)
		}
	} else {
		res = c10Exec(in)
	}
	o, globs := res.o, res.g
	direct := ""
	if o.Class == "panic" {
		direct = "panic: " + o.Panic
	}
	sig := in.Tag + ":" + o.Class
	if in.Child {
		sig = in.Tag + ":" + in.Text + ":" + o.Class
	}
	if in.Tag == "ast:env-newline" && (o.Class == "ok" || o.Class == "error") {
		sig = in.Tag // an environment value with a line break: one class whatever the outcome
	} else if in.HasExp && o.Class == "ok" && (in.Tag == "ast:snippets" || in.Tag == "ast:mixed") {
		// snippet tokens keep the line numbers of their definition: if the output deviates from the AST,
		// classify what that did to this input (F-C10-4/5, repaired: no deviation is expected any more)
		txt, st := c10StructDeviates(o, in.Expected)
		switch {
		case txt && !st:
			sig = "ast:snippet-lines:linestruct"
		case !txt && c10UnexpandedImport(o, in):
			sig = "ast:snippet-lines:unexpanded-import"
		}
	}
	// the place of every file: the base directory and id -> relative path of every name next to the Casketfile
	var nameT []string
	for i, n := range names {
		nameT = append(nameT, cPair(cN(uint64(i+1)), cRunes(n)))
	}
	kind := "0"
	if in.NoImp {
		kind = "1" // C10_parse_total_no_imports: fuel tokens+4, the real import bound
	}
	term := cApp("CParseAt", cRunes(res.dir), cList(nameT), kind, c10EnvTerm(in.Env), cN(c10Cap), cRunes(res.in.Main), c10FilesTerm(res.in, names), globs, c10ObsTerm(o), c10ExpTerm(in))
	nblocks := len(o.Blocks)
	return Result{Term: term, Obs: o, Sig: sig, Direct: direct,
		Nontrivial: in.HasExp || in.Child || (o.Class == "ok" && nblocks > 0) || len(in.Files) > 0, Class: in.Tag + ":" + o.Class}
}

// ---- rendering of ASTs ----
func c10Quote(tok string, r *Rand) string {
	need := tok == "" || strings.ContainsAny(tok, " \t\n\r\"#") || strings.ContainsRune(tok, 0xA0)
	// a text ending in a backslash, or containing backslash-quote, cannot be written inside quotes
	unquotable := strings.HasSuffix(tok, "\\") || strings.Contains(tok, "\\\"")
	if !need && (unquotable || r.Chance(80)) {
		return tok
	}
	return `"` + strings.ReplaceAll(tok, `"`, `\"`) + `"`
}

func c10Sep(r *Rand) string {
	switch r.Intn(6) {
	case 0:
		return "\t"
	case 1:
		return "  "
	case 2:
		return " \t "
	}
	return " "
}

// c10LongBudget > 0: the rendering under way may still place that many VERY long comments (a comment
// is insignificant whatever its length; 4096 is the size of the bufio buffers the lexer reads through)
var c10LongBudget int

// bytes of long comments the rendering under way may still place: a file of a case goes to Coq as ONE string
// literal, and literals beyond ~30000 characters overflow coqc's stack
var c10LongBytesLeft int

var c10LongLens = []int{4095, 4096, 4097, 8192, 4095, 4096, 4097, 4094, 4098, 5000, 16000}

// c10LongComment: '#' followed by exactly n bytes of commented-out configuration text
func c10LongComment(r *Rand) string {
	n := c10LongLens[r.Intn(len(c10LongLens))]
	if n > c10LongBytesLeft {
		n = 4096
	}
	c10LongBytesLeft -= n
	unit := r.Pick([]string{"gzip off ", "commented { out } ", "x", "\"quoted text\" tail ", "redir /old /new 301 # ", "a.example.com, b.example.com, "})
	return "#" + strings.Repeat(unit, n/len(unit)+1)[:n]
}

func c10EOL(r *Rand) string {
	s := ""
	if c10LongBudget > 0 && c10LongBytesLeft >= 4100 && r.Chance(20) {
		// at the end of a line that carries tokens
		c10LongBudget--
		s += c10Sep(r) + c10LongComment(r)
	} else if r.Chance(15) {
		s += c10Sep(r) + "# a comment { with } \"stuff\""
	}
	if r.Chance(10) {
		s += "\r"
	}
	s += "\n"
	if c10LongBudget > 0 && c10LongBytesLeft >= 4100 && r.Chance(15) {
		// on a line of its own
		c10LongBudget--
		s += r.Pick([]string{"", "\t", "  "}) + c10LongComment(r) + r.Pick([]string{"\n", "\n", "\r\n"})
	}
	for r.Chance(15) {
		s += c10Sep(r) + "\n"
	}
	return s
}

// renderer with a random partition into imported files (nested), glob groups and snippets
type c10Rend struct {
	r      *Rand
	mode   int // 0 inline, 1 files, 2 snippets, 3 mixed
	files  map[string]string
	snips  []string // snippet definitions, in the order in which their bodies were completed (inner first)
	n      int
	maxDep int
	pImp   int // chance (percent) that a run of lines is moved behind an import
	// order of the snippet definitions in the text: 0 inner first (every snippet defined before
	// the snippets that import it), 1 outer first (forward references: a snippet only has to exist
	// when the importing one is USED), 2 shuffled
	snipOrder int
	compact   bool // snippet definitions share physical lines (`(a) { x y } (b) { z }`)
}

func (R *c10Rend) line(l c10Line, indent string, depth int, fdir string, sb *strings.Builder) {
	r := R.r
	sb.WriteString(indent + c10Quote(l.Dir, r))
	for _, a := range l.Args {
		sb.WriteString(c10Sep(r) + c10Quote(a, r))
	}
	if len(l.Sub) > 0 {
		sb.WriteString(c10Sep(r) + "{" + c10EOL(r))
		sb.WriteString(R.lines(l.Sub, indent+"\t", depth, fdir))
		sb.WriteString(indent + "}")
	}
	sb.WriteString(c10EOL(r))
}

// lines renders a run of directive lines that live in a file of directory fdir ("" or "sub/")
func (R *c10Rend) lines(ls []c10Line, indent string, depth int, fdir string) string {
	r := R.r
	var sb strings.Builder
	for i := 0; i < len(ls); {
		if R.mode == 0 || depth >= R.maxDep || !r.Chance(35) {
			R.line(ls[i], indent, depth, fdir, &sb)
			i++
			continue
		}
		k := r.Range(1, 3)
		if i+k > len(ls) {
			k = len(ls) - i
		}
		run := ls[i : i+k]
		i += k
		R.n++
		how := R.mode
		if how == 3 {
			how = r.Range(1, 2)
		}
		switch {
		case how == 2: // snippet (its tokens keep the file and lines of the definition)
			name := fmt.Sprintf("sn%d", R.n)
			body := R.lines(run, "\t", depth+1, "")
			open, shut := c10EOL(r), c10EOL(r)
			if R.compact {
				// the first line starts on the line of the opening brace, the closing brace stands on
				// the last line of the body and the next definition follows on that same line: tokens
				// of different snippets carry EQUAL definition-site line numbers
				body = strings.TrimRight(strings.TrimLeft(body, "\t"), "\r\n")
				if i := strings.LastIndex(body, "\n"); strings.Contains(body[i+1:], "#") {
					body += "\n" // the last line ends in a comment: the brace must go below it
				}
				open, shut = c10Sep(r), c10Sep(r)
				body += c10Sep(r)
			}
			R.snips = append(R.snips, "("+name+")"+c10Sep(r)+"{"+open+body+"}"+shut)
			sb.WriteString(indent + "import" + c10Sep(r) + name + c10EOL(r))
		case k >= 2 && r.Chance(40): // glob over several files
			pre := fmt.Sprintf("g%d_", R.n)
			cut := r.Range(1, k-1)
			R.files[fdir+pre+"a.conf"] = R.lines(run[:cut], "", depth+1, fdir)
			R.files[fdir+pre+"b.conf"] = R.lines(run[cut:], "", depth+1, fdir)
			sb.WriteString(indent + "import" + c10Sep(r) + pre + r.Pick([]string{"*.conf", "?.conf", "*"}) + c10EOL(r))
		default:
			sub := ""
			if fdir == "" && r.Chance(30) {
				sub = "sub/"
			}
			name := fmt.Sprintf("inc%d.conf", R.n)
			R.files[fdir+sub+name] = R.lines(run, "", depth+1, fdir+sub)
			ref := sub + name
			if r.Chance(15) {
				ref = "{$V_E}" + ref // pattern goes through env replacement
			}
			sb.WriteString(indent + "import" + c10Sep(r) + c10Quote(ref, r) + c10EOL(r))
		}
	}
	return sb.String()
}

func c10LineTokens(l c10Line, first bool, out *[]c10ETok) {
	if first {
		*out = append(*out, c10ETok{T: l.Dir, NL: true}) // the directive's own token is stored as written
	} else {
		*out = append(*out, c10ETok{T: c10ExpandEnv(l.Dir), NL: true})
	}
	for _, a := range l.Args {
		*out = append(*out, c10ETok{T: c10ExpandEnv(a)})
	}
	if len(l.Sub) > 0 {
		*out = append(*out, c10ETok{T: "{"})
		for _, s := range l.Sub {
			c10LineTokens(s, false, out)
		}
		*out = append(*out, c10ETok{T: "}", NL: true})
	}
}

func c10Expected(blocks []c10Block) []c10EBlock {
	var bl []c10EBlock
	for _, b := range blocks {
		eb := c10EBlock{}
		for _, k := range b.Keys {
			eb.Keys = append(eb.Keys, c10ExpandEnv(k))
		}
		idx := map[string]int{}
		for _, l := range b.Lines {
			var toks []c10ETok
			c10LineTokens(l, true, &toks)
			d := c10ExpandEnv(l.Dir)
			if i, ok := idx[d]; ok {
				eb.Groups[i].Toks = append(eb.Groups[i].Toks, toks...)
			} else {
				idx[d] = len(eb.Groups)
				eb.Groups = append(eb.Groups, c10EGroup{Dir: d, Toks: toks})
			}
		}
		sort.SliceStable(eb.Groups, func(i, j int) bool { return eb.Groups[i].Dir < eb.Groups[j].Dir })
		bl = append(bl, eb)
	}
	return bl
}

// snipHead writes the snippet definitions in the chosen order
func (R *c10Rend) snipHead() string {
	defs := append([]string(nil), R.snips...)
	switch R.snipOrder {
	case 1:
		for i, j := 0, len(defs)-1; i < j; i, j = i+1, j-1 {
			defs[i], defs[j] = defs[j], defs[i]
		}
	case 2:
		p := R.r.Perm(len(defs))
		for i, j := range p {
			defs[i] = R.snips[j]
		}
	}
	head := strings.Join(defs, "")
	if head != "" && !strings.HasSuffix(head, "\n") {
		head += "\n"
	}
	return head
}

// c10Render turns blocks into a main text plus files
func c10Render(blocks []c10Block, mode int, braces bool, seed uint64) (string, map[string]string) {
	return c10RenderOpt(blocks, mode, braces, seed, 35)
}

func c10RenderOpt(blocks []c10Block, mode int, braces bool, seed uint64, pImp int) (string, map[string]string) {
	R := &c10Rend{r: NewRand(seed), mode: mode, files: map[string]string{}, maxDep: 4, pImp: pImp}
	r := R.r
	R.snipOrder = r.Intn(3)
	R.compact = r.Chance(25)
	var main strings.Builder
	for _, b := range blocks {
		var sb strings.Builder
		for i, k := range b.Keys {
			tok, sep := k, ""
			if i < len(b.Keys)-1 {
				switch r.Intn(3) {
				case 0:
					tok, sep = k+",", c10Sep(r)
				case 1:
					tok, sep = k+",", c10Sep(r)+"\n"
				default:
					sep = c10Sep(r)
				}
			}
			sb.WriteString(c10Quote(tok, r) + sep)
		}
		if braces || len(blocks) > 1 {
			sb.WriteString(" {" + c10EOL(r))
			sb.WriteString(R.lines(b.Lines, "\t", 0, ""))
			sb.WriteString("}" + c10EOL(r))
		} else {
			sb.WriteString(c10EOL(r))
			sb.WriteString(R.lines(b.Lines, "\t", 0, ""))
		}
		// a whole server block may live in its own file, imported at top level
		if mode != 0 && mode != 2 && (braces || len(blocks) > 1) && r.Chance(20) {
			R.n++
			name := fmt.Sprintf("site%d.conf", R.n)
			R.files[name] = sb.String()
			main.WriteString("import " + name + c10EOL(r))
		} else {
			main.WriteString(sb.String())
		}
	}
	head := R.snipHead()
	if head != "" && mode == 3 && r.Chance(40) {
		// snippet definitions in a file of their own, imported first
		R.files["snips.conf"] = head
		head = "import snips.conf\n"
	}
	return head + main.String(), R.files
}

// ---- import trees over several directories ----
// c10RenderDirs: every server block lives in a file of its own directory (imported from the main file
// by relative path, by absolute path, or through a glob over the directories); runs of its lines are
// moved into files whose names come from a SMALL pool shared by all directories (common.conf,
// inc.conf, tls.conf), placed in the importing file's directory, a sub-directory or the parent, and
// imported by the bare name, ./name, inc/name, ../name or the absolute path.  So the same relative
// import argument occurs in files of different directories and denotes a different file each time.
type c10DirRend struct {
	r     *Rand
	files map[string]string
	names []string
	main  string // the one name preferred in this configuration
}

func (R *c10DirRend) lines(ls []c10Line, indent, fdir string, depth int) string {
	r := R.r
	inl := &c10Rend{r: r, mode: 0, files: map[string]string{}, maxDep: 0}
	var sb strings.Builder
	for i := 0; i < len(ls); {
		if depth >= 3 || !r.Chance(45) {
			inl.line(ls[i], indent, depth, fdir, &sb)
			i++
			continue
		}
		k := r.Range(1, 2)
		if i+k > len(ls) {
			k = len(ls) - i
		}
		name := R.main
		if r.Chance(30) {
			name = r.Pick(R.names)
		}
		// where the file goes, and how the import statement names it
		tdir, ref := fdir, name
		switch r.Intn(8) {
		case 0:
			ref = "./" + name
		case 1:
			tdir, ref = fdir+"inc/", "inc/"+name
		case 2:
			if fdir != "" {
				tdir = fdir[:strings.LastIndex(strings.TrimSuffix(fdir, "/"), "/")+1]
				ref = "../" + name
			}
		case 3:
			ref = c10BaseMark + "/" + fdir + name
		case 4:
			ref = "{$V_E}" + name
		}
		if _, used := R.files[tdir+name]; used || (tdir == "" && name == "Casketfile") {
			inl.line(ls[i], indent, depth, fdir, &sb) // that directory already has a file of this name
			i++
			continue
		}
		R.files[tdir+name] = "" // reserve (the content may import further files)
		R.files[tdir+name] = R.lines(ls[i:i+k], "", tdir, depth+1)
		i += k
		sb.WriteString(indent + "import" + c10Sep(r) + ref + c10EOL(r))
	}
	return sb.String()
}

func c10RenderDirs(blocks []c10Block, seed uint64) (string, map[string]string) {
	r := NewRand(seed)
	R := &c10DirRend{r: r, files: map[string]string{}, names: []string{"common.conf", "inc.conf", "tls.conf"}}
	R.main = r.Pick(R.names)
	dirs := []string{"sites/a/", "sites/b/", "sites/c/", "conf.d/", "vhosts/x/y/", "sites/"}
	perm := r.Perm(len(dirs))
	var main strings.Builder
	viaGlob := len(blocks) > 1 && r.Chance(20) // `import sites/*/site.conf`: the sites in the directories' sorted order
	if viaGlob {
		for i := range blocks {
			perm[i] = i // sites/a/, sites/b/, sites/c/
		}
	}
	for i, b := range blocks {
		d := dirs[perm[i%len(perm)]]
		inMain := !viaGlob && r.Chance(15)
		if inMain {
			d = ""
		}
		var sb strings.Builder
		for k, key := range b.Keys {
			if k < len(b.Keys)-1 {
				sb.WriteString(c10Quote(key+",", r) + " ")
			} else {
				sb.WriteString(c10Quote(key, r))
			}
		}
		sb.WriteString(" {" + c10EOL(r))
		sb.WriteString(R.lines(b.Lines, "\t", d, 0))
		sb.WriteString("}" + c10EOL(r))
		switch {
		case inMain:
			main.WriteString(sb.String())
		case viaGlob:
			R.files[d+"site.conf"] = sb.String()
		default:
			R.files[d+"site.conf"] = sb.String()
			ref := d + "site.conf"
			if r.Chance(25) {
				ref = c10BaseMark + "/" + ref
			}
			main.WriteString("import " + ref + c10EOL(r))
		}
	}
	if viaGlob {
		main.WriteString("import sites/*/site.conf\n")
	}
	return main.String(), R.files
}

func c10Mutate(s string, r *Rand) string {
	rs := []rune(s)
	for k := r.Range(1, 3); k > 0 && len(rs) > 0; k-- {
		i := r.Intn(len(rs))
		switch r.Intn(5) {
		case 0: // drop a structural character near i
			for j := 0; j < len(rs); j++ {
				p := (i + j) % len(rs)
				if strings.ContainsRune("{}\"", rs[p]) {
					rs = append(rs[:p:p], rs[p+1:]...)
					break
				}
			}
		case 1:
			rs = append(rs[:i:i], append([]rune(r.Pick([]string{"{", "}", "\"", " { ", " } ", "\n}\n", "\n{\n", "import ", "\nimport\n", "\\"})), rs[i:]...)...)
		case 2: // truncate
			rs = rs[:i]
		case 3: // duplicate a slice
			j := min(len(rs), i+r.Range(1, 12))
			rs = append(rs[:j:j], append(append([]rune{}, rs[i:j]...), rs[j:]...)...)
		default: // swap a newline and a space
			for j := 0; j < len(rs); j++ {
				p := (i + j) % len(rs)
				if rs[p] == '\n' {
					rs[p] = ' '
					break
				} else if rs[p] == ' ' {
					rs[p] = '\n'
					break
				}
			}
		}
	}
	return string(rs)
}

func c10Gen(r *Rand, tier string) []interface{} {
	var out []interface{}
	nLong := 32
	if tier == "thorough" {
		nLong = 320
	}
	nLex, nRaw, nAst, nMal, nCyc, nNest := 600, 450, 560, 200, 12, 80
	nSoup := 300
	if tier == "thorough" {
		nLex, nRaw, nAst, nMal, nCyc, nNest = 10000, 9000, 12000, 4000, 120, 1500
		nSoup = 5000
	}
	alpha := []string{"a", "b", "c", " ", " ", "\t", "\n", "\n", "\r", "\"", "\"", "\\", "#", "{", "}", ",", " ", " ", "é", "\xff", "\v", "x", " ", " "}
	for i := 0; i < nLex; i++ {
		var sb strings.Builder
		if r.Chance(5) {
			sb.WriteString("\ufeff")
		}
		for k := r.Range(0, 40); k > 0; k-- {
			sb.WriteString(r.Pick(alpha))
		}
		out = append(out, &c10In{Kind: "lex", Text: sb.String()})
	}
	// token soups, with a few files and directories around them
	words := []string{"a.com", "b.com,", "dir1", "dir2", "arg", "{", "}", "{", "}", "\"q w\"", "\"multi\nline\"", "x,", "{$V_A}", "{%V_E%}", "{$V_UNSET}", "#c", "\n", "\n", "\n",
		"import", "import", "nofile.conf", "inc1.conf", "inc?.conf", "sub/*.conf", "*", "sub", "sn", "(sn)", "(sn)", "\"\"", "\"unterminated", "\\", ",", "{$V_BR}", "{$V_IMP}", "{$V_F}", "a*b*", "[x]", "{$V_NL}", "\"multi\n{$V_A}line\"", "\"{$V_E}\nx\""}
	soup := func(n int) string {
		var sb strings.Builder
		for k := r.Range(0, n); k > 0; k-- {
			sb.WriteString(r.Pick(words))
			sb.WriteString(r.Pick([]string{" ", " ", "\n", "\n", "\t", ""}))
		}
		return sb.String()
	}
	for i := 0; i < nRaw; i++ {
		in := &c10In{Kind: "parse", Tag: "raw", Main: soup(25)}
		if toks := c10Lex(in.Main); len(toks) > 8 {
			for k := 0; k+1 < len(toks); k++ {
				if toks[k+1] == "*" && (toks[k] == "import" || toks[k] == "{$V_IMP}") {
					// `import *` matches the Casketfile itself: every one of the 10000 imports splices the
					// whole file again (quadratic, ~40 s for 15 tokens); keep such self-importing soups short
					in.Main = "import *\n" + soup(5)
					break
				}
			}
		}
		if r.Chance(60) {
			in.Files = map[string]string{"inc1.conf": r.Pick([]string{"dir1 x\n", "dir2 {\n a b\n}\n", "", "b.com {\n}\n", "x y\nimport inc2.conf\n", "}", "{", "dir1 {"}), "inc2.conf": soup(6)}
			if r.Chance(50) {
				in.Files["sub/z.conf"] = soup(5)
				in.Files["sub/y.conf"] = "import z.conf\n"
			}
			if r.Chance(30) {
				in.Dirs = []string{"adir"}
			}
		}
		// a soup can import itself (`import *`, `import Casketfile`, mutually importing files): 10000
		// imports take seconds, so anything that mentions import runs in a child process
		all := in.Main
		for _, c := range in.Files {
			all += c
		}
		if strings.Contains(all, "import") || strings.Contains(all, "V_IMP") {
			in.Child = true
			in.Text = "soup"
		}
		out = append(out, in)
	}
	// arbitrary token soups WITHOUT import directives (no `import`, no reference expanding to it): mostly
	// ill-formed - unbalanced and stray braces, commas, snippet heads, empty and unterminated quotes,
	// references expanding to a brace, to nothing, to line breaks.  Judged for the result class (blocks
	// and every token, or the error class) against the model run with the PROVED fuel tokens+4 and the
	// implementation's own import bound (C10_parse_total_no_imports / C10_soup_reference_total): the
	// model may answer nothing but blocks or an error class, and the implementation must answer the same
	niWords := []string{"a.com", "b.com,", "dir1", "dir2", "arg", "{", "}", "{", "}", "{", "}", "\"q w\"", "\"multi\nline\"", "x,", "{$V_A}", "{%V_E%}", "{$V_UNSET}", "#c", "\n", "\n", "\n", "\n",
		"imports", "Import", "(sn)", "(sn)", "(t)", "(sn),", "sn", "\"\"", "\"unterminated", "\\", ",", "{$V_BR}", "{$V_BR}", "{$V_F}", "[x]", "{$V_NL}", "\"multi\n{$V_A}line\"", "\"{$V_E}\nx\"", "\"}\"", "\"{\"", "}}", "{{", "{}", "\ufeff", "{$V_REC}", "{$V_LOOP}"}
	for i := 0; i < nSoup; i++ {
		var sb strings.Builder
		for k := r.Range(0, 45); k > 0; k-- {
			sb.WriteString(r.Pick(niWords))
			sb.WriteString(r.Pick([]string{" ", " ", "\n", "\n", "\t", ""}))
		}
		in := &c10In{Kind: "parse", Tag: "soup-noimport", Main: sb.String(), NoImp: true}
		hasImport := false
		for _, t := range c10Lex(in.Main) { // glued words cannot give the token `import`, but stay safe
			hasImport = hasImport || t == "import"
		}
		if hasImport {
			continue
		}
		if r.Chance(30) {
			in.Files = map[string]string{"inc1.conf": "dir1 x\n"}
		}
		out = append(out, in)
	}
	keyPool := []string{"a.com", "b.com:8080", "http://x.org", ":2015", "c.com/path", "{$V_A}.com", "*.d.com"}
	dirPool := []string{"dir1", "dir2", "gzip", "root", "header", "{$V_A}dir"}
	argPool := []string{"x", "y", "/path", "two words", "multi\nline", "say \"hi\"", "#notcomment", "a#b", "{$V_A}", "pre{%V_A%}post", "{$V_E}", "{$V_UNSET}z", "", "tab\there", "é", "back\\slash", "{$V_SP}", "comma,", "-1", "k=v", "x\\\ny", "\\\n", "q\\", "{$V_REC}", "{$V_LOOP}{$V_A}", "{$V_E}{$V_A}{$V_E}", "{$V_PCT}", "{%V_REC%}", "{$}", "{$V_A", "a}{$V_A}", "import", "{$V_UNSET:dflt}", "{$V_A:dflt}x", "{%V_UNSET:-d%}",
		// quoted arguments that span several input lines AND hold a reference that changes the text: the token
		// ends on the line where its quotes close, the arguments behind it stay on its directive
		"multi\n{$V_A}line", "{$V_E}two\nlines", "l1\n{$V_UNSET}\nl3", "{%V_A%}\\\ncont", "Hello {$V_SP},\nwelcome"}
	subPool := []string{"opt1", "opt2", "rule", "to"}
	var mkLine func(depth int, nl bool) c10Line
	mkLine = func(depth int, nl bool) c10Line {
		l := c10Line{Dir: r.Pick(dirPool)}
		if depth > 0 {
			l.Dir = r.Pick(subPool)
		}
		for k := r.Intn(4); k > 0; k-- {
			if nl && r.Chance(30) {
				// ... and values that bring line breaks of their own, next to written ones
				l.Args = append(l.Args, r.Pick([]string{"{$V_NL}", "a{$V_NL}", "w1\nw2{$V_NL}", "{$V_NL}\n{$V_A}"}))
			} else {
				l.Args = append(l.Args, r.Pick(argPool))
			}
		}
		if depth < 3 && r.Chance(30-8*depth) {
			for k := r.Range(1, 3); k > 0; k-- {
				l.Sub = append(l.Sub, mkLine(depth+1, nl))
			}
		}
		return l
	}
	mkBlocks := func(nl bool) []c10Block {
		nb := 1
		if r.Chance(40) {
			nb = r.Range(2, 3)
		}
		var blocks []c10Block
		for b := 0; b < nb; b++ {
			blk := c10Block{}
			perm := r.Perm(len(keyPool))
			for k := 0; k < r.Range(1, 3); k++ {
				blk.Keys = append(blk.Keys, keyPool[perm[k]])
			}
			for k := r.Range(0, 6); k > 0; k-- {
				blk.Lines = append(blk.Lines, mkLine(0, nl))
			}
			blocks = append(blocks, blk)
		}
		return blocks
	}
	tags := []string{"ast:inline", "ast:files", "ast:snippets", "ast:mixed"}
	for i := 0; i < nAst; i++ {
		mode := r.Intn(4)
		nl := i%40 == 39 // a few configurations use an environment value that contains a line break
		blocks := mkBlocks(nl)
		main, files := c10Render(blocks, mode, r.Chance(60), r.U64()%1000003)
		tag := tags[mode]
		if nl {
			tag = "ast:env-newline"
		}
		out = append(out, &c10In{Kind: "parse", Tag: tag, Main: main, Files: files, HasExp: true, Expected: c10Expected(blocks)})
	}
	// nested snippet imports: blocks of several plain lines rendered with snippets only and a high
	// chance of moving a run of lines behind an import at every depth — snippets importing snippets
	// with directives before AND after the inner import, consecutive imports, the definitions written
	// inner-first, outer-first (forward references) or shuffled, one per line or sharing lines, so that
	// the definition-site line numbers of neighbouring tokens are larger, smaller or equal
	for i := 0; i < nNest; i++ {
		blocks := mkBlocks(false)
		for b := range blocks {
			for len(blocks[b].Lines) < 4 {
				blocks[b].Lines = append(blocks[b].Lines, mkLine(0, false))
			}
		}
		mode := 2
		if i%4 == 3 {
			mode = 3
		}
		main, files := c10RenderOpt(blocks, mode, r.Chance(60), r.U64()%1000003, 60)
		out = append(out, &c10In{Kind: "parse", Tag: tags[mode], Main: main, Files: files, HasExp: true, Expected: c10Expected(blocks)})
	}
	// very long comment lines (4095 .. 16000 bytes after the '#': around and beyond the size of the buffered
	// reader the lexer reads through), at the end of lines that carry tokens and on lines of their own, in
	// the main file, in imported files and in snippet definitions: the output must equal the generating AST
	var longs []interface{} // spread evenly among the other cases at the end (they are the expensive ones inside Coq)
	for i := 0; i < nLong; i++ {
		blocks := mkBlocks(false)
		mode := r.Intn(4)
		budget := r.Range(1, 3)
		c10LongBudget, c10LongBytesLeft = budget, 17000
		main, files := c10Render(blocks, mode, r.Chance(60), r.U64()%1000003)
		left := c10LongBudget
		c10LongBudget = 0
		if left == budget || i < 2 {
			// none placed by chance (or one of the two fixed forms): one at the end of the first line / on a line of its own in front
			lr := NewRand(r.U64())
			if left == budget {
				c10LongBytesLeft = 17000
			}
			if j := strings.Index(main, "\n"); j >= 0 && i%2 == 0 && !strings.Contains(main[:j], "\"") && !strings.Contains(main[:j], "#") && !strings.HasSuffix(main[:j], "\\") && !strings.HasSuffix(main[:j], "\r") {
				main = main[:j] + " " + c10LongComment(lr) + main[j:]
			} else {
				main = c10LongComment(lr) + "\n" + main
			}
		}
		longs = append(longs, &c10In{Kind: "parse", Tag: tags[mode], Main: main, Files: files, HasExp: true, Expected: c10Expected(blocks)})
	}
	// malformed block structure: a rendered configuration with braces/quotes/imports damaged
	for i := 0; i < nMal; i++ {
		blocks := mkBlocks(false)
		main, files := c10Render(blocks, r.Intn(4), r.Chance(60), r.U64()%1000003)
		if len(files) > 0 && r.Chance(40) {
			var names []string
			for n := range files {
				names = append(names, n)
			}
			sort.Strings(names)
			n := r.Pick(names)
			files[n] = c10Mutate(files[n], r)
		} else {
			main = c10Mutate(main, r)
		}
		mal := &c10In{Kind: "parse", Tag: "malformed", Main: main, Files: files}
		if all := main + fmt.Sprint(files); strings.Contains(all, "import") {
			mal.Child, mal.Text = true, "damaged"
		}
		out = append(out, mal)
	}
	// import graphs with a cycle reachable from the main file
	for i := 0; i < nCyc; i++ {
		k := r.Range(1, 4)
		files := map[string]string{}
		where := r.Intn(3) // 0 directive level, 1 inside a sub-block, 2 top level
		for j := 0; j < k; j++ {
			next := fmt.Sprintf("c%d.conf", (j+1)%k)
			var sb strings.Builder
			for n := r.Intn(3); n > 0; n-- {
				if where == 2 {
					sb.WriteString(fmt.Sprintf("h%d.com {\n\tdir1 x\n}\n", n))
				} else {
					sb.WriteString("dir1 " + r.Pick([]string{"x", "y z", "\"q w\""}) + "\n")
				}
			}
			sb.WriteString("import " + next + "\n")
			if r.Chance(40) && where != 2 {
				sb.WriteString("dir2 after\n")
			}
			files[fmt.Sprintf("c%d.conf", j)] = sb.String()
		}
		var main string
		switch where {
		case 0:
			main = "a.com {\n\tgzip\n\timport c0.conf\n}\n"
		case 1:
			main = "a.com {\n\tproxy / b {\n\t\timport c0.conf\n\t}\n}\n"
		default:
			main = "import c0.conf\n"
		}
		out = append(out, &c10In{Kind: "parse", Tag: "cycle", Text: fmt.Sprintf("gen-k%d-w%d", k, where), Main: main, Files: files, Child: true})
	}
	// import trees over several directories: same-named files of different content, the same relative
	// import argument resolved from files of different directories, ./ ../ sub-directory and absolute paths
	nDirs := 64
	if tier == "thorough" {
		nDirs = 1000
	}
	for i := 0; i < nDirs; i++ {
		blocks := mkBlocks(false)
		if len(blocks) < 2 || r.Chance(50) {
			blocks = append(blocks, mkBlocks(false)...)
		}
		if len(blocks) > 3 {
			blocks = blocks[:3]
		}
		for b := range blocks {
			for len(blocks[b].Lines) < 3 {
				blocks[b].Lines = append(blocks[b].Lines, mkLine(0, false))
			}
		}
		main, files := c10RenderDirs(blocks, r.U64()%1000003)
		out = append(out, &c10In{Kind: "parse", Tag: "ast:dirs", Main: main, Files: files, HasExp: true, Expected: c10Expected(blocks)})
	}
	for _, x := range out {
		if in := x.(*c10In); in.Child {
			c10ChildInputs = append(c10ChildInputs, in)
		}
	}
	var all []interface{}
	e := 0
	for i, c := range out {
		all = append(all, c)
		for e < len(longs) && (e+1)*len(out) <= (i+1)*len(longs) {
			all = append(all, longs[e])
			e++
		}
	}
	return append(all, longs[e:]...)
}

func init() {
	extraCommands["c10child"] = func(args []string) int {
		path := args[0]
		dir := filepath.Dir(path)
		var o c10Obs
		func() {
			defer func() {
				if r := recover(); r != nil {
					o = c10Obs{Class: "panic", Panic: fmt.Sprint(r)}
				}
			}()
			data, err := os.ReadFile(path)
			if err != nil {
				o = c10Obs{Class: "killed", Err: err.Error()}
				return
			}
			var names []string
			filepath.Walk(dir, func(p string, info os.FileInfo, err error) error {
				if err == nil && p != dir {
					rel, _ := filepath.Rel(dir, p)
					names = append(names, rel)
				}
				return nil
			})
			sort.Strings(names)
			blocks, perr := casketfile.Parse(path, bytes.NewReader(data), nil)
			o = c10Observe(blocks, perr, "", dir, names)
		}()
		b, _ := json.Marshal(o)
		os.Stdout.Write(b)
		return 0
	}
	register(&Property{
		ID: "C10", Imports: "V.Lib V.C10_Model", Judge: "judge", Shard: 120,
		Rule: "lexer: random rune strings over a quote/escape/comment/space alphabet (incl. BOM, NBSP, U+2028, invalid UTF-8) through NewDispenser; parser: token soups WITHOUT import directives (mostly ill-formed: stray and unbalanced braces, commas, snippet heads, unterminated quotes, references expanding to a brace / nothing / line breaks) judged against the model run with the PROVED fuel tokens+4 and the real import bound (kind 1 cases: the model must answer blocks or an error class and the implementation the same); token soups with importable files, sub-directories and snippets around them through casketfile.Parse (panic capture + watchdog, child process when an import cycle is possible); random ASTs (blocks, keys, directives, quoted/escaped/multi-line/env args, sub-blocks nested to depth 3) rendered with random layout and a random partition into imported files (nested to depth 4, sub-directories, glob groups, env-expanded patterns, whole sites), snippets (incl. snippets importing snippets with directives before and after the inner import, consecutive imports, definitions in inner-first / outer-first / shuffled order and sharing physical lines, and a snippet file), arguments incl. multi-line quoted tokens holding environment references followed by further arguments, and a family with very long comment lines (4094-16000 bytes, at line ends and on lines of their own, in main / imported files / snippet bodies) — the model parses the SAME files through a glob/file oracle and must give the same keys and (file, line, text) tokens or the same error class, and the output must equal the generating AST in texts and line structure; damaged renderings (malformed block structure); generated import cycles of length 1-4 at directive, sub-block and top level; import trees over several directories (every site in its own directory, same-named files of different content, the same relative import argument written in files of different directories, ./ ../ sub-directory, env-expanded and absolute paths, sites through a glob) whose output must equal the generating AST; every parser case carries the place of every file and the kernel checks filepath.Glob's answers for literal patterns against the model's resolution rule; non-trivial = >=2 tokens / parsed blocks / every AST, file or cycle case",
		Gen:    c10Gen,
		Decode: func(raw json.RawMessage) (interface{}, error) {
			in := &c10In{}
			err := json.Unmarshal(raw, in)
			if err == nil && in.Child {
				c10ChildInputs = append(c10ChildInputs, in)
			}
			return in, err
		},
		Run:    c10Run,
	})
}
