package main

import (
	"bytes"
	"context"
	"os/exec"
	"encoding/json"
	"fmt"
	"os"
	"path/filepath"
	"regexp"
	"sort"
	"strings"
	"time"

	"github.com/tmpim/casket/casketfile"
)

type c10Line struct {
	Dir  string    `json:"dir"`
	Args []string  `json:"args,omitempty"`
	Sub  []c10Line `json:"sub,omitempty"`
	Has  bool      `json:"has,omitempty"` // has a { } sub-block (possibly empty -> rendered only if Sub non-empty)
}
type c10Block struct {
	Keys  []string  `json:"keys"`
	Lines []c10Line `json:"lines"`
}
type c10In struct {
	Kind   string     `json:"kind"` // lex | raw | ast
	Text   string     `json:"text,omitempty"`
	Blocks []c10Block `json:"blocks,omitempty"`
	Split  int        `json:"split,omitempty"` // 0 inline, 1 imports, 2 snippets
	Seed   uint64     `json:"seed,omitempty"`  // layout / split choices
	Braces bool       `json:"braces,omitempty"`
	Files  map[string]string `json:"files,omitempty"` // cycle: files written next to the main file "Casketfile"
	Env    map[string]string `json:"env,omitempty"`   // cycle: extra environment of the child
}

var c10Env = map[string]string{"V_A": "alpha", "V_E": "", "V_SP": "two words", "V_REC": "a{$V_A}b", "V_LOOP": "x{$V_LOOP}", "V_PCT": "{%V_A%}"}
var c10ErrRe = regexp.MustCompile(`^\S+:\d+ - `)
var c10Poisoned bool

func cRunes(s string) string {
	var it []string
	for _, r := range []rune(s) { // Go's decoder: invalid bytes become U+FFFD, as bufio.ReadRune does
		it = append(it, fmt.Sprintf("%d", r))
	}
	return "[" + strings.Join(it, "; ") + "]%N"
}

func cRunesList(xs []string) string {
	it := make([]string, len(xs))
	for i, x := range xs {
		it[i] = cRunes(x)
	}
	return cList(it)
}

func c10EnvTerm() string {
	keys := make([]string, 0, len(c10Env))
	for k := range c10Env {
		keys = append(keys, k)
	}
	sort.Strings(keys)
	var it []string
	for _, k := range keys {
		it = append(it, cPair(cStr(k), cStr(c10Env[k])))
	}
	return cList(it)
}

type c10Group struct {
	dir  string
	toks []string
}

func c10BlocksTerm(blocks [][2]interface{}) string {
	var bl []string
	for _, b := range blocks {
		keys := b[0].([]string)
		groups := b[1].([]c10Group)
		sort.SliceStable(groups, func(i, j int) bool { return groups[i].dir < groups[j].dir })
		var gs []string
		for _, g := range groups {
			gs = append(gs, cPair(cRunes(g.dir), cRunesList(g.toks)))
		}
		bl = append(bl, cPair(cRunesList(keys), cList(gs)))
	}
	return cList(bl)
}

// parseGuarded runs casketfile.Parse with panic capture and a watchdog.
func c10ParseGuarded(path string, data []byte) (blocks []casketfile.ServerBlock, err error, panicked string, timedOut bool) {
	type out struct {
		b []casketfile.ServerBlock
		e error
		p string
	}
	ch := make(chan out, 1)
	go func() {
		defer func() {
			if r := recover(); r != nil {
				ch <- out{p: fmt.Sprint(r)}
			}
		}()
		b, e := casketfile.Parse(path, bytes.NewReader(data), nil)
		ch <- out{b: b, e: e}
	}()
	select {
	case o := <-ch:
		return o.b, o.e, o.p, false
	case <-time.After(4 * time.Second):
		return nil, nil, "", true
	}
}

func c10ObsTerm(blocks []casketfile.ServerBlock, err error, panicked string, timedOut bool) (string, string) {
	switch {
	case timedOut:
		return "OTimeout", "timeout"
	case panicked != "":
		return "OPanic", "panic"
	case err != nil:
		return cApp("OError", cBool(c10ErrRe.MatchString(err.Error()))), "error"
	}
	var bl [][2]interface{}
	for _, b := range blocks {
		var groups []c10Group
		for dir, toks := range b.Tokens {
			g := c10Group{dir: dir}
			for _, t := range toks {
				g.toks = append(g.toks, t.Text)
			}
			groups = append(groups, g)
		}
		bl = append(bl, [2]interface{}{b.Keys, groups})
	}
	return cApp("OBlocks", c10BlocksTerm(bl)), "ok"
}

// ---- rendering of ASTs ----
func c10Quote(tok string, r *Rand) string {
	need := tok == "" || strings.ContainsAny(tok, " \t\n\r\"#") || strings.ContainsRune(tok, 0xA0)
	// a text ending in a backslash, or containing backslash-quote, cannot be written inside quotes
	unquotable := strings.HasSuffix(tok, "\\") || strings.Contains(tok, "\\\"")
	if !need && (unquotable || r.Chance(80)) {
		return tok
	}
	return `"` + strings.ReplaceAll(tok, `"`, `\"`) + `"`
}

func c10Sep(r *Rand) string {
	switch r.Intn(6) {
	case 0:
		return "\t"
	case 1:
		return "  "
	case 2:
		return " \t "
	}
	return " "
}

func c10EOL(r *Rand) string {
	s := ""
	if r.Chance(15) {
		s += c10Sep(r) + "# a comment { with } \"stuff\""
	}
	if r.Chance(10) {
		s += "\r"
	}
	s += "\n"
	for r.Chance(15) {
		s += c10Sep(r) + "\n"
	}
	return s
}

func c10RenderLine(l c10Line, indent string, r *Rand, sb *strings.Builder) {
	sb.WriteString(indent + c10Quote(l.Dir, r))
	for _, a := range l.Args {
		sb.WriteString(c10Sep(r) + c10Quote(a, r))
	}
	if len(l.Sub) > 0 {
		sb.WriteString(c10Sep(r) + "{" + c10EOL(r))
		for _, s := range l.Sub {
			c10RenderLine(s, indent+"\t", r, sb)
		}
		sb.WriteString(indent + "}")
	}
	sb.WriteString(c10EOL(r))
}

var c10RefPct = regexp.MustCompile(`\{%([A-Za-z_]+)%\}`)
var c10RefDol = regexp.MustCompile(`\{\$([A-Za-z_]+)\}`)

// expected expansion, written independently of the implementation's scanning loop (valid for
// values that contain no placeholder syntax themselves)
func c10ExpandEnv(s string) string {
	f := func(re *regexp.Regexp) {
		s = re.ReplaceAllStringFunc(s, func(m string) string { return c10Env[re.FindStringSubmatch(m)[1]] })
	}
	f(c10RefPct)
	f(c10RefDol)
	return s
}

func c10LineTokens(l c10Line, first bool, out *[]string) {
	if first {
		*out = append(*out, l.Dir) // the directive's own token is stored as written
	} else {
		*out = append(*out, c10ExpandEnv(l.Dir))
	}
	for _, a := range l.Args {
		*out = append(*out, c10ExpandEnv(a))
	}
	if len(l.Sub) > 0 {
		*out = append(*out, "{")
		for _, s := range l.Sub {
			c10LineTokens(s, false, out)
		}
		*out = append(*out, "}")
	}
}

func c10Expected(blocks []c10Block) string {
	var bl [][2]interface{}
	for _, b := range blocks {
		var keys []string
		for _, k := range b.Keys {
			keys = append(keys, c10ExpandEnv(k))
		}
		idx := map[string]int{}
		var groups []c10Group
		for _, l := range b.Lines {
			var toks []string
			c10LineTokens(l, true, &toks)
			d := c10ExpandEnv(l.Dir)
			if i, ok := idx[d]; ok {
				groups[i].toks = append(groups[i].toks, toks...)
			} else {
				idx[d] = len(groups)
				groups = append(groups, c10Group{dir: d, toks: toks})
			}
		}
		bl = append(bl, [2]interface{}{keys, groups})
	}
	return "(Some " + c10BlocksTerm(bl) + ")"
}

// render returns the inline text and, for split != 0, the main text plus extra files.
func c10Render(in *c10In) (inline string, main string, files map[string]string) {
	files = map[string]string{}
	rIn := NewRand(in.Seed)
	rSp := NewRand(in.Seed) // identical layout stream for both renderings
	var sbI, sbM, snip strings.Builder
	nimp := 0
	for bi, b := range in.Blocks {
		head := func(r *Rand) string {
			s := ""
			for i, k := range b.Keys {
				tok := k
				sep := ""
				if i < len(b.Keys)-1 {
					switch r.Intn(3) {
					case 0:
						tok, sep = k+",", c10Sep(r)
					case 1:
						tok, sep = k+",", c10Sep(r)+"\n"
					default:
						sep = c10Sep(r)
					}
				}
				s += c10Quote(tok, r) + sep
			}
			return s
		}
		hI := head(rIn)
		hM := head(rSp)
		braces := in.Braces || len(in.Blocks) > 1
		if braces {
			eI, eM := c10EOL(rIn), c10EOL(rSp)
			sbI.WriteString(hI + " {" + eI)
			sbM.WriteString(hM + " {" + eM)
		} else {
			eI, eM := c10EOL(rIn), c10EOL(rSp)
			sbI.WriteString(hI + eI)
			sbM.WriteString(hM + eM)
		}
		for li, l := range b.Lines {
			var one strings.Builder
			c10RenderLine(l, "\t", rIn, &one)
			sbI.WriteString(one.String())
			var two strings.Builder
			c10RenderLine(l, "\t", rSp, &two)
			// decide per line whether it moves out
			move := in.Split != 0 && (bi*7+li*3+int(in.Seed))%3 == 0
			if !move {
				sbM.WriteString(two.String())
				continue
			}
			nimp++
			if in.Split == 1 {
				name := fmt.Sprintf("inc_%d.conf", nimp)
				files[name] = two.String()
				sbM.WriteString("\timport " + name + "\n")
			} else {
				name := fmt.Sprintf("snip%d", nimp)
				snip.WriteString("(" + name + ") {\n" + two.String() + "}\n")
				sbM.WriteString("\timport " + name + "\n")
			}
		}
		if braces {
			eI, eM := c10EOL(rIn), c10EOL(rSp)
			sbI.WriteString("}" + eI)
			sbM.WriteString("}" + eM)
		}
	}
	return sbI.String(), snip.String() + sbM.String(), files
}

var c10Dir string

func c10Run(in0 interface{}) Result {
	in := in0.(*c10In)
	if c10Poisoned {
		return Result{Term: "(CLex [] [])", Obs: "skipped after a timeout", Class: "skipped", Sig: "skipped"}
	}
	for k, v := range c10Env {
		os.Setenv(k, v)
	}
	os.Unsetenv("V_UNSET")
	switch in.Kind {
	case "lex":
		d := casketfile.NewDispenser("Testfile", strings.NewReader(in.Text))
		var toks []string
		n := 0
		for d.Next() {
			toks = append(toks, cPair(cZ(int64(d.Line())), cRunes(d.Val())))
			n++
		}
		return Result{Term: cApp("CLex", cRunes(in.Text), cList(toks)), Obs: n, Sig: "lex", Nontrivial: n >= 2, Class: fmt.Sprintf("lex:%dtok", min(n, 5))}
	case "raw":
		blocks, err, p, to := c10ParseGuarded("Testfile", []byte(in.Text))
		if to {
			c10Poisoned = true
		}
		ot, cls := c10ObsTerm(blocks, err, p, to)
		direct := ""
		if p != "" {
			direct = "panic: " + p
		}
		return Result{Term: cApp("CParse", "0", c10EnvTerm(), cRunes(in.Text), ot, "None"), Obs: map[string]interface{}{"class": cls, "err": fmt.Sprint(err), "panic": p},
			Sig: "raw:" + cls, Direct: direct, Nontrivial: cls == "ok" && len(blocks) > 0, Class: "raw:" + cls}
	case "cycle":
		// potentially non-terminating inputs run in a child process under a watchdog and a memory cap
		base := os.Getenv("VERIF_ROOT")
		if base == "" {
			base = os.TempDir()
		}
		dir, _ := os.MkdirTemp(filepath.Join(base, "run"), "c10cyc")
		defer os.RemoveAll(dir)
		for name, content := range in.Files {
			os.WriteFile(filepath.Join(dir, name), []byte(content), 0o644)
		}
		ctx, cancel := context.WithTimeout(context.Background(), 6*time.Second)
		defer cancel()
		cmd := exec.CommandContext(ctx, "sh", "-c", "ulimit -v 3000000; exec \"$0\" c10child \"$1\"", os.Args[0], filepath.Join(dir, "Casketfile"))
		cmd.Env = os.Environ()
		for k, v := range in.Env {
			cmd.Env = append(cmd.Env, k+"="+v)
		}
		outb, err := cmd.Output()
		cls := strings.TrimSpace(string(outb))
		ot := "OTimeout"
		switch {
		case ctx.Err() != nil:
			cls = "timeout"
		case strings.HasPrefix(cls, "error:"):
			ot = cApp("OError", cBool(c10ErrRe.MatchString(strings.TrimPrefix(cls, "error:"))))
			cls = "error"
		case strings.HasPrefix(cls, "ok"):
			ot = "(OBlocks [])"
			cls = "ok"
		case strings.HasPrefix(cls, "panic"):
			ot = "OPanic"
		default:
			cls = "killed:" + fmt.Sprint(err) // memory cap or crash: did not terminate properly
		}
		return Result{Term: cApp("CParse", "1", "[]", cRunes("import cyclic"), ot, "None"), Obs: map[string]interface{}{"class": cls, "files": in.Files},
			Sig: "cycle:" + in.Text + ":" + strings.SplitN(cls, ":", 2)[0], Nontrivial: true, Class: "cycle:" + cls}
	case "ast":
		inline, main, files := c10Render(in)
		if c10Dir == "" {
			base := os.Getenv("VERIF_ROOT")
			if base == "" {
				base = os.TempDir()
			}
			c10Dir, _ = os.MkdirTemp(filepath.Join(base, "run"), "c10")
		}
		for name, content := range files {
			os.WriteFile(filepath.Join(c10Dir, name), []byte(content), 0o644)
		}
		path := filepath.Join(c10Dir, "Casketfile")
		blocks, err, p, to := c10ParseGuarded(path, []byte(main))
		for name := range files {
			os.Remove(filepath.Join(c10Dir, name))
		}
		if to {
			c10Poisoned = true
		}
		ot, cls := c10ObsTerm(blocks, err, p, to)
		direct := ""
		if p != "" {
			direct = "panic: " + p
		}
		return Result{Term: cApp("CParse", cN(uint64(in.Split)), c10EnvTerm(), cRunes(inline), ot, c10Expected(in.Blocks)),
			Obs: map[string]interface{}{"class": cls, "err": fmt.Sprint(err), "main": main, "files": files},
			Sig: fmt.Sprintf("ast:split%d:%s", in.Split, cls), Direct: direct, Nontrivial: true, Class: fmt.Sprintf("ast:split%d:%s", in.Split, cls)}
	}
	panic("bad kind")
}

func c10Gen(r *Rand, tier string) []interface{} {
	var out []interface{}
	nLex, nRaw, nAst := 700, 700, 900
	if tier == "thorough" {
		nLex, nRaw, nAst = 12000, 12000, 15000
	}
	alpha := []string{"a", "b", "c", " ", " ", "\t", "\n", "\n", "\r", "\"", "\"", "\\", "#", "{", "}", ",", " ", " ", "é", "\xff", "\v", "x"}
	for i := 0; i < nLex; i++ {
		var sb strings.Builder
		if r.Chance(5) {
			sb.WriteString("\ufeff")
		}
		for k := r.Range(0, 40); k > 0; k-- {
			sb.WriteString(r.Pick(alpha))
		}
		out = append(out, &c10In{Kind: "lex", Text: sb.String()})
	}
	words := []string{"a.com", "b.com,", "dir1", "dir2", "arg", "{", "}", "{", "}", "\"q w\"", "\"multi\nline\"", "x,", "{$V_A}", "{%V_E%}", "{$V_UNSET}", "#c", "\n", "\n", "\n", "import", "nofile.conf", "\"\"", "(snip)", "\"unterminated", "\\", ","}
	for i := 0; i < nRaw; i++ {
		var sb strings.Builder
		for k := r.Range(0, 25); k > 0; k-- {
			sb.WriteString(r.Pick(words))
			sb.WriteString(r.Pick([]string{" ", " ", "\n", "\t", ""}))
		}
		out = append(out, &c10In{Kind: "raw", Text: sb.String()})
	}
	keyPool := []string{"a.com", "b.com:8080", "http://x.org", ":2015", "c.com/path", "{$V_A}.com", "*.d.com"}
	dirPool := []string{"dir1", "dir2", "gzip", "root", "header", "{$V_A}dir"}
	argPool := []string{"x", "y", "/path", "two words", "multi\nline", "say \"hi\"", "#notcomment", "a#b", "{$V_A}", "pre{%V_A%}post", "{$V_E}", "{$V_UNSET}z", "", "tab\there", "é", "back\\slash", "{$V_SP}", "comma,", "-1", "k=v", "x\\\ny", "\\\n", "q\\", "{$V_REC}", "{$V_LOOP}{$V_A}", "{$V_E}{$V_A}{$V_E}", "{$V_PCT}", "{%V_REC%}", "{$}", "{$V_A", "a}{$V_A}"}
	subPool := []string{"opt1", "opt2", "rule", "to"}
	mkLine := func(depth int) c10Line {
		l := c10Line{Dir: r.Pick(dirPool)}
		for k := r.Intn(4); k > 0; k-- {
			l.Args = append(l.Args, r.Pick(argPool))
		}
		if r.Chance(30) {
			for k := r.Range(1, 3); k > 0; k-- {
				s := c10Line{Dir: r.Pick(subPool)}
				for j := r.Intn(3); j > 0; j-- {
					s.Args = append(s.Args, r.Pick(argPool))
				}
				if depth == 0 && r.Chance(15) {
					s.Sub = []c10Line{{Dir: r.Pick(subPool), Args: []string{r.Pick(argPool)}}}
				}
				l.Sub = append(l.Sub, s)
			}
		}
		return l
	}
	for i := 0; i < nAst; i++ {
		in := &c10In{Kind: "ast", Seed: r.U64() % 1000003, Braces: r.Chance(60), Split: r.Intn(3)}
		nb := 1
		if r.Chance(40) {
			nb = r.Range(2, 3)
		}
		for b := 0; b < nb; b++ {
			blk := c10Block{}
			perm := r.Perm(len(keyPool))
			for k := 0; k < r.Range(1, 3); k++ {
				blk.Keys = append(blk.Keys, keyPool[perm[k]])
			}
			for k := r.Range(0, 5); k > 0; k-- {
				blk.Lines = append(blk.Lines, mkLine(0))
			}
			in.Blocks = append(in.Blocks, blk)
		}
		out = append(out, in)
	}
	return out
}

func init() {
	extraCommands["c10child"] = func(args []string) int {
		defer func() {
			if r := recover(); r != nil {
				fmt.Println("panic:", r)
			}
		}()
		data, err := os.ReadFile(args[0])
		if err != nil {
			fmt.Println("error:", err)
			return 0
		}
		_, perr := casketfile.Parse(args[0], bytes.NewReader(data), nil)
		if perr != nil {
			fmt.Println("error:" + perr.Error())
		} else {
			fmt.Println("ok")
		}
		return 0
	}
	register(&Property{
		ID: "C10", Imports: "V.Lib V.C10_Model", Judge: "judge", Shard: 150,
		Rule: "lexer: random rune strings over a quote/escape/comment/space alphabet (incl. BOM, NBSP, U+2028, invalid UTF-8) through NewDispenser; parser: structure-aware token soups through casketfile.Parse with panic capture + watchdog; random ASTs (blocks, keys, directives, quoted/escaped/multi-line/env args, nested sub-blocks) rendered with random layout and parsed inline, split into imported files, or through snippets — compared with the model's parse of the inline text and with the generating AST; non-trivial = >=2 tokens / parsed blocks / every AST case",
		Gen:    c10Gen,
		Decode: func(raw json.RawMessage) (interface{}, error) { in := &c10In{}; return in, json.Unmarshal(raw, in) },
		Run:    c10Run,
	})
}
