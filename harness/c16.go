package main

// C16 — lifecycle callbacks fire exactly once, in order, across start / reload / stop.
//
// A probe server type ("verifc16") is registered through the public plugin API.  Its
// directives register OnFirstStartup / OnStartup / OnRestart / OnRestartFailed / OnShutdown /
// OnFinalShutdown callbacks that record an event and fail on demand; its context's MakeServers
// builds fake servers (graceful or not, listeners with or without a file descriptor, Listen
// failing on demand) that record listen / hand-over / serve / stop / serve-returned.
//
// Case classes (see coq/C16_Model.v):
//   hist  : a history of casket.Start / Instance.Restart / Instance.Stop / casket.Stop /
//           Instance.ShutdownCallbacks / executeShutdownCallbacks (hook) / Instance.Wait probes
//           run on the real code in this process; per operation the recorded events and the
//           result go to Coq, which replays the history on the model (agree) and evaluates the
//           executable statement of the property on the observed records (spec_ok)
//   child : the same history in a CHILD process of this binary which then calls
//           casket.TrapSignals() and is sent SIGINT / SIGTERM sequences by the parent, the later
//           ones optionally while the first shutdown callback is held at a gate (so that the
//           once-guard is really contended); the events after the first signal and the exit
//           status are judged
//   conc  : a history that leaves >= 3 live instances, then executeShutdownCallbacks (hook) while
//           Instance.Stop of one or two of them is called from other goroutines INSIDE the first
//           shutdown callback (held until those Stops returned or were blocked for 60 ms): the
//           callbacks that ran, the stop events, the exit status and casket.Instances() at the end
//           are judged against the interleaving model of allShutdownCallbacks / Stop

import (
	"bufio"
	"encoding/json"
	"errors"
	"fmt"
	"io"
	"net"
	"os"
	"os/exec"
	"path/filepath"
	"runtime"
	"strconv"
	"strings"
	"sync"
	"sync/atomic"
	"syscall"
	"time"

	"github.com/tmpim/casket"
	"github.com/tmpim/casket/casketfile"
)

// ------------------------------------------------------------------ inputs
type c16Cb struct {
	ID   int  `json:"id"`
	Fail bool `json:"fail,omitempty"`
}
type c16Srv struct {
	Addr       int  `json:"addr"`
	Graceful   bool `json:"graceful,omitempty"`
	File       int  `json:"file,omitempty"` // 0 no File(), 1 File() ok, 2 File() errors
	ListenFail bool `json:"listen_fail,omitempty"`
	StopErr    bool `json:"stop_err,omitempty"` // GracefulServer.Stop returns an error (drain timeout)
}
type c16Cfg struct {
	ParseFail bool     `json:"parse_fail,omitempty"`
	SetupFail bool     `json:"setup_fail,omitempty"`
	MakeFail  bool     `json:"make_fail,omitempty"`
	First     []c16Cb  `json:"first,omitempty"`
	Startup   []c16Cb  `json:"startup,omitempty"`
	Restart   []c16Cb  `json:"restart,omitempty"`
	RFailed   []c16Cb  `json:"rfailed,omitempty"`
	Shutdown  []c16Cb  `json:"shutdown,omitempty"`
	Final     []c16Cb  `json:"final,omitempty"`
	Servers   []c16Srv `json:"servers,omitempty"`
	SetupPanic bool    `json:"setup_panic,omitempty"` // a directive's setup function panics
}
type c16Op struct {
	Op  string  `json:"op"` // start restart stopinst stopall shutdowncbs exec wait
	H   int     `json:"h,omitempty"`
	Cfg *c16Cfg `json:"cfg,omitempty"`
}
type c16In struct {
	Kind  string   `json:"kind"` // hist | child | conc
	Ops   []c16Op  `json:"ops"`
	Stops []int    `json:"stops,omitempty"` // conc: handles whose Instance.Stop is called during the first shutdown callback
	Sigs  []string `json:"sigs,omitempty"` // INT | TERM
	Gated bool     `json:"gated,omitempty"`
	Note  string   `json:"note,omitempty"`
	// race: Instance.Restart of handle H with Cfg is held inside its first callback of kind Gate
	// (restart | startup | shutdown) while executeShutdownCallbacks runs to completion
	H    int     `json:"h,omitempty"`
	Cfg  *c16Cfg `json:"cfg,omitempty"`
	Gate string  `json:"gate,omitempty"`
}

// ------------------------------------------------------------------ events
type c16Ev struct {
	T  string `json:"t"` // new make cb listen file inherit after serve stop ret hook
	K  string `json:"k,omitempty"`
	I  int    `json:"i"`
	S  int    `json:"s,omitempty"`
	L  int    `json:"l,omitempty"`
	OK bool   `json:"ok,omitempty"`
}
type c16Res struct {
	T  string `json:"t"` // inst num bool unit
	OK bool   `json:"ok,omitempty"`
	N  int    `json:"n,omitempty"`
}
type c16Rec struct {
	Op  c16Op   `json:"-"`
	Ev  []c16Ev `json:"ev"`
	Res c16Res  `json:"res"`
}

var c16KindCtor = map[string]string{"first": "KFirst", "startup": "KStartup", "restart": "KRestart",
	"rfailed": "KRestartFailed", "shutdown": "KShutdown", "final": "KFinal"}

func c16EvTerm(e c16Ev) string {
	n := strconv.Itoa
	switch e.T {
	case "new":
		return "(ENew " + n(e.I) + ")"
	case "make":
		return "(EMake " + n(e.I) + ")"
	case "cb":
		return "(ECb " + c16KindCtor[e.K] + " " + n(e.I) + " " + n(e.L) + ")"
	case "listen":
		return "(EListen " + n(e.I) + " " + n(e.S) + " " + cBool(e.OK) + ")"
	case "file":
		return "(EFile " + n(e.I) + " " + n(e.S) + " " + cBool(e.OK) + ")"
	case "inherit":
		return "(EInherit " + n(e.I) + " " + n(e.S) + ")"
	case "after":
		return "(EAfter " + n(e.I) + " " + n(e.S) + ")"
	case "serve":
		return "(EServe " + n(e.I) + " " + n(e.S) + ")"
	case "stop":
		return "(EStop " + n(e.I) + " " + n(e.S) + ")"
	case "ret":
		return "(ERet " + n(e.I) + " " + n(e.S) + ")"
	case "hook":
		if e.K == "shutdown" {
			return "(EHook HShutdown 0)"
		}
		return "(EHook HInstanceStartup " + n(e.I) + ")"
	}
	return "(ENew 999999)"
}
func c16EvHuman(e c16Ev) string {
	switch e.T {
	case "cb":
		return fmt.Sprintf("%s[%d].%d", e.K, e.I, e.L)
	case "listen", "file":
		return fmt.Sprintf("%s[%d.%d]=%v", e.T, e.I, e.S, e.OK)
	case "new", "make":
		return fmt.Sprintf("%s[%d]", e.T, e.I)
	case "hook":
		return fmt.Sprintf("hook:%s[%d]", e.K, e.I)
	}
	return fmt.Sprintf("%s[%d.%d]", e.T, e.I, e.S)
}
func c16EvsTerm(evs []c16Ev) string {
	it := make([]string, len(evs))
	for i, e := range evs {
		it[i] = c16EvTerm(e)
	}
	return cList(it)
}
func c16CbsTerm(l []c16Cb) string {
	it := make([]string, len(l))
	for i, c := range l {
		it[i] = "(mkCb " + strconv.Itoa(c.ID) + " " + cBool(c.Fail) + ")"
	}
	return cList(it)
}
func c16CfgTerm(c *c16Cfg) string {
	if c == nil {
		c = &c16Cfg{}
	}
	sv := make([]string, len(c.Servers))
	for i, s := range c.Servers {
		sv[i] = fmt.Sprintf("(mkSrv %d %s %d %s %s)", s.Addr, cBool(s.Graceful), s.File, cBool(s.ListenFail), cBool(s.StopErr))
	}
	return "(mkCfg " + cBool(c.ParseFail) + " " + cBool(c.SetupFail) + " " + cBool(c.MakeFail) + " " +
		c16CbsTerm(c.First) + " " + c16CbsTerm(c.Startup) + " " + c16CbsTerm(c.Restart) + " " +
		c16CbsTerm(c.RFailed) + " " + c16CbsTerm(c.Shutdown) + " " + c16CbsTerm(c.Final) + " " + cList(sv) + " " + cBool(c.SetupPanic) + ")"
}
func c16OpTerm(o c16Op) string {
	switch o.Op {
	case "start":
		return "(OStart " + c16CfgTerm(o.Cfg) + ")"
	case "restart":
		return "(ORestart " + strconv.Itoa(o.H) + " " + c16CfgTerm(o.Cfg) + ")"
	case "stopinst":
		return "(OStopInst " + strconv.Itoa(o.H) + ")"
	case "stopall":
		return "OStopAll"
	case "shutdowncbs":
		return "(OShutdownCbs " + strconv.Itoa(o.H) + ")"
	case "exec":
		return "OExecShutdown"
	case "wait":
		return "(OWait " + strconv.Itoa(o.H) + ")"
	}
	return "OStopAll"
}
func c16ResTerm(r c16Res) string {
	switch r.T {
	case "inst":
		return "(RInst " + cBool(r.OK) + " " + strconv.Itoa(r.N) + ")"
	case "num":
		return "(RNum " + strconv.Itoa(r.N) + ")"
	case "bool":
		return "(RBool " + cBool(r.OK) + ")"
	case "panic":
		return "RPanic"
	}
	return "RUnit"
}
func c16RecsTerm(recs []c16Rec) string {
	it := make([]string, len(recs))
	for i, r := range recs {
		it[i] = "(" + c16OpTerm(r.Op) + ", " + c16EvsTerm(r.Ev) + ", " + c16ResTerm(r.Res) + ")"
	}
	return cList(it)
}

// ------------------------------------------------------------------ the world of one case
type c16World struct {
	mu      sync.Mutex
	closed  bool
	log     []c16Ev
	nextID  int
	byInst  map[*casket.Instance]int
	byID    map[int]*casket.Instance
	handles map[int]*casket.Instance // instances the embedding program can name (returned by Start/Restart or listed by Instances())
	servers []*c16Server
	ctxs    map[int]*c16Ctx
	sink    io.Writer // child: every event is streamed
	// gate: the first shutdown callback run after arming blocks until released
	gateArmed atomic.Bool
	gateUsed  atomic.Bool
	gateWait  func()
	gateKind  string // "" = shutdown
}

var (
	c16W    *c16World
	c16Once sync.Once
)

func (w *c16World) emit(e c16Ev) {
	w.mu.Lock()
	if !w.closed {
		w.log = append(w.log, e)
		if w.sink != nil {
			b, _ := json.Marshal(e)
			w.sink.Write(append(append([]byte("E "), b...), '\n'))
		}
	}
	w.mu.Unlock()
}

// ------------------------------------------------------------------ probe server type
const c16Type = "verifc16"

var c16Dirs = []string{"cfirst", "cstartup", "crestart", "crfailed", "cshutdown", "cfinal", "server", "makefail", "setupfail", "setuppanic"}

type c16Ctx struct {
	w        *c16World
	id       int
	specs    []c16Srv
	makeFail bool
	nsrv     int // servers MakeServers built
	opened   int32
}

func (c *c16Ctx) InspectServerBlocks(f string, sb []casketfile.ServerBlock) ([]casketfile.ServerBlock, error) {
	return sb, nil
}
func (c *c16Ctx) MakeServers() ([]casket.Server, error) {
	c.w.emit(c16Ev{T: "make", I: c.id})
	if c.makeFail {
		return nil, errors.New("c16: MakeServers told to fail")
	}
	var out []casket.Server
	for j, sp := range c.specs {
		s := &c16Server{w: c.w, ctx: c, inst: c.id, idx: j, spec: sp, quit: make(chan struct{})}
		c.w.mu.Lock()
		c.w.servers = append(c.w.servers, s)
		c.w.mu.Unlock()
		if sp.Graceful {
			out = append(out, c16Graceful{s})
		} else {
			out = append(out, s)
		}
	}
	c.nsrv = len(out)
	return out, nil
}

type c16Server struct {
	w        *c16World
	ctx      *c16Ctx
	inst     int
	idx      int
	spec     c16Srv
	quit     chan struct{}
	quitOnce sync.Once
	stopReq  atomic.Bool
	served   atomic.Bool
	returned atomic.Bool
	lnMu     sync.Mutex
	lns      []net.Listener
}

func (s *c16Server) keep(ln net.Listener) {
	s.lnMu.Lock()
	s.lns = append(s.lns, ln)
	s.lnMu.Unlock()
}

// listener without a file descriptor
type c16PlainLn struct {
	done chan struct{}
	once sync.Once
}

func (l *c16PlainLn) Accept() (net.Conn, error) { <-l.done; return nil, errors.New("use of closed network connection") }
func (l *c16PlainLn) Close() error              { l.once.Do(func() { close(l.done) }); return nil }
func (l *c16PlainLn) Addr() net.Addr            { return &net.TCPAddr{IP: net.IPv4(127, 0, 0, 1), Port: 1} }

// listener with a file descriptor (casket.Listener); File() may be told to fail
type c16FileLn struct {
	*net.TCPListener
	srv *c16Server
}

func (l *c16FileLn) File() (*os.File, error) {
	if l.srv.spec.File == 2 {
		l.srv.w.emit(c16Ev{T: "file", I: l.srv.inst, S: l.srv.idx, OK: false})
		return nil, errors.New("c16: File told to fail")
	}
	l.srv.w.emit(c16Ev{T: "file", I: l.srv.inst, S: l.srv.idx, OK: true})
	return l.TCPListener.File()
}

type c16HiddenLn struct{ net.Listener } // hides File()

func (s *c16Server) wrap(ln net.Listener) net.Listener {
	if tl, ok := ln.(*net.TCPListener); ok && s.spec.File != 0 {
		return &c16FileLn{TCPListener: tl, srv: s}
	}
	if s.spec.File == 0 {
		if _, ok := ln.(*c16PlainLn); ok {
			return ln
		}
		return c16HiddenLn{ln}
	}
	return ln
}

func (s *c16Server) Listen() (net.Listener, error) {
	if s.spec.ListenFail {
		s.w.emit(c16Ev{T: "listen", I: s.inst, S: s.idx, OK: false})
		return nil, errors.New("c16: Listen told to fail")
	}
	var ln net.Listener
	if s.spec.File == 0 {
		ln = &c16PlainLn{done: make(chan struct{})}
	} else {
		tl, err := net.Listen("tcp", "127.0.0.1:0")
		if err != nil {
			s.w.emit(c16Ev{T: "listen", I: s.inst, S: s.idx, OK: false})
			return nil, err
		}
		ln = s.wrap(tl)
	}
	s.keep(ln)
	atomic.AddInt32(&s.ctx.opened, 1)
	s.w.emit(c16Ev{T: "listen", I: s.inst, S: s.idx, OK: true})
	return ln, nil
}
func (s *c16Server) Serve(ln net.Listener) error {
	s.w.emit(c16Ev{T: "serve", I: s.inst, S: s.idx})
	s.served.Store(true)
	<-s.quit
	if ln != nil {
		ln.Close()
	}
	s.w.emit(c16Ev{T: "ret", I: s.inst, S: s.idx})
	s.returned.Store(true)
	return nil
}
func (s *c16Server) ListenPacket() (net.PacketConn, error) { return nil, nil }
func (s *c16Server) ServePacket(net.PacketConn) error      { return nil }
func (s *c16Server) OnStartupComplete()                    { s.w.emit(c16Ev{T: "after", I: s.inst, S: s.idx}) }
func (s *c16Server) release()                              { s.quitOnce.Do(func() { close(s.quit) }) }

type c16Graceful struct{ *c16Server }

func (g c16Graceful) Stop() error {
	g.w.emit(c16Ev{T: "stop", I: g.inst, S: g.idx})
	g.stopReq.Store(true)
	g.release()
	if g.spec.StopErr {
		// what httpserver.Server.Stop returns when a connection outlives the graceful timeout
		return errors.New("context deadline exceeded")
	}
	return nil
}
func (g c16Graceful) Address() string { return "c16addr" + strconv.Itoa(g.spec.Addr) }
func (g c16Graceful) WrapListener(ln net.Listener) net.Listener {
	if ln == nil {
		return nil
	}
	g.w.emit(c16Ev{T: "inherit", I: g.inst, S: g.idx})
	atomic.AddInt32(&g.ctx.opened, 1)
	out := g.wrap(ln)
	g.keep(out)
	return out
}

func c16Register() {
	c16Once.Do(func() {
		casket.Quiet = true
		casket.RegisterServerType(c16Type, casket.ServerType{
			Directives: func() []string { return c16Dirs },
			NewContext: func(inst *casket.Instance) casket.Context {
				w := c16W
				w.mu.Lock()
				id := w.nextID
				w.nextID++
				ctx := &c16Ctx{w: w, id: id}
				w.byInst[inst] = id
				w.byID[id] = inst
				w.ctxs[id] = ctx
				w.mu.Unlock()
				w.emit(c16Ev{T: "new", I: id})
				return ctx
			},
		})
		reg := func(kind string, add func(c *casket.Controller, fn func() error)) casket.SetupFunc {
			return func(c *casket.Controller) error {
				ctx := c.Context().(*c16Ctx)
				for c.Next() {
					args := c.RemainingArgs()
					if len(args) != 2 {
						return c.ArgErr()
					}
					label, err := strconv.Atoi(args[0])
					if err != nil {
						return c.ArgErr()
					}
					fail := args[1] == "fail"
					add(c, func() error {
						w := ctx.w
						w.emit(c16Ev{T: "cb", K: kind, I: ctx.id, L: label})
						gk := w.gateKind
						if gk == "" {
							gk = "shutdown"
						}
						if kind == gk && w.gateArmed.Load() && w.gateUsed.CompareAndSwap(false, true) {
							w.gateWait()
						}
						if fail {
							return fmt.Errorf("c16: %s callback %d of instance %d told to fail", kind, label, ctx.id)
						}
						return nil
					})
				}
				return nil
			}
		}
		plug := func(name string, f casket.SetupFunc) {
			casket.RegisterPlugin(name, casket.Plugin{ServerType: c16Type, Action: f})
		}
		plug("cfirst", reg("first", func(c *casket.Controller, fn func() error) { c.OnFirstStartup(fn) }))
		plug("cstartup", reg("startup", func(c *casket.Controller, fn func() error) { c.OnStartup(fn) }))
		plug("crestart", reg("restart", func(c *casket.Controller, fn func() error) { c.OnRestart(fn) }))
		plug("crfailed", reg("rfailed", func(c *casket.Controller, fn func() error) { c.OnRestartFailed(fn) }))
		plug("cshutdown", reg("shutdown", func(c *casket.Controller, fn func() error) { c.OnShutdown(fn) }))
		plug("cfinal", reg("final", func(c *casket.Controller, fn func() error) { c.OnFinalShutdown(fn) }))
		plug("server", func(c *casket.Controller) error {
			ctx := c.Context().(*c16Ctx)
			for c.Next() {
				a := c.RemainingArgs()
				if len(a) != 5 {
					return c.ArgErr()
				}
				addr, _ := strconv.Atoi(a[0])
				file, _ := strconv.Atoi(a[2])
				ctx.specs = append(ctx.specs, c16Srv{Addr: addr, Graceful: a[1] == "g", File: file, ListenFail: a[3] == "fail", StopErr: a[4] == "err"})
			}
			return nil
		})
		plug("makefail", func(c *casket.Controller) error {
			c.Context().(*c16Ctx).makeFail = true
			return nil
		})
		plug("setupfail", func(c *casket.Controller) error { return errors.New("c16: setup told to fail") })
		plug("setuppanic", func(c *casket.Controller) error { panic("c16: setup told to panic") })
		casket.RegisterEventHook("verifc16", func(ev casket.EventName, info interface{}) error {
			w := c16W
			if w == nil {
				return nil
			}
			switch ev {
			case casket.InstanceStartupEvent:
				if inst, ok := info.(*casket.Instance); ok {
					w.mu.Lock()
					id, known := w.byInst[inst]
					w.mu.Unlock()
					if known {
						w.emit(c16Ev{T: "hook", K: "instancestartup", I: id})
					}
				}
			case casket.ShutdownEvent:
				w.emit(c16Ev{T: "hook", K: "shutdown"})
			}
			return nil
		})
	})
}

func c16Render(c *c16Cfg) string {
	if c == nil {
		c = &c16Cfg{}
	}
	var sb strings.Builder
	sb.WriteString("c16 {\n")
	if c.ParseFail {
		sb.WriteString("  nosuchdirective x\n")
	}
	cbs := func(name string, l []c16Cb) {
		for _, cb := range l {
			r := "ok"
			if cb.Fail {
				r = "fail"
			}
			fmt.Fprintf(&sb, "  %s %d %s\n", name, cb.ID, r)
		}
	}
	// written in an order different from the directive order: execution follows the directive list
	cbs("cfinal", c.Final)
	cbs("cshutdown", c.Shutdown)
	if c.SetupFail {
		sb.WriteString("  setupfail\n")
	}
	for _, s := range c.Servers {
		g, lf, se := "n", "ok", "ok"
		if s.Graceful {
			g = "g"
		}
		if s.ListenFail {
			lf = "fail"
		}
		if s.StopErr {
			se = "err"
		}
		fmt.Fprintf(&sb, "  server %d %s %d %s %s\n", s.Addr, g, s.File, lf, se)
	}
	cbs("crfailed", c.RFailed)
	cbs("crestart", c.Restart)
	if c.MakeFail {
		sb.WriteString("  makefail\n")
	}
	if c.SetupPanic {
		sb.WriteString("  setuppanic\n")
	}
	cbs("cstartup", c.Startup)
	cbs("cfirst", c.First)
	sb.WriteString("}\n")
	return sb.String()
}

func c16Input(c *c16Cfg) casket.Input {
	return casket.CasketfileInput{Contents: []byte(c16Render(c)), Filepath: "Casketfile", ServerTypeName: c16Type}
}

// ------------------------------------------------------------------ running a history on the real code
func c16NewWorld(sink io.Writer) *c16World {
	w := &c16World{byInst: map[*casket.Instance]int{}, byID: map[int]*casket.Instance{}, handles: map[int]*casket.Instance{},
		ctxs: map[int]*c16Ctx{}, sink: sink}
	c16W = w
	return w
}

func (w *c16World) anyServing() bool {
	w.mu.Lock()
	defer w.mu.Unlock()
	for _, s := range w.servers {
		if s.served.Load() && !s.returned.Load() {
			return true
		}
	}
	return false
}

// settle waits until the goroutines the operation started or released have logged: every server
// of an instance whose listeners were all obtained gets served (startServers spawns them), and
// every stopped server that was served returns.
func (w *c16World) settle() {
	deadline := time.Now().Add(400 * time.Millisecond)
	for {
		ok := true
		w.mu.Lock()
		for _, s := range w.servers {
			full := s.ctx.nsrv > 0 && int(atomic.LoadInt32(&s.ctx.opened)) >= s.ctx.nsrv
			if full && !s.served.Load() {
				ok = false
			}
			if s.stopReq.Load() && s.served.Load() && !s.returned.Load() {
				ok = false
			}
			if s.stopReq.Load() && full && !s.returned.Load() {
				ok = false
			}
		}
		w.mu.Unlock()
		if ok || time.Now().After(deadline) {
			break
		}
		time.Sleep(50 * time.Microsecond)
	}
	// the deferred wg.Done of a returned Serve goroutine runs right after the "ret" event
	for i := 0; i < 3; i++ {
		time.Sleep(20 * time.Microsecond)
	}
}

func (w *c16World) refreshHandles() {
	for _, inst := range casket.Instances() {
		w.mu.Lock()
		id, ok := w.byInst[inst]
		if ok {
			w.handles[id] = inst
		}
		w.mu.Unlock()
	}
}

func (w *c16World) mark() int {
	w.mu.Lock()
	defer w.mu.Unlock()
	return len(w.log)
}
func (w *c16World) since(n int) []c16Ev {
	w.mu.Lock()
	defer w.mu.Unlock()
	return append([]c16Ev(nil), w.log[n:]...)
}

func (w *c16World) doOp(o c16Op) (res c16Res, problem string) {
	type outT struct {
		res c16Res
		p   string
	}
	ch := make(chan outT, 1)
	go func() {
		var r c16Res
		defer func() {
			if p := recover(); p != nil {
				ch <- outT{c16Res{T: "unit"}, fmt.Sprintf("panic in %s: %v", o.Op, p)}
			}
		}()
		inst := w.handles[o.H]
		switch o.Op {
		case "start":
			var ni *casket.Instance
			var err error
			panicked := false
			func() {
				defer func() {
					if p := recover(); p != nil {
						panicked = true
					}
				}()
				ni, err = casket.Start(c16Input(o.Cfg))
			}()
			if panicked {
				// casket.Start does not recover a plugin's panic: it reaches the embedding program
				r = c16Res{T: "panic"}
				break
			}
			r = c16Res{T: "inst", OK: err == nil}
			if err == nil {
				w.mu.Lock()
				id, ok := w.byInst[ni]
				w.mu.Unlock()
				if ok {
					r.N = id
					w.handles[id] = ni
				} else {
					r.N = 777777
				}
			}
		case "restart":
			if inst == nil {
				r = c16Res{T: "unit"}
				break
			}
			ni, err := inst.Restart(c16Input(o.Cfg))
			r = c16Res{T: "inst", OK: err == nil}
			w.mu.Lock()
			id, ok := w.byInst[ni]
			w.mu.Unlock()
			if ok {
				r.N = id
				if err == nil {
					w.handles[id] = ni
				}
			} else {
				r.N = 777777
			}
		case "stopinst":
			r = c16Res{T: "unit"}
			if inst != nil {
				inst.Stop()
			}
		case "stopall":
			casket.Stop()
			r = c16Res{T: "unit"}
		case "shutdowncbs":
			if inst == nil {
				r = c16Res{T: "unit"}
				break
			}
			r = c16Res{T: "num", N: len(inst.ShutdownCallbacks())}
		case "exec":
			r = c16Res{T: "num", N: casket.VerifC16ExecuteShutdownCallbacks("SIGTERM")}
		case "wait":
			if inst == nil {
				r = c16Res{T: "unit"}
				break
			}
			done := make(chan struct{})
			go func() { inst.Wait(); close(done) }()
			to := 40 * time.Millisecond
			if !w.anyServing() {
				to = time.Second
			}
			select {
			case <-done:
				r = c16Res{T: "bool", OK: true}
			case <-time.After(to):
				r = c16Res{T: "bool", OK: false}
			}
		default:
			r = c16Res{T: "unit"}
		}
		ch <- outT{r, ""}
	}()
	select {
	case o := <-ch:
		return o.res, o.p
	case <-time.After(8 * time.Second):
		return c16Res{T: "unit"}, "operation " + o.Op + " did not return within 8 s"
	}
}

func (w *c16World) runOps(ops []c16Op, emitRes func(i int, r c16Res)) (recs []c16Rec, problem string) {
	for i, o := range ops {
		m := w.mark()
		res, p := w.doOp(o)
		w.settle()
		w.refreshHandles()
		recs = append(recs, c16Rec{Op: o, Ev: w.since(m), Res: res})
		if emitRes != nil {
			emitRes(i, res)
		}
		if p != "" {
			return recs, p
		}
	}
	return recs, ""
}

func (w *c16World) cleanup() {
	w.mu.Lock()
	w.closed = true
	srv := append([]*c16Server(nil), w.servers...)
	w.mu.Unlock()
	done := make(chan struct{})
	go func() { defer func() { recover(); close(done) }(); casket.Stop() }()
	select {
	case <-done:
	case <-time.After(3 * time.Second):
	}
	for _, s := range srv {
		s.release()
		s.lnMu.Lock()
		for _, ln := range s.lns {
			ln.Close()
		}
		s.lnMu.Unlock()
	}
	casket.VerifC16ResetShutdownOnce()
}

// ------------------------------------------------------------------ generation-time mini model
// Predicts, from the configurations alone, which instances an API-following caller holds; used
// to generate meaningful histories and to give inputs their class (Sig).  Not part of the oracle.
type c16GInst struct {
	id  int
	cfg *c16Cfg
}
type c16GState struct {
	live  []c16GInst // what the caller believes is live (handles it would use)
	next  int
	quirk bool // some reload got as far as the old instance's OnShutdown callbacks and one of those failed (class of F-C16-1)
}

func c16AnyFail(l []c16Cb) bool {
	for _, c := range l {
		if c.Fail {
			return true
		}
	}
	return false
}

// does startWithListenerFds succeed for cfg (restart from old, or fresh when old == nil)
func c16PredictStart(cfg *c16Cfg, old *c16Cfg) (ok bool, consumed bool) {
	if cfg.ParseFail {
		return false, false
	}
	if cfg.SetupFail || cfg.SetupPanic || cfg.MakeFail {
		return false, true
	}
	if old == nil && c16AnyFail(cfg.First) {
		return false, true
	}
	if c16AnyFail(cfg.Startup) {
		return false, true
	}
	for _, s := range cfg.Servers {
		inherited := false
		if old != nil && s.Graceful {
			mode := 0
			for _, os := range old.Servers {
				if os.Graceful && os.File > 0 && os.Addr == s.Addr {
					mode = os.File
				}
			}
			if mode == 2 {
				return false, true
			}
			inherited = mode == 1
		}
		if !inherited && s.ListenFail {
			return false, true
		}
	}
	return true, true
}

func (g *c16GState) find(h int) *c16GInst {
	for i := range g.live {
		if g.live[i].id == h {
			return &g.live[i]
		}
	}
	return nil
}
func (g *c16GState) remove(h int) {
	for i := range g.live {
		if g.live[i].id == h {
			g.live = append(g.live[:i:i], g.live[i+1:]...)
			return
		}
	}
}
func (g *c16GState) apply(o c16Op) {
	switch o.Op {
	case "start":
		ok, used := c16PredictStart(o.Cfg, nil)
		id := g.next
		if used {
			g.next++
		}
		if ok {
			g.live = append(g.live, c16GInst{id, o.Cfg})
		}
	case "restart":
		old := g.find(o.H)
		if old == nil {
			return
		}
		if c16AnyFail(old.cfg.Restart) {
			return
		}
		ok, used := c16PredictStart(o.Cfg, old.cfg)
		id := g.next
		if used {
			g.next++
		}
		if !ok {
			return
		}
		if c16AnyFail(old.cfg.Shutdown) {
			// the class of the repaired finding F-C16-1: the error is logged, the reload succeeds
			g.quirk = true
		}
		g.remove(o.H)
		g.live = append(g.live, c16GInst{id, o.Cfg})
	case "stopinst":
		g.remove(o.H)
	case "stopall":
		g.live = nil
	}
}

func c16SigOf(in *c16In) string {
	g := &c16GState{}
	for _, o := range in.Ops {
		g.apply(o)
	}
	if g.quirk {
		return in.Kind + ":reload-old-onshutdown-error"
	}
	return in.Kind
}

// ------------------------------------------------------------------ hist cases
func c16Human(recs []c16Rec) []string {
	var out []string
	for _, r := range recs {
		var ev []string
		for _, e := range r.Ev {
			ev = append(ev, c16EvHuman(e))
		}
		out = append(out, fmt.Sprintf("%s(%d) -> %s %v %d : %s", r.Op.Op, r.Op.H, r.Res.T, r.Res.OK, r.Res.N, strings.Join(ev, " ")))
	}
	return out
}

func c16RunHist(in *c16In) Result {
	c16Register()
	w := c16NewWorld(nil)
	casket.VerifC16ResetShutdownOnce()
	recs, problem := w.runOps(in.Ops, nil)
	w.cleanup()
	// operations that were not reached (after a panic / hang) are padded so that the lengths agree
	for i := len(recs); i < len(in.Ops); i++ {
		recs = append(recs, c16Rec{Op: in.Ops[i], Res: c16Res{T: "unit"}})
	}
	nev, nok := 0, 0
	for _, r := range recs {
		if len(r.Ev) > 0 {
			nev++
		}
		if r.Res.T == "inst" && r.Res.OK {
			nok++
		}
	}
	cls := "hist:ops=" + strconv.Itoa(c16min(len(in.Ops), 9)/3*3) + "+"
	return Result{Term: "(CHist " + c16RecsTerm(recs) + ")", Obs: map[string]interface{}{"records": c16Human(recs), "problem": problem},
		Sig: c16SigOf(in), Nontrivial: nok >= 1 && nev >= 2, Direct: problem, Class: cls}
}

func c16min(a, b int) int {
	if a < b {
		return a
	}
	return b
}

// ------------------------------------------------------------------ child cases
func c16ChildMain(args []string) int {
	if len(args) < 1 {
		return 2
	}
	data, err := os.ReadFile(args[0])
	if err != nil {
		fmt.Println("X cannot read spec")
		return 2
	}
	in := &c16In{}
	if err := json.Unmarshal(data, in); err != nil {
		fmt.Println("X bad spec")
		return 2
	}
	c16Register()
	out := os.Stdout
	var outMu sync.Mutex
	line := func(s string) {
		outMu.Lock()
		out.Write([]byte(s + "\n"))
		outMu.Unlock()
	}
	w := c16NewWorld(out)
	w.gateWait = func() {
		line("GATE")
		buf := make([]byte, 1)
		os.Stdin.Read(buf) // released by the parent closing (or writing to) our stdin
	}
	_, problem := w.runOps(in.Ops, func(i int, r c16Res) {
		b, _ := json.Marshal(r)
		line("R " + string(b))
	})
	if problem != "" {
		line("X " + problem)
	}
	casket.TrapSignals()
	// the handlers' goroutines call signal.Notify: wait until both are parked on their channel
	for i := 0; i < 4000 && !c16HandlersParked(); i++ {
		time.Sleep(500 * time.Microsecond)
	}
	if in.Gated {
		w.gateArmed.Store(true)
	}
	line("READY")
	time.Sleep(20 * time.Second)
	line("X child timed out")
	return 3
}

func c16HandlersParked() bool {
	buf := make([]byte, 1<<20)
	n := runtime.Stack(buf, true)
	a, b := false, false
	for _, g := range strings.Split(string(buf[:n]), "\n\n") {
		head := g
		if i := strings.IndexByte(g, '\n'); i >= 0 {
			head = g[:i]
		}
		parked := strings.Contains(head, "[chan receive")
		if strings.Contains(g, "casket.trapSignalsCrossPlatform") && parked {
			a = true
		}
		if strings.Contains(g, "casket.trapSignalsPosix") && parked {
			b = true
		}
	}
	return a && b
}

func c16SigNum(s string) syscall.Signal {
	if s == "INT" {
		return syscall.SIGINT
	}
	return syscall.SIGTERM
}

func c16RunChild(in *c16In) Result {
	base := os.Getenv("VERIF_ROOT")
	if base == "" {
		base = "/var/tmp"
	}
	os.MkdirAll(filepath.Join(base, "run"), 0o755)
	dir, err := os.MkdirTemp(filepath.Join(base, "run"), "c16child")
	if err != nil {
		return Result{Term: "(CHist [])", Obs: err.Error(), Sig: "child:setup-error", Direct: "setup: " + err.Error(), Class: "child:setup-error"}
	}
	defer os.RemoveAll(dir)
	spec := filepath.Join(dir, "spec.json")
	b, _ := json.Marshal(in)
	os.WriteFile(spec, b, 0o644)
	cmd := exec.Command(os.Args[0], "c16child", spec)
	stdin, _ := cmd.StdinPipe()
	stdout, _ := cmd.StdoutPipe()
	cmd.Stderr = nil
	if err := cmd.Start(); err != nil {
		return Result{Term: "(CHist [])", Obs: err.Error(), Sig: "child:setup-error", Direct: "setup: " + err.Error(), Class: "child:setup-error"}
	}
	lines := make(chan string, 4096)
	go func() {
		sc := bufio.NewScanner(stdout)
		sc.Buffer(make([]byte, 1<<16), 1<<20)
		for sc.Scan() {
			lines <- sc.Text()
		}
		close(lines)
	}()
	watchdog := time.AfterFunc(12*time.Second, func() { cmd.Process.Kill() })
	defer watchdog.Stop()

	var recs []c16Rec
	var cur []c16Ev
	var tail []c16Ev
	problem := ""
	ready := false
	opi := 0
	gate := make(chan struct{}, 1)
	eof := make(chan struct{})
	handle := func(l string) {
		switch {
		case strings.HasPrefix(l, "E "):
			var e c16Ev
			json.Unmarshal([]byte(l[2:]), &e)
			if ready {
				tail = append(tail, e)
			} else {
				cur = append(cur, e)
			}
		case strings.HasPrefix(l, "R "):
			var r c16Res
			json.Unmarshal([]byte(l[2:]), &r)
			if opi < len(in.Ops) {
				recs = append(recs, c16Rec{Op: in.Ops[opi], Ev: cur, Res: r})
			}
			opi++
			cur = nil
		case strings.HasPrefix(l, "X "):
			problem = l[2:]
		case l == "GATE":
			select {
			case gate <- struct{}{}:
			default:
			}
		}
	}
	// phase 1: until READY
	for l := range lines {
		if l == "READY" {
			ready = true
			break
		}
		handle(l)
	}
	if !ready {
		cmd.Wait()
		return Result{Term: "(CHist [])", Obs: "child never became ready: " + problem, Sig: "child:setup-error",
			Direct: "child never became ready: " + problem, Class: "child:setup-error"}
	}
	go func() {
		for l := range lines {
			handle(l)
		}
		close(eof)
	}()
	// phase 2: signals
	gated := in.Gated
	for i, s := range in.Sigs {
		cmd.Process.Signal(c16SigNum(s))
		if i == 0 && gated {
			select {
			case <-gate:
			case <-eof:
			case <-time.After(3 * time.Second):
			}
		} else if gated {
			time.Sleep(25 * time.Millisecond)
		}
	}
	if gated {
		time.Sleep(40 * time.Millisecond) // let the later signals reach their handlers while the gate is held
	}
	stdin.Close()
	<-eof
	err = cmd.Wait()
	code := 0
	if ee, ok := err.(*exec.ExitError); ok {
		code = ee.ExitCode()
		if code < 0 {
			code = 255
		}
	}
	for i := len(recs); i < len(in.Ops); i++ {
		recs = append(recs, c16Rec{Op: in.Ops[i], Res: c16Res{T: "unit"}})
	}
	sigs := make([]string, len(in.Sigs))
	for i, s := range in.Sigs {
		if s == "INT" {
			sigs[i] = "SigInt"
		} else {
			sigs[i] = "SigTerm"
		}
	}
	var th []string
	for _, e := range tail {
		th = append(th, c16EvHuman(e))
	}
	term := "(CChild " + c16RecsTerm(recs) + " " + cList(sigs) + " " + cBool(in.Gated) + " " + c16EvsTerm(tail) + " " + strconv.Itoa(code) + ")"
	return Result{Term: term, Obs: map[string]interface{}{"records": c16Human(recs), "after_signal": th, "exit": code, "problem": problem},
		Sig: c16SigOf(in), Nontrivial: len(tail) >= 2, Direct: problem,
		Class: "child:" + strings.Join(in.Sigs, "+") + ":gated=" + fmt.Sprint(in.Gated)}
}

// ------------------------------------------------------------------ conc cases
func c16RunConc(in *c16In) Result {
	c16Register()
	w := c16NewWorld(nil)
	casket.VerifC16ResetShutdownOnce()
	recs, problem := w.runOps(in.Ops, nil)
	for i := len(recs); i < len(in.Ops); i++ {
		recs = append(recs, c16Rec{Op: in.Ops[i], Res: c16Res{T: "unit"}})
	}
	var stopWg sync.WaitGroup
	stopsDone := make(chan struct{})
	var launch sync.Once
	blocked := false
	launchStops := func() {
		launch.Do(func() {
			for _, h := range in.Stops {
				inst := w.handles[h]
				if inst == nil {
					continue
				}
				stopWg.Add(1)
				go func(i *casket.Instance) {
					defer stopWg.Done()
					defer func() { recover() }()
					i.Stop()
				}(inst)
			}
			go func() { stopWg.Wait(); close(stopsDone) }()
		})
	}
	// called inside the first shutdown callback that runs: the Stops are started now; the callback
	// goes on when they have returned (they got through) or are seen blocked on the lock
	w.gateWait = func() {
		launchStops()
		select {
		case <-stopsDone:
		case <-time.After(60 * time.Millisecond):
			blocked = true
		}
	}
	m := w.mark()
	w.gateArmed.Store(true)
	code := 0
	done := make(chan int, 1)
	go func() {
		defer func() {
			if p := recover(); p != nil {
				done <- 99
			}
		}()
		done <- casket.VerifC16ExecuteShutdownCallbacks("SIGTERM")
	}()
	select {
	case code = <-done:
	case <-time.After(8 * time.Second):
		code = 98
		if problem == "" {
			problem = "executeShutdownCallbacks did not return within 8 s"
		}
	}
	w.gateArmed.Store(false)
	launchStops() // no shutdown callback ran at all: the Stops simply follow
	select {
	case <-stopsDone:
	case <-time.After(5 * time.Second):
		if problem == "" {
			problem = "Instance.Stop did not return within 5 s after the shutdown callbacks had run"
		}
	}
	w.settle()
	ev := w.since(m)
	var after []int
	for _, inst := range casket.Instances() {
		w.mu.Lock()
		id, ok := w.byInst[inst]
		w.mu.Unlock()
		if !ok {
			id = 777777
		}
		after = append(after, id)
	}
	w.cleanup()
	var eh []string
	for _, e := range ev {
		eh = append(eh, c16EvHuman(e))
	}
	term := "(CConc " + c16RecsTerm(recs) + " " + cNatList(in.Stops) + " " + c16EvsTerm(ev) + " " + strconv.Itoa(code) + " " + cNatList(after) + ")"
	return Result{Term: term, Obs: map[string]interface{}{"records": c16Human(recs), "stops": in.Stops, "during_shutdown": eh, "exit": code,
		"instances_after": after, "stops_blocked_by_lock": blocked, "problem": problem},
		Sig: "conc", Nontrivial: len(ev) >= 4 && len(in.Stops) > 0, Direct: problem, Class: "conc:stops=" + strconv.Itoa(len(in.Stops))}
}

// ------------------------------------------------------------------ race cases
// Instance.Restart is parked inside its first callback of the gate kind (no lock is held there);
// the signal handler's work (executeShutdownCallbacks) runs to completion meanwhile; then the
// Restart goes on.  One of the schedules of the small-step model (gate_run).
func c16RunRace(in *c16In) Result {
	c16Register()
	w := c16NewWorld(nil)
	casket.VerifC16ResetShutdownOnce()
	recs, problem := w.runOps(in.Ops, nil)
	for i := len(recs); i < len(in.Ops); i++ {
		recs = append(recs, c16Rec{Op: in.Ops[i], Res: c16Res{T: "unit"}})
	}
	code := 0
	w.gateKind = in.Gate
	w.gateWait = func() {
		done := make(chan int, 1)
		go func() {
			defer func() {
				if p := recover(); p != nil {
					done <- 99
				}
			}()
			done <- casket.VerifC16ExecuteShutdownCallbacks("SIGTERM")
		}()
		select {
		case code = <-done:
		case <-time.After(5 * time.Second):
			code = 98
		}
	}
	m := w.mark()
	w.gateArmed.Store(true)
	res, p2 := w.doOp(c16Op{Op: "restart", H: in.H, Cfg: in.Cfg})
	w.gateArmed.Store(false)
	if problem == "" {
		problem = p2
	}
	if code == 98 && problem == "" {
		problem = "executeShutdownCallbacks did not return within 5 s while Restart was inside a callback"
	}
	w.settle()
	ev := w.since(m)
	w.cleanup()
	w.gateKind = ""
	var eh []string
	for _, e := range ev {
		eh = append(eh, c16EvHuman(e))
	}
	old := (*c16Cfg)(nil)
	g := &c16GState{}
	for _, o := range in.Ops {
		g.apply(o)
	}
	if gi := g.find(in.H); gi != nil {
		old = gi.cfg
	}
	sig := "race:" + in.Gate
	if old != nil && in.Gate != "shutdown" && len(old.Shutdown) > 0 {
		if ok, _ := c16PredictStart(in.Cfg, old); ok && !c16AnyFail(old.Restart) {
			// the handler runs the old instance's shutdown callbacks, the reload runs them again
			sig += ":old-shutdown-twice"
		}
	}
	term := "(CRace " + c16RecsTerm(recs) + " " + strconv.Itoa(in.H) + " " + c16CfgTerm(in.Cfg) + " " + c16KindCtor[in.Gate] + " " +
		c16EvsTerm(ev) + " " + c16ResTerm(res) + " " + strconv.Itoa(code) + ")"
	return Result{Term: term, Obs: map[string]interface{}{"records": c16Human(recs), "gate": in.Gate, "during_restart": eh, "restart_ok": res.OK,
		"exit": code, "problem": problem}, Sig: sig, Nontrivial: len(ev) >= 4 && w.gateUsed.Load(), Direct: problem, Class: sig}
}

func c16GenRace(r *Rand) *c16In {
	g := &c16GState{}
	var ops []c16Op
	push := func(o c16Op) {
		ops = append(ops, o)
		g.apply(o)
	}
	mk := func(stage string) *c16Cfg {
		c := c16GenCfg(r, stage)
		if len(c.Shutdown) == 0 && r.Chance(80) {
			c.Shutdown = []c16Cb{{ID: 0}}
		}
		return c
	}
	n := 1 + r.Intn(3)
	for i := 0; i < n; i++ {
		push(c16Op{Op: "start", Cfg: mk("none")})
	}
	if r.Chance(30) {
		push(c16Op{Op: "restart", H: g.live[r.Intn(len(g.live))].id, Cfg: mk("none")})
	}
	if len(g.live) > 1 && r.Chance(25) {
		push(c16Op{Op: "stopinst", H: g.live[r.Intn(len(g.live))].id})
	}
	gate := []string{"restart", "startup", "shutdown"}[r.Intn(3)]
	stage := "none"
	if r.Chance(30) {
		stage = []string{"startup", "listen", "file", "make", "setup", "restartcb"}[r.Intn(6)]
	}
	h := g.live[r.Intn(len(g.live))].id
	nc := mk(stage)
	if gate == "startup" && len(nc.Startup) == 0 {
		nc.Startup = []c16Cb{{ID: 0}, {ID: 1}}
	}
	return &c16In{Kind: "race", Ops: ops, H: h, Cfg: nc, Gate: gate}
}

func c16Run(in0 interface{}) Result {
	in := in0.(*c16In)
	if in.Kind == "race" {
		return c16RunRace(in)
	}
	if in.Kind == "child" {
		return c16RunChild(in)
	}
	if in.Kind == "conc" {
		return c16RunConc(in)
	}
	return c16RunHist(in)
}

// ------------------------------------------------------------------ generators
func c16GenCbs(r *Rand, maxn int, failAt int) []c16Cb {
	n := r.Intn(maxn + 1)
	if failAt >= 0 && n <= failAt {
		n = failAt + 1
	}
	out := make([]c16Cb, n)
	for i := range out {
		out[i] = c16Cb{ID: i, Fail: i == failAt}
	}
	return out
}

var c16Stages = []string{"none", "parse", "setup", "panic", "make", "first", "startup", "listen", "file", "restartcb", "rfailedcb", "finalcb", "shutdowncb"}

// a configuration with at most one fault; stage says where
func c16GenCfg(r *Rand, stage string) *c16Cfg {
	at := func(name string) int {
		if stage == name {
			return r.Intn(3)
		}
		return -1
	}
	c := &c16Cfg{}
	c.First = c16GenCbs(r, 2, at("first"))
	c.Startup = c16GenCbs(r, 3, at("startup"))
	c.Restart = c16GenCbs(r, 2, at("restartcb"))
	c.RFailed = c16GenCbs(r, 2, at("rfailedcb"))
	c.Shutdown = c16GenCbs(r, 3, at("shutdowncb"))
	c.Final = c16GenCbs(r, 2, at("finalcb"))
	switch stage {
	case "parse":
		c.ParseFail = true
	case "setup":
		c.SetupFail = true
	case "make":
		c.MakeFail = true
	case "panic":
		c.SetupPanic = true
	}
	ns := r.Intn(4)
	if (stage == "listen" || stage == "file") && ns == 0 {
		ns = 1 + r.Intn(2)
	}
	for j := 0; j < ns; j++ {
		s := c16Srv{Addr: r.Intn(3), Graceful: r.Chance(75)}
		switch r.Intn(4) {
		case 0:
			s.File = 0
		default:
			s.File = 1
		}
		// its Stop returns an error (a drain timeout): Instance.Stop logs it and goes on
		s.StopErr = s.Graceful && r.Chance(20)
		c.Servers = append(c.Servers, s)
	}
	if stage == "listen" {
		j := r.Intn(ns)
		c.Servers[j].ListenFail = true
		if r.Chance(60) {
			c.Servers[j].File = 0 // never handed over: Listen is really called
		}
	}
	if stage == "file" {
		// this instance's listener cannot be handed over: the NEXT reload sharing the address fails
		j := r.Intn(ns)
		c.Servers[j].Graceful = true
		c.Servers[j].File = 2
	}
	return c
}

func c16PickStage(r *Rand, quirkOK bool) string {
	x := r.Intn(100)
	switch {
	case x < 47:
		return "none"
	case x < 50:
		return "panic"
	case x < 54:
		return "parse"
	case x < 58:
		return "setup"
	case x < 62:
		return "make"
	case x < 67:
		return "first"
	case x < 74:
		return "startup"
	case x < 81:
		return "listen"
	case x < 85:
		return "file"
	case x < 89:
		return "restartcb"
	case x < 92:
		return "rfailedcb"
	case x < 95:
		return "finalcb"
	}
	// an OnShutdown callback that fails: when !quirkOK the history generator never reloads such an
	// instance (the class of the repaired finding F-C16-1), but it does stop it, signal it, etc.;
	// every generator now runs with quirkOK
	_ = quirkOK
	return "shutdowncb"
}

func c16GenHistory(r *Rand, maxOps int, quirkOK bool) []c16Op {
	g := &c16GState{}
	var ops []c16Op
	n := r.Range(2, maxOps)
	push := func(o c16Op) {
		ops = append(ops, o)
		g.apply(o)
	}
	everLive := []int{}
	execDone := false
	for len(ops) < n {
		if len(g.live) == 0 && execDone {
			if len(everLive) == 0 {
				break
			}
			push(c16Op{Op: "wait", H: everLive[r.Intn(len(everLive))]})
			continue
		}
		if len(g.live) == 0 {
			st := "none"
			if r.Chance(25) {
				st = c16PickStage(r, quirkOK)
			}
			push(c16Op{Op: "start", Cfg: c16GenCfg(r, st)})
			for _, li := range g.live {
				everLive = append(everLive, li.id)
			}
			if len(g.live) == 0 && r.Chance(30) && len(everLive) > 0 {
				push(c16Op{Op: "wait", H: everLive[r.Intn(len(everLive))]})
			}
			continue
		}
		h := g.live[r.Intn(len(g.live))].id
		x := r.Intn(100)
		if execDone {
			// process shutdown is terminal: only further signals, Stop (the SIGTERM tail) and Wait follow
			x = 58 + r.Intn(42)
			if x >= 63 && x < 68 {
				x = 90
			}
		}
		if x < 45 && !quirkOK {
			if li := g.find(h); li != nil && c16AnyFail(li.cfg.Shutdown) {
				x = 52 + r.Intn(48) // not reloaded: stop it, run its callbacks, signal, wait
			}
		}
		switch {
		case x < 45:
			push(c16Op{Op: "restart", H: h, Cfg: c16GenCfg(r, c16PickStage(r, quirkOK))})
			for _, li := range g.live {
				everLive = append(everLive, li.id)
			}
		case x < 52:
			push(c16Op{Op: "start", Cfg: c16GenCfg(r, c16PickStage(r, quirkOK))})
			for _, li := range g.live {
				everLive = append(everLive, li.id)
			}
		case x < 58:
			push(c16Op{Op: "stopinst", H: h})
		case x < 63:
			push(c16Op{Op: "stopall"})
		case x < 68:
			push(c16Op{Op: "shutdowncbs", H: h})
		case x < 80:
			push(c16Op{Op: "exec"})
			execDone = true
		default:
			// wait on a live handle or on an earlier one (predecessor of the lineage)
			hh := h
			if r.Chance(50) && len(everLive) > 0 {
				hh = everLive[r.Intn(len(everLive))]
			}
			push(c16Op{Op: "wait", H: hh})
		}
	}
	return ops
}

// systematic scenarios: a reload failing at each stage, followed by the operations that would
// expose callbacks run twice / not at all / on the wrong instance
func c16Scenarios(r *Rand, quirkOK bool) []*c16In {
	var out []*c16In
	full := func() *c16Cfg {
		c := c16GenCfg(r, "none")
		c.First, c.Startup = c16GenCbs(r, 2, -1), c16GenCbs(r, 3, -1)
		if len(c.Startup) == 0 {
			c.Startup = []c16Cb{{ID: 0}}
		}
		if len(c.First) == 0 {
			c.First = []c16Cb{{ID: 0}}
		}
		c.Restart = []c16Cb{{ID: 0}, {ID: 1}}
		c.RFailed = []c16Cb{{ID: 0}}
		c.Shutdown = []c16Cb{{ID: 0}, {ID: 1}}
		c.Final = []c16Cb{{ID: 0}}
		if len(c.Servers) == 0 {
			c.Servers = []c16Srv{{Addr: 0, Graceful: true, File: 1}}
		}
		return c
	}
	for _, st := range c16Stages {
		if st == "shutdowncb" && !quirkOK {
			continue
		}
		base := full()
		var ops []c16Op
		switch st {
		case "restartcb", "rfailedcb", "finalcb", "shutdowncb", "file":
			// the fault sits in the OLD instance's configuration
			base = c16GenCfg(r, st)
			if len(base.Servers) == 0 {
				base.Servers = []c16Srv{{Addr: 0, Graceful: true, File: 1}}
			}
			nc := full()
			if st == "file" {
				for j := range base.Servers {
					if base.Servers[j].File == 2 {
						nc.Servers = append([]c16Srv{{Addr: base.Servers[j].Addr, Graceful: true, File: 1}}, nc.Servers...)
					}
				}
			}
			ops = []c16Op{{Op: "start", Cfg: base}, {Op: "restart", H: 0, Cfg: nc}}
		default:
			ops = []c16Op{{Op: "start", Cfg: base}, {Op: "restart", H: 0, Cfg: c16GenCfg(r, st)}}
		}
		g := &c16GState{}
		for _, o := range ops {
			g.apply(o)
		}
		cur := 0
		if len(g.live) > 0 {
			cur = g.live[len(g.live)-1].id
		}
		// the instance a further successful reload of cur would create
		g2 := *g
		g2.live = append([]c16GInst(nil), g.live...)
		r1 := c16Op{Op: "restart", H: cur, Cfg: full()}
		g2.apply(r1)
		cur2 := cur
		if len(g2.live) > 0 {
			cur2 = g2.live[len(g2.live)-1].id
		}
		tails := [][]c16Op{
			{{Op: "wait", H: 0}, {Op: "exec"}, {Op: "exec"}, {Op: "stopall"}, {Op: "wait", H: 0}},
			{r1, {Op: "wait", H: 0}, {Op: "exec"}, {Op: "stopall"}, {Op: "wait", H: cur}},
			{r1, {Op: "restart", H: cur2, Cfg: c16GenCfg(r, c16PickStage(r, false))}, {Op: "wait", H: cur}, {Op: "exec"}, {Op: "exec"}, {Op: "wait", H: cur2}},
			{{Op: "shutdowncbs", H: cur}, {Op: "stopinst", H: cur}, {Op: "wait", H: 0}},
		}
		for _, t := range tails {
			all := append(append([]c16Op(nil), ops...), t...)
			out = append(out, &c16In{Kind: "hist", Ops: all, Note: "scenario:" + st})
		}
	}
	// a reload of an instance that has nothing to hand over (no server / only non-graceful servers /
	// listeners without a file descriptor) is still a reload: no first-startup callback, no
	// OnStartupComplete, every listener obtained afresh
	for v := 0; v < 4; v++ {
		old := full()
		switch v {
		case 0:
			old.Servers = nil
		case 1:
			old.Servers = []c16Srv{{Addr: 0, Graceful: false, File: 1}, {Addr: 1, Graceful: false, File: 0}}
		case 2:
			old.Servers = []c16Srv{{Addr: 0, Graceful: true, File: 0}}
		default:
			old.Servers = []c16Srv{{Addr: 0, Graceful: true, File: 0}, {Addr: 1, Graceful: false, File: 1}}
		}
		nc := full()
		nc.Servers = append([]c16Srv{{Addr: 0, Graceful: true, File: 1}}, nc.Servers...)
		out = append(out, &c16In{Kind: "hist", Note: "nothing-to-hand-over", Ops: []c16Op{
			{Op: "start", Cfg: old}, {Op: "restart", H: 0, Cfg: old}, {Op: "restart", H: 1, Cfg: nc}, {Op: "restart", H: 2, Cfg: c16GenCfg(r, "startup")},
			{Op: "wait", H: 0}, {Op: "exec"}, {Op: "stopall"}, {Op: "wait", H: 2}}})
	}
	// a server of the instance being replaced does not stop cleanly (drain timeout): the reload
	// succeeds all the same, the remaining servers are stopped, the old OnShutdown callbacks run
	for v := 0; v < 4; v++ {
		old := full()
		old.Servers = []c16Srv{{Addr: 0, Graceful: true, File: 1, StopErr: v != 1}, {Addr: 1, Graceful: true, File: v % 2, StopErr: v >= 1}, {Addr: 2, Graceful: v == 3, File: 1}}
		nc := full()
		tail := []c16Op{{Op: "wait", H: 0}, {Op: "exec"}, {Op: "stopall"}, {Op: "wait", H: 1}}
		if v == 2 {
			tail = []c16Op{{Op: "restart", H: 1, Cfg: old}, {Op: "stopinst", H: 2}, {Op: "wait", H: 0}, {Op: "exec"}}
		}
		out = append(out, &c16In{Kind: "hist", Note: "old-server-stop-error", Ops: append([]c16Op{
			{Op: "start", Cfg: old}, {Op: "restart", H: 0, Cfg: nc}}, tail...)})
	}
	// failing fresh starts at every stage, then a good start: first-startup only then
	for _, st := range []string{"parse", "setup", "panic", "make", "first", "startup", "listen"} {
		a := 1 // number of the instance of the second start
		if st == "parse" {
			a = 0
		}
		out = append(out, &c16In{Kind: "hist", Note: "start-fails:" + st, Ops: []c16Op{
			{Op: "start", Cfg: c16GenCfg(r, st)}, {Op: "start", Cfg: full()}, {Op: "restart", H: a, Cfg: full()}, {Op: "restart", H: a + 1, Cfg: full()},
			{Op: "wait", H: a}, {Op: "exec"}, {Op: "stopall"}, {Op: "wait", H: a}}})
	}
	return out
}

var c16SigSeqs = [][]string{{"INT"}, {"TERM"}, {"INT", "TERM"}, {"TERM", "INT"}, {"TERM", "TERM"}, {"INT", "INT"}, {"TERM", "INT", "TERM"}, {"INT", "TERM", "TERM"}}

func c16GenChild(r *Rand, k int) *c16In {
	sigs := c16SigSeqs[k%len(c16SigSeqs)]
	gated := len(sigs) > 1 && (k/len(c16SigSeqs))%3 != 2
	// a history that leaves at least one live instance with shutdown callbacks
	for {
		ops := c16GenHistory(r, 4, true)
		g := &c16GState{}
		bad := false
		for _, o := range ops {
			if o.Op == "exec" || o.Op == "wait" {
				bad = true // the once-guard must still be armed; wait probes cost time
			}
			g.apply(o)
		}
		if bad || len(g.live) == 0 {
			continue
		}
		ncb := 0
		for _, li := range g.live {
			ncb += len(li.cfg.Shutdown)
		}
		if len(g.live[0].cfg.Shutdown) == 0 || ncb < 2 {
			continue
		}
		return &c16In{Kind: "child", Ops: ops, Sigs: sigs, Gated: gated}
	}
}

// process shutdown with concurrent Instance.Stop calls: at least three live instances, each with
// shutdown callbacks; the Stops are launched while the first shutdown callback runs
func c16GenConc(r *Rand) *c16In {
	g := &c16GState{}
	var ops []c16Op
	push := func(o c16Op) {
		ops = append(ops, o)
		g.apply(o)
	}
	mk := func() *c16Cfg {
		c := c16GenCfg(r, "none")
		if len(c.Shutdown) == 0 {
			c.Shutdown = []c16Cb{{ID: 0}}
		}
		return c
	}
	n := 3 + r.Intn(2)
	for i := 0; i < n; i++ {
		push(c16Op{Op: "start", Cfg: mk()})
	}
	if r.Chance(40) {
		push(c16Op{Op: "restart", H: g.live[r.Intn(len(g.live))].id, Cfg: mk()})
	}
	// one or two of them are stopped, at least one that is not the last of the list
	var stops []int
	first := r.Intn(len(g.live) - 1)
	stops = append(stops, g.live[first].id)
	if r.Chance(40) {
		second := r.Intn(len(g.live))
		if second != first {
			stops = append(stops, g.live[second].id)
		}
	}
	return &c16In{Kind: "conc", Ops: ops, Stops: stops}
}

func c16Gen(r *Rand, tier string) []interface{} {
	nh, nq, nc, maxOps, nconc := 260, 8, 24, 8, 14
	if tier == "thorough" {
		nh, nq, nc, maxOps, nconc = 3000, 60, 240, 14, 140
	}
	var out []interface{}
	// reloads of an instance whose OnShutdown callbacks fail (the class of the repaired finding
	// F-C16-1) are part of every stream
	for _, s := range c16Scenarios(r, true) {
		out = append(out, s)
	}
	for i := 0; i < nh; i++ {
		out = append(out, &c16In{Kind: "hist", Ops: c16GenHistory(r, maxOps, true)})
	}
	for i := 0; i < nq; i++ {
		out = append(out, &c16In{Kind: "hist", Ops: c16GenHistory(r, maxOps, true)})
	}
	for i := 0; i < nc; i++ {
		out = append(out, c16GenChild(r, i))
	}
	for i := 0; i < nconc; i++ {
		out = append(out, c16GenConc(r))
	}
	for i := 0; i < nconc*2; i++ {
		out = append(out, c16GenRace(r))
	}
	return out
}

func init() {
	extraCommands["c16child"] = c16ChildMain
	register(&Property{
		ID: "C16", Imports: "V.Lib V.C16_Model", Judge: "judge", Shard: 40,
		Rule: "histories over {Start, Restart (ok / failing at parse, setup, MakeServers, OnStartup, Listen, listener hand-over, OnRestart, old OnShutdown), Instance.Stop, Stop, ShutdownCallbacks, executeShutdownCallbacks, Wait probe} on a probe server type with recording callbacks and fake servers (graceful or not, with/without inheritable listeners): systematic scenarios per failure stage + random histories (<= 8 ops quick, <= 14 thorough); servers whose Stop returns a drain-timeout error, configurations whose set-up panics, old instances with nothing to hand over; child processes of the harness run a history, call casket.TrapSignals and receive SIGINT/SIGTERM sequences (later signals while the first shutdown callback is held); conc: >= 3 live instances, executeShutdownCallbacks with Instance.Stop of 1-2 of them launched inside the first shutdown callback; race: Instance.Restart (ok / failing) of one of 1-3 live instances held inside its first OnRestart / new OnStartup / old OnShutdown callback while executeShutdownCallbacks runs to completion; non-trivial = at least one successful start and two operations with events (hist) / at least two events after the signal (child) / at least four events during the shutdown (conc) / the gate was reached and at least four events (race)",
		Gen:    c16Gen,
		Decode: func(raw json.RawMessage) (interface{}, error) { in := &c16In{}; return in, json.Unmarshal(raw, in) },
		Run:    c16Run,
	})
}
