// Command harness runs tmpim/casket's real code on generated cases and writes Coq case
// files in which the kernel evaluates the executable model and the executable spec on
// the same inputs (correspondence check + property oracle on the implementation).
package main

import (
	"bufio"
	"encoding/json"
	"flag"
	"fmt"
	"os"
	"path/filepath"
	"sort"
	"strings"
	"time"
)

// Result of running one case on the implementation.
type Result struct {
	Term       string      // Coq term of the property's case type (input + observation)
	Obs        interface{} // observation, human readable, for replays and samples
	Sig        string      // class of the input, used to match known findings
	Nontrivial bool        // by the property's stated rule
	Key        string      // canonical key for distinct counting ("" = use Term)
	Direct     string      // non-empty: violation established by the harness itself (e.g. panic)
	Class      string      // histogram bucket
}

// Property plugs a property's generator and runner into the engine.
type Property struct {
	ID      string
	Imports string // Coq modules for the case file, e.g. "V.Lib V.C17_Model"
	Judge   string // Coq function case -> N
	Rule    string
	Gen     func(r *Rand, tier string) []interface{}
	Decode  func(raw json.RawMessage) (interface{}, error)
	Run     func(in interface{}) Result
	Shard   int // cases per Coq file (default 400)
}

var registry = map[string]*Property{}

func register(p *Property) { registry[strings.ToLower(p.ID)] = p }

type caseRecord struct {
	Index int             `json:"index"`
	Input json.RawMessage `json:"input"`
	Obs   interface{}     `json:"obs"`
	Sig   string          `json:"sig"`
	Direct string         `json:"direct,omitempty"`
}

func main() {
	if len(os.Args) < 2 {
		fmt.Fprintln(os.Stderr, "usage: harness <cmd> [flags]")
		os.Exit(2)
	}
	cmd := strings.ToLower(os.Args[1])
	if f, ok := extraCommands[cmd]; ok {
		os.Exit(f(os.Args[2:]))
	}
	p, ok := registry[cmd]
	if !ok {
		fmt.Fprintln(os.Stderr, "unknown command", cmd)
		os.Exit(2)
	}
	fs := flag.NewFlagSet(cmd, flag.ExitOnError)
	seed := fs.Uint64("seed", 1, "seed")
	tier := fs.String("tier", "quick", "quick|thorough")
	out := fs.String("out", "", "output directory")
	replay := fs.String("replay", "", "replay file (JSON with field cases:[{input}])")
	corpus := fs.String("corpus", "", "corpus directory (replay-format files run first)")
	fs.Parse(os.Args[2:])
	if *out == "" {
		fmt.Fprintln(os.Stderr, "-out required")
		os.Exit(2)
	}
	os.MkdirAll(*out, 0o755)
	t0 := time.Now()

	var inputs []interface{}
	ncorpus := 0
	loadFile := func(path string) error {
		b, err := os.ReadFile(path)
		if err != nil {
			return err
		}
		var rf struct {
			Cases []struct {
				Input json.RawMessage `json:"input"`
			} `json:"cases"`
		}
		if err := json.Unmarshal(b, &rf); err != nil {
			return err
		}
		for _, c := range rf.Cases {
			in, err := p.Decode(c.Input)
			if err != nil {
				return err
			}
			inputs = append(inputs, in)
		}
		return nil
	}
	if *replay != "" {
		if err := loadFile(*replay); err != nil {
			fmt.Fprintln(os.Stderr, "replay:", err)
			os.Exit(2)
		}
	} else {
		if *corpus != "" {
			files, _ := filepath.Glob(filepath.Join(*corpus, "*.json"))
			sort.Strings(files)
			for _, f := range files {
				if err := loadFile(f); err != nil {
					fmt.Fprintln(os.Stderr, "corpus:", f, err)
					os.Exit(2)
				}
			}
			ncorpus = len(inputs)
		}
		inputs = append(inputs, p.Gen(NewRand(*seed), *tier)...)
	}

	shard := p.Shard
	if shard == 0 {
		shard = 400
	}
	recF, _ := os.Create(filepath.Join(*out, "cases.jsonl"))
	recW := bufio.NewWriter(recF)
	distinct := map[string]bool{}
	hist := map[string]int{}
	var terms []string
	nfile := 0
	flush := func() {
		if len(terms) == 0 {
			return
		}
		writeCaseFile(filepath.Join(*out, fmt.Sprintf("cases_%03d.v", nfile)), p, terms)
		nfile++
		terms = terms[:0]
	}
	var direct []int
	for i, in := range inputs {
		res := p.Run(in)
		raw, _ := json.Marshal(in)
		rec := caseRecord{Index: i, Input: raw, Obs: res.Obs, Sig: res.Sig, Direct: res.Direct}
		b, _ := json.Marshal(rec)
		recW.Write(b)
		recW.WriteByte('\n')
		if res.Nontrivial {
			k := res.Key
			if k == "" {
				k = res.Term
			}
			distinct[hashKey(k)] = true
		}
		hist[res.Class]++
		if res.Direct != "" {
			direct = append(direct, i)
		}
		terms = append(terms, res.Term)
		if len(terms) >= shard {
			flush()
		}
	}
	flush()
	recW.Flush()
	recF.Close()
	meta := map[string]interface{}{
		"property":            p.ID,
		"evaluations":         len(inputs),
		"corpus_cases":        ncorpus,
		"distinct_nontrivial": len(distinct),
		"rule":                p.Rule,
		"histogram":           hist,
		"shard":               shard,
		"files":               nfile,
		"direct_violations":   direct,
		"harness_wall_s":      time.Since(t0).Seconds(),
	}
	b, _ := json.MarshalIndent(meta, "", " ")
	os.WriteFile(filepath.Join(*out, "meta.json"), b, 0o644)
}

func writeCaseFile(path string, p *Property, terms []string) {
	var sb strings.Builder
	sb.WriteString("Require Import " + p.Imports + ".\n")
	sb.WriteString("Local Open Scope string_scope.\n")
	sb.WriteString("Definition cases := [\n")
	for i, t := range terms {
		if i > 0 {
			sb.WriteString(";\n")
		}
		sb.WriteString("  ")
		sb.WriteString(t)
	}
	sb.WriteString("\n].\n")
	sb.WriteString("Definition R := Eval vm_compute in bad " + p.Judge + " cases.\nPrint R.\n")
	os.WriteFile(path, []byte(sb.String()), 0o644)
}

// extraCommands are sub-commands with their own flag handling (translator, golib check …).
var extraCommands = map[string]func(args []string) int{}
