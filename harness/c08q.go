package main

// C08 — the packet-connection stage of startServers (QUIC flag on: httpserver.QUIC = true, i.e. -quic).
// With the flag on every server opens a TCP listener (Listen) and then a UDP socket on the same address
// (ListenPacket); the attempt can fail BETWEEN the two: the TCP port is free and the UDP port of the same number
// is in use.  Histories of load / validate / execute / reload / SIGUSR1 attempts over configurations whose servers
// bind 127.0.0.N:0 (both stages succeed), a port whose TCP side is held by somebody else (Listen fails) and a port
// whose UDP side is held by somebody else (Listen succeeds, ListenPacket fails), in first / middle / last position;
// a `release` step makes the harness give both ports up, after which the very configurations that were refused
// must load.  Observed after every step: result, casket.Instances() (configuration of every entry, what its servers
// answer), number of registered hooks, the process's LISTEN sockets and UDP sockets (inodes) and the number of
// descriptors referring to them.

import (
	"bufio"
	"bytes"
	"context"
	"encoding/json"
	"fmt"
	"io"
	"log"
	"net"
	"os"
	"os/exec"
	"os/signal"
	"path/filepath"
	"runtime/debug"
	"sort"
	"strconv"
	"strings"
	"syscall"
	"time"

	"github.com/tmpim/casket"
	"github.com/tmpim/casket/caskethttp/httpserver"
)

type c08QOp struct {
	Kind  string `json:"kind"`            // load | validate | execute | reload | sigusr1 | release
	ID    int    `json:"id,omitempty"`    // marker of the configuration
	Addrs []int  `json:"addrs,omitempty"` // 1..3 = 127.0.0.N:0 ; 9 = TCP side of the port held by someone else ; 8 = UDP side held by someone else
	On    int    `json:"on,omitempty"`    // number of `on` lines
}

type c08Q struct {
	Ops []c08QOp `json:"ops"`
}

type c08QObs struct {
	Fatal  string   `json:"fatal,omitempty"`
	Res    int      `json:"res"` // 0 ok 1 error 2 panic 3 hang 4 no instance to reload
	Err    string   `json:"err,omitempty"`
	EC     string   `json:"ec,omitempty"`
	Ids    []int    `json:"ids"`
	Sites  [][]int  `json:"sites"`
	Hooks  int      `json:"hooks"`
	Tcp    []uint64 `json:"tcp"`
	TcpFds int      `json:"tcpfds"`
	Udp    []uint64 `json:"udp"`
	UdpFds int      `json:"udpfds"`
}

// udpSockets: the datagram sockets this process holds descriptors for (without the harness's own), and the number
// of descriptors referring to them
func (ch *c08Child) udpSockets() ([]uint64, int) {
	seen := map[uint64]bool{}
	inos := []uint64{}
	fds := 0
	ents, _ := os.ReadDir("/proc/self/fd")
	for _, e := range ents {
		fd, err := strconv.Atoi(e.Name())
		if err != nil {
			continue
		}
		l, err := os.Readlink("/proc/self/fd/" + e.Name())
		if err != nil || !strings.HasPrefix(l, "socket:[") {
			continue
		}
		ino, _ := strconv.ParseUint(strings.TrimSuffix(strings.TrimPrefix(l, "socket:["), "]"), 10, 64)
		if ch.ownInos[ino] {
			continue
		}
		if t, err := syscall.GetsockoptInt(fd, syscall.SOL_SOCKET, syscall.SO_TYPE); err != nil || t != syscall.SOCK_DGRAM {
			continue
		}
		fds++
		if !seen[ino] {
			seen[ino] = true
			inos = append(inos, ino)
		}
	}
	sort.Slice(inos, func(i, j int) bool { return inos[i] < inos[j] })
	return inos, fds
}

func c08FileIno(f *os.File, err error) uint64 {
	var ino uint64
	if err == nil {
		var st syscall.Stat_t
		if syscall.Fstat(int(f.Fd()), &st) == nil {
			ino = st.Ino
		}
		f.Close()
	}
	return ino
}

func c08QChildMain(args []string) int {
	debug.SetGCPercent(-1)
	var in c08In
	data, err := io.ReadAll(os.Stdin)
	if err == nil {
		err = json.Unmarshal(data, &in)
	}
	w := bufio.NewWriter(os.Stdout)
	emit := func(o *c08QObs) {
		b, _ := json.Marshal(o)
		w.Write(b)
		w.WriteByte('\n')
		w.Flush()
	}
	if err != nil || len(args) < 1 || in.Q == nil {
		emit(&c08QObs{Fatal: "bad input"})
		return 0
	}
	ch := &c08Child{dir: args[0], logbuf: &c08LogBuf{}, names: map[string]int{}, ownInos: map[uint64]bool{}}
	casket.Quiet = true
	httpserver.QUIC = true
	log.SetOutput(ch.logbuf)
	os.MkdirAll(filepath.Join(ch.dir, "root"), 0o755)
	os.WriteFile(filepath.Join(ch.dir, "root", "index.html"), []byte("index of the site\n"), 0o644)
	// port 9: the TCP side is held, the UDP side is free; port 8: the UDP side is held, the TCP side is free
	for try := 0; try < 50 && ch.busy == nil; try++ {
		ln, err := net.Listen("tcp", "127.0.0.1:0")
		if err != nil {
			continue
		}
		p := ln.Addr().(*net.TCPAddr).Port
		if pc, err := net.ListenUDP("udp", &net.UDPAddr{IP: net.IPv4(127, 0, 0, 1), Port: p}); err == nil {
			pc.Close()
			ch.busy, ch.busyPort = ln, p
		} else {
			ln.Close()
		}
	}
	for try := 0; try < 50 && ch.udpHold == nil; try++ {
		pc, err := net.ListenUDP("udp", &net.UDPAddr{IP: net.IPv4(127, 0, 0, 1), Port: 0})
		if err != nil {
			continue
		}
		p := pc.LocalAddr().(*net.UDPAddr).Port
		if ln, err := net.Listen("tcp", fmt.Sprintf("127.0.0.1:%d", p)); err == nil {
			ln.Close()
			ch.udpHold, ch.udpPort = pc, p
		} else {
			pc.Close()
		}
	}
	if ch.busy == nil || ch.udpHold == nil {
		emit(&c08QObs{Fatal: "cannot listen"})
		return 0
	}
	ch.busyIno = c08ListenerIno(ch.busy)
	ch.ownInos[ch.busyIno] = true
	ch.ownInos[c08FileIno(ch.udpHold.File())] = true
	casket.RegisterCasketfileLoader("c08", casket.LoaderFunc(func(serverType string) (casket.Input, error) {
		ch.curMu.Lock()
		defer ch.curMu.Unlock()
		b, err := os.ReadFile(ch.casketfilePath())
		if err != nil {
			return nil, err
		}
		return casket.CasketfileInput{Contents: b, Filepath: ch.casketfilePath(), ServerTypeName: serverType}, nil
	}))
	for _, op := range in.Q.Ops {
		if op.Kind == "sigusr1" && ch.trapAt.IsZero() {
			guard := make(chan os.Signal, 4)
			signal.Notify(guard, syscall.SIGUSR1)
			casket.TrapSignals()
			ch.trapAt = time.Now()
		}
	}
	observe := func(step int, o *c08QObs) {
		var x c08Obs
		ch.observe(step, &x)
		o.Ids, o.Sites, o.Hooks, o.Tcp, o.TcpFds = x.Ids, x.Sites, len(x.Hooks), x.Socks, x.Fds
		o.Udp, o.UdpFds = ch.udpSockets()
	}
	var o0 c08QObs
	observe(0, &o0)
	emit(&o0)
	for i, op := range in.Q.Ops {
		var o c08QObs
		if op.Kind == "release" {
			if ch.busy != nil {
				ch.busy.Close()
				ch.udpHold.Close()
				ch.busy, ch.udpHold = nil, nil
			}
		} else {
			cfg := &c08Cfg{ID: op.ID, Addrs: op.Addrs}
			if op.On > 0 {
				cfg.Effs = []c08Eff{{K: "on", N: op.On}}
			}
			o.Res, o.Err = ch.attempt(&c08Op{Kind: op.Kind, Cfg: cfg}, i+1)
			if o.Res == 1 {
				o.EC = c08MsgClass(o.Err)
			}
		}
		observe(i+1, &o)
		emit(&o)
		if o.Res == 3 {
			break
		}
	}
	return 0
}

func init() { extraCommands["c08qchild"] = c08QChildMain }

func c08U64Term(xs []uint64) string {
	it := make([]string, len(xs))
	for i, x := range xs {
		it[i] = cN(x)
	}
	return cList(it)
}

func c08QObsTerm(o *c08QObs) string {
	return cApp("mkQObs", cN(uint64(o.Res)), c08IntsTerm(o.Ids), c08IIterm(o.Sites), cN(uint64(o.Hooks)),
		c08U64Term(o.Tcp), cN(uint64(o.TcpFds)), c08U64Term(o.Udp), cN(uint64(o.UdpFds)))
}

var c08QModeTerm = map[string]string{"load": "Load", "validate": "Validate", "execute": "Execute", "reload": "Reload", "sigusr1": "Sigusr1"}

func c08QAddrTerm(a int) string {
	switch a {
	case 9:
		return "QTcpHeld"
	case 8:
		return "QUdpHeld"
	}
	return cApp("QEph", cN(uint64(a)))
}

func c08QOpTerm(op *c08QOp) string {
	if op.Kind == "release" {
		return "QRelease"
	}
	as := make([]string, len(op.Addrs))
	for i, a := range op.Addrs {
		as[i] = c08QAddrTerm(a)
	}
	return cApp("QAttempt", c08QModeTerm[op.Kind], cN(uint64(op.ID)), cList(as), cN(uint64(op.On)))
}

func c08RunQuic(in *c08In) Result {
	q := in.Q
	c08Seq.Lock()
	c08Seq.n++
	dir := filepath.Join(c08Scratch(), fmt.Sprintf("q%d", c08Seq.n))
	c08Seq.Unlock()
	os.MkdirAll(dir, 0o755)
	defer os.RemoveAll(dir)
	data, _ := json.Marshal(in)
	ctx, cancel := context.WithTimeout(context.Background(), c08ChildTimeout)
	defer cancel()
	cmd := exec.CommandContext(ctx, os.Args[0], "c08qchild", dir)
	cmd.Env = append(os.Environ(), "GOMAXPROCS=2")
	cmd.Stdin = bytes.NewReader(data)
	var errb bytes.Buffer
	cmd.Stderr = &errb
	raw, err := cmd.Output()
	var obs []c08QObs
	crashed := ""
	for _, line := range strings.Split(string(raw), "\n") {
		if strings.TrimSpace(line) == "" {
			continue
		}
		var o c08QObs
		if json.Unmarshal([]byte(line), &o) != nil {
			break
		}
		if o.Fatal != "" {
			crashed = "child: " + o.Fatal
			break
		}
		obs = append(obs, o)
	}
	if err != nil {
		tail := errb.String()
		if len(tail) > 300 {
			tail = tail[len(tail)-300:]
		}
		crashed = "child died: " + err.Error() + " " + tail
	}
	if len(obs) == 0 {
		obs = append(obs, c08QObs{})
	}
	// a step the child did not report (it died or hung there): the attempt did not return
	for len(obs) < len(q.Ops)+1 {
		last := obs[len(obs)-1]
		last.Res, last.Err = 2, crashed
		if len(obs) > 1 && obs[len(obs)-1].Res >= 2 {
			last.Res = 3
		}
		obs = append(obs, last)
	}
	var ops, os_ []string
	for i := range q.Ops {
		ops = append(ops, c08QOpTerm(&q.Ops[i]))
		os_ = append(os_, c08QObsTerm(&obs[i+1]))
	}
	term := cApp("CQuic", cList(ops), c08QObsTerm(&obs[0]), cList(os_))
	// class: mode and failing stage of the first attempt that ought to be refused
	sig, held, nfail := "quic:all-valid", true, 0
	for i := range q.Ops {
		op := &q.Ops[i]
		if op.Kind == "release" {
			held = false
			continue
		}
		if !held || op.Kind == "validate" || op.Kind == "execute" {
			continue
		}
		for _, a := range op.Addrs {
			if a == 8 || a == 9 {
				stage := "listen"
				if a == 8 {
					stage = "listen-packet"
				}
				if nfail == 0 {
					sig = fmt.Sprintf("quic:%s:%s", op.Kind, stage)
				}
				nfail++
				break
			}
		}
	}
	key, _ := json.Marshal(in)
	return Result{Term: term, Obs: map[string]interface{}{"obs": obs, "crashed": crashed}, Sig: sig, Key: string(key),
		Nontrivial: nfail > 0 && crashed == "", Class: fmt.Sprintf("%s:steps=%d", sig, len(q.Ops))}
}

// c08GenQuic: for every mode and both failing stages the refused configuration with the held port as the only /
// first / last / middle server, with and without `on` lines, on a fresh process (load) or with a running instance
// (reload, SIGUSR1: the running instance's listeners are inherited through duplicated descriptors, also by the
// rejected configuration), followed by a valid attempt, the release of the ports and a load of the configuration
// that was refused; plus random histories
func c08GenQuic(r *Rand, tier string) []*c08In {
	var out []*c08In
	id := 0
	next := func() int { id++; return 200 + id }
	add := func(name string, ops ...c08QOp) {
		out = append(out, &c08In{Name: name, Ops: []c08Op{}, Q: &c08Q{Ops: ops}})
		id = 0
	}
	shapes := func(h int) [][]int { return [][]int{{h}, {h, 1}, {1, h}, {1, h, 2}, {2, 1, h}} }
	for _, h := range []int{8, 9} {
		for si, sh := range shapes(h) {
			for _, mode := range []string{"load", "reload", "sigusr1", "validate", "execute"} {
				if tier != "thorough" && (mode == "validate" || mode == "execute") && si > 1 {
					continue
				}
				on := (si + h) % 3
				var ops []c08QOp
				running := mode != "load" || si%2 == 1
				if running {
					ops = append(ops, c08QOp{Kind: "load", ID: next(), Addrs: []int{1}, On: 1})
				}
				ops = append(ops, c08QOp{Kind: mode, ID: next(), Addrs: sh, On: on})
				if si%2 == 0 {
					ops = append(ops, c08QOp{Kind: mode, ID: next(), Addrs: sh, On: on}) // the same again
				}
				ops = append(ops, c08QOp{Kind: map[bool]string{true: "load", false: "reload"}[!running || si == 2], ID: next(), Addrs: []int{1, 3}},
					c08QOp{Kind: "release"},
					c08QOp{Kind: "load", ID: next(), Addrs: sh, On: 1})
				add(fmt.Sprintf("quic-%s-%d-shape%d", mode, h, si), ops...)
			}
		}
	}
	n := 10
	if tier == "thorough" {
		n = 200
	}
	modes := []string{"load", "reload", "sigusr1", "reload", "load", "validate", "execute"}
	for k := 0; k < n; k++ {
		ops := []c08QOp{{Kind: "load", ID: next(), Addrs: []int{r.Range(1, 3)}, On: r.Intn(2)}}
		released := false
		for j := r.Range(2, 5); j > 0; j-- {
			if !released && r.Chance(15) {
				ops = append(ops, c08QOp{Kind: "release"})
				released = true
				continue
			}
			var as []int
			for _, a := range r.Perm(3)[:r.Range(1, 3)] {
				as = append(as, a+1)
			}
			if !released && r.Chance(65) { // once the ports are released each is bound by one configuration at most (the last one)
				i := r.Intn(len(as) + 1)
				as = append(as[:i:i], append([]int{8 + r.Intn(2)}, as[i:]...)...)
			}
			ops = append(ops, c08QOp{Kind: r.Pick(modes), ID: next(), Addrs: as, On: r.Intn(3)})
		}
		ops = append(ops, c08QOp{Kind: "release"}, c08QOp{Kind: "load", ID: next(), Addrs: []int{8, 9}})
		add(fmt.Sprintf("quic-random-%d", k), ops...)
	}
	return out
}
