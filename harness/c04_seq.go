package main

// C04 "seq" cases: SEQUENCES of 2-4 different requests (method, Host, client address, header
// lines, body; each with its own scripted backend response) through ONE parsed upstream block —
// the same []proxy.Upstream, hence the same *UpstreamHost objects, for the whole sequence —
// served one after the other or concurrently. The block carries header_upstream AND
// header_downstream rules (set, +, regexp form, presets) whose values use every request-dependent
// placeholder the generator knows ({>Header}, {host}, {hostonly}, {server_port}, {method},
// {remote}, {port}, ...). Every request of the sequence is judged BY ITSELF: the request its
// backend received and the response its client received against the model and the executable
// spec evaluated on THAT request, its backend response and the configuration only — whatever was
// served before or at the same time through the same hosts. A value that belongs to another
// client's request (a replacer, header map or update function kept from an earlier request)
// shows up as a header the spec does not allow for this request.

import (
	"context"
	"fmt"
	"io"
	"net/http"
	"net/http/httptest"
	"strings"
	"sync"

	"github.com/tmpim/casket/caskethttp/proxy"
)

type c04Seq struct {
	Par   bool     `json:"par,omitempty"` // the requests are served concurrently (released together)
	Items []*c04In `json:"items"`         // request + scripted backend response of each; Dirs/Targets/Retry are the outer ones
}

type c04SeqKey struct{}

// c04SeqTransport: one scripted recording transport per request of the sequence; the request is
// recognised by a context value (createUpstreamRequest derives the outgoing request's context from
// the client request's), so that no header is needed for it.
type c04SeqTransport struct {
	items []*c04Transport
}

func (t *c04SeqTransport) RoundTrip(r *http.Request) (*http.Response, error) {
	idx, ok := r.Context().Value(c04SeqKey{}).(int)
	if !ok || idx < 0 || idx >= len(t.items) {
		return nil, fmt.Errorf("request outside the sequence")
	}
	return t.items[idx].RoundTrip(r)
}

func c04ProxyBlockText(in *c04In) string {
	text := "proxy / " + strings.Join(in.Targets, " ") + " {\n" + c04BlockText(in.Dirs)
	if len(in.Targets) > 1 {
		text += "  policy round_robin\n"
	}
	if in.Retry {
		text += "  try_duration 5s\n  try_interval 1ms\n"
	}
	return text + "}\n"
}

// c04HasPlaceholder: a header rule whose value contains a placeholder
func c04HasPlaceholder(ds []c04Dir) bool {
	return c04HasDir(ds, func(d c04Dir) bool {
		switch d.K {
		case "up", "down":
			return strings.Contains(d.B, "{")
		case "upre", "downre":
			return strings.Contains(d.C, "{")
		case "transparent", "websocket":
			return true
		}
		return false
	})
}

func c04RunSeq(in *c04In) Result {
	sq := in.Seq
	triv := func(obs, class string) Result {
		return Result{Term: c04Trivial, Obs: obs, Class: class, Sig: class}
	}
	if sq == nil || len(sq.Items) == 0 {
		return triv("empty sequence", "seq:empty")
	}
	items := make([]*c04In, len(sq.Items))
	reqs := make([]*http.Request, len(sq.Items))
	qterms := make([]string, len(sq.Items))
	for i, it0 := range sq.Items {
		it := *it0
		it.Dirs, it.Targets, it.Retry, it.Fails, it.FailRead, it.FailAfterRead = in.Dirs, in.Targets, in.Retry, 0, nil, false
		items[i] = &it
		req, err := c04ParseRequest(&it)
		if err != nil {
			return triv("request rejected by net/http: "+err.Error(), "seq:request-rejected")
		}
		if c04WebsocketCase(&it, req.Header) {
			return triv("websocket upgrade through the websocket preset: outside the model", "seq:websocket-out-of-scope")
		}
		qterms[i] = c04RequestTerm(req)
		reqs[i] = req.WithContext(context.WithValue(req.Context(), c04SeqKey{}, i))
	}
	text := c04ProxyBlockText(in)
	ups, err := c04Upstreams(text)
	if err != nil || len(ups) != 1 {
		return triv(fmt.Sprint("setup error: ", err, " for ", text), "seq:setup-error")
	}
	defer ups[0].Stop()
	var tterms, hosts []string
	for _, a := range in.Targets {
		tt, h, err := c04TargetTerm(a)
		if err != nil {
			return triv("bad target", "seq:setup-error")
		}
		tterms = append(tterms, tt)
		hosts = append(hosts, h)
	}
	tr := &c04SeqTransport{}
	for _, it := range items {
		tr.items = append(tr.items, &c04Transport{in: it, hosts: hosts})
	}
	for _, h := range hostsOf(ups[0]) {
		h.ReverseProxy.Transport = tr
		h.ReverseProxy.FlushInterval = 0
	}
	var mu sync.Mutex
	nextCalled := false
	p := proxy.Proxy{Next: handlerFunc(func(w http.ResponseWriter, r *http.Request) (int, error) {
		mu.Lock()
		nextCalled = true
		mu.Unlock()
		return 404, nil
	}), Upstreams: ups}

	recs := make([]*httptest.ResponseRecorder, len(items))
	pres := make([]http.Header, len(items))
	rets := make([]int, len(items))
	panics := make([]string, len(items))
	for i, it := range items {
		recs[i] = httptest.NewRecorder()
		for _, l := range it.Pre {
			recs[i].Header().Add(l[0], l[1])
		}
		pres[i] = recs[i].Header().Clone()
	}
	serve := func(i int) {
		defer func() {
			if e := recover(); e != nil {
				panics[i] = fmt.Sprint("panic in Proxy.ServeHTTP (request ", i, "): ", e)
			}
		}()
		rets[i], _ = p.ServeHTTP(recs[i], reqs[i])
	}
	if sq.Par {
		start := make(chan struct{})
		var wg sync.WaitGroup
		for i := range items {
			wg.Add(1)
			go func(i int) {
				defer wg.Done()
				<-start
				serve(i)
			}(i)
		}
		close(start)
		wg.Wait()
	} else {
		for i := range items {
			serve(i)
		}
	}
	direct := ""
	for _, s := range panics {
		if s != "" && direct == "" {
			direct = s
		}
	}
	if nextCalled {
		direct = "request was not proxied (Next called)"
	}
	var its []string
	var obs []interface{}
	sharedTrailer := false
	for i, it := range items {
		var sents []string
		for _, s := range tr.items[i].sent {
			sent := cApp("Build_sent", c04S(s.Host), c04S(s.URLHost), c04Url(s.Path, s.RawPath, s.Query), c04Hdr(s.Header))
			sents = append(sents, cApp("Build_sent_obs", cNat(s.Target), c04S(s.Method), sent, cBool(s.Read), cZ(s.Asked), c04S(string(s.Body)), cZ(s.CL), cBool(s.Chunked)))
		}
		o := map[string]interface{}{"ret": rets[i], "sent": tr.items[i].sent}
		cobs := "(Build_client_obs 0%N [] [] [])"
		if len(tr.items[i].sent) > 0 {
			res := recs[i].Result()
			body, _ := io.ReadAll(res.Body)
			cobs = cApp("Build_client_obs", cN(uint64(res.StatusCode)), c04Hdr(res.Header), c04Hdr(res.Trailer), c04S(string(body)))
			o["client"] = map[string]interface{}{"status": res.StatusCode, "header": res.Header, "trailer": res.Trailer, "body": string(body)}
			if c04TrailerSharesHeader(&c04In{RAnn: it.RAnn, RTrailers: it.RTrailers}, res.Header) {
				sharedTrailer = true
			}
		}
		obs = append(obs, o)
		its = append(its, cApp("Build_seqitem", qterms[i], c04S(it.Body), cBool(it.Chunked), c04Hdr(pres[i]),
			c04Bresp(it.RStatus, c04Lines(it.RHdr), it.RAnn, c04Lines(it.RTrailers)), c04S(it.RBody),
			cList(sents), cobs, cN(c04RetN(rets[i]))))
	}
	term := cApp("CSeq", c04Dirs(in.Dirs), cList(tterms), cBool(in.Retry), cList(its))
	mode := "sequential"
	if sq.Par {
		mode = "concurrent"
	}
	sig := "seq:" + mode
	if sharedTrailer {
		sig = c04SigSharedTrailer // an item of the sequence is in the class of F-C04-7
	}
	return Result{Term: term, Obs: obs, Sig: sig, Direct: direct,
		Nontrivial: len(items) >= 2 && c04HasPlaceholder(in.Dirs), Class: fmt.Sprintf("seq:%s:n=%d", mode, len(items))}
}

// ---- generator ----
// header names and values of the request-dependent rules; the values use every request-dependent
// placeholder of c04DirVals / the presets (the ones the Replacer model knows)
var c04SeqDownNames = []string{"Access-Control-Allow-Origin", "X-Served-Method", "X-Client", "Vary", "X-A", "Set-Cookie", "Location", "X-Front"}
var c04SeqUpNames = []string{"X-Origin", "X-Orig-Host", "X-Real-IP", "X-A", "X-New", "Cookie", "X-Method", "Host"}
var c04SeqVals = []string{"{>Origin}", "{host}", "{method}", "{remote}", "{port}", "{hostonly}:{server_port}", "{>X-A}", "pre-{>X-B}-post", "{>Cookie}",
	"{hostonly}", "{server_port}", "{method} {host}", "{>Origin}|{remote}", "{>x-lower}", "{>Connection}", "{>X-Forwarded-For}", "{>Authorization}"}
var c04SeqOrigins = []string{"https://app.one.example", "https://app.two.example", "null"}
var c04SeqLocations = []string{"http://h0.test/next", "http://h1.test/a/b", "/relative", "http://h0.test:8080/x?y=1"}
var c04SeqRePat = []string{"h0.test", "h1.test", "http", "/"}

func c04GenSeqRules(r *Rand, n int) []c04Dir {
	var ds []c04Dir
	for i := 0; i < n; i++ {
		k, names := "down", c04SeqDownNames
		if r.Chance(40) {
			k, names = "up", c04SeqUpNames
		}
		name, v := r.Pick(names), r.Pick(c04SeqVals)
		switch {
		case r.Chance(20):
			if k == "down" && r.Chance(60) {
				name = "Location"
			}
			ds = append(ds, c04Dir{K: k + "re", A: name, B: r.Pick(c04SeqRePat), C: v})
		case r.Chance(30):
			ds = append(ds, c04Dir{K: k, A: "+" + name, B: v})
		default:
			ds = append(ds, c04Dir{K: k, A: name, B: v})
		}
	}
	return ds
}

func c04GenSeq(r *Rand, idx int) *c04In {
	for {
		in := c04GenSeq1(r, idx)
		ok := true
		for _, it0 := range in.Seq.Items {
			it := *it0
			it.Dirs = in.Dirs
			if req, err := c04ParseRequest(&it); err == nil && c04WebsocketCase(&it, req.Header) {
				ok = false
			}
		}
		if ok {
			return in
		}
	}
}

func c04GenSeq1(r *Rand, idx int) *c04In {
	base := c04GenProxy(r)
	in := &c04In{Kind: "seq", Dirs: base.Dirs, Targets: base.Targets, Retry: r.Chance(30), Seq: &c04Seq{Par: idx%3 == 2}}
	if r.Chance(70) {
		in.Targets = in.Targets[:1] // one host: every request of the sequence meets the same UpstreamHost
	}
	// request-dependent rules in both directions, mixed with whatever the block already has
	extra := c04GenSeqRules(r, r.Range(1, 3))
	if !c04HasDir(extra, func(d c04Dir) bool { return d.K == "down" || d.K == "downre" }) {
		extra = append(extra, c04Dir{K: "down", A: r.Pick(c04SeqDownNames), B: r.Pick(c04SeqVals)})
	}
	if r.Chance(60) && !c04HasDir(extra, func(d c04Dir) bool { return d.K == "up" || d.K == "upre" }) {
		extra = append(extra, c04Dir{K: "up", A: r.Pick(c04SeqUpNames), B: r.Pick(c04SeqVals)})
	}
	if r.Chance(40) {
		in.Dirs = nil // only the request-dependent rules
	}
	all := append(append([]c04Dir{}, in.Dirs...), extra...)
	in.Dirs = make([]c04Dir, len(all))
	for i, j := range r.Perm(len(all)) {
		in.Dirs[i] = all[j]
	}
	n := r.Range(2, 4)
	for j := 0; j < n; j++ {
		var it *c04In
		switch {
		case j == 0:
			it = base
		case r.Chance(35):
			// the previous request again with ONE thing changed (or nothing at all)
			prev := *in.Seq.Items[j-1]
			prev.Hdr = append([][2]string{}, prev.Hdr...)
			it = &prev
			switch r.Intn(6) {
			case 0:
				it.Host = r.Pick(c04Hosts)
			case 1:
				it.Method = r.Pick(c04Methods)
				if it.Method == "GET" || it.Method == "HEAD" || it.Method == "DELETE" || it.Method == "OPTIONS" {
					it.Body, it.Chunked = "", false
				}
			case 2:
				it.Remote = r.Pick(c04Remotes)
			case 3:
				it.Hdr = append(it.Hdr, [2]string{r.Pick([]string{"Origin", "X-A", "X-B", "Cookie"}), r.Pick(append(c04SeqOrigins, c04Vals...))})
			case 4:
				if len(it.Hdr) > 0 {
					k := r.Intn(len(it.Hdr))
					it.Hdr = append(it.Hdr[:k:k], it.Hdr[k+1:]...)
				}
			}
		default:
			it = c04GenProxy1(r)
		}
		it = &c04In{Method: it.Method, Host: it.Host, Remote: it.Remote, Target: it.Target, Hdr: it.Hdr, Body: it.Body, Chunked: it.Chunked, Pre: it.Pre,
			RStatus: it.RStatus, RHdr: it.RHdr, RBody: it.RBody, RAnn: it.RAnn, RTrailers: it.RTrailers}
		if r.Chance(60) {
			it.Hdr = append(it.Hdr, [2]string{"Origin", r.Pick(c04SeqOrigins)})
		}
		if r.Chance(35) {
			it.RHdr = append(it.RHdr, [2]string{"Location", r.Pick(c04SeqLocations)})
		}
		in.Seq.Items = append(in.Seq.Items, it)
	}
	return in
}
