package main

// C04 "conc" cases: N requests in parallel through ONE Proxy whose upstream block has 2+ hosts and
// try_duration > 0 (so every request body is buffered by newBufferedBody and re-sent on a retry),
// driven by a deterministic schedule:
//
//   request j has a body (unique pattern: salt, length), a number f_j of first attempts that FAIL
//   AFTER the backend has read the body, and a response (unique pattern: salt, length). (A LATE
//   request, Late = L > 0, only starts when gate L opens, its attempt k belonging to phase L+k: the
//   description below is for L = 0; used by the C05 cases of c05_conc.go.)
//   phase p = 1 .. max f + 1:   H_p = { j : f_j >= p }  are held by the backend in attempt p (body
//   already read), while F_p = { j : f_j = p-1 } are answered: their responses are relayed through
//   copyResponse/pooledIoCopy, all readers of the phase holding a pooled 32 KiB buffer at the same
//   time. Only when every F_p client has its response are the H_p attempts failed (gate p), and the
//   retry loop re-sends their buffered bodies in attempt p+1.
//
// So between "body buffered" and "body (re-)sent" other requests' bytes travel through the pooled
// copy buffers: a buffered body that shares memory with such a buffer arrives overwritten.
// mode "scripted": the hosts' Transport is a barrier RoundTripper; mode "wire": the real
// http.Transport talks to loopback backends that accept, read the request, and drop the connection.
// Every case runs in a child process of the harness binary (GOMAXPROCS / GC pinned there: with one
// P and no GC a sync.Pool is LIFO, so the schedule decides which buffer is handed to whom); the
// client side is an httptest recorder (no io.ReaderFrom: the pooled buffer is really used).
//
// What reaches Coq for every byte string (each attempt's body as read by the backend, each client's
// response body): its length, the first offset at which it differs from the expected pattern
// (computed here), and its first and last 48 bytes verbatim (compared in Coq with the pattern
// function pat_byte, i.e. bodies up to 96 bytes are judged entirely in Coq).

import (
	"bufio"
	"bytes"
	"encoding/json"
	"errors"
	"fmt"
	"io"
	"net/http"
	"net/http/httptest"
	"os"
	"os/exec"
	"runtime"
	"runtime/debug"
	"strconv"
	"strings"
	"sync"
	"time"

	"github.com/tmpim/casket/caskethttp/proxy"
)

type c04CReq struct {
	Salt    int  `json:"salt"`
	Len     int  `json:"len"`
	Chunked bool `json:"chunked,omitempty"`
	ChunkSz int  `json:"chunksz,omitempty"`
	Fails   int  `json:"fails,omitempty"`
	RSalt   int  `json:"rsalt"`
	RLen    int  `json:"rlen"`
	RSeg    int  `json:"rseg,omitempty"` // scripted: the backend body reader returns at most RSeg bytes per Read (0: as many as fit)
	// Late = L > 0: the request only STARTS once the attempts held in phase L have been failed (gate L):
	// its body is buffered, and its attempt k runs in phase L+k, while those requests wait to retry
	Late int `json:"late,omitempty"`
	// Yield: a late request lets the other runnable goroutines go first that many times (runtime.Gosched)
	// before it starts, so that with one P the failed attempts have been wound up (body closed, retry
	// loop asleep for try_interval) when it buffers its body
	Yield int `json:"yield,omitempty"`
}

type c04Conc struct {
	Hosts int       `json:"hosts"`
	Procs int       `json:"procs,omitempty"` // GOMAXPROCS of the child (0: default)
	GC    bool      `json:"gc,omitempty"`    // false: GC switched off in the child
	Wire  bool      `json:"wire,omitempty"`  // real http.Transport + loopback backends (accept, read, drop)
	Flush bool      `json:"flush,omitempty"` // FlushInterval 1ms (maxLatencyWriter in front of the client) instead of 0
	Block string    `json:"block,omitempty"` // further lines of the proxy block (C05: fail_timeout / max_fails)
	TryD  string    `json:"tryd,omitempty"`  // try_duration (default 120s: far beyond any schedule)
	Reqs  []c04CReq `json:"reqs"`
}

const c04Window = 48

type c04BObs struct {
	Len     int    `json:"len"`
	Diff    int    `json:"diff"` // -1: equal to the expected pattern as far as both go
	Head    []byte `json:"head"`
	Tail    []byte `json:"tail"`
	Foreign string `json:"foreign,omitempty"` // diagnostics: whose pattern the first differing byte belongs to
}

type c04CAtt struct {
	Target  int     `json:"target"`
	Body    c04BObs `json:"body"`
	CL      int64   `json:"cl"`
	Chunked bool    `json:"chunked"`
}

type c04CObs struct {
	Attempts []c04CAtt `json:"attempts"`
	Status   int       `json:"status"`
	Ret      int       `json:"ret"`
	Body     c04BObs   `json:"resp"`
}

type c04ConcOut struct {
	Reqs  []c04CObs `json:"reqs"`
	Stuck string    `json:"stuck,omitempty"`
	Setup string    `json:"setup,omitempty"`
}

func c04Observe(got []byte, salt, n int, in *c04Conc) c04BObs {
	want := c04BodyOf(n, salt)
	o := c04BObs{Len: len(got), Diff: -1}
	m := len(got)
	if len(want) < m {
		m = len(want)
	}
	for i := 0; i < m; i++ {
		if got[i] != want[i] {
			o.Diff = i
			break
		}
	}
	h := len(got)
	if h > c04Window {
		h = c04Window
	}
	o.Head = append([]byte{}, got[:h]...)
	o.Tail = append([]byte{}, got[len(got)-h:]...)
	if o.Diff >= 0 {
		// diagnostics only: a pooled copy buffer is filled from its start, so foreign bytes at offset i
		// of this body are byte i + m*32768 of the foreign pattern
		o.Foreign = "unknown"
		for j, q := range in.Reqs {
			for _, cand := range []struct {
				salt, n int
				what    string
			}{{q.Salt, q.Len, "request body"}, {q.RSalt, q.RLen, "response body"}} {
				if cand.salt == salt {
					continue
				}
				cb := c04BodyOf(cand.n, cand.salt)
				for m := 0; m < 4; m++ {
					if k := o.Diff + m*32768; k < len(cb) && cb[k] == got[o.Diff] {
						o.Foreign = fmt.Sprintf("%s of request %d", cand.what, j)
					}
				}
			}
		}
	}
	return o
}

// ---- the schedule ----
type c04Brain struct {
	mu       sync.Mutex
	in       *c04Conc
	att      [][]c04CAtt
	nH, nF   []int // per phase (1-based)
	arrived  []int
	arriveCh []chan struct{}
	gate     []chan struct{}
	readers  []int
	readCh   []chan struct{}
	stuck    string
}

func c04NewBrain(in *c04Conc) *c04Brain {
	maxf := 0
	for _, q := range in.Reqs {
		if q.Late+q.Fails > maxf {
			maxf = q.Late + q.Fails
		}
	}
	b := &c04Brain{in: in, att: make([][]c04CAtt, len(in.Reqs))}
	n := maxf + 2
	b.nH, b.nF, b.arrived, b.readers = make([]int, n+1), make([]int, n+1), make([]int, n+1), make([]int, n+1)
	b.arriveCh, b.gate, b.readCh = make([]chan struct{}, n+1), make([]chan struct{}, n+1), make([]chan struct{}, n+1)
	for p := 0; p <= n; p++ {
		b.arriveCh[p], b.gate[p], b.readCh[p] = make(chan struct{}), make(chan struct{}), make(chan struct{})
	}
	for _, q := range in.Reqs {
		for p := q.Late + 1; p <= q.Late+q.Fails; p++ {
			b.nH[p]++
		}
		b.nF[q.Late+q.Fails+1]++
	}
	for p := 0; p <= n; p++ {
		if b.nH[p] == 0 {
			close(b.arriveCh[p])
		}
	}
	return b
}

func (b *c04Brain) setStuck(s string) {
	b.mu.Lock()
	if b.stuck == "" {
		b.stuck = s
	}
	b.mu.Unlock()
}

func c04Wait(ch chan struct{}, d time.Duration) bool {
	select {
	case <-ch:
		return true
	case <-time.After(d):
		return false
	}
}

// attempt is called by the backend once it has read the whole request body; it returns true when
// this attempt is to fail (after the gate of its phase has opened).
func (b *c04Brain) attempt(id, target int, body []byte, cl int64, chunked bool) bool {
	q := b.in.Reqs[id]
	b.mu.Lock()
	b.att[id] = append(b.att[id], c04CAtt{Target: target, Body: c04Observe(body, q.Salt, q.Len, b.in), CL: cl, Chunked: chunked})
	k := len(b.att[id])
	ph := q.Late + k // the phase this attempt belongs to
	if k > q.Fails+1 || ph >= len(b.gate) {
		b.mu.Unlock()
		return false // more attempts than scripted: answered, the count is judged
	}
	if k <= q.Fails {
		b.arrived[ph]++
		if b.arrived[ph] == b.nH[ph] {
			close(b.arriveCh[ph])
		}
	}
	b.mu.Unlock()
	if k <= q.Fails {
		if !c04Wait(b.gate[ph], 40*time.Second) {
			b.setStuck(fmt.Sprintf("request %d attempt %d: gate never opened", id, k))
		}
		return true
	}
	if !c04Wait(b.arriveCh[ph], 40*time.Second) {
		b.setStuck(fmt.Sprintf("request %d attempt %d: the held requests of phase %d never arrived", id, k, ph))
	}
	return false
}

// readerBarrier: every response body reader of a phase waits (bounded) for the others, so that all
// of them hold their pooled copy buffer at the same time.
func (b *c04Brain) readerBarrier(id int) {
	p := b.in.Reqs[id].Late + b.in.Reqs[id].Fails + 1
	b.mu.Lock()
	b.readers[p]++
	if b.readers[p] == b.nF[p] {
		close(b.readCh[p])
	}
	b.mu.Unlock()
	c04Wait(b.readCh[p], 3*time.Second)
}

type c04ConcBody struct {
	b    *c04Brain
	id   int
	r    *bytes.Reader
	seg  int
	once bool
}

func (cb *c04ConcBody) Read(p []byte) (int, error) {
	if !cb.once {
		cb.once = true
		cb.b.readerBarrier(cb.id)
	}
	if cb.seg > 0 && len(p) > cb.seg {
		p = p[:cb.seg]
	}
	return cb.r.Read(p)
}
func (cb *c04ConcBody) Close() error { return nil }

type c04ConcTransport struct {
	b     *c04Brain
	hosts []string
}

func (t *c04ConcTransport) RoundTrip(r *http.Request) (*http.Response, error) {
	id, err := strconv.Atoi(r.Header.Get("X-C04-Id"))
	if err != nil || id < 0 || id >= len(t.b.in.Reqs) {
		return nil, errors.New("request without id")
	}
	target := len(t.hosts)
	for i, h := range t.hosts {
		if h == r.URL.Host {
			target = i
		}
	}
	var body []byte
	if r.Body != nil {
		body, _ = io.ReadAll(r.Body)
	}
	chunked := false
	for _, te := range r.TransferEncoding {
		if te == "chunked" {
			chunked = true
		}
	}
	failed := t.b.attempt(id, target, body, r.ContentLength, chunked)
	if r.Body != nil {
		r.Body.Close() // "RoundTrip must always close the body, including on errors" (http.RoundTripper)
	}
	if failed {
		return nil, errors.New("scripted backend failure after reading the body")
	}
	q := t.b.in.Reqs[id]
	return &http.Response{StatusCode: 200, Status: "200 OK", Proto: "HTTP/1.1", ProtoMajor: 1, ProtoMinor: 1, Header: http.Header{"X-C04-Id": {strconv.Itoa(id)}},
		Request: r, ContentLength: -1, Body: &c04ConcBody{b: t.b, id: id, r: bytes.NewReader(c04BodyOf(q.RLen, q.RSalt)), seg: q.RSeg}}, nil
}

func c04ConcRequest(id int, q c04CReq) (*http.Request, error) {
	var sb bytes.Buffer
	body := c04BodyOf(q.Len, q.Salt)
	fmt.Fprintf(&sb, "POST /c/%d HTTP/1.1\r\nHost: front.test\r\nX-C04-Id: %d\r\n", id, id)
	if q.Chunked {
		sb.WriteString("Transfer-Encoding: chunked\r\n\r\n")
		sz := q.ChunkSz
		if sz <= 0 {
			sz = 4096
		}
		for off := 0; off < len(body); off += sz {
			e := off + sz
			if e > len(body) {
				e = len(body)
			}
			fmt.Fprintf(&sb, "%x\r\n", e-off)
			sb.Write(body[off:e])
			sb.WriteString("\r\n")
		}
		sb.WriteString("0\r\n\r\n")
	} else {
		fmt.Fprintf(&sb, "Content-Length: %d\r\n\r\n", len(body))
		sb.Write(body)
	}
	req, err := http.ReadRequest(bufio.NewReader(&sb))
	if err != nil {
		return nil, err
	}
	req.RemoteAddr = fmt.Sprintf("192.0.2.%d:4711", 1+id%250)
	return req, nil
}

// c04ConcRun runs the schedule in this process.
func c04ConcRun(in *c04Conc) c04ConcOut {
	if in.Procs > 0 {
		runtime.GOMAXPROCS(in.Procs)
	}
	if !in.GC {
		debug.SetGCPercent(-1)
	}
	out := c04ConcOut{Reqs: make([]c04CObs, len(in.Reqs))}
	brain := c04NewBrain(in)
	var targets []string
	var servers []*httptest.Server
	defer func() {
		for _, s := range servers {
			s.CloseClientConnections()
			s.Close()
		}
	}()
	for i := 0; i < in.Hosts; i++ {
		if !in.Wire {
			targets = append(targets, fmt.Sprintf("http://h%d.test", i))
			continue
		}
		idx := i
		srv := httptest.NewServer(http.HandlerFunc(func(w http.ResponseWriter, r *http.Request) {
			body, _ := io.ReadAll(r.Body)
			id, err := strconv.Atoi(r.Header.Get("X-C04-Id"))
			if err != nil || id < 0 || id >= len(in.Reqs) {
				w.WriteHeader(500)
				return
			}
			chunked := false
			for _, te := range r.TransferEncoding {
				if te == "chunked" {
					chunked = true
				}
			}
			if brain.attempt(id, idx, body, r.ContentLength, chunked) {
				// accept, read, drop: no response at all
				if hj, ok := w.(http.Hijacker); ok {
					if c, _, err := hj.Hijack(); err == nil {
						c.Close()
						return
					}
				}
				panic(http.ErrAbortHandler)
			}
			q := in.Reqs[id]
			w.Header().Set("X-C04-Id", strconv.Itoa(id))
			w.WriteHeader(200)
			rb := c04BodyOf(q.RLen, q.RSalt)
			brain.readerBarrier(id)
			if q.RSeg > 0 {
				for off := 0; off < len(rb); off += q.RSeg {
					e := off + q.RSeg
					if e > len(rb) {
						e = len(rb)
					}
					w.Write(rb[off:e])
					if f, ok := w.(http.Flusher); ok && off < 8*q.RSeg {
						f.Flush()
					}
				}
			} else {
				w.Write(rb)
			}
		}))
		servers = append(servers, srv)
		targets = append(targets, srv.URL)
	}
	tryD := in.TryD
	if tryD == "" {
		tryD = "120s"
	}
	text := "proxy / " + strings.Join(targets, " ") + " {\n  policy round_robin\n  try_duration " + tryD + "\n  try_interval 1ms\n" + in.Block + "}\n"
	ups, err := c04Upstreams(text)
	if err != nil || len(ups) != 1 {
		out.Setup = fmt.Sprint("setup error: ", err)
		return out
	}
	defer ups[0].Stop()
	tr := &c04ConcTransport{b: brain}
	for i, h := range hostsOf(ups[0]) {
		_ = i
		if !in.Wire {
			h.ReverseProxy.Transport = tr
		}
		h.ReverseProxy.FlushInterval = 0
		if in.Flush {
			h.ReverseProxy.FlushInterval = time.Millisecond
		}
	}
	for i := 0; i < in.Hosts; i++ {
		tr.hosts = append(tr.hosts, fmt.Sprintf("h%d.test", i))
	}
	p := proxy.Proxy{Next: handlerFunc(func(w http.ResponseWriter, r *http.Request) (int, error) { return 404, nil }), Upstreams: ups}

	done := make([]chan struct{}, len(in.Reqs))
	for i := range in.Reqs {
		done[i] = make(chan struct{})
		req, err := c04ConcRequest(i, in.Reqs[i])
		if err != nil {
			out.Setup = "request rejected by net/http: " + err.Error()
			return out
		}
		go func(i int, req *http.Request) {
			defer close(done[i])
			if l := in.Reqs[i].Late; l > 0 && l < len(brain.gate) {
				c04Wait(brain.gate[l], 60*time.Second) // a late request starts right after the failures of phase l
				for y := 0; y < in.Reqs[i].Yield; y++ {
					runtime.Gosched()
				}
			}
			rec := httptest.NewRecorder()
			ret := -1
			func() {
				defer func() {
					if e := recover(); e != nil {
						brain.setStuck(fmt.Sprint("panic in Proxy.ServeHTTP: ", e))
					}
				}()
				ret, _ = p.ServeHTTP(rec, req)
			}()
			q := in.Reqs[i]
			brain.mu.Lock()
			out.Reqs[i].Ret = ret
			out.Reqs[i].Status = rec.Code
			out.Reqs[i].Body = c04Observe(rec.Body.Bytes(), q.RSalt, q.RLen, in)
			brain.mu.Unlock()
		}(i, req)
	}
	maxf := 0
	for _, q := range in.Reqs {
		if q.Late+q.Fails > maxf {
			maxf = q.Late + q.Fails
		}
	}
	for ph := 1; ph <= maxf+1; ph++ {
		for i, q := range in.Reqs {
			if q.Late+q.Fails == ph-1 {
				if !c04Wait(done[i], 60*time.Second) {
					brain.setStuck(fmt.Sprintf("request %d (answered in phase %d) did not finish", i, ph))
				}
			}
		}
		close(brain.gate[ph])
	}
	for i := range in.Reqs {
		if !c04Wait(done[i], 60*time.Second) {
			brain.setStuck(fmt.Sprintf("request %d did not finish", i))
		}
	}
	brain.mu.Lock()
	for i := range in.Reqs {
		out.Reqs[i].Attempts = append([]c04CAtt{}, brain.att[i]...)
	}
	out.Stuck = brain.stuck
	brain.mu.Unlock()
	return out
}

// ---- parent side ----
func c04BObsTerm(o c04BObs) string {
	d := "None"
	if o.Diff >= 0 {
		d = "(Some " + cN(uint64(o.Diff)) + ")"
	}
	return cApp("Build_bobs", cN(uint64(o.Len)), d, cBytes(o.Head), cBytes(o.Tail))
}

func c04ConcChild(in *c04Conc) (c04ConcOut, string) {
	if os.Getenv("C04_INPROC") == "1" {
		return c04ConcRun(in), ""
	}
	raw, _ := json.Marshal(in)
	cmd := exec.Command(os.Args[0], "c04child")
	cmd.Stdin = bytes.NewReader(raw)
	var stdout, stderr bytes.Buffer
	cmd.Stdout = &stdout
	cmd.Stderr = &stderr
	if err := cmd.Start(); err != nil {
		return c04ConcOut{}, "harness: cannot start the child process: " + err.Error()
	}
	done := make(chan error, 1)
	go func() { done <- cmd.Wait() }()
	select {
	case <-done:
	case <-time.After(150 * time.Second):
		cmd.Process.Kill()
		<-done
		return c04ConcOut{}, "child killed after 150 s"
	}
	s := stdout.String()
	if i := strings.LastIndex(s, "C04RESULT "); i >= 0 {
		line := s[i+10:]
		if j := strings.IndexByte(line, '\n'); j >= 0 {
			line = line[:j]
		}
		var o c04ConcOut
		if err := json.Unmarshal([]byte(line), &o); err == nil {
			return o, ""
		}
	}
	st := stderr.String()
	if len(st) > 800 {
		st = st[len(st)-800:]
	}
	return c04ConcOut{}, "child process died: " + st
}

func c04RunConc(in *c04In) Result {
	c := in.Conc
	mode := "scripted"
	if c.Wire {
		mode = "wire"
	}
	class := fmt.Sprintf("conc:%s:procs=%d", mode, c.Procs)
	sig := "conc:" + mode
	var o c04ConcOut
	var fail string
	for try := 0; try < 3; try++ {
		o, fail = c04ConcChild(c)
		if fail == "" && o.Stuck == "" && o.Setup == "" {
			break
		}
		time.Sleep(100 * time.Millisecond)
	}
	if fail != "" || o.Setup != "" {
		return Result{Term: c04Trivial, Obs: fail + o.Setup, Class: "conc:setup-error", Sig: "conc:setup-error", Direct: "concurrent schedule could not be run: " + fail + o.Setup}
	}
	var it []string
	nt := false
	relays := 0
	for _, q := range c.Reqs {
		if q.Fails == 0 {
			relays++
		}
	}
	for i, q := range c.Reqs {
		var ob c04CObs
		if i < len(o.Reqs) {
			ob = o.Reqs[i]
		}
		var at []string
		for _, a := range ob.Attempts {
			at = append(at, cApp("Build_cattempt", cNat(a.Target), c04BObsTerm(a.Body), cZ(a.CL)))
		}
		it = append(it, cPair(
			cApp("Build_creq", cN(uint64(q.Salt)), cN(uint64(q.Len)), cBool(q.Chunked), cNat(q.Fails), cN(uint64(q.RSalt)), cN(uint64(q.RLen))),
			cApp("Build_cobs", cList(at), cN(uint64(ob.Status)), cN(c04RetN(ob.Ret)), c04BObsTerm(ob.Body))))
		if q.Fails > 0 && q.Len > 0 && relays > 0 {
			nt = true
		}
	}
	direct := ""
	if o.Stuck != "" {
		direct = "concurrent schedule did not complete (3 tries): " + o.Stuck
	}
	return Result{Term: cApp("CConc", cNat(c.Hosts), cList(it)), Obs: o, Sig: sig, Class: class, Nontrivial: nt, Direct: direct}
}

func c04RetN(r int) uint64 {
	if r < 0 {
		return 9999
	}
	return uint64(r)
}

// ---- generator ----
var c04ConcLens = []int{0, 1, 2, 47, 48, 49, 96, 97, 100, 511, 512, 513, 2048, 4096, 16384, 32255, 32256, 32257, 32767, 32768, 32769, 40000, 65536}
var c04ConcRLens = []int{1, 100, 2048, 2049, 32767, 32768, 32769, 32768, 40000, 65537, 0, 3*32768 + 7}

func c04GenConc(r *Rand, i int) *c04In {
	c := &c04Conc{Hosts: r.Range(2, 3), Procs: []int{1, 1, 1, 2, 0}[i%5], Wire: i%4 == 3, Flush: r.Chance(25), GC: r.Chance(15)}
	nA := r.Range(1, 6)
	nB := nA + r.Range(0, 3)
	if r.Chance(10) {
		nB = r.Range(1, 2)
	}
	salts := r.Perm(250)
	s := 0
	next := func() int { s++; return salts[s-1] + 1 }
	for k := 0; k < nA+nB; k++ {
		q := c04CReq{Salt: next(), RSalt: next(), Len: c04PickInt(r, c04ConcLens), RLen: c04PickInt(r, c04ConcRLens), Chunked: r.Chance(35)}
		if r.Chance(20) {
			q.Len = r.Range(0, 33000)
		}
		if q.Chunked {
			q.ChunkSz = c04PickInt(r, []int{0, 1000, 4096, 32768, 7})
			if q.ChunkSz == 7 && q.Len > 2000 {
				q.ChunkSz = 997
			}
		}
		q.RSeg = c04PickInt(r, []int{0, 0, 1000, 32768, 32769, 4096, 511})
		if k < nA {
			q.Fails = 1
			if r.Chance(25) {
				q.Fails = 2
			}
		} else if r.Chance(50) {
			q.Len = c04PickInt(r, []int{0, 1, 100})
		}
		c.Reqs = append(c.Reqs, q)
	}
	// order of arrival is part of the case
	p := r.Perm(len(c.Reqs))
	reqs := make([]c04CReq, len(c.Reqs))
	for a, b := range p {
		reqs[a] = c.Reqs[b]
	}
	c.Reqs = reqs
	return &c04In{Kind: "conc", Conc: c}
}

func init() {
	extraCommands["c04child"] = func(args []string) int {
		raw, err := io.ReadAll(os.Stdin)
		if err != nil {
			return 3
		}
		in := &c04Conc{}
		if err := json.Unmarshal(raw, in); err != nil {
			fmt.Fprintln(os.Stderr, "c04child: bad input:", err)
			return 3
		}
		o := c04ConcRun(in)
		b, _ := json.Marshal(o)
		os.Stdout.Write(append([]byte("C04RESULT "), append(b, '\n')...))
		return 0
	}
}
