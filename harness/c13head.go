//go:build verif

package main

import (
	"bytes"
	"fmt"
	"io"
	"strings"

	"github.com/tmpim/casket/caskethttp/fastcgi"
)

// ---------- head cases: FCGIClient.Request on one responder output under two framings ----------

type c13HeadObs struct {
	code   int // 0 = Request (or reading the body) failed
	hdr    map[string][]string
	body   []byte
	stderr []byte
	direct string
}

func c13HeadOnce(recs []c13Rec, chunks []int) (o c13HeadObs) {
	var wire []byte
	for _, r := range recs {
		wire = append(wire, c13EncRec(r)...)
	}
	mc := &c13Conn{r: wire, chunks: append([]int(nil), chunks...)}
	cl := fastcgi.VerifNewClient(mc)
	func() {
		defer func() {
			if e := recover(); e != nil {
				o.direct = fmt.Sprint("panic in FCGIClient.Request: ", e)
			}
		}()
		resp, err := cl.Request(map[string]string{}, nil)
		if err != nil && err != io.EOF { // what Handler.ServeHTTP answers 502 for
			return
		}
		body, err := io.ReadAll(resp.Body)
		if err != nil {
			return
		}
		o.code, o.hdr, o.body = resp.StatusCode, resp.Header, body
	}()
	o.stderr = fastcgi.VerifStderr(cl)
	return
}

func c13HeadObsTerm(o c13HeadObs) string {
	return "(" + cN(uint64(o.code)) + ", " + c13HdrTerm(o.hdr) + ", " + c13BytesTerm(o.body) + ", " + c13BytesTerm(o.stderr) + ")"
}

func c13RunHead(in *c13In) Result {
	a := c13HeadOnce(in.Recs, in.Chunks)
	b := c13HeadOnce(in.Recs2, in.Chunks2)
	conf := "None"
	if in.Conf {
		fl := make([]string, len(in.Fields))
		for i, f := range in.Fields {
			fl[i] = cPair(cStr(f[0]), cStr(f[1]))
		}
		conf = "(Some (" + cStr(in.Eol) + ", " + cList(fl) + ", " + c13Term(in.RBody) + "))"
	}
	sig := "head:raw"
	if in.Conf {
		sig = "head:conforming"
	}
	direct := a.direct
	if direct == "" {
		direct = b.direct
	}
	cls := "ok"
	if a.code == 0 {
		cls = "refused"
	}
	return Result{
		Term: cApp("CHead", c13RecsTerm(in.Recs), c13RecsTerm(in.Recs2), conf, c13HeadObsTerm(a), c13HeadObsTerm(b)),
		Obs:  map[string]interface{}{"codeA": a.code, "codeB": b.code, "hdrA": a.hdr, "hdrB": b.hdr, "bodyA": len(a.body), "bodyB": len(b.body), "stderrA": len(a.stderr), "stderrB": len(b.stderr)},
		Sig:  sig, Direct: direct, Nontrivial: !bytes.Equal(c13RecsBytes(in.Recs), c13RecsBytes(in.Recs2)), Class: sig + ":" + cls,
	}
}

func c13RecsBytes(recs []c13Rec) []byte {
	var w []byte
	for _, r := range recs {
		w = append(w, c13EncRec(r)...)
	}
	return w
}

var c13HeadNames = []string{"Content-Type", "content-type", "CONTENT-TYPE", "X-a", "x-A", "x-powered-by", "Set-Cookie", "set-cookie",
	"Location", "location", "Status", "status", "STATUS", "X-Accel-Redirect", "etag", "a", "x_y.z", "X-1-b-C", "Content-Length"}
var c13HeadValues = []string{"text/html; charset=utf-8", "1", "a=b; Path=/", "c=d", "/elsewhere", "http://example.com/x?y=1", "v", "x  y", "caf\xc3\xa9", "a:b:c", "w/\"abc\"", "0"}
var c13HeadStatus = []string{"200", "404 Not Found", "302 Found", "500", "100", "999 x", "204 No Content", "301"}
var c13HeadBadStatus = []string{"+201", "-1", "99", "1000", "abc", "2x0", "", "200OK", "20 0", "99999999999999999999", "+", "0200"}

// c13HeadEnd: an END_REQUEST record with any appStatus / protocolStatus / padding (and odd content lengths)
func c13HeadEnd(r *Rand) c13Rec {
	if r.Chance(30) {
		return c13EndRec
	}
	c := []byte{byte(r.Intn(256)), byte(r.Intn(256)), byte(r.Intn(256)), byte(r.Intn(256)), byte(r.Intn(4)), 0, 0, 0}
	if r.Chance(15) {
		c = c[:r.Intn(8)]
	}
	return c13Rec{Ty: 3, C: c13Compress(c), Pad: []int{0, 0, 3, 7, 8, 255}[r.Intn(6)]}
}

// c13HeadFrame: a framing of out with stderr anywhere, empty stdout records in mid-stream (fewer than
// bufio's budget), an END_REQUEST record and possibly junk behind it
func c13HeadFrame(r *Rand, out []byte, mode int) []c13Rec {
	var recs []c13Rec
	switch mode {
	case 0: // one record (two when it does not fit)
		for d := out; len(d) > 0; {
			n := len(d)
			if n > 65535 {
				n = 65535
			}
			recs = append(recs, c13Rec{Ty: 6, C: c13Compress(d[:n])})
			d = d[n:]
		}
		recs = append(recs, c13Rec{Ty: 6})
	case 1: // byte by byte around the head, stderr between any two bytes
		n := len(out)
		if n > 160 {
			n = 160
		}
		for i := 0; i < n; i++ {
			if r.Chance(20) {
				recs = append(recs, c13Rec{Ty: 7, C: c13Compress([]byte{byte('a' + i%26)}), Pad: r.Intn(9)})
			}
			recs = append(recs, c13Rec{Ty: 6, C: c13Compress(out[i : i+1]), Pad: r.Intn(9)})
		}
		if n < len(out) {
			recs = append(recs, c13Frame(r, out[n:], c13Stderr(r), false)...)
		}
	default:
		recs = c13Frame(r, out, c13Stderr(r), r.Chance(10))
	}
	// empty output records in mid-stream
	for k := r.Intn(4); k > 0 && mode != 0; k-- {
		at := r.Intn(len(recs) + 1)
		recs = append(recs[:at], append([]c13Rec{{Ty: 6, Pad: r.Intn(3) * 4}}, recs[at:]...)...)
	}
	recs = append(recs, c13HeadEnd(r))
	if r.Chance(25) { // whatever follows END_REQUEST is not the response's
		recs = append(recs, c13Rec{Ty: []int{6, 7, 6, 3}[r.Intn(4)], C: c13Compress([]byte("Status: 500\r\nX-After-End: 1\r\n\r\nafter the end"))})
	}
	return recs
}

func c13HeadChunks(r *Rand) []int {
	if r.Chance(30) {
		return nil
	}
	n := r.Range(1, 60)
	out := make([]int, n)
	for i := range out {
		out[i] = []int{1, 2, 3, 7, 8, 9, 16, 100, 4096}[r.Intn(9)]
	}
	return out
}

func c13HeadBody(r *Rand) []byte {
	switch r.Intn(6) {
	case 0:
		return nil
	case 1:
		return []byte("X-Not-A-Header: 1\r\n\r\nbody with a blank line\n\n \tend")
	case 2:
		return c13Pat(r.Intn(251), r.Range(1, 4000))
	case 3:
		return []byte("\r\n")
	}
	return []byte(strings.Repeat("<p>hello</p>\n", r.Range(1, 20)))
}

func c13GenHead(r *Rand, i int) *c13In {
	in := &c13In{Kind: "head"}
	var out []byte
	if i%2 == 0 {
		// conforming: Name: value lines, one line end throughout
		in.Conf = true
		in.Eol = []string{"\r\n", "\n"}[r.Intn(2)]
		n := r.Intn(7)
		for k := 0; k < n; k++ {
			name := r.Pick(c13HeadNames)
			v := r.Pick(c13HeadValues)
			if strings.EqualFold(name, "Status") {
				v = r.Pick(c13HeadStatus)
				if r.Chance(12) {
					v = []string{"99", "1000", "abc", "2x0"}[r.Intn(4)]
				}
			}
			if strings.EqualFold(name, "Content-Length") {
				v = "0"
			}
			in.Fields = append(in.Fields, [2]string{name, v})
		}
		if r.Chance(20) { // Location without Status
			in.Fields = append(in.Fields, [2]string{"Location", "/moved/here"})
		}
		if r.Chance(5) { // a line longer than bufio's 4096-byte buffer
			in.Fields = append(in.Fields, [2]string{"X-Long", strings.Repeat("v", r.Range(4090, 6000))})
		}
		body := c13HeadBody(r)
		in.RBody = c13Compress(body)
		for _, f := range in.Fields {
			out = append(out, f[0]+": "+f[1]+in.Eol...)
		}
		out = append(out, in.Eol...)
		out = append(out, body...)
	} else {
		// raw: lines assembled from fragments, every line end of its own
		eols := []string{"\r\n", "\n", "\r\n", "\n", "\r\r\n", "\r"}
		eol := func() string {
			if r.Chance(90) {
				return eols[r.Intn(4)]
			}
			return eols[r.Intn(len(eols))]
		}
		if r.Chance(6) {
			out = append(out, " \t"[r.Intn(2)])
		}
		n := r.Intn(7)
		for k := 0; k < n; k++ {
			name := r.Pick(c13HeadNames)
			v := r.Pick(c13HeadValues)
			if strings.EqualFold(name, "Status") {
				if r.Chance(50) {
					v = r.Pick(c13HeadStatus)
				} else {
					v = r.Pick(c13HeadBadStatus)
				}
			}
			sep := []string{": ", ":", ":  \t", " : ", ":\t"}[r.Intn(5)]
			switch r.Intn(24) {
			case 0:
				out = append(out, name+" "+v...) // no colon
			case 1:
				out = append(out, ": "+v...) // empty key
			case 2:
				out = append(out, "X y"+sep+v...) // space inside the key
			case 3:
				out = append(out, "X(y)"+sep+v...) // not a token
			case 4:
				out = append(out, name+sep+v+"\x01"...) // control byte in the value
			case 5:
				out = append(out, name+sep+v+" \t "...) // trailing whitespace
			case 6:
				out = append(out, name+sep+"a\rb"...) // bare CR inside
			case 7:
				out = append(out, "caf\xc3\xa9"+sep+v...) // non-ASCII key
			default:
				out = append(out, name+sep+v...)
			}
			out = append(out, eol()...)
			for r.Chance(25) { // continuation lines
				out = append(out, []string{" ", "\t", "   ", " \t "}[r.Intn(4)]...)
				out = append(out, []string{"more", "", "and: more ", "x\ty", "  "}[r.Intn(5)]...)
				out = append(out, eol()...)
			}
		}
		// the block is always terminated by an empty line (an unterminated block makes bufio read the
		// connection again after io.EOF, i.e. END_REQUEST's body as a record header: outside the model)
		out = append(out, eol()...)
		out = append(out, c13HeadBody(r)...)
	}
	in.Recs = c13HeadFrame(r, out, 2)
	in.Chunks = c13HeadChunks(r)
	in.Recs2 = c13HeadFrame(r, out, r.Intn(3))
	in.Chunks2 = c13HeadChunks(r)
	return in
}
