package main

// C05 — two kinds of cases in which SEVERAL requests meet in one process.
//
// "retryconc": the clause "every attempt receives the complete original body" judged on BYTES while
// other traffic goes through the same proxy between a failed attempt and its retry. The schedule
// machinery of harness/c04_conc.go is reused (child process with GOMAXPROCS / GC pinned, one Proxy
// with 2-3 hosts, try_duration and fail_timeout > 0): requests with unique body patterns whose first
// attempts fail AFTER the backend read the body (the transport then closes the body, as every
// http.RoundTripper must, after EVERY attempt); before the retry loop wakes up again (try_interval)
//   - other requests that were answered relay their responses through pooledIoCopy (pooled 32 KiB buffers),
//   - LATE requests start: their bodies are buffered by newBufferedBody while the failed ones sleep,
//   - the failed requests of the same phase retry, are answered and relay their responses.
// Every attempt's body is observed (length, first offset differing from the request's own pattern,
// first and last 48 bytes verbatim) and judged in Coq against the pattern of THAT request.
//
// "rrblocks": 2-4 proxy blocks with `policy round_robin` (1-4 hosts each, some unavailable) parsed
// from ONE text by the real directive parser and served alternately through Proxy.ServeHTTP following
// a schedule (strict alternation, runs, random interleavings). Fairness is judged PER BLOCK on the
// block's own requests: never an unavailable host, a host whenever one is available, visit counts of
// the available hosts differ by at most one.

import (
	"fmt"
	"io"
	"net/http"
	"net/http/httptest"
	"strings"
	"time"

	"github.com/tmpim/casket/caskethttp/proxy"
)

func c05BObsTerm(o c04BObs) string {
	d := "None"
	if o.Diff >= 0 {
		d = "(Some " + cN(uint64(o.Diff)) + ")"
	}
	return cApp("mk_bobs", cN(uint64(o.Len)), d, cBytes(o.Head), cBytes(o.Tail))
}

func c05RunRetryConc(in *c05In) Result {
	c := in.Conc
	if c == nil || len(c.Reqs) == 0 {
		return c05SkipT("bad input", "retryconc:bad-input")
	}
	mode := "scripted"
	if c.Wire {
		mode = "wire"
	}
	var o c04ConcOut
	var fail string
	for try := 0; try < 3; try++ {
		o, fail = c04ConcChild(c)
		if fail == "" && o.Stuck == "" && o.Setup == "" {
			break
		}
		time.Sleep(100 * time.Millisecond)
	}
	if fail != "" || o.Setup != "" {
		r := c05SkipT(fail+o.Setup, "retryconc:setup-error")
		r.Direct = "concurrent schedule could not be run: " + fail + o.Setup
		return r
	}
	var it []string
	nt, late := false, false
	for i, q := range c.Reqs {
		var ob c04CObs
		if i < len(o.Reqs) {
			ob = o.Reqs[i]
		}
		var at []string
		for _, a := range ob.Attempts {
			at = append(at, cApp("mk_rcatt", cNat(a.Target), c05BObsTerm(a.Body)))
		}
		it = append(it, cPair(cApp("mk_rcreq", cN(uint64(q.Salt)), cN(uint64(q.Len)), cNat(q.Fails)),
			cApp("mk_rcobs", cList(at), cN(uint64(ob.Status)), cN(c04RetN(ob.Ret)))))
		if q.Fails > 0 && q.Len > 0 {
			nt = true
		}
		if q.Late > 0 {
			late = true
		}
	}
	direct := ""
	if o.Stuck != "" {
		direct = "concurrent schedule did not complete (3 tries): " + o.Stuck
	}
	return Result{Term: cApp("CRetryConc", cNat(c.Hosts), cList(it)), Obs: o, Sig: "retryconc:" + mode, Direct: direct,
		Nontrivial: nt && len(c.Reqs) >= 2, Class: fmt.Sprintf("retryconc:%s:procs=%d:late=%v", mode, c.Procs, late)}
}

var c05ConcLens = []int{1, 2, 47, 48, 49, 96, 97, 100, 512, 2000, 4096, 16384, 32255, 32256, 32257, 32768, 40000}

func c05GenRetryConc(r *Rand, i int) *c05In {
	c := &c04Conc{Hosts: r.Range(2, 3), Procs: []int{1, 1, 1, 2, 0}[i%5], Wire: i%4 == 3, Flush: r.Chance(20), GC: r.Chance(15),
		Block: "  fail_timeout 10s\n  max_fails 100000\n", TryD: "10s"}
	salts := r.Perm(250)
	s := 0
	next := func() int { s++; return salts[s-1] + 1 }
	add := func(fails, late int) {
		q := c04CReq{Salt: next(), RSalt: next(), Len: c04PickInt(r, c05ConcLens), RLen: c04PickInt(r, c04ConcRLens), Chunked: r.Chance(35), Fails: fails, Late: late}
		if r.Chance(20) {
			q.Len = r.Range(1, 33000)
		}
		if q.Chunked {
			q.ChunkSz = c04PickInt(r, []int{0, 1000, 4096, 32768})
		}
		q.RSeg = c04PickInt(r, []int{0, 0, 1000, 32768, 4096})
		if late > 0 {
			q.Yield = r.Pick2(0, 1, 2, 3, 5)
		}
		c.Reqs = append(c.Reqs, q)
	}
	// requests whose first attempt(s) fail
	for k := r.Range(1, 4); k > 0; k-- {
		add(r.Pick2(1, 1, 1, 2), 0)
	}
	// requests answered at once (their responses are relayed while the others are held)
	for k := r.Range(0, 3); k > 0; k-- {
		add(0, 0)
	}
	// late requests: they start (and buffer their bodies) right after the failures of phase `late`
	for k := r.Range(1, 4); k > 0; k-- {
		add(r.Pick2(0, 0, 1), r.Pick2(1, 1, 2))
	}
	p := r.Perm(len(c.Reqs))
	reqs := make([]c04CReq, len(c.Reqs))
	for a, b := range p {
		reqs[a] = c.Reqs[b]
	}
	c.Reqs = reqs
	return &c05In{Kind: "retryconc", Policy: "round_robin", Conc: c}
}

// ---- rrblocks ----
type c05RRB struct {
	Avs   [][]bool `json:"avs"`   // per block: per host, available?
	Sched []int    `json:"sched"` // which block receives the next request
}

func c05RunRRBlocks(in *c05In) Result {
	b := in.RRB
	if b == nil || len(b.Avs) == 0 {
		return c05SkipT("bad input", "rrblocks:bad-input")
	}
	var sb strings.Builder
	for i, av := range b.Avs {
		if len(av) == 0 {
			return c05SkipT("bad input", "rrblocks:bad-input")
		}
		var names []string
		for j := range av {
			names = append(names, fmt.Sprintf("http://127.0.0.1:%d", 10000+100*i+j))
		}
		fmt.Fprintf(&sb, "proxy /b%d %s {\n policy round_robin\n}\n", i, strings.Join(names, " "))
	}
	ups, err := c04Upstreams(sb.String())
	if err != nil || len(ups) != len(b.Avs) {
		r := c05SkipT(fmt.Sprint("setup error ", err), "rrblocks:setup-error")
		r.Direct = fmt.Sprint("proxy blocks rejected: ", err)
		return r
	}
	got := -1
	rt := roundTripFunc(func(r *http.Request) (*http.Response, error) {
		var port int
		fmt.Sscanf(r.URL.Host, "127.0.0.1:%d", &port)
		got = port - 10000
		return &http.Response{StatusCode: 204, Header: http.Header{}, Body: io.NopCloser(strings.NewReader("")), Request: r}, nil
	})
	for i, u := range ups {
		defer u.Stop()
		hosts := hostsOf(u)
		if len(hosts) != len(b.Avs[i]) {
			return c05SkipT("host count", "rrblocks:setup-error")
		}
		for j, h := range hosts {
			h.ReverseProxy.Transport = rt
			if !b.Avs[i][j] {
				h.Unhealthy = 1
			}
		}
	}
	p := proxy.Proxy{Next: handlerFunc(func(w http.ResponseWriter, r *http.Request) (int, error) { return 404, nil }), Upstreams: ups}
	var obs []int
	var terms []string
	direct := ""
	for _, blk := range b.Sched {
		if blk < 0 || blk >= len(b.Avs) {
			return c05SkipT("bad input", "rrblocks:bad-input")
		}
		got = -1
		req := httptest.NewRequest("GET", fmt.Sprintf("http://example.test/b%d/x", blk), nil)
		req.RemoteAddr = "192.0.2.7:4711"
		status, _ := p.ServeHTTP(httptest.NewRecorder(), req)
		idx := -1
		if got >= 0 {
			if got/100 != blk {
				direct = fmt.Sprintf("request for block %d was forwarded to a host of block %d", blk, got/100)
			}
			idx = got % 100
		} else if status != http.StatusBadGateway {
			direct = fmt.Sprintf("no host was used and the status is %d", status)
		}
		obs = append(obs, idx)
		terms = append(terms, cOptNat(idx))
	}
	var avs []string
	twoPlus := 0
	for _, av := range b.Avs {
		it := make([]string, len(av))
		up := 0
		for i, x := range av {
			it[i] = cBool(x)
			if x {
				up++
			}
		}
		if up >= 2 {
			twoPlus++
		}
		avs = append(avs, cList(it))
	}
	return Result{Term: cApp("CRRBlocks", cList(avs), cNatList(b.Sched), cList(terms)), Obs: obs, Sig: "rrblocks", Direct: direct,
		Nontrivial: twoPlus >= 2 && len(b.Sched) >= 4, Class: fmt.Sprintf("rrblocks:blocks=%d", len(b.Avs))}
}

func c05GenRRBlocks(r *Rand, i int) *c05In {
	nb := r.Range(2, 4)
	b := &c05RRB{}
	for k := 0; k < nb; k++ {
		n := r.Pick2(2, 2, 3, 3, 4, 1)
		av := make([]bool, n)
		for j := range av {
			av[j] = !r.Chance(15)
		}
		if i%3 != 2 {
			for j := range av {
				av[j] = true
			}
		}
		b.Avs = append(b.Avs, av)
	}
	m := r.Range(8, 40)
	switch i % 4 {
	case 0: // strict alternation over all blocks
		for k := 0; k < m; k++ {
			b.Sched = append(b.Sched, k%nb)
		}
	case 1: // "page then API": two blocks alternate, the others are idle
		x, y := r.Intn(nb), r.Intn(nb)
		for k := 0; k < m; k++ {
			b.Sched = append(b.Sched, []int{x, y}[k%2])
		}
	case 2: // runs
		for len(b.Sched) < m {
			blk := r.Intn(nb)
			for k := r.Range(1, 5); k > 0; k-- {
				b.Sched = append(b.Sched, blk)
			}
		}
	default:
		for k := 0; k < m; k++ {
			b.Sched = append(b.Sched, r.Intn(nb))
		}
	}
	return &c05In{Kind: "rrblocks", Policy: "round_robin", RRB: b}
}
