package main

// C07 — reloading the configuration never drops or misroutes a request.
//
// Every case is a real lineage: casket.Start + N x Instance.Restart in-process on loopback
// (listen addresses 127.0.0.{1,2,3}:0, 1-2 virtual hosts each), under concurrent clients that
// send every request on a fresh TCP connection.  Each configuration answers with its own marker
// (the real `header` directive + a probe directive registered through the public
// RegisterDevDirective/RegisterPlugin API); configurations are valid or fail at parse, directive
// setup, startup-callback or listen time.  The observed history (reload calls/returns, request
// starts/ends with marker / site / completeness / transport error, listening-socket inodes from
// /proc/self/net/tcp) is ordered by the monotonic clock (request start stamped before the
// connect, request end after the last byte, reload call before the call, return after it) and
// handed to Coq, where the model must accept it (C07_Model.accepts) and the executable spec
// must hold on it (C07_Model.spec_trace).
//
// Drain timeouts: the process log is read in every mode; a `[ERROR] Stopping <addr>: context
// deadline exceeded` line written by Instance.Stop of the instance being replaced becomes an
// EDrain event of the history (the model's LStopTimeout step).  Lineages with `hold` reloads keep
// a half-sent request open on the old instance across the call (GracefulTimeout 3-20 ms): the
// reload must succeed all the same, the held request is completed afterwards.

import (
	"bufio"
	"bytes"
	"encoding/binary"
	"encoding/json"
	"errors"
	"fmt"
	"io"
	"log"
	"net"
	"net/http"
	"os"
	"sort"
	"strconv"
	"strings"
	"sync"
	"sync/atomic"
	"syscall"
	"time"

	"github.com/tmpim/casket"
	"github.com/tmpim/casket/caskethttp/httpserver"
)

type c07Reload struct {
	Slots []int  `json:"slots"`          // listen-address slots (127.0.0.(1+slot)) served by the configuration
	Kind  string `json:"kind"`           // ok | parse | setup | startup | listen
	Var   int    `json:"var,omitempty"`  // which concrete way of failing / which block carries the failure
	GapUs int    `json:"gap_us"`         // pause before the call
	ShutErr bool `json:"shut_err,omitempty"` // valid configuration whose OnShutdown callback returns an error
	Hold    bool `json:"hold,omitempty"`     // a half-sent request is held open on the old instance across the call (drain timeout)
	Span    int  `json:"span,omitempty"`     // ... and across that many further reload calls before it is completed (slow request in flight across several reloads)
}

type c07In struct {
	Mode     string      `json:"mode"` // load (concurrent clients) | sync (requests strictly between reloads)
	Seed     uint64      `json:"seed"`
	Slots0   []int       `json:"slots0"`
	Sites    int         `json:"sites"`    // virtual hosts per listen address
	Clients  int         `json:"clients"`  // load mode
	PerPhase int         `json:"per_phase"` // sync mode: requests between two reloads
	DelayMs  int         `json:"delay_ms"` // handler think time (requests in flight during Stop)
	BodyLen  int         `json:"body_len"`
	Chunked  bool        `json:"chunked"`
	GraceMs  int         `json:"grace_ms"` // httpserver.GracefulTimeout for the lineage
	MaxReq   int         `json:"max_req"`
	ShutErr0 bool        `json:"shut_err0,omitempty"` // the first configuration's OnShutdown callback returns an error
	Signal   bool        `json:"signal,omitempty"` // reload by SIGUSR1 to the own process instead of calling Restart
	Reloads  []c07Reload `json:"reloads"`
	retries  int
}

const c07BlockedAddr = 99 // model address of the foreign-held listen address

// ---------------------------------------------------------------------------------------------
// probe directive

var c07Registered bool

type c07Probe struct {
	cfg, slot, site int
	delay           time.Duration
	bodyLen         int
	chunked         bool
}

func c07Body(cfg, slot, site, n int) []byte {
	var b bytes.Buffer
	fmt.Fprintf(&b, "c07 cfg=%d slot=%d site=%d\n", cfg, slot, site)
	x := uint32(cfg*7919 + slot*104729 + site*1299709 + 17)
	for b.Len() < n {
		x = x*1664525 + 1013904223
		b.WriteByte("abcdefghijklmnopqrstuvwxyz012345"[x>>27])
	}
	return b.Bytes()
}

func (p c07Probe) ServeHTTP(w http.ResponseWriter, r *http.Request) (int, error) {
	if p.delay > 0 {
		time.Sleep(p.delay)
	}
	body := c07Body(p.cfg, p.slot, p.site, p.bodyLen)
	w.Header().Set("X-C07", fmt.Sprintf("%d %d %d %d", p.cfg, p.slot, p.site, len(body)))
	if p.chunked {
		w.WriteHeader(200)
		third := len(body) / 3
		w.Write(body[:third])
		if f, ok := w.(http.Flusher); ok {
			f.Flush()
		}
		if p.delay > 0 {
			time.Sleep(p.delay / 2)
		}
		w.Write(body[third : 2*third])
		if f, ok := w.(http.Flusher); ok {
			f.Flush()
		}
		w.Write(body[2*third:])
		return 0, nil
	}
	w.Header().Set("Content-Length", strconv.Itoa(len(body)))
	w.WriteHeader(200)
	w.Write(body)
	return 0, nil
}

func c07Register() {
	if c07Registered {
		return
	}
	c07Registered = true
	httpserver.RegisterDevDirective("c07probe", "")
	casket.RegisterPlugin("c07probe", casket.Plugin{ServerType: "http", Action: func(c *casket.Controller) error {
		var args []string
		for c.Next() {
			args = append(args, c.RemainingArgs()...)
		}
		if len(args) < 6 {
			return c.Err("c07probe: expected cfg slot site delay_ms body_len chunked [failsetup|failstartup]")
		}
		n := make([]int, 6)
		for i := 0; i < 6; i++ {
			v, err := strconv.Atoi(args[i])
			if err != nil {
				return c.Err("c07probe: bad number " + args[i])
			}
			n[i] = v
		}
		for _, a := range args[6:] {
			switch a {
			case "failsetup":
				return c.Err("c07probe: setup failure requested")
			case "failstartup":
				c.OnStartup(func() error { return errors.New("c07probe: startup callback failure requested") })
			case "failshutdown":
				c.OnShutdown(func() error { return errors.New("c07probe: shutdown callback failure requested") })
			case "hook0", "hook1":
				// an event hook of this configuration (what the `on` directive does): name 2*cfg+i
				name := 2*n[0] + int(a[4]-'0')
				casket.RegisterEventHook(fmt.Sprintf("c07hook-%d", name), func(ev casket.EventName, info interface{}) error {
					if cen, ok := info.(*c07Census); ok && ev == c07CensusEvent {
						cen.mu.Lock()
						cen.names = append(cen.names, name)
						cen.mu.Unlock()
					}
					return nil
				})
			}
		}
		p := c07Probe{cfg: n[0], slot: n[1], site: n[2], delay: time.Duration(n[3]) * time.Millisecond, bodyLen: n[4], chunked: n[5] != 0}
		httpserver.GetConfig(c).AddMiddleware(func(next httpserver.Handler) httpserver.Handler { return p })
		return nil
	}})
}

// census of the registered event hooks: every hook of a probe answers the census event with its name
const c07CensusEvent = casket.EventName("c07census")

type c07Census struct {
	mu    sync.Mutex
	names []int
}

func c07TakeCensus() []int {
	cen := &c07Census{}
	casket.EmitEvent(c07CensusEvent, cen)
	sort.Ints(cen.names)
	if cen.names == nil {
		return []int{}
	}
	return cen.names
}

// hook names the configuration of generation n registers (first block: 2n, last block, when there
// is more than one: 2n+1)
func c07HookNames(in *c07In, n int, slots []int) []int {
	nb := len(slots) * in.Sites
	switch {
	case nb == 0:
		return []int{}
	case nb == 1:
		return []int{2 * n}
	}
	return []int{2 * n, 2*n + 1}
}

// hooks are part of the lineage only when it has the process for itself (child process)
var c07HooksOn = os.Getenv("C07_INPROC") == ""

// ---------------------------------------------------------------------------------------------
// configuration text

func c07Host(slot, site int) string { return fmt.Sprintf("a%ds%d.c07", slot, site) }
func c07IP(slot int) string         { return fmt.Sprintf("127.0.0.%d", 1+slot) }

func c07Config(in *c07In, n int, slots []int, kind string, variant int, blockedPort int) string {
	shutErr := (n == 0 && in.ShutErr0) || (n > 0 && n <= len(in.Reloads) && in.Reloads[n-1].ShutErr)
	var sb strings.Builder
	nblocks := len(slots) * in.Sites
	failAt := 0
	if nblocks > 0 {
		failAt = (variant / 4) % nblocks
	}
	bi := 0
	ch := 0
	if in.Chunked {
		ch = 1
	}
	for _, sl := range slots {
		for j := 0; j < in.Sites; j++ {
			fmt.Fprintf(&sb, "http://%s:0 {\n  bind %s\n  header / X-Cfg %d\n", c07Host(sl, j), c07IP(sl), n)
			extra := ""
			if bi == failAt {
				switch kind {
				case "setup":
					switch variant % 4 {
					case 0:
						extra = " failsetup"
					case 1:
						sb.WriteString("  status notanumber /x\n")
					case 2:
						sb.WriteString("  timeouts 5parsecs\n")
					default:
						sb.WriteString("  redir /a /b 9999\n")
					}
				case "startup":
					switch variant % 4 {
					case 0, 2:
						extra = " failstartup"
					case 1:
						sb.WriteString("  log /proc/c07-no-such-dir/access.log\n")
					default:
						sb.WriteString("  log / /proc/c07-no-such-dir/other.log \"{common}\"\n")
					}
				case "parse":
					switch variant % 4 {
					case 0:
						sb.WriteString("  c07nosuchdirective 1\n")
					case 1:
						sb.WriteString("  header / X-Y \"unterminated\n")
					case 2:
						sb.WriteString("  import /nonexistent/c07-missing-file\n")
					}
				}
			}
			if shutErr && bi == 0 {
				extra += " failshutdown"
			}
			if c07HooksOn && bi == 0 {
				extra += " hook0"
			} else if c07HooksOn && bi == nblocks-1 {
				extra += " hook1"
			}
			fmt.Fprintf(&sb, "  c07probe %d %d %d %d %d %d%s\n", n, sl, j, in.DelayMs, in.BodyLen, ch, extra)
			sb.WriteString("}\n")
			if kind == "parse" && bi == failAt && variant%4 == 3 {
				sb.WriteString("}\n")
			}
			bi++
		}
	}
	if kind == "listen" {
		fmt.Fprintf(&sb, "http://blocked.c07:%d {\n  bind 127.0.0.9\n  header / X-Cfg %d\n  c07probe %d 9 0 0 10 0\n}\n", blockedPort, n, n)
	}
	if nblocks == 0 && kind != "listen" {
		sb.WriteString("\n")
	}
	return sb.String()
}

// ---------------------------------------------------------------------------------------------
// observation

type c07Event struct {
	ts   int64
	prio int
	term string
	desc string
}

type c07Req struct {
	K          int    `json:"k"`
	Addr       int    `json:"addr"`
	Site       int    `json:"site"`
	StartNs    int64  `json:"start_ns"`
	EndNs      int64  `json:"end_ns"`
	Err        string `json:"err,omitempty"`
	Marker     int    `json:"marker"`
	SiteSeen   int    `json:"site_seen"`
	Complete   bool   `json:"complete"`
	Status     int    `json:"status,omitempty"`
	GivenUp    bool   `json:"given_up_addr,omitempty"` // sent on purpose to an address the configuration no longer serves
}

type c07Target struct {
	slot, site, maddr, port int
}

// listening socket bound to 127.0.0.(1+slot):port -> inode (0 = none).  Asked from the kernel's
// socket table through NETLINK_SOCK_DIAG restricted to LISTEN sockets (reading /proc/net/tcp
// costs > 100 ms once the namespace holds thousands of TIME_WAIT sockets); /proc/self/net/tcp is
// the fallback when netlink is not available.
func c07ListenInode(slot, port int) uint64 {
	if ino, ok := c07DiagListenInode(slot, port); ok {
		return ino
	}
	b, err := os.ReadFile("/proc/self/net/tcp")
	if err != nil {
		return 0
	}
	want := fmt.Sprintf("%02X00007F:%04X", 1+slot, port)
	for _, line := range strings.Split(string(b), "\n") {
		f := strings.Fields(line)
		if len(f) < 10 || f[1] != want || f[3] != "0A" {
			continue
		}
		ino, _ := strconv.ParseUint(f[9], 10, 64)
		return ino
	}
	return 0
}

func c07DiagListenInode(slot, port int) (uint64, bool) {
	fd, err := syscall.Socket(syscall.AF_NETLINK, syscall.SOCK_DGRAM|syscall.SOCK_CLOEXEC, 4 /* NETLINK_SOCK_DIAG */)
	if err != nil {
		return 0, false
	}
	defer syscall.Close(fd)
	if err := syscall.Bind(fd, &syscall.SockaddrNetlink{Family: syscall.AF_NETLINK}); err != nil {
		return 0, false
	}
	req := make([]byte, 16+56)
	binary.LittleEndian.PutUint32(req[0:], uint32(len(req)))
	binary.LittleEndian.PutUint16(req[4:], 20) // SOCK_DIAG_BY_FAMILY
	binary.LittleEndian.PutUint16(req[6:], syscall.NLM_F_REQUEST|syscall.NLM_F_DUMP)
	binary.LittleEndian.PutUint32(req[8:], 1)
	req[16] = syscall.AF_INET
	req[17] = syscall.IPPROTO_TCP
	binary.LittleEndian.PutUint32(req[20:], 1<<10) // TCP_LISTEN
	if err := syscall.Sendto(fd, req, 0, &syscall.SockaddrNetlink{Family: syscall.AF_NETLINK}); err != nil {
		return 0, false
	}
	syscall.SetsockoptTimeval(fd, syscall.SOL_SOCKET, syscall.SO_RCVTIMEO, &syscall.Timeval{Sec: 2})
	buf := make([]byte, 1<<16)
	var found uint64
	for {
		n, _, err := syscall.Recvfrom(fd, buf, 0)
		if err != nil || n < 16 {
			return 0, false
		}
		b := buf[:n]
		for len(b) >= 16 {
			ml := int(binary.LittleEndian.Uint32(b[0:]))
			mt := binary.LittleEndian.Uint16(b[4:])
			if ml < 16 || ml > len(b) {
				return 0, false
			}
			if mt == syscall.NLMSG_DONE {
				return found, true
			}
			if mt == syscall.NLMSG_ERROR {
				return 0, false
			}
			m := b[16:ml]
			if len(m) >= 72 && m[0] == syscall.AF_INET && m[1] == 10 {
				sport := int(binary.BigEndian.Uint16(m[4:]))
				src := m[8:12]
				if sport == port && src[0] == 127 && src[1] == 0 && src[2] == 0 && int(src[3]) == 1+slot {
					found = uint64(binary.LittleEndian.Uint32(m[68:]))
				}
			}
			b = b[(ml+3)&^3:]
		}
	}
}

func c07DoRequest(ip string, port int, host string, k int) (status int, hdr string, xcfg string, body []byte, err error) {
	conn, err := net.DialTimeout("tcp", ip+":"+strconv.Itoa(port), 3*time.Second)
	if err != nil {
		return 0, "", "", nil, err
	}
	defer conn.Close()
	conn.SetDeadline(time.Now().Add(5 * time.Second))
	req := fmt.Sprintf("GET /r%d HTTP/1.1\r\nHost: %s\r\nConnection: close\r\n\r\n", k, host)
	if _, err = conn.Write([]byte(req)); err != nil {
		return 0, "", "", nil, err
	}
	resp, err := http.ReadResponse(bufio.NewReader(conn), &http.Request{Method: "GET"})
	if err != nil {
		return 0, "", "", nil, err
	}
	defer resp.Body.Close()
	b, err := io.ReadAll(resp.Body)
	return resp.StatusCode, resp.Header.Get("X-C07"), resp.Header.Get("X-Cfg"), b, err
}

func c07ErrClass(err error) string {
	s := err.Error()
	switch {
	case strings.Contains(s, "refused"):
		return "refused"
	case strings.Contains(s, "reset"):
		return "reset"
	case strings.Contains(s, "timeout"):
		return "timeout"
	case strings.Contains(s, "EOF"):
		return "eof"
	}
	return "other"
}

type c07Obs struct {
	A0       []int    `json:"a0"`
	Rets     []string `json:"rets"`
	Requests int      `json:"requests"`
	Overlap  int      `json:"overlapping"`
	Errors   []c07Req `json:"errors,omitempty"`
	Odd      []c07Req `json:"odd,omitempty"`
	Events   []string `json:"events,omitempty"`
	Note     string   `json:"note,omitempty"`
	StallMs  int64    `json:"longest_scheduler_stall_ms,omitempty"`
	Drains   int      `json:"drain_timeouts,omitempty"`
	Spanning int      `json:"held_across_several_reloads,omitempty"`
	Hooks    []string `json:"hook_census,omitempty"` // names of the event hooks registered after each reload
	WaitEarly bool    `json:"wait_returned_early,omitempty"`
	WaitStuck bool    `json:"wait_stuck_after_stop,omitempty"`
	Invalid   bool    `json:"harness_invalid,omitempty"`
	Suspects  []string `json:"suspect_requests,omitempty"` // reporting aid only (the verdict is Coq's)
}

type c07Lineage struct {
	in       *c07In
	t0       time.Time
	mu       sync.Mutex
	events   []c07Event
	reqs     []c07Req
	nreq     int64
	targets  atomic.Value // []c07Target
	slotAddr map[int]int  // slot -> model address (currently bound)
	slotPort map[int]int
	slotIno  map[int]uint64
	slotGen  map[int]int
	nextAddr int
	timeouts int64        // requests that ended in a client timeout: the lineage is cut short after 2
	allowed  map[int]bool // slots clients may target (guarded by mu)
	inflight [4]int64     // requests in flight per slot
}

// drain timeouts logged by Instance.Stop of the instance being replaced ("[ERROR] Stopping
// <listen address>: context deadline exceeded"), per listen-address slot, while a reload call is
// in progress (the process log is read in every mode; see c07LogWriter)
var (
	c07DrainMu   sync.Mutex
	c07DrainOn   bool
	c07Drained   map[int]bool
	c07StopErrs  []string // other errors logged by Instance.Stop during the call
)

func c07DrainBegin() {
	c07DrainMu.Lock()
	c07DrainOn, c07Drained, c07StopErrs = true, map[int]bool{}, nil
	c07DrainMu.Unlock()
}
func c07DrainEnd() (map[int]bool, []string) {
	c07DrainMu.Lock()
	defer c07DrainMu.Unlock()
	c07DrainOn = false
	return c07Drained, c07StopErrs
}

func (l *c07Lineage) now() int64 { return int64(time.Since(l.t0)) }

func (l *c07Lineage) add(ts int64, prio int, term, desc string) {
	l.mu.Lock()
	l.events = append(l.events, c07Event{ts, prio, term, desc})
	l.mu.Unlock()
}

// one request on a fresh connection; the id is taken when the start is stamped
func (l *c07Lineage) request(t c07Target, force bool) {
	l.mu.Lock()
	if !force && !l.allowed[t.slot] {
		l.mu.Unlock()
		return
	}
	atomic.AddInt64(&l.inflight[t.slot], 1)
	defer atomic.AddInt64(&l.inflight[t.slot], -1)
	k := len(l.reqs)
	l.reqs = append(l.reqs, c07Req{K: k, Addr: t.maddr, Site: t.site})
	ts := l.now()
	l.reqs[k].StartNs = ts
	l.mu.Unlock()
	status, x, xcfg, body, err := c07DoRequest(c07IP(t.slot), t.port, c07Host(t.slot, t.site), k)
	te := l.now()
	r := c07Req{K: k, Addr: t.maddr, Site: t.site, StartNs: ts, EndNs: te, Status: status, GivenUp: force}
	if err != nil {
		r.Err = c07ErrClass(err) + ": " + err.Error()
		if strings.HasPrefix(r.Err, "timeout") {
			atomic.AddInt64(&l.timeouts, 1)
		}
	} else {
		var cfg, slot, site, blen int
		if n, _ := fmt.Sscanf(x, "%d %d %d %d", &cfg, &slot, &site, &blen); n != 4 || status != 200 {
			// answered, but not by any configuration of the lineage
			r.Marker, r.SiteSeen, r.Complete = 99999, 99999, false
		} else {
			r.Marker = cfg
			if xcfg != strconv.Itoa(cfg) {
				r.Marker = 99998 // header directive and handler of different configurations
			}
			r.SiteSeen = site
			if slot != t.slot {
				r.SiteSeen = 99997
			}
			r.Complete = bytes.Equal(body, c07Body(cfg, slot, site, blen)) && blen >= l.in.BodyLen
		}
	}
	l.mu.Lock()
	l.reqs[k] = r
	l.mu.Unlock()
}

// holdOpen starts a request on a fresh connection, sends its header only in part and returns the
// function that sends the rest and reads the response; the request is recorded like any other
// (start stamped before the connect, end after the last byte)
func (l *c07Lineage) holdOpen(t c07Target) func() {
	l.mu.Lock()
	k := len(l.reqs)
	l.reqs = append(l.reqs, c07Req{K: k, Addr: t.maddr, Site: t.site})
	ts := l.now()
	l.reqs[k].StartNs = ts
	l.mu.Unlock()
	atomic.AddInt64(&l.inflight[t.slot], 1)
	conn, err := net.DialTimeout("tcp", c07IP(t.slot)+":"+strconv.Itoa(t.port), 3*time.Second)
	if err == nil {
		conn.SetDeadline(time.Now().Add(20 * time.Second))
		_, err = conn.Write([]byte(fmt.Sprintf("GET /held%d HTTP/1.1\r\nHost: %s\r\n", k, c07Host(t.slot, t.site))))
		// let the old server's accept loop take the connection and start reading the request
		time.Sleep(4 * time.Millisecond)
	}
	return func() {
		defer atomic.AddInt64(&l.inflight[t.slot], -1)
		r := c07Req{K: k, Addr: t.maddr, Site: t.site, StartNs: ts}
		if err == nil {
			defer conn.Close()
			_, err = conn.Write([]byte("Connection: close\r\n\r\n"))
		}
		var resp *http.Response
		var body []byte
		if err == nil {
			resp, err = http.ReadResponse(bufio.NewReader(conn), &http.Request{Method: "GET"})
		}
		if err == nil {
			body, err = io.ReadAll(resp.Body)
			resp.Body.Close()
		}
		r.EndNs = l.now()
		if err != nil {
			r.Err = c07ErrClass(err) + ": " + err.Error()
		} else {
			r.Status = resp.StatusCode
			var cfg, slot, site, blen int
			if n, _ := fmt.Sscanf(resp.Header.Get("X-C07"), "%d %d %d %d", &cfg, &slot, &site, &blen); n != 4 || resp.StatusCode != 200 {
				r.Marker, r.SiteSeen, r.Complete = 99999, 99999, false
			} else {
				r.Marker = cfg
				if resp.Header.Get("X-Cfg") != strconv.Itoa(cfg) {
					r.Marker = 99998
				}
				r.SiteSeen = site
				if slot != t.slot {
					r.SiteSeen = 99997
				}
				r.Complete = bytes.Equal(body, c07Body(cfg, slot, site, blen)) && blen >= l.in.BodyLen
			}
		}
		l.mu.Lock()
		l.reqs[k] = r
		l.mu.Unlock()
	}
}

// socket inodes among the descriptors of this process
func c07FdInodes() map[uint64]bool {
	out := map[uint64]bool{}
	ents, err := os.ReadDir("/proc/self/fd")
	if err != nil {
		return out
	}
	for _, e := range ents {
		t, err := os.Readlink("/proc/self/fd/" + e.Name())
		if err != nil || !strings.HasPrefix(t, "socket:[") {
			continue
		}
		ino, _ := strconv.ParseUint(strings.TrimSuffix(strings.TrimPrefix(t, "socket:["), "]"), 10, 64)
		out[ino] = true
	}
	return out
}

// observe reports, per slot, whether the listening socket exists and which one it is (main
// goroutine, or the sampler it is joined with: the slot maps are never touched concurrently).
// full: look the address up among the LISTEN sockets of /proc/self/net/tcp (slow when the
// namespace has many sockets; always done when the inode of the address is not known yet);
// otherwise: a listening socket exists as long as a descriptor refers to it, so it is enough to
// find the known inode among the descriptors of the process (/proc/self/fd).
func (l *c07Lineage) observe(slots []int, full bool) {
	var fds map[uint64]bool
	for _, sl := range slots {
		ts := l.now()
		prev, known := l.slotIno[sl]
		open := false
		if full || !known {
			ino := c07ListenInode(sl, l.slotPort[sl])
			open = ino != 0
			if open {
				if known && prev != ino {
					l.slotGen[sl]++
				}
				l.slotIno[sl] = ino
			}
		} else {
			if fds == nil {
				fds = c07FdInodes()
			}
			open = fds[prev]
			if !open {
				// the descriptor table changes under the listing during a hand-over (old
				// descriptor closed, dup not listed yet): ask the kernel before reporting
				open = c07ListenInode(sl, l.slotPort[sl]) == prev
			}
		}
		a := l.slotAddr[sl]
		l.add(ts, 1, cApp("EObs", cNat(a), cBool(open), cNat(l.slotGen[sl])), fmt.Sprintf("obs a=%d open=%v gen=%d", a, open, l.slotGen[sl]))
		if full && open {
			// no reload call is in progress (full observations are made by the main goroutine between
			// the calls): how many descriptors of the process refer to this listening socket
			n := c07FdCount(l.slotIno[sl])
			l.add(l.now(), 1, cApp("EFds", cNat(a), cNat(n)), fmt.Sprintf("obs a=%d descriptors=%d", a, n))
		}
	}
}

// number of descriptors of this process that refer to the socket with the given inode
func c07FdCount(ino uint64) int {
	ents, err := os.ReadDir("/proc/self/fd")
	if err != nil {
		return 0
	}
	want := "socket:[" + strconv.FormatUint(ino, 10) + "]"
	n := 0
	for _, e := range ents {
		if t, err := os.Readlink("/proc/self/fd/" + e.Name()); err == nil && t == want {
			n++
		}
	}
	return n
}

func c07Inter(a, b []int) []int {
	var out []int
	for _, x := range a {
		for _, y := range b {
			if x == y {
				out = append(out, x)
			}
		}
	}
	return out
}

func c07Has(a []int, x int) bool {
	for _, y := range a {
		if y == x {
			return true
		}
	}
	return false
}

func c07RunLineage(in *c07In) (res Result) {
	c07Register()
	casket.Quiet = true
	oldGrace := httpserver.GracefulTimeout
	httpserver.GracefulTimeout = time.Duration(in.GraceMs) * time.Millisecond
	defer func() { httpserver.GracefulTimeout = oldGrace }()

	obs := c07Obs{}
	res.Sig, res.Class = c07SigClass(in)

	// foreign socket for listen-time failures
	blocked, err := net.Listen("tcp", "127.0.0.9:0")
	if err != nil {
		res.Term = "(CHist [] [] [])"
		res.Direct = "harness: cannot bind the foreign socket: " + err.Error()
		return
	}
	defer blocked.Close()
	_, bp, _ := net.SplitHostPort(blocked.Addr().String())
	blockedPort, _ := strconv.Atoi(bp)

	tdbg := time.Now()
	dbg := func(what string) {
		if os.Getenv("C07_DEBUG") != "" {
			fmt.Fprintf(os.Stderr, "C07DBG %s %v\n", what, time.Since(tdbg))
			tdbg = time.Now()
		}
	}
	l := &c07Lineage{in: in, slotAddr: map[int]int{}, slotPort: map[int]int{}, slotIno: map[int]uint64{}, slotGen: map[int]int{}}

	text0 := c07Config(in, 0, in.Slots0, "ok", 0, blockedPort)
	var inst *casket.Instance
	prevLog := log.Writer()
	log.SetOutput(c07LogWriter{})
	defer log.SetOutput(prevLog)
	if in.Signal {
		c07SignalSetup()
		c07SigText.Store(text0)
		defer func() {
			c07SigText.Store("")
		}()
		var input casket.Input
		input, err = casket.LoadCasketfile("http")
		if err == nil {
			inst, err = casket.Start(input)
		}
	} else {
		inst, err = casket.Start(casket.CasketfileInput{Contents: []byte(text0), Filepath: "Casketfile", ServerTypeName: "http"})
	}
	if err != nil {
		res.Term = "(CHist [] [] [])"
		res.Direct = "first Start failed: " + err.Error()
		return
	}
	l.t0 = time.Now()
	dbg("start")
	cen0 := c07TakeCensus()
	var hobs []string

	// bind bookkeeping: which model address / port a slot has after a successful (re)start
	learn := func(inst *casket.Instance) {
		for _, sl := range inst.Servers() {
			host, port, _ := net.SplitHostPort(sl.Addr().String())
			var slot int
			fmt.Sscanf(host, "127.0.0.%d", &slot)
			slot--
			p, _ := strconv.Atoi(port)
			l.slotPort[slot] = p
		}
	}
	for _, s := range in.Slots0 {
		l.slotAddr[s] = l.nextAddr
		l.nextAddr++
		l.slotGen[s] = 0
	}
	learn(inst)
	maddrs := func(slots []int) []int {
		out := make([]int, len(slots))
		for i, s := range slots {
			out[i] = l.slotAddr[s]
		}
		return out
	}
	a0 := maddrs(in.Slots0)
	obs.A0 = a0
	setTargets := func(slots []int) {
		var ts []c07Target
		for _, s := range slots {
			for j := 0; j < in.Sites; j++ {
				ts = append(ts, c07Target{slot: s, site: j, maddr: l.slotAddr[s], port: l.slotPort[s]})
			}
		}
		l.mu.Lock()
		l.allowed = map[int]bool{}
		for _, s := range slots {
			l.allowed[s] = true
		}
		l.mu.Unlock()
		l.targets.Store(ts)
	}
	curSlots := append([]int(nil), in.Slots0...)
	setTargets(curSlots)
	l.observe(curSlots, true)
	dbg("observe0")

	// the process-lifetime wait group must not be released while the lineage serves
	waitDone := make(chan struct{})
	var waitPanic atomic.Value
	go func(i *casket.Instance) {
		defer func() {
			if p := recover(); p != nil {
				waitPanic.Store(fmt.Sprint(p))
				close(waitDone)
			}
		}()
		i.Wait()
		close(waitDone)
	}(inst)

	// heartbeat: a process that was not scheduled for seconds (loaded machine, frozen VM) makes
	// client deadlines fire although the server would have answered; such runs are repeated
	var stall int64
	hbStop := make(chan struct{})
	go func() {
		last := time.Now()
		for {
			select {
			case <-hbStop:
				return
			default:
			}
			time.Sleep(2 * time.Millisecond)
			now := time.Now()
			if d := int64(now.Sub(last)); d > atomic.LoadInt64(&stall) {
				atomic.StoreInt64(&stall, d)
			}
			last = now
		}
	}()
	defer close(hbStop)
	var stop int32
	var wg sync.WaitGroup
	if in.Mode == "load" {
		for c := 0; c < in.Clients; c++ {
			wg.Add(1)
			go func(c int) {
				defer wg.Done()
				r := NewRand(in.Seed*1000 + uint64(c))
				for atomic.LoadInt32(&stop) == 0 && atomic.LoadInt64(&l.timeouts) < 2 {
					if int(atomic.AddInt64(&l.nreq, 1)) > in.MaxReq {
						return
					}
					ts := l.targets.Load().([]c07Target)
					if len(ts) == 0 {
						time.Sleep(200 * time.Microsecond)
						continue
					}
					l.request(ts[r.Intn(len(ts))], false)
					if r.Chance(30) {
						time.Sleep(time.Duration(r.Intn(400)) * time.Microsecond)
					}
				}
			}(c)
		}
	}
	syncBurst := func(r *Rand) {
		ts := l.targets.Load().([]c07Target)
		if len(ts) == 0 {
			return
		}
		for i := 0; i < in.PerPhase && atomic.LoadInt64(&l.timeouts) < 2; i++ {
			l.request(ts[(i+r.Intn(2))%len(ts)], false)
		}
	}
	mr := NewRand(in.Seed + 77)
	if in.Mode == "sync" {
		syncBurst(mr)
	}

	// held requests that stay open across further reloads: (finisher, reloads left)
	type c07Carry struct {
		fin  func()
		left int
	}
	var carried []c07Carry
	defer func() {
		for _, c := range carried {
			c.fin()
		}
	}()
	for n1, rl := range in.Reloads {
		n := n1 + 1
		if atomic.LoadInt64(&l.timeouts) >= 2 {
			obs.Note += fmt.Sprintf("lineage cut short before reload %d after client timeouts; ", n)
			break
		}
		if rl.GapUs > 0 {
			time.Sleep(time.Duration(rl.GapUs) * time.Microsecond)
		}
		// model addresses of the new configuration: inherited slots keep theirs, new ones get fresh numbers
		var newAddrs []int
		plan := map[int]int{}
		for _, s := range rl.Slots {
			if c07Has(curSlots, s) {
				newAddrs = append(newAddrs, l.slotAddr[s])
			} else {
				// freshly bound (port 0): a new model address, used up even if the reload fails
				plan[s] = l.nextAddr
				newAddrs = append(newAddrs, l.nextAddr)
				l.nextAddr++
			}
		}
		fate := 0
		switch rl.Kind {
		case "parse", "setup":
			fate = 1
		case "startup":
			fate = 3 // fails in a startup callback of the new instance: Restart returns an error (ERet 1)
		case "listen":
			fate = 2
			newAddrs = append(newAddrs, c07BlockedAddr)
		}
		text := c07Config(in, n, rl.Slots, rl.Kind, rl.Var, blockedPort)
		stable := c07Inter(curSlots, rl.Slots)
		var dropped []c07Target
		if rl.Kind == "ok" && len(stable) < len(curSlots) {
			// addresses the new configuration no longer serves: clients stop targeting them and
			// the requests in flight there finish before the call (what happens to a connection
			// to an address that is being given up is outside the statement; the model's
			// refusal path is exercised deterministically in sync mode, below)
			for _, s := range curSlots {
				if !c07Has(stable, s) {
					dropped = append(dropped, c07Target{slot: s, site: 0, maddr: l.slotAddr[s], port: l.slotPort[s]})
				}
			}
			setTargets(stable)
			deadline := time.Now().Add(10 * time.Second)
			for _, d := range dropped {
				for atomic.LoadInt64(&l.inflight[d.slot]) > 0 && time.Now().Before(deadline) {
					time.Sleep(100 * time.Microsecond)
				}
			}
		}
		// sampler: the listening sockets of addresses served before and after exist throughout
		sampDone := make(chan struct{})
		sampStop := make(chan struct{})
		// a request whose header is only half sent sits on a connection of the OLD server across the
		// call: its Shutdown cannot drain it within the graceful timeout
		var finishHeld func()
		if rl.Hold && len(stable) > 0 {
			hs := stable[0]
			finishHeld = l.holdOpen(c07Target{slot: hs, site: 0, maddr: l.slotAddr[hs], port: l.slotPort[hs]})
		}
		c07DrainBegin()
		tcall := l.now()
		l.add(tcall, 1, cApp("ECall", cNatList(newAddrs), cNat(fate)), fmt.Sprintf("call %d %s slots=%v", n, rl.Kind, rl.Slots))
		go func() {
			defer close(sampDone)
			for i := 0; i < 8; i++ {
				select {
				case <-sampStop:
					return
				default:
				}
				l.observe(stable, false)
				time.Sleep(150 * time.Microsecond)
			}
		}()
		var newInst *casket.Instance
		var rerr error
		var tret int64
		if in.Signal {
			// the SIGUSR1 path of sigtrap_posix.go: the handler loads the configuration through
			// the registered loader and calls Restart on the first instance
			rerr = c07SignalReload(text)
			tret = l.now()
			if rerr == nil {
				insts := casket.Instances()
				newInst = insts[len(insts)-1]
			}
		} else {
			newInst, rerr = inst.Restart(casket.CasketfileInput{Contents: []byte(text), Filepath: "Casketfile", ServerTypeName: "http"})
			tret = l.now()
		}
		close(sampStop)
		<-sampDone
		drained, stopErrs := c07DrainEnd()
		// the old servers are stopped in the order of the old configuration's addresses; a drain
		// timeout is logged by Instance.Stop and changes nothing else
		for _, sl := range curSlots {
			if drained[sl] {
				a := l.slotAddr[sl]
				l.add(tret, 0, cApp("EDrain", cNat(a)), fmt.Sprintf("drain timeout of the old server at a=%d", a))
				obs.Drains++
			}
		}
		if len(stopErrs) > 0 {
			obs.Note += fmt.Sprintf("reload %d: Instance.Stop logged %v; ", n, stopErrs)
		}
		r := 0
		if rerr != nil {
			r = 1
			if strings.Contains(rerr.Error(), "Listen: ") {
				r = 2
			}
			obs.Rets = append(obs.Rets, fmt.Sprintf("%d:%s:err%d:%s", n, rl.Kind, r, c07Short(rerr.Error())))
		} else {
			obs.Rets = append(obs.Rets, fmt.Sprintf("%d:%s:ok", n, rl.Kind))
		}
		if rerr == nil {
			inst = newInst
			curSlots = append([]int(nil), rl.Slots...)
			for s, a := range plan {
				l.slotAddr[s] = a
				l.slotGen[s] = 1
				delete(l.slotIno, s)
			}
			learn(inst)
			setTargets(curSlots)
		}
		l.add(tret, 1, cApp("ERet", cNat(r)), fmt.Sprintf("ret %d -> %d", n, r))
		{
			cen := c07TakeCensus()
			hf := 0
			if rl.Kind != "ok" {
				hf = 1
			}
			hobs = append(hobs, "("+cNatList(c07HookNames(in, n, rl.Slots))+", "+cNat(hf)+", "+cBool(rerr == nil)+", "+cNatList(cen)+")")
			obs.Hooks = append(obs.Hooks, fmt.Sprintf("%d:%v", n, cen))
		}
		{
			var keep []c07Carry
			for _, c := range carried {
				if c.left <= 1 {
					c.fin()
				} else {
					keep = append(keep, c07Carry{c.fin, c.left - 1})
				}
			}
			carried = keep
		}
		if finishHeld != nil {
			if rl.Span > 0 && n1+1 < len(in.Reloads) {
				carried = append(carried, c07Carry{finishHeld, rl.Span})
				obs.Spanning++
			} else {
				finishHeld()
			}
		}
		l.observe(curSlots, true)
		if in.Mode == "sync" {
			if rerr == nil {
				for _, d := range dropped {
					l.request(d, true) // nobody listens there any more: refused
				}
			}
			syncBurst(mr)
		}
	}
	// held requests still open (the lineage ended or was cut short first) are completed now
	for _, c := range carried {
		c.fin()
	}
	carried = nil
	if in.Mode == "load" {
		time.Sleep(2 * time.Millisecond)
	}
	dbg("reloads")
	atomic.StoreInt32(&stop, 1)
	wg.Wait()
	dbg("clients-joined")
	l.observe(curSlots, true)
	dbg("observe-final")
	select {
	case <-waitDone:
		obs.WaitEarly = true
	default:
	}
	inst.Stop()
	if c07WaitStuck < 3 {
		select {
		case <-waitDone:
		case <-time.After(5 * time.Second):
			c07WaitStuck++
			obs.WaitStuck = true
		}
	}

	dbg("stop+wait")
	// history
	for _, r := range l.reqs {
		l.events = append(l.events, c07Event{r.StartNs, 0, cApp("EStart", cNat(r.K), cNat(r.Addr), cNat(r.Site)), ""})
		var rt string
		if r.Err != "" {
			rt = "None"
		} else {
			rt = "(Some (" + cNat(r.Marker) + ", " + cNat(r.SiteSeen) + ", " + cBool(r.Complete) + "))"
		}
		l.events = append(l.events, c07Event{r.EndNs, 2, cApp("EEnd", cNat(r.K), rt), ""})
	}
	sort.SliceStable(l.events, func(i, j int) bool {
		if l.events[i].ts != l.events[j].ts {
			return l.events[i].ts < l.events[j].ts
		}
		return l.events[i].prio < l.events[j].prio
	})
	terms := make([]string, len(l.events))
	for i, e := range l.events {
		terms[i] = e.term
	}
	// request ids must follow the order of the start events (ids were taken under the lock
	// together with the stamp, so they do)
	res.Term = cApp("CHist", cNatList(a0), cNatList([]int{c07BlockedAddr}), cList(terms))
	if c07HooksOn {
		res.Term = cApp("CHistH", cNatList(a0), cNatList([]int{c07BlockedAddr}), cList(terms), cBool(in.Signal),
			cNatList(c07HookNames(in, 0, in.Slots0)), cNatList(cen0), cList(hobs))
	}

	if in.Signal && atomic.LoadInt64(&c07SigSeen) != atomic.LoadInt64(&c07SigSent) {
		obs.Note += fmt.Sprintf("harness: %d SIGUSR1 receipts for %d reloads requested; ", atomic.LoadInt64(&c07SigSeen), atomic.LoadInt64(&c07SigSent))
		obs.Invalid = true
	}
	obs.Requests = len(l.reqs)
	obs.StallMs = atomic.LoadInt64(&stall) / 1e6
	// overlap statistics + odd requests for the report
	type iv struct{ c, r int64 }
	var ivs []iv
	var pendingCall int64 = -1
	for _, e := range l.events {
		if strings.HasPrefix(e.term, "(ECall") {
			pendingCall = e.ts
		} else if strings.HasPrefix(e.term, "(ERet") {
			ivs = append(ivs, iv{pendingCall, e.ts})
		}
	}
	for _, r := range l.reqs {
		for _, v := range ivs {
			if r.StartNs < v.r && r.EndNs > v.c {
				obs.Overlap++
				break
			}
		}
		if r.Err != "" && !r.GivenUp && len(obs.Errors) < 8 {
			obs.Errors = append(obs.Errors, r)
		}
		if r.Err == "" && (!r.Complete || r.SiteSeen != r.Site) && len(obs.Odd) < 8 {
			obs.Odd = append(obs.Odd, r)
		}
	}
	// reporting aid: which requests look wrong and why (same interval reasoning as the Coq spec,
	// recomputed here only to make replays readable; it decides nothing)
	{
		type rel struct {
			call, ret int64
			ok       bool
			n        int
		}
		var rels []rel
		for _, e := range l.events {
			if strings.HasPrefix(e.term, "(ECall") {
				rels = append(rels, rel{call: e.ts, n: len(rels) + 1})
			} else if strings.HasPrefix(e.term, "(ERet") {
				rels[len(rels)-1].ret = e.ts
				rels[len(rels)-1].ok = e.term == "(ERet 0%nat)"
			}
		}
		for _, r := range l.reqs {
			if len(obs.Suspects) >= 8 {
				break
			}
			cur := 0
			allowed := map[int]bool{}
			for _, v := range rels {
				if v.ret != 0 && v.ret < r.StartNs {
					if v.ok {
						cur = v.n
					}
					continue
				}
				if v.call < r.EndNs && v.ok {
					allowed[v.n] = true
				}
			}
			allowed[cur] = true
			switch {
			case r.GivenUp && r.Err != "":
			case r.Err != "":
				obs.Suspects = append(obs.Suspects, fmt.Sprintf("request %d (addr %d site %d, %d..%d us): transport error %q", r.K, r.Addr, r.Site, r.StartNs/1000, r.EndNs/1000, r.Err))
			case !allowed[r.Marker]:
				obs.Suspects = append(obs.Suspects, fmt.Sprintf("request %d (addr %d site %d, %d..%d us): answered by configuration %d; in force at its start: %d, possible: %v", r.K, r.Addr, r.Site, r.StartNs/1000, r.EndNs/1000, r.Marker, cur, allowed))
			case r.SiteSeen != r.Site || !r.Complete:
				obs.Suspects = append(obs.Suspects, fmt.Sprintf("request %d (addr %d site %d): answered by site %d, complete=%v", r.K, r.Addr, r.Site, r.SiteSeen, r.Complete))
			}
		}
	}
	for _, e := range l.events {
		if e.desc != "" && !strings.HasPrefix(e.desc, "obs") && len(obs.Events) < 80 {
			obs.Events = append(obs.Events, fmt.Sprintf("%d %s", e.ts/1000, e.desc))
		}
	}
	res.Obs = obs
	res.Nontrivial = len(in.Reloads) > 0 && (obs.Overlap > 0 || in.Mode == "sync") && obs.Requests > 0
	h := []string{in.Mode, fmt.Sprint(in.Slots0), fmt.Sprint(in.Sites), fmt.Sprint(in.DelayMs), fmt.Sprint(in.Chunked), fmt.Sprint(in.GraceMs)}
	for _, rl := range in.Reloads {
		h = append(h, fmt.Sprintf("%s%v/%d", rl.Kind, rl.Slots, rl.Var))
	}
	res.Key = strings.Join(h, "|") + fmt.Sprint(in.Seed)
	if obs.WaitStuck {
		res.Direct = "Instance.Wait() did not return within 5 s after the final Stop of the lineage (servers still running or wait group never released)"
	}
	if obs.WaitEarly {
		res.Direct = "Instance.Wait() returned while the lineage was still serving (wait-group released early)"
		if p := waitPanic.Load(); p != nil {
			res.Direct = "Instance.Wait() panicked while the lineage was serving: " + p.(string)
		}
	}
	return
}

func c07Short(s string) string {
	if len(s) > 90 {
		return s[:90]
	}
	return s
}

// lineages whose Wait() did not return after the final Stop (waited for at most 3 times per run)
var c07WaitStuck int

// lineages of this run that were cut short by client timeouts; after 5 of them the remaining
// cases are skipped (the violations are on record, each further one would cost seconds)
var c07Hung int

func c07Run(x interface{}) Result {
	in := x.(*c07In)
	if c07Hung >= 5 {
		sig, class := c07SigClass(in)
		return Result{Term: "(CHist [] [] [])", Sig: sig, Class: class + ":skipped-after-hangs", Obs: c07Obs{Note: "skipped: 5 earlier lineages of this run hung"}}
	}
	var r Result
	if os.Getenv("C07_INPROC") != "" {
		r = c07RunInProc(in)
	} else {
		r = c07RunChild(in)
	}
	if o, ok := r.Obs.(c07Obs); ok {
		// a process that was not scheduled for seconds: client deadlines fired for no fault of
		// the server; such runs are repeated, never judged
		if (o.StallMs > 1500 && len(o.Errors) > 0 || o.Invalid) && in.retries < 2 {
			in.retries++
			return c07Run(in)
		}
		if o.Invalid {
			sig, class := c07SigClass(in)
			return Result{Term: "(CHist [] [] [])", Sig: sig, Class: class + ":not-judged", Obs: o}
		}
		if strings.Contains(o.Note, "cut short") {
			c07Hung++
		}
	}
	return r
}

func c07RunInProc(in *c07In) Result {
	done := make(chan Result, 1)
	go func() {
		defer func() {
			if p := recover(); p != nil {
				done <- Result{Term: "(CHist [] [] [])", Sig: "panic", Class: "panic", Direct: fmt.Sprint("panic in the lineage: ", p)}
			}
		}()
		done <- c07RunLineage(in)
	}()
	select {
	case r := <-done:
		return r
	case <-time.After(90 * time.Second):
		c07Hung++
		return Result{Term: "(CHist [] [] [])", Sig: "hang", Class: "hang", Direct: "the lineage did not finish within 90 s (Restart or Stop hangs)"}
	}
}

// ---------------------------------------------------------------------------------------------
// generator

func c07Subset(r *Rand, must0 bool) []int {
	for {
		var s []int
		for sl := 0; sl < 3; sl++ {
			p := 45
			if sl == 0 {
				p = 85
			}
			if (sl == 0 && must0) || r.Chance(p) {
				s = append(s, sl)
			}
		}
		if len(s) > 0 {
			// random order: the order of servers in startServers is a map order anyway
			perm := r.Perm(len(s))
			out := make([]int, len(s))
			for i, j := range perm {
				out[i] = s[j]
			}
			return out
		}
	}
}

func c07GenOne(r *Rand, mode string, nrel int) *c07In {
	in := &c07In{Mode: mode, Seed: r.U64() % 1000000, Sites: 1 + r.Intn(2), Clients: 2 + r.Intn(7),
		PerPhase: 1 + r.Intn(4), BodyLen: []int{0, 10, 700, 5000, 70000}[r.Intn(5)], Chunked: r.Chance(40),
		GraceMs: []int{5000, 5000, 1, 50}[r.Intn(4)], MaxReq: 500}
	if r.Chance(45) {
		in.DelayMs = []int{1, 3, 8, 20}[r.Intn(4)]
	}
	stick := r.Chance(50) // lineage keeps its address set
	in.Slots0 = c07Subset(r, true)
	cur := in.Slots0
	// Before 51fc21a a listen-time failure leaked the descriptors startServers had dup'ed before the
	// failing Listen; a leaked address that is dropped later stays in LISTEN with nobody accepting
	// and clients in flight there hang until their own timeout (6 s per case).  startServers closes
	// them now (modelled: LListenFail; checked through the EFds descriptor counts), but lineages
	// still keep such addresses so that a regression there costs a disagreement, not minutes.
	var leaky []int
	for i := 0; i < nrel; i++ {
		rl := c07Reload{Var: r.Intn(64)}
		switch x := r.Intn(100); {
		case x < 52:
			rl.Kind = "ok"
		case x < 64:
			rl.Kind = "parse"
		case x < 76:
			rl.Kind = "setup"
		case x < 88:
			rl.Kind = "startup"
		default:
			rl.Kind = "listen"
		}
		if stick || r.Chance(60) {
			// same addresses, fresh order
			perm := r.Perm(len(cur))
			for _, j := range perm {
				rl.Slots = append(rl.Slots, cur[j])
			}
		} else {
			rl.Slots = c07Subset(r, r.Chance(70))
		}
		switch r.Intn(4) {
		case 0:
			rl.GapUs = 0
		case 1:
			rl.GapUs = r.Intn(300)
		case 2:
			rl.GapUs = 500 + r.Intn(2500)
		default:
			rl.GapUs = 100 + r.Intn(900)
		}
		for _, s := range leaky {
			if !c07Has(rl.Slots, s) {
				rl.Slots = append(rl.Slots, s)
			}
		}
		if rl.Kind == "listen" {
			for _, s := range c07Inter(cur, rl.Slots) {
				if !c07Has(leaky, s) {
					leaky = append(leaky, s)
				}
			}
		}
		if rl.Kind == "ok" {
			cur = rl.Slots
		}
		in.Reloads = append(in.Reloads, rl)
	}
	return in
}

func c07Gen(r *Rand, tier string) []interface{} {
	var out []interface{}
	nload, nsync, nsig := 60, 40, 20
	if tier == "thorough" {
		nload, nsync, nsig = 600, 400, 200
	}
	for i := 0; i < nload; i++ {
		nrel := 3 + r.Intn(18)
		if tier == "thorough" && r.Chance(10) {
			nrel = 30 + r.Intn(30)
		}
		out = append(out, c07GenOne(r, "load", nrel))
	}
	for i := 0; i < nsync; i++ {
		out = append(out, c07GenOne(r, "sync", 2+r.Intn(10)))
	}
	// drain timeouts: a half-sent request is held open on the instance being replaced while the
	// graceful timeout is a few milliseconds; the reload must succeed all the same, every old server
	// must be stopped and requests after the return get the new configuration
	nhold := 12
	if tier == "thorough" {
		nhold = 120
	}
	for i := 0; i < nhold; i++ {
		in := c07GenOne(r, []string{"sync", "sync", "load"}[i%3], 2+r.Intn(5))
		in.GraceMs = []int{3, 8, 20}[r.Intn(3)]
		if len(in.Slots0) < 2 && r.Chance(70) {
			in.Slots0 = []int{0, 1 + r.Intn(2)}
			if r.Chance(50) {
				in.Slots0[0], in.Slots0[1] = in.Slots0[1], in.Slots0[0]
			}
			for j := range in.Reloads {
				in.Reloads[j].Slots = append([]int(nil), in.Slots0...)
			}
		}
		any := false
		for j := range in.Reloads {
			if r.Chance(65) {
				in.Reloads[j].Hold = true
				any = true
				if r.Chance(40) {
					in.Reloads[j].Span = 1 + r.Intn(2)
				}
			}
		}
		if !any {
			in.Reloads[0].Hold = true
		}
		in.Signal = i%4 == 3
		out = append(out, in)
	}
	// the same through the SIGUSR1 handler
	for i := 0; i < nsig; i++ {
		in := c07GenOne(r, []string{"load", "sync"}[i%2], 2+r.Intn(8))
		in.Signal = true
		out = append(out, in)
	}
	return out
}

func init() {
	register(&Property{
		ID: "C07", Imports: "V.Lib V.C07_Model", Judge: "judge", Shard: 8,
		Rule: "every case = one real lineage in-process on loopback: casket.Start + 2..20 Instance.Restart (valid / failing at parse, directive setup, startup callback, listen time; listen addresses 127.0.0.{1,2,3}:0 kept, dropped or added; 1-2 virtual hosts per address) under 2-8 concurrent fresh-connection clients (load) or with requests strictly between the reloads (sync); handler think time 0-20 ms, bodies 0-70 kB with Content-Length or chunked, GracefulTimeout 1 ms-5 s; drain-timeout lineages (GracefulTimeout 3-20 ms, a half-sent request held open on the instance being replaced across reload calls); drain timeouts logged by Instance.Stop are events of the history; the whole observed history is judged. non-trivial = at least one request overlaps a reload call (load) / at least one reload and one request (sync); distinct = distinct scenario (parameters + seed)",
		Gen: c07Gen,
		Decode: func(raw json.RawMessage) (interface{}, error) {
			in := &c07In{}
			if err := json.Unmarshal(raw, in); err != nil {
				return nil, err
			}
			if in.Sites < 1 {
				in.Sites = 1
			}
			if in.MaxReq == 0 {
				in.MaxReq = 500
			}
			return in, nil
		},
		Run: c07Run,
	})
}

// diagnostic: harness c07try — every failing variant once, with the error Restart returns
func init() {
	extraCommands["c07try"] = func(args []string) int {
		c07Register()
		casket.Quiet = true
		bl, _ := net.Listen("tcp", "127.0.0.9:0")
		_, bp, _ := net.SplitHostPort(bl.Addr().String())
		bport, _ := strconv.Atoi(bp)
		in := &c07In{Sites: 2, BodyLen: 10}
		inst, err := casket.Start(casket.CasketfileInput{Contents: []byte(c07Config(in, 0, []int{0, 1}, "ok", 0, bport)), Filepath: "Casketfile", ServerTypeName: "http"})
		if err != nil {
			fmt.Println("start:", err)
			return 1
		}
		for _, sl := range inst.Servers() {
			fmt.Println("serving", sl.Addr())
		}
		for _, kind := range []string{"ok", "parse", "setup", "startup", "listen"} {
			for v := 0; v < 16; v++ {
				t := c07Config(in, 1, []int{0, 1}, kind, v, bport)
				ni, err := inst.Restart(casket.CasketfileInput{Contents: []byte(t), Filepath: "Casketfile", ServerTypeName: "http"})
				fmt.Printf("%s/%d: err=%v\n", kind, v, err)
				if err == nil {
					inst = ni
				}
				if kind == "ok" || kind == "listen" {
					break
				}
			}
		}
		return 0
	}
}

func init() {
	extraCommands["c07diag"] = func(args []string) int {
		ln, _ := net.Listen("tcp", "127.0.0.2:0")
		defer ln.Close()
		_, p, _ := net.SplitHostPort(ln.Addr().String())
		port, _ := strconv.Atoi(p)
		t := time.Now()
		ino, ok := c07DiagListenInode(1, port)
		fmt.Println("netlink:", ino, ok, time.Since(t), "fds:", c07FdInodes()[ino])
		return 0
	}
}

// ---------------------------------------------------------------------------------------------
// reload by signal (sigtrap_posix.go)

var (
	c07SigOnce sync.Once
	c07SigText atomic.Value // string: the configuration the loader hands out ("" = loader inactive)
	c07SigCh   = make(chan string, 16)
	c07SigSeen int64 // "[INFO] SIGUSR1: Reloading" lines: signals the handler received
	c07SigSent int64 // reloads requested
)

func c07SignalSetup() {
	c07SigOnce.Do(func() {
		c07SigText.Store("")
		casket.RegisterCasketfileLoader("c07", casket.LoaderFunc(func(serverType string) (casket.Input, error) {
			t, _ := c07SigText.Load().(string)
			if t == "" {
				return nil, nil
			}
			return casket.CasketfileInput{Contents: []byte(t), Filepath: "Casketfile", ServerTypeName: "http"}, nil
		}))
		casket.TrapSignals()
	})
}

// c07LogWriter watches the process log for the outcome of a signal-driven reload: Restart logs
// "Reloading complete" after the old instance was stopped, the SIGUSR1 handler logs the error
// after Restart returned it.
type c07LogWriter struct{}

func (c07LogWriter) Write(p []byte) (int, error) {
	for _, line := range strings.Split(string(p), "\n") {
		switch {
		case strings.Contains(line, "[INFO] SIGUSR1: Reloading"):
			atomic.AddInt64(&c07SigSeen, 1)
		case strings.Contains(line, "[INFO] Reloading complete"):
			select {
			case c07SigCh <- "":
			default:
			}
		case strings.Contains(line, "[ERROR] Stopping 127.0.0."):
			rest := line[strings.Index(line, "[ERROR] Stopping 127.0.0.")+25:]
			var oct int
			fmt.Sscanf(rest, "%d", &oct)
			c07DrainMu.Lock()
			if c07DrainOn {
				if strings.Contains(rest, "context deadline exceeded") && oct >= 1 {
					c07Drained[oct-1] = true
				} else {
					c07StopErrs = append(c07StopErrs, rest)
				}
			}
			c07DrainMu.Unlock()
		case strings.Contains(line, "[ERROR] SIGUSR1: "):
			select {
			case c07SigCh <- line[strings.Index(line, "[ERROR] SIGUSR1: ")+17:]:
			default:
			}
		}
	}
	return len(p), nil
}

func c07SignalReload(text string) error {
	for len(c07SigCh) > 0 {
		<-c07SigCh
	}
	c07SigText.Store(text)
	// casket.TrapSignals installs its handler in a goroutine: a signal sent before that goroutine
	// has run is dropped by the Go runtime.  The handler logs the receipt at once, so the signal
	// is repeated until it was received (a signal that was received twice shows up as one
	// receipt too many at the end of the lineage, which is then run again, never judged).
	want := atomic.AddInt64(&c07SigSent, 1)
	for try := 0; atomic.LoadInt64(&c07SigSeen) < want; try++ {
		if try >= 100 {
			return errors.New("harness: the SIGUSR1 handler never reported a receipt")
		}
		if err := syscall.Kill(os.Getpid(), syscall.SIGUSR1); err != nil {
			return fmt.Errorf("harness: kill: %v", err)
		}
		for w := 0; w < 300 && atomic.LoadInt64(&c07SigSeen) < want; w++ {
			time.Sleep(time.Millisecond)
		}
	}
	select {
	case m := <-c07SigCh:
		if m == "" {
			return nil
		}
		return errors.New(m)
	case <-time.After(40 * time.Second):
		return errors.New("harness: no outcome of the SIGUSR1 reload within 40 s")
	}
}
