package main

// C04 "retrybody" cases: ONE request with a pattern body (salt, length up to several buffer sizes,
// chunked or Content-Length) through a Proxy with 2-3 hosts and try_duration > 0, whose first
// attempts hit a backend that dies MID-BODY: it reads k bytes of the body (k = 0, 1, half, len-1,
// len, buffer boundaries ...) and then fails. What every attempt's backend could read from the
// start of ITS attempt is observed (length, first offset differing from the client's pattern, first
// and last 48 bytes) and judged in Coq: it must be the first k bytes of the client's body, and the
// whole body for the attempt that is answered.
//
//   scripted: the hosts' Transport is a RoundTripper that reads k bytes and returns an error;
//   real_wire: the real http.Transport (small socket buffers, so that a body of some 100 KiB does
//   not vanish into them) talks to loopback backends that read the request header and k body bytes
//   and reset the connection; the last attempt's backend reads everything and answers 200.

import (
	"bufio"
	"bytes"
	"context"
	"errors"
	"fmt"
	"io"
	"net"
	"net/http"
	"net/http/httptest"
	"sync"
	"syscall"
	"time"

	"github.com/tmpim/casket/caskethttp/proxy"
)

type c04RAtt struct {
	Asked  int64   `json:"asked"`
	Body   c04BObs `json:"body"`
	CL     int64   `json:"cl"`
	Failed bool    `json:"failed"`
}

type c04RetryRec struct {
	mu   sync.Mutex
	in   *c04In
	atts []c04RAtt
	n    int
}

// next hands out the plan of the next attempt: (index, k); k = -1: read everything and answer
func (rec *c04RetryRec) next() (int, int) {
	rec.mu.Lock()
	defer rec.mu.Unlock()
	i := rec.n
	rec.n++
	if i < len(rec.in.FailRead) {
		return i, rec.in.FailRead[i]
	}
	return i, -1
}

func (rec *c04RetryRec) record(i int, k int, got []byte, cl int64) {
	eff := rec.in.BodyLen
	if k >= 0 && k < eff {
		eff = k
	}
	a := c04RAtt{Asked: int64(k), Body: c04Observe(got, rec.in.Salt, eff, &c04Conc{}), CL: cl, Failed: k >= 0}
	rec.mu.Lock()
	defer rec.mu.Unlock()
	for len(rec.atts) <= i {
		rec.atts = append(rec.atts, c04RAtt{Asked: -2})
	}
	rec.atts[i] = a
}

func c04ReadK(body io.Reader, k int) []byte {
	if body == nil {
		return nil
	}
	if k < 0 {
		b, _ := io.ReadAll(body)
		return b
	}
	buf := make([]byte, k)
	n, _ := io.ReadFull(body, buf)
	return buf[:n]
}

type c04RetryTransport struct{ rec *c04RetryRec }

func (t *c04RetryTransport) RoundTrip(r *http.Request) (*http.Response, error) {
	i, k := t.rec.next()
	got := c04ReadK(r.Body, k)
	t.rec.record(i, k, got, r.ContentLength)
	if k >= 0 {
		return nil, errors.New("scripted backend failure after reading part of the body")
	}
	return &http.Response{StatusCode: 200, Status: "200 OK", Proto: "HTTP/1.1", ProtoMajor: 1, ProtoMinor: 1, Header: http.Header{},
		Body: io.NopCloser(bytes.NewReader([]byte("ok"))), ContentLength: 2, Request: r}, nil
}

func c04SmallBuf(opt int) func(network, address string, c syscall.RawConn) error {
	return func(network, address string, c syscall.RawConn) error {
		return c.Control(func(fd uintptr) { syscall.SetsockoptInt(int(fd), syscall.SOL_SOCKET, opt, 4096) })
	}
}

// c04MidBackend: a loopback backend following the record's plan
func c04MidBackend(rec *c04RetryRec) (net.Listener, error) {
	lc := net.ListenConfig{Control: c04SmallBuf(syscall.SO_RCVBUF)}
	ln, err := lc.Listen(context.Background(), "tcp", "127.0.0.1:0")
	if err != nil {
		return nil, err
	}
	go func() {
		for {
			conn, err := ln.Accept()
			if err != nil {
				return
			}
			go func(conn net.Conn) {
				defer conn.Close()
				conn.SetDeadline(time.Now().Add(10 * time.Second))
				req, err := http.ReadRequest(bufio.NewReaderSize(conn, 512))
				if err != nil {
					return
				}
				i, k := rec.next()
				got := c04ReadK(req.Body, k)
				rec.record(i, k, got, req.ContentLength)
				if k >= 0 {
					if tc, ok := conn.(*net.TCPConn); ok {
						tc.SetLinger(0) // reset, as a crashing backend does
					}
					return
				}
				io.WriteString(conn, "HTTP/1.1 200 OK\r\nContent-Length: 2\r\nConnection: close\r\n\r\nok")
			}(conn)
		}
	}()
	return ln, nil
}

func c04RunRetryBody(in *c04In) Result {
	rec := &c04RetryRec{in: in}
	nh := len(in.Targets)
	if nh < 2 {
		nh = 2
	}
	var targets []string
	var lns []net.Listener
	defer func() {
		for _, ln := range lns {
			ln.Close()
		}
	}()
	for i := 0; i < nh; i++ {
		if in.RealWire {
			ln, err := c04MidBackend(rec)
			if err != nil {
				return Result{Term: c04Trivial, Obs: "listen: " + err.Error(), Class: "retrybody:setup-error", Sig: "retrybody:setup-error"}
			}
			lns = append(lns, ln)
			targets = append(targets, "http://"+ln.Addr().String())
		} else {
			targets = append(targets, fmt.Sprintf("http://b%d.test:80", i))
		}
	}
	text := "proxy / "
	for _, t := range targets {
		text += t + " "
	}
	text += "{\n  policy round_robin\n  try_duration 5s\n  try_interval 1ms\n}\n"
	ups, err := c04Upstreams(text)
	if err != nil || len(ups) != 1 {
		return Result{Term: c04Trivial, Obs: fmt.Sprint("setup error: ", err), Class: "retrybody:setup-error", Sig: "retrybody:setup-error"}
	}
	defer ups[0].Stop()
	for _, h := range hostsOf(ups[0]) {
		if in.RealWire {
			d := &net.Dialer{Timeout: 2 * time.Second, Control: c04SmallBuf(syscall.SO_SNDBUF)}
			h.ReverseProxy.Transport = &http.Transport{DialContext: d.DialContext, DisableKeepAlives: true, ResponseHeaderTimeout: 10 * time.Second}
		} else {
			h.ReverseProxy.Transport = &c04RetryTransport{rec: rec}
		}
		h.ReverseProxy.FlushInterval = 0
	}
	body := c04BodyOf(in.BodyLen, in.Salt)
	req := httptest.NewRequest("POST", "http://site.test/up", io.NopCloser(bytes.NewReader(body)))
	req.RemoteAddr = "192.0.2.9:4711"
	if in.Chunked {
		req.ContentLength = -1
		req.TransferEncoding = []string{"chunked"}
	} else {
		req.ContentLength = int64(len(body))
	}
	p := proxy.Proxy{Next: handlerFunc(func(w http.ResponseWriter, r *http.Request) (int, error) { return 404, nil }), Upstreams: ups}
	w := httptest.NewRecorder()
	direct := ""
	var ret int
	func() {
		defer func() {
			if e := recover(); e != nil {
				direct = fmt.Sprint("panic in Proxy.ServeHTTP: ", e)
			}
		}()
		ret, _ = p.ServeHTTP(w, req)
	}()
	status := w.Code
	if ret != 0 {
		status = ret
	}
	rec.mu.Lock()
	atts := append([]c04RAtt(nil), rec.atts...)
	rec.mu.Unlock()
	var it []string
	midBody := false
	for _, a := range atts {
		it = append(it, cApp("Build_ratt", cZ(a.Asked), c04BObsTerm(a.Body), cZ(a.CL), cBool(a.Failed)))
		if a.Failed && a.Asked > 0 && int(a.Asked) < in.BodyLen {
			midBody = true
		}
	}
	mode := "scripted"
	if in.RealWire {
		mode = "wire"
	}
	framing := "content-length"
	if in.Chunked {
		framing = "chunked"
	}
	sig := "retrybody:" + mode
	if midBody {
		sig = "retrybody:" + mode + ":backend-died-mid-body:" + framing
	}
	return Result{Term: cApp("CRetryBody", cBool(in.RealWire), cN(uint64(in.Salt)), cN(uint64(in.BodyLen)), cBool(in.Chunked), cList(it), cN(uint64(status)), cN(uint64(ret))),
		Obs: map[string]interface{}{"attempts": atts, "status": status, "ret": ret}, Sig: sig, Direct: direct, Nontrivial: midBody,
		Class: fmt.Sprintf("retrybody:%s:%s:fails=%d", mode, framing, len(in.FailRead))}
}

func c04GenRetryBody(r *Rand, i int) *c04In {
	in := &c04In{Kind: "retrybody", Salt: r.Range(1, 200), Chunked: r.Bool(), Targets: make([]string, r.Range(2, 3))}
	lens := []int{1, 2, 48, 97, 599, 600, 601, 4095, 4096, 4097, 32767, 32768, 32769, 65536, 3*32768 + 7, 4 * 32768}
	in.BodyLen = lens[i%len(lens)]
	if r.Chance(25) {
		in.BodyLen = r.Range(1, 140000)
	}
	if i%8 == 7 {
		// the real transport: the body must be larger than what the (shrunk) socket buffers swallow
		in.RealWire = true
		in.BodyLen = c04PickInt(r, []int{256 << 10, 512<<10 + 1, 1 << 20})
	}
	n := in.BodyLen
	ks := []int{0, 1, n / 2, n - 1, n, n + 5, 4096, 32768, 32769, n / 3}
	if in.RealWire {
		ks = []int{1, 1000, 4096, 65536, n / 4, n / 2}
	}
	for f := r.Range(1, 2); f > 0; f-- {
		in.FailRead = append(in.FailRead, c04PickInt(r, ks))
	}
	if r.Chance(15) {
		in.FailRead = append(in.FailRead, c04PickInt(r, ks))
	}
	return in
}
