package main

// C15 — automatic HTTPS.  Drives the REAL code: Casketfile text -> casketfile.Parse ->
// httpContext.InspectServerBlocks (standardizeAddress, Normalize, caskettls.NewConfig) -> the real
// `bind` and `tls` directive setups -> markQualifiedForAutoHTTPS -> enableAutoHTTPS(.., false) ->
// makePlaintextRedirects (the pure stages of the tls parsing callback activateHTTPS, through the
// verif hook) -> httpContext.MakeServers; every synthesised redirect site is probed through its
// real middleware.  Separate case kinds exercise the redirect handler on many Host/request-target
// pairs (requests parsed by net/http's ReadRequest like the server does) and the string
// classifiers casket.IsLoopback / IsInternal / certmagic.SubjectQualifiesForPublicCert, plus the
// Go-stdlib models the Coq model builds on (net.ParseIP, net.SplitHostPort).

import (
	"bufio"
	"crypto/ecdsa"
	"crypto/elliptic"
	"crypto/rand"
	"crypto/x509"
	"crypto/x509/pkix"
	"encoding/json"
	"encoding/pem"
	"fmt"
	"io"
	"log"
	"math/big"
	"net"
	"net/http"
	"net/http/httptest"
	"os"
	"path/filepath"
	"strings"
	"sync"
	"time"

	"github.com/caddyserver/certmagic"
	"github.com/tmpim/casket"
	"github.com/tmpim/casket/casketfile"
	"github.com/tmpim/casket/caskethttp/httpserver"
	"github.com/tmpim/casket/caskettls"
)

type c15TLS struct {
	Arg        string `json:"arg"`           // a0 | a1 | a2
	Val        string `json:"val,omitempty"` // a1: email, "off", "self_signed"
	Load       bool   `json:"load,omitempty"`
	OnDemand   bool   `json:"ondemand,omitempty"`
	NoRedirect bool   `json:"noredirect,omitempty"`
}
type c15Site struct {
	Scheme string  `json:"scheme,omitempty"`
	Host   string  `json:"host"`
	Port   string  `json:"port,omitempty"`
	Path   string  `json:"path,omitempty"`
	Bind   string  `json:"bind,omitempty"`
	TLS    *c15TLS `json:"tls,omitempty"`
}
// c15Set: the process-level settings the pipeline reads (-port, -host, -http-port, -https-port)
type c15Set struct {
	Port  string `json:"port"`
	Host  string `json:"host,omitempty"`
	HTTP  int    `json:"http"`
	HTTPS int    `json:"https"`
}
type c15In struct {
	Kind  string    `json:"kind"` // pipe | act | redir | redire2e | class | ip | net | split
	Sites []c15Site `json:"sites,omitempty"`
	// pipe | act under non-default process settings (nil = defaults, the original case form)
	Set *c15Set `json:"set,omitempty"`
	// redir
	RPort  string `json:"rport,omitempty"`
	Method string `json:"method,omitempty"`
	Host   string `json:"hosthdr,omitempty"`
	Target string `json:"target,omitempty"`
	// redire2e: Sites = the declared sites, Proto "1.0" | "1.1", NoHost = no Host header line
	Proto  string `json:"proto,omitempty"`
	NoHost bool   `json:"nohost,omitempty"`
	// class / ip / net / split
	S     string `json:"s,omitempty"`
	Label string `json:"label,omitempty"`
}

var c15Once sync.Once
var c15Ctl *casket.Controller
var c15Uses int
var c15Cert, c15Key, c15Empty string

func c15Init() {
	c15Once.Do(func() {
		casket.Quiet = true
		log.SetOutput(io.Discard)
		dir, _ := filepath.Abs("c15_tmp")
		os.MkdirAll(filepath.Join(dir, "empty"), 0o755)
		c15Empty = filepath.Join(dir, "empty")
		c15Cert, c15Key = filepath.Join(dir, "cert.pem"), filepath.Join(dir, "key.pem")
		priv, _ := ecdsa.GenerateKey(elliptic.P256(), rand.Reader)
		tmpl := &x509.Certificate{SerialNumber: big.NewInt(1), Subject: pkix.Name{CommonName: "c15.invalid"},
			NotBefore: time.Now().Add(-time.Hour), NotAfter: time.Now().Add(24 * time.Hour),
			DNSNames: []string{"c15.invalid"}, KeyUsage: x509.KeyUsageDigitalSignature, ExtKeyUsage: []x509.ExtKeyUsage{x509.ExtKeyUsageServerAuth}}
		der, _ := x509.CreateCertificate(rand.Reader, tmpl, tmpl, &priv.PublicKey, priv)
		kb, _ := x509.MarshalECPrivateKey(priv)
		os.WriteFile(c15Cert, pem.EncodeToMemory(&pem.Block{Type: "CERTIFICATE", Bytes: der}), 0o644)
		os.WriteFile(c15Key, pem.EncodeToMemory(&pem.Block{Type: "EC PRIVATE KEY", Bytes: kb}), 0o600)
	})
}

// c15Context returns a (periodically renewed) controller whose http context is emptied.
func c15Context() *casket.Controller {
	if c15Ctl == nil || c15Uses > 400 {
		c15Ctl = casket.NewTestController("http", "")
		c15Uses = 0
	}
	c15Uses++
	httpserver.VerifC15ResetContext(c15Ctl.Context())
	return c15Ctl
}

func c15SiteKey(s c15Site) string {
	k := ""
	if s.Scheme != "" {
		k = s.Scheme + "://"
	}
	k += s.Host
	if s.Port != "" {
		k += ":" + s.Port
	}
	return k + s.Path
}

func c15Block(s c15Site) string { return c15BlockX(s, "") }

// c15BlockX: the site's server block; extra = additional directive lines (the act cases' probe)
func c15BlockX(s c15Site, extra string) string {
	var sb strings.Builder
	sb.WriteString(c15SiteKey(s) + " {\n")
	if s.Bind != "" {
		sb.WriteString("  bind " + s.Bind + "\n")
	}
	if t := s.TLS; t != nil {
		line := "  tls"
		switch t.Arg {
		case "a1":
			line += " " + t.Val
		case "a2":
			line += " " + c15Cert + " " + c15Key
		}
		var sub []string
		if t.Load {
			sub = append(sub, "    load "+c15Empty)
		}
		if t.OnDemand {
			sub = append(sub, "    ask http://localhost:9/ask")
		}
		if t.NoRedirect {
			sub = append(sub, "    no_redirect")
		}
		if len(sub) > 0 {
			line += " {\n" + strings.Join(sub, "\n") + "\n  }"
		}
		sb.WriteString(line + "\n")
	}
	sb.WriteString(extra)
	sb.WriteString("}\n")
	return sb.String()
}

func c15TLSTerm(t *c15TLS) string {
	if t == nil {
		return "TAbsent"
	}
	a := "A0"
	switch t.Arg {
	case "a1":
		a = cApp("A1", cStr(t.Val))
	case "a2":
		a = "A2"
	}
	return cApp("TDir", a, cBool(t.Load), cBool(t.OnDemand), cBool(t.NoRedirect))
}

type c15Obs struct {
	Scheme, Host, Port, Listen                              string
	Enabled, Managed, Manual, SelfSigned, NoRedirect, OnDem bool
	Email                                                   string
	Redir                                                   *string // redirect target port of a synthesised site
}

func c15Observe(cfgs []*httpserver.SiteConfig, ndecl int) ([]c15Obs, string) {
	var out []c15Obs
	direct := ""
	for i, s := range cfgs {
		o := c15Obs{Scheme: s.Addr.Scheme, Host: s.Addr.Host, Port: s.Addr.Port, Listen: s.ListenHost,
			Enabled: s.TLS.Enabled, Managed: s.TLS.Managed, Manual: s.TLS.Manual, SelfSigned: s.TLS.SelfSigned,
			NoRedirect: s.TLS.NoRedirect, OnDem: s.TLS.Manager != nil && s.TLS.Manager.OnDemand != nil, Email: s.TLS.ACMEEmail}
		if i >= ndecl {
			// synthesised: probe its middleware for the port it redirects to
			p := "?"
			if mids := s.Middleware(); len(mids) == 1 {
				rec := httptest.NewRecorder()
				req := httptest.NewRequest("GET", "http://probe.invalid/", nil)
				mids[0](nil).ServeHTTP(rec, req)
				loc := rec.Header().Get("Location")
				if rec.Code == 301 && strings.HasPrefix(loc, "https://probe.invalid") && strings.HasSuffix(loc, "/") {
					p = strings.TrimPrefix(strings.TrimSuffix(strings.TrimPrefix(loc, "https://probe.invalid"), "/"), ":")
				} else {
					direct = fmt.Sprintf("synthesised site %s answered %d Location=%q to the probe", s.Addr.Host, rec.Code, loc)
				}
			} else {
				direct = fmt.Sprintf("synthesised site %s has %d middlewares", s.Addr.Host, len(s.Middleware()))
			}
			o.Redir = &p
		}
		out = append(out, o)
	}
	return out, direct
}

func c15SiteTerm(o c15Obs) string {
	r := "None"
	if o.Redir != nil {
		r = cApp("Some", cStr(*o.Redir))
	}
	return cApp("Build_site", cStr(o.Scheme), cStr(o.Host), cStr(o.Port), cStr(o.Listen),
		cApp("Build_tlsf", cBool(o.Enabled), cBool(o.Managed), cBool(o.Manual), cBool(o.SelfSigned), cBool(o.NoRedirect), cBool(o.OnDem), cStr(o.Email)), r)
}
func c15SitesTerm(obs []c15Obs) string {
	var it []string
	for _, o := range obs {
		it = append(it, c15SiteTerm(o))
	}
	return cList(it)
}

func c15DeclHTTP(s c15Site) bool {
	return strings.EqualFold(s.Scheme, "http") || s.Port == "80" || s.Port == "http"
}
func c15TLSOn(t *c15TLS) bool { return t != nil && !(t.Arg == "a1" && t.Val == "off") }

// c15PipeSig: the class of a site set.  Two classes are named: the one in which the unchanged
// tree still violates the property (F-C15-2, open: see known findings) and the one of F-C15-1
// (fixed in casket; the class keeps its name so that a regression is reported under it).  The open
// class is tested first: a site set that belongs to both is reported under the open finding.
// Everything else is "pipe".
func c15PipeSig(sites []c15Site, obsA []c15Obs) string { return c15PipeSigS(sites, obsA, "80", "443") }

// c15PipeSigS: the same classes with the configured HTTP / HTTPS ports
func c15PipeSigS(sites []c15Site, obsA []c15Obs, hp, hsp string) string {
	// a TLS site on a port other than 443 whose same-host sibling on :443 is itself not eligible for a
	// redirect (TLS not enabled there, or no_redirect): judged on the site list after the callback stages
	for i := range sites {
		s := obsA[i]
		if !s.Enabled || s.NoRedirect || s.Port == hsp || s.Port == hp || s.Scheme == "http" {
			continue
		}
		for j := range sites {
			o := obsA[j]
			if i != j && o.Host == s.Host && o.Port == hsp && (!o.Enabled || o.NoRedirect) {
				return "pipe:alt-port-tls-site-with-ineligible-443-sibling"
			}
		}
	}
	for _, s := range sites {
		if c15DeclHTTP(s) && c15TLSOn(s.TLS) && !s.TLS.NoRedirect {
			return "pipe:tls-directive-on-explicit-http-site"
		}
	}
	return "pipe"
}

// the act cases' probe directive: last in casket's directive order, so its setup runs after the tls
// parsing callback (the REAL activateHTTPS); it records the context and the site list at that point
// and registers a startup callback that aborts casket.Start after MakeServers, before any listener
// is opened.
var c15ProbeOnce sync.Once
var c15ProbeCtx casket.Context
var c15ProbeObs []c15Obs
var c15ProbeDirect string
var c15ProbeNDecl int
var c15ProbeRan, c15ProbeStartupRan bool
var errC15Stop = fmt.Errorf("c15probe: stop before listening")

func c15ProbeInit() {
	c15ProbeOnce.Do(func() {
		old := os.Stdout
		if devnull, err := os.OpenFile(os.DevNull, os.O_WRONLY, 0); err == nil {
			os.Stdout = devnull
			defer func() { os.Stdout = old; devnull.Close() }()
		}
		httpserver.RegisterDevDirective("c15probe", "")
		casket.RegisterPlugin("c15probe", casket.Plugin{ServerType: "http", Action: func(c *casket.Controller) error {
			for c.Next() {
			}
			if c15ProbeRan {
				return nil
			}
			c15ProbeRan = true
			c15ProbeCtx = c.Context()
			c15ProbeObs, c15ProbeDirect = c15Observe(httpserver.VerifC15SiteConfigs(c15ProbeCtx), c15ProbeNDecl)
			c.OnStartup(func() error { c15ProbeStartupRan = true; return errC15Stop })
			return nil
		}})
	})
}

func c15RunPipe(in *c15In) Result { return c15RunPipeX(in, false) }

// c15RunPipeX: real = false: the three pure stages of activateHTTPS through the hook (pipe cases);
// real = true (act cases): the same declared sites as Casketfile text through casket.Start, i.e. the
// REAL activateHTTPS as the tls parsing callback and the real MakeServers; only configurations in
// which no site needs a certificate obtained at startup (no ACME, no network) are run that way.
func c15RunPipeX(in *c15In, real bool) Result {
	c15Init()
	set := in.Set
	hp, hsp := "80", "443"
	if set != nil {
		oP, oH, oHP, oHS := httpserver.Port, httpserver.Host, certmagic.HTTPPort, certmagic.HTTPSPort
		httpserver.Port, httpserver.Host, certmagic.HTTPPort, certmagic.HTTPSPort = set.Port, set.Host, set.HTTP, set.HTTPS
		defer func() { httpserver.Port, httpserver.Host, certmagic.HTTPPort, certmagic.HTTPSPort = oP, oH, oHP, oHS }()
		hp, hsp = fmt.Sprint(set.HTTP), fmt.Sprint(set.HTTPS)
	}
	sites := append([]c15Site(nil), in.Sites...)
	for _, s := range sites {
		if c15SiteKey(s) == "" {
			return Result{Term: "CSkip", Obs: "empty site key", Sig: "pipe:empty-key", Class: "pipe:empty-key"}
		}
	}
	parse := func(ss []c15Site) (*casket.Controller, []casketfile.ServerBlock, error) {
		c := c15Context()
		var sb strings.Builder
		for _, s := range ss {
			sb.WriteString(c15Block(s))
		}
		blocks, err := casketfile.Parse("Testfile", strings.NewReader(sb.String()), []string{"bind", "tls"})
		if err != nil {
			return c, nil, fmt.Errorf("parse: %v", err)
		}
		blocks, err = c.Context().InspectServerBlocks("Testfile", blocks)
		return c, blocks, err
	}
	// 1. each address alone: a rejected declaration becomes an address-error case
	for _, s := range sites {
		if _, _, err := parse([]c15Site{{Scheme: s.Scheme, Host: s.Host, Port: s.Port, Path: s.Path}}); err != nil {
			if strings.Contains(err.Error(), "violate convention") && set != nil {
				return Result{Term: "CSkip", Obs: "address rejected: " + err.Error(), Sig: "pipes:addr-error", Class: "pipes:addr-error"}
			}
			if strings.Contains(err.Error(), "violate convention") {
				return Result{Term: cApp("CAddrErr", cStr(s.Scheme), cStr(s.Port)), Obs: "address rejected: " + err.Error(),
					Sig: "pipe:addr-error", Class: "pipe:addr-error"}
			}
			return Result{Term: "CSkip", Obs: "address not usable: " + err.Error(), Sig: "pipe:addr-unusable", Class: "pipe:addr-unusable"}
		}
	}
	// 2. the whole set; duplicates (same key or same effective address) drop the later site
	var c *casket.Controller
	var blocks []casketfile.ServerBlock
	for {
		var err error
		c, blocks, err = parse(sites)
		if err == nil {
			break
		}
		if !strings.Contains(err.Error(), "duplicate") || len(sites) <= 1 {
			return Result{Term: "CSkip", Obs: "inspect error: " + err.Error(), Sig: "pipe:inspect-error", Class: "pipe:inspect-error"}
		}
		// find the shortest prefix that fails and drop its last element
		k := len(sites)
		for n := 2; n < len(sites); n++ {
			if _, _, e := parse(sites[:n]); e != nil {
				k = n
				break
			}
		}
		sites = append(append([]c15Site(nil), sites[:k-1]...), sites[k:]...)
	}
	ctx := c.Context()
	// 3. directives in casket's order: bind, then tls; each key of each block
	for _, dir := range []string{"bind", "tls"} {
		action, err := casket.DirectiveAction("http", dir)
		if err != nil {
			panic(err)
		}
		for bi, sb := range blocks {
			toks, ok := sb.Tokens[dir]
			if !ok {
				continue
			}
			for _, key := range sb.Keys {
				c.Key = key
				c.Dispenser = casketfile.NewDispenserTokens("Testfile", toks)
				if err := action(c); err != nil {
					if dir == "tls" && !strings.Contains(err.Error(), "argument count") {
						// e.g. self_signed for an empty host name: certificate generation fails
						return Result{Term: "CSkip", Obs: "tls setup error: " + err.Error(), Sig: "pipe:tls-setup-other-error", Class: "pipe:tls-setup-other-error"}
					}
					if dir == "tls" {
						return Result{Term: cApp("CSetupErr", c15TLSTerm(sites[bi].TLS)), Obs: "tls setup error: " + err.Error(),
							Sig: "pipe:tls-setup-error", Class: "pipe:tls-setup-error"}
					}
					return Result{Term: "CSkip", Obs: "bind setup error: " + err.Error(), Sig: "pipe:bind-error", Class: "pipe:bind-error"}
				}
			}
		}
	}
	cfgs := httpserver.VerifC15SiteConfigs(ctx)
	if len(cfgs) != len(sites) {
		return Result{Term: "CSkip", Obs: "site count mismatch", Direct: fmt.Sprintf("%d configs for %d declared sites", len(cfgs), len(sites)), Sig: "pipe:count", Class: "pipe:count"}
	}
	// declared sites as the model's input: the written scheme/port, the parsed address, bind, tls
	var ds []string
	runMS := true
	for i, s := range sites {
		a := cfgs[i].Addr
		ds = append(ds, cApp("Build_dsite", cStr(s.Scheme), cStr(s.Port), cStr(a.Scheme), cStr(a.Host), cStr(a.Port),
			cStr(cfgs[i].ListenHost), c15TLSTerm(s.TLS)))
		b := cfgs[i].ListenHost
		if !(b == "" || net.ParseIP(b) != nil || strings.EqualFold(b, "localhost")) {
			runMS = false // MakeServers would need DNS for this listener
		}
	}
	// 4. the pure stages of activateHTTPS
	httpserver.VerifC15MarkQualified(cfgs)
	if err := httpserver.VerifC15EnableAutoHTTPS(cfgs, false); err != nil {
		return Result{Term: "CSkip", Obs: "enableAutoHTTPS: " + err.Error(), Direct: "enableAutoHTTPS failed: " + err.Error(), Sig: "pipe:enable-error", Class: "pipe:enable-error"}
	}
	cfgs = httpserver.VerifC15MakePlaintextRedirects(cfgs)
	httpserver.VerifC15SetSiteConfigs(ctx, cfgs)
	obsA, direct := c15Observe(cfgs, len(sites))
	obsBTerm := "None"
	var obsB []c15Obs
	var msErr error
	var srv []string
	if real {
		for _, o := range obsA[:len(sites)] {
			if o.Managed && !o.OnDem {
				return Result{Term: "CSkip", Obs: "a site needs a certificate obtained at startup (ACME): not run through casket.Start", Sig: "act:needs-acme", Class: "act:needs-acme"}
			}
		}
		if !runMS {
			return Result{Term: "CSkip", Obs: "a listener host would need DNS", Sig: "act:needs-dns", Class: "act:needs-dns"}
		}
		c15ProbeInit()
		var sb strings.Builder
		for i, s := range sites {
			extra := ""
			if i == 0 {
				extra = "  c15probe\n"
			}
			sb.WriteString(c15BlockX(s, extra))
		}
		c15ProbeRan, c15ProbeStartupRan, c15ProbeCtx, c15ProbeObs, c15ProbeDirect, c15ProbeNDecl = false, false, nil, nil, "", len(sites)
		inst, serr := casket.Start(casket.CasketfileInput{Contents: []byte(sb.String()), Filepath: "Testfile", ServerTypeName: "http"})
		if serr == nil {
			inst.Stop()
			panic("c15 act: casket.Start went on to listen")
		}
		if !c15ProbeRan {
			return Result{Term: "CSkip", Obs: "casket.Start failed before the probe: " + serr.Error(), Direct: "casket.Start rejects a configuration the stages accept: " + serr.Error(), Sig: "act:start-error", Class: "act:start-error"}
		}
		if len(c15ProbeObs) < len(sites) {
			return Result{Term: "CSkip", Obs: "site count", Direct: fmt.Sprintf("casket.Start built %d sites for %d declared", len(c15ProbeObs), len(sites)), Sig: "act:count", Class: "act:count"}
		}
		obsA, direct = c15ProbeObs, c15ProbeDirect
		if serr != errC15Stop && c15ProbeStartupRan {
			panic("c15 act: unexpected error after startup callback: " + serr.Error())
		}
		if !c15ProbeStartupRan {
			msErr = serr // MakeServers' configuration error (after the per-site loop)
		}
		var d2 string
		obsB, d2 = c15Observe(httpserver.VerifC15SiteConfigs(c15ProbeCtx), len(sites))
		if direct == "" {
			direct = d2
		}
		obsBTerm = cApp("Some", c15SitesTerm(obsB))
		cfgs = httpserver.VerifC15SiteConfigs(c15ProbeCtx)
	} else if runMS {
		// configuration errors of MakeServers (e.g. TLS and non-TLS sites on one listener) come after
		// the per-site loop and the default-port pass, which is all this property observes
		var servers []casket.Server
		servers, msErr = ctx.MakeServers()
		for _, sv := range servers {
			if h, ok := sv.(*httpserver.Server); ok {
				_, prt, _ := net.SplitHostPort(h.Address())
				srv = append(srv, cPair(cStr(prt), cBool(h.Server.TLSConfig != nil)))
			}
		}
		var d2 string
		obsB, d2 = c15Observe(httpserver.VerifC15SiteConfigs(ctx), len(sites))
		if direct == "" {
			direct = d2
		}
		obsBTerm = cApp("Some", c15SitesTerm(obsB))
	}
	nt := false
	nsyn := len(cfgs) - len(sites)
	for _, o := range obsA[:len(sites)] {
		if o.Managed || o.Enabled {
			nt = true
		}
	}
	if set != nil {
		sig := c15PipeSigS(sites, obsA, hp, hsp)
		kind := "pipes"
		if real {
			kind = "acts"
		}
		// F-C15-4 (open): with a non-default -http-port, a site whose effective port IS that HTTP port is
		// still marked Managed (QualifiesForManagedTLS compares the port with the literal "80") and
		// enableAutoHTTPS gives it the scheme https; MakeServers then disables its TLS.  Tested first.
		f4 := false
		for _, o := range obsA[:len(sites)] {
			if hp != "80" && o.Port == hp && o.Managed {
				f4 = true
			}
		}
		if f4 {
			sig = kind + ":managed-site-on-nondefault-http-port"
		} else if sig == "pipe" {
			sig = kind
		} else {
			sig = kind + strings.TrimPrefix(sig, "pipe")
		}
		var wh []string
		for _, s := range sites {
			wh = append(wh, cStr(s.Host))
		}
		cls := fmt.Sprintf("%s:port=%s:http=%s:https=%s:host=%v", sig, set.Port, hp, hsp, set.Host != "")
		st := cApp("Build_settings", cStr(set.Port), cStr(set.Host), cStr(hp), cStr(hsp))
		return Result{Term: cApp("CPipeS", st, cList(wh), cList(ds), c15SitesTerm(obsA), obsBTerm, cList(srv)),
			Obs:        map[string]interface{}{"after_callback": obsA, "after_MakeServers": obsB, "MakeServers_error": fmt.Sprint(msErr), "servers_port_tls": srv},
			Sig:        sig, Nontrivial: nt, Direct: direct, Class: cls}
	}
	sig := c15PipeSig(sites, obsA)
	cls := fmt.Sprintf("pipe:sites%d:redir%d", len(sites), nsyn)
	if sig != "pipe" {
		cls = sig
	} else if real {
		sig, cls = "act", fmt.Sprintf("act:sites%d:redir%d", len(sites), nsyn)
	}
	return Result{Term: cApp("CPipe", cList(ds), c15SitesTerm(obsA), obsBTerm),
		Obs:        map[string]interface{}{"after_callback": obsA, "after_MakeServers": obsB, "MakeServers_error": fmt.Sprint(msErr)},
		Sig:        sig, Nontrivial: nt, Direct: direct, Class: cls}
}

func c15RunRedir(in *c15In) Result {
	c15Init()
	raw := in.Method + " " + in.Target + " HTTP/1.1\r\nHost: " + in.Host + "\r\n\r\n"
	req, err := http.ReadRequest(bufio.NewReader(strings.NewReader(raw)))
	if err != nil {
		return Result{Term: "CSkip", Obs: "net/http rejects the request: " + err.Error(), Sig: "redir:bad-request", Class: "redir:bad-request"}
	}
	site := httpserver.VerifC15RedirPlaintextHost(&httpserver.SiteConfig{
		Addr: httpserver.Address{Host: "c15.invalid", Port: in.RPort}, TLS: &caskettls.Config{}})
	mids := site.Middleware()
	if len(mids) != 1 {
		return Result{Term: "CSkip", Direct: "redirect site without middleware", Sig: "redir", Class: "redir"}
	}
	rec := httptest.NewRecorder()
	hostHdr, uri := req.Host, req.URL.RequestURI()
	status, herr := mids[0](nil).ServeHTTP(rec, req)
	direct := ""
	if status != 0 || herr != nil {
		direct = fmt.Sprintf("redirect handler returned (%d, %v)", status, herr)
	}
	loc := rec.Header().Get("Location")
	sig := "redir"
	if strings.HasPrefix(in.Host, "[") {
		sig = "redir:bracketed-ipv6-host"
	}
	return Result{Term: cApp("CRedir", cStr(in.RPort), cStr(hostHdr), cStr(uri), cStr(in.Host), cStr(in.Target), cN(uint64(rec.Code)), cStr(loc), cStr(rec.Header().Get("Connection"))),
		Obs: map[string]interface{}{"status": rec.Code, "location": loc, "connection": rec.Header().Get("Connection")}, Sig: sig, Direct: direct,
		Nontrivial: true, Class: sig + ":rport=" + in.RPort}
}

// c15RunRedirE2E: end to end on a synthesised site.  The declared sites go through the same real
// stages as a pipe case (parser, InspectServerBlocks, bind/tls setups, markQualified, enableAutoHTTPS,
// makePlaintextRedirects, MakeServers); the *httpserver.Server MakeServers built for the HTTP port is
// then served on a loopback listener and one raw request is written to a real TCP connection.  The
// observation is the raw response: status, Location, Connection header, and whether the server
// closed the connection afterwards.  r.Host and the request URI the model starts from are what
// http.ReadRequest (the function net/http's server uses) makes of the same bytes.
func c15RunRedirE2E(in *c15In) Result {
	c15Init()
	skip := func(why, cls string, direct string) Result {
		return Result{Term: "CSkip", Obs: why, Direct: direct, Sig: "redire2e:" + cls, Class: "redire2e:" + cls}
	}
	c := c15Context()
	var sb strings.Builder
	for _, s := range in.Sites {
		sb.WriteString(c15Block(s))
	}
	blocks, err := casketfile.Parse("Testfile", strings.NewReader(sb.String()), []string{"bind", "tls"})
	if err == nil {
		blocks, err = c.Context().InspectServerBlocks("Testfile", blocks)
	}
	if err != nil {
		return skip("config not usable: "+err.Error(), "config-error", "")
	}
	ctx := c.Context()
	for _, dir := range []string{"bind", "tls"} {
		action, _ := casket.DirectiveAction("http", dir)
		for _, b := range blocks {
			toks, ok := b.Tokens[dir]
			if !ok {
				continue
			}
			for _, key := range b.Keys {
				c.Key = key
				c.Dispenser = casketfile.NewDispenserTokens("Testfile", toks)
				if err := action(c); err != nil {
					return skip("setup error: "+err.Error(), "config-error", "")
				}
			}
		}
	}
	cfgs := httpserver.VerifC15SiteConfigs(ctx)
	ndecl := len(cfgs)
	httpserver.VerifC15MarkQualified(cfgs)
	if err := httpserver.VerifC15EnableAutoHTTPS(cfgs, false); err != nil {
		return skip("enableAutoHTTPS: "+err.Error(), "config-error", "")
	}
	cfgs = httpserver.VerifC15MakePlaintextRedirects(cfgs)
	httpserver.VerifC15SetSiteConfigs(ctx, cfgs)
	if len(cfgs) < ndecl+1 {
		return skip(fmt.Sprintf("%d sites synthesised", len(cfgs)-ndecl), "no-single-redirect", "")
	}
	obs, direct := c15Observe(cfgs, ndecl)
	rport := *obs[ndecl].Redir
	// several HTTPS sites of one host (declared with different paths) each get a redirect site: they
	// must all name the same host and redirect to the same port, otherwise the case is not judged
	for _, o := range obs[ndecl+1:] {
		if o.Host != obs[ndecl].Host || *o.Redir != rport {
			return skip(fmt.Sprintf("%d different sites synthesised", len(cfgs)-ndecl), "no-single-redirect", "")
		}
	}
	servers, err := ctx.MakeServers()
	if err != nil {
		return skip("MakeServers: "+err.Error(), "config-error", "")
	}
	var hs *httpserver.Server
	for _, sv := range servers {
		if h, ok := sv.(*httpserver.Server); ok && strings.HasSuffix(h.Address(), ":80") {
			hs = h
		}
	}
	if hs == nil {
		return skip("no server for the HTTP port", "no-http-server", "MakeServers built no server for :80 although a redirect site exists")
	}
	proto := "HTTP/1.1"
	if in.Proto == "1.0" {
		proto = "HTTP/1.0"
	}
	raw := in.Method + " " + in.Target + " " + proto + "\r\n"
	if !in.NoHost {
		raw += "Host: " + in.Host + "\r\n"
	}
	raw += "\r\n"
	req, err := http.ReadRequest(bufio.NewReader(strings.NewReader(raw)))
	if err != nil {
		return skip("net/http rejects the request: "+err.Error(), "bad-request", "")
	}
	hostHdr, uri := req.Host, req.URL.RequestURI()
	if in.Target == "*" {
		// asterisk-form: net/http answers "OPTIONS *" itself, and no vhost path matches "*"
		return skip("asterisk-form request target", "asterisk-form", "")
	}
	// which site the request is for: the vhost lookup uses the host name without port and brackets,
	// lower-cased (an absolute-URI target overrides the Host header); requests for another name are
	// not this site's
	reqName := hostHdr
	if h, _, err := net.SplitHostPort(hostHdr); err == nil {
		reqName = h
	}
	reqName = strings.ToLower(strings.Trim(reqName, "[]"))
	if sh := cfgs[ndecl].Addr.Host; sh != "" && reqName != sh {
		return skip("request names "+reqName+", the redirect site is "+sh, "other-host", "")
	}
	ln, err := net.Listen("tcp", "127.0.0.1:0")
	if err != nil {
		panic(err)
	}
	done := make(chan struct{})
	go func() { hs.Serve(ln); close(done) }()
	defer func() { hs.Server.Close(); ln.Close(); <-done }()
	conn, err := net.Dial("tcp", ln.Addr().String())
	if err != nil {
		panic(err)
	}
	defer conn.Close()
	conn.SetDeadline(time.Now().Add(5 * time.Second))
	if _, err := conn.Write([]byte(raw)); err != nil {
		return skip("write: "+err.Error(), "io", "")
	}
	var rawResp strings.Builder
	br := bufio.NewReader(io.TeeReader(conn, &rawResp))
	resp, err := http.ReadResponse(br, req)
	if err != nil {
		return skip("no response: "+err.Error(), "io", "the HTTP server gave no parsable response: "+err.Error())
	}
	io.Copy(io.Discard, resp.Body)
	resp.Body.Close()
	// did the server close the connection?  (Connection: close must be honoured by net/http)
	conn.SetReadDeadline(time.Now().Add(150 * time.Millisecond))
	_, rerr := br.ReadByte()
	closed := rerr == io.EOF
	loc := resp.Header.Get("Location")
	// http.ReadResponse strips "Connection: close" from the header map: read it off the raw bytes
	connHdr := ""
	if head, _, ok := strings.Cut(rawResp.String(), "\r\n\r\n"); ok {
		for _, line := range strings.Split(head, "\r\n")[1:] {
			if k, v, ok := strings.Cut(line, ":"); ok && strings.EqualFold(strings.TrimSpace(k), "Connection") {
				connHdr = strings.TrimSpace(v)
			}
		}
	}
	if resp.StatusCode == 404 && in.NoHost {
		// no Host header and no catch-all site: the vhost lookup finds no site, nothing is redirected
		return skip("no Host header, no catch-all site: 404 from the vhost lookup", "no-host-no-site", "")
	}
	if resp.StatusCode == 400 && loc == "" {
		// net/http's server refused the request before any handler ran (e.g. HTTP/1.1 without Host)
		return skip("net/http answered 400 itself", "bad-request", "")
	}
	if direct == "" && connHdr == "close" && !closed {
		direct = "the response says Connection: close but the server kept the connection open"
	}
	sig := "redire2e"
	if strings.HasPrefix(in.Host, "[") {
		sig = "redire2e:bracketed-ipv6-host"
	}
	withPath := false
	for _, s := range in.Sites {
		if s.Path != "" {
			withPath = true
		}
	}
	if withPath && sig == "redire2e" {
		sig = "redire2e:https-site-declared-with-path"
	}
	hostSent := in.Host
	if in.NoHost {
		hostSent = ""
	}
	return Result{Term: cApp("CRedir", cStr(rport), cStr(hostHdr), cStr(uri), cStr(hostSent), cStr(in.Target), cN(uint64(resp.StatusCode)), cStr(loc), cStr(connHdr)),
		Obs: map[string]interface{}{"status": resp.StatusCode, "location": loc, "connection": connHdr, "closed_by_server": closed, "redirect_port": rport},
		Sig: sig, Direct: direct, Nontrivial: resp.StatusCode == 301, Class: fmt.Sprintf("%s:proto=%s:nohost=%v:rport=%s", sig, in.Proto, in.NoHost, rport)}
}

// c15PublicCert: certmagic.SubjectQualifiesForPublicCert(host) as caskettls.QualifiesForManagedTLS
// sees it: a fresh site config (no tls directive, no port) whose host is set to the string.
func c15PublicCert(host string) bool {
	c15Init()
	c := c15Context()
	blocks, err := casketfile.Parse("Testfile", strings.NewReader("c15.invalid:8080 {\n}\n"), []string{"bind", "tls"})
	if err == nil {
		_, err = c.Context().InspectServerBlocks("Testfile", blocks)
	}
	cfgs := httpserver.VerifC15SiteConfigs(c.Context())
	if err != nil || len(cfgs) != 1 {
		panic(fmt.Sprint("c15PublicCert: ", err, len(cfgs)))
	}
	cfgs[0].Addr.Host, cfgs[0].Addr.Port = host, ""
	return caskettls.QualifiesForManagedTLS(cfgs[0])
}

var c15Labels = map[string]string{"loopname": "LLoopName", "loopv4": "LLoopV4", "loopv6": "LLoopV6", "privv4": "LPrivV4",
	"pubv4": "LPubV4", "ulav6": "LUlaV6", "pubv6": "LPubV6", "privtld": "LPrivTld", "certinternal": "LCertInternal",
	"public": "LPublic", "empty": "LEmpty", "badchars": "LBadChars", "wildok": "LWildOk", "wildbad": "LWildBad", "any": "LAny"}

func c15Run(in0 interface{}) Result {
	in := in0.(*c15In)
	switch in.Kind {
	case "pipe":
		return c15RunPipe(in)
	case "act":
		return c15RunPipeX(in, true)
	case "redir":
		return c15RunRedir(in)
	case "redire2e":
		return c15RunRedirE2E(in)
	case "net":
		ip := net.ParseIP(in.S)
		var obs []string
		if ip != nil {
			for _, cidr := range []string{"10.0.0.0/8", "172.16.0.0/12", "192.168.0.0/16", "fc00::/7"} {
				_, n, err := net.ParseCIDR(cidr)
				if err != nil {
					panic(err)
				}
				obs = append(obs, cBool(n.Contains(ip)))
			}
		}
		return Result{Term: cApp("CNet", cStr(in.S), cList(obs)), Obs: obs, Sig: "net", Nontrivial: ip != nil, Class: "net"}
	case "class":
		l, ok := c15Labels[in.Label]
		if !ok {
			l = "LAny"
		}
		lo, it, pu := casket.IsLoopback(in.S), casket.IsInternal(in.S), c15PublicCert(in.S)
		return Result{Term: cApp("CClass", l, cStr(in.S), cBool(lo), cBool(it), cBool(pu)),
			Obs: map[string]bool{"loopback": lo, "internal": it, "public_cert": pu}, Sig: "class:" + in.Label,
			Nontrivial: lo || it || pu, Class: "class:" + in.Label}
	case "ip":
		ip := net.ParseIP(in.S)
		t := "None"
		if ip != nil {
			var bs []uint64
			for _, b := range ip.To16() {
				bs = append(bs, uint64(b))
			}
			t = cApp("Some", cNList(bs))
		}
		return Result{Term: cApp("CIP", cStr(in.S), t), Obs: fmt.Sprint(ip), Sig: "ip", Nontrivial: ip != nil, Class: "ip"}
	case "split":
		h, p, err := net.SplitHostPort(in.S)
		t := "None"
		if err == nil {
			t = cApp("Some", cPair(cStr(h), cStr(p)))
		}
		return Result{Term: cApp("CSplit", cStr(in.S), t), Obs: []interface{}{h, p, err == nil}, Sig: "split", Nontrivial: err == nil, Class: "split"}
	}
	panic("bad kind " + in.Kind)
}

// ---------------------------------------------------------------- generators

var c15HostsByLabel = map[string][]string{
	"loopname":     {"localhost", "a.localhost", "x.y.localhost"},
	"loopv4":       {"127.0.0.1", "127.0.0.53", "127.255.255.254", "127.1.2.3"},
	"loopv6":       {"::1", "[::1]"},
	"privv4":       {"10.0.0.0", "10.0.0.1", "10.255.255.255", "172.16.0.0", "172.16.0.1", "172.20.1.1", "172.31.255.255", "192.168.0.0", "192.168.1.1", "192.168.255.255", "::ffff:10.0.0.1", "::ffff:192.168.0.1"},
	"pubv4":        {"9.255.255.255", "11.0.0.0", "172.15.255.255", "172.32.0.0", "192.167.255.255", "192.169.0.0", "8.8.8.8", "1.2.3.4", "126.255.255.255", "128.0.0.1", "0.0.0.0", "255.255.255.255", "100.64.0.1", "169.254.1.1", "172.160.0.1", "192.16.8.1", "110.0.0.1"},
	"ulav6":        {"fc00::", "fc00::1", "fd00::1", "fdff:ffff:ffff:ffff:ffff:ffff:ffff:ffff", "[fd12:3456::1]", "FD00::1"},
	"pubv6":        {"2001:db8::1", "fe80::1", "fbff::1", "fe00::1", "::", "::2", "2606:4700:4700::1111", "1:2:3:4:5:6:7:8", "::ffff:8.8.8.8", "::10.0.0.1", "64:ff9b::1.2.3.4"},
	"privtld":      {"a.example", "b.invalid", "c.test", "d.local", "x.y.test", "www.corp.local"},
	"certinternal": {"x.home.arpa", "a.local", "b.localhost", "localhost"},
	"public":       {"example.com", "www.example.org", "a-b.example.net", "xn--mnchen-3ya.de", "example.localhost.com", "local.example.com", "test.example.org", "example.locals", "testexample", "example", "localhost.example.com", "mylocalhost", "notlocal", "10.example.com", "1270.example.com", "a.b.c.d.e.f", "example.com.test.io", "home.arpa.example.com", "x.tests", "invalid.org"},
	"empty":        {""},
	"badchars":     {"exa mple.com", "a@b.com", "a+b.com", ".example.com", "example.com.", "a=b.org", "ex[ample].com", "a;b.com", "a'b.com", "ex\tample.com", "a|b.com", "a&b.com", "a!b.com", "a#b.com", "a$b.com", "a%b.com", "a^b.com", "a(b).com", "a{b}.com", "a<b>.com", "a\"b.com", "a\\b.com", " ", "\t\n"},
	"wildok":       {"*.example.com", "*.a.b.c.example.org"},
	"wildbad":      {"*.com", "*", "a.*.com", "*.*.example.com", "**.example.com", "*a.example.com", "a*.example.com", "*.", "example.*", "*.example.*"},
}

var c15LabelOrder = []string{"loopname", "loopv4", "loopv6", "privv4", "pubv4", "ulav6", "pubv6", "privtld", "certinternal", "public", "empty", "badchars", "wildok", "wildbad"}

// hosts usable as site addresses (written form) with the class they belong to
var c15SiteHosts = []string{
	"example.com", "example.com", "example.com", "www.example.org", "a.example.net", "b.example.net",
	"EXAMPLE.com", "*.example.com", "*.com", "localhost", "a.localhost", "127.0.0.1", "127.1.2.3", "[::1]", "::1",
	"10.0.0.1", "172.16.0.1", "172.31.255.255", "172.32.0.1", "192.168.1.1", "192.169.0.1", "8.8.8.8", "1.2.3.4",
	"[fd00::1]", "[2001:db8::1]", "a.test", "b.local", "c.example", "d.invalid", "x.home.arpa", "", "",
	"test.example.org", "local.example.com", "example.locals", "10.example.com", "127.example.com", "intranet",
	"0.0.0.0", "011.0.0.1", "1.2.3", "256.1.1.1", "foo_bar.example.com",
}
var c15Binds = []string{"127.0.0.1", "127.0.0.2", "localhost", "::1", "10.0.0.5", "10.255.255.255", "11.0.0.1", "9.255.255.255",
	"172.16.0.1", "172.15.255.255", "172.31.255.255", "172.32.0.0", "192.168.0.1", "192.167.255.255", "192.169.0.0", "8.8.8.8", "0.0.0.0",
	"fd00::1", "fc00::1", "fbff::1", "fe80::1", "2001:db8::1", "::", "::ffff:10.0.0.1", "::ffff:8.8.8.8",
	"lan.local", "gw.test", "x.localhost", "public.example.com", "host.example", "[::1]", "127.0.0.1:80", "10.0.0.1:443", "[fd00::1]:80", "LOCALHOST:80"}
var c15Ports = []string{"", "", "", "80", "443", "8080", "8443", "2015", "http", "https", "444", "1"}
var c15Emails = []string{"foo@example.com", "off", "self_signed", "OFF", "admin@a.test", "x", "Self_Signed"}

func c15GenTLS(r *Rand) *c15TLS {
	switch k := r.Intn(100); {
	case k < 30:
		return nil
	case k < 50:
		return &c15TLS{Arg: "a1", Val: "foo@example.com", NoRedirect: r.Chance(20), OnDemand: r.Chance(10), Load: r.Chance(8)}
	case k < 58:
		return &c15TLS{Arg: "a1", Val: "off"}
	case k < 70:
		return &c15TLS{Arg: "a1", Val: "self_signed", NoRedirect: r.Chance(20), OnDemand: r.Chance(10)}
	case k < 76:
		return &c15TLS{Arg: "a1", Val: r.Pick(c15Emails), NoRedirect: r.Chance(20), OnDemand: r.Chance(15), Load: r.Chance(10)}
	case k < 84:
		return &c15TLS{Arg: "a2", NoRedirect: r.Chance(25), OnDemand: r.Chance(30)}
	default:
		t := &c15TLS{Arg: "a0", NoRedirect: r.Chance(50), OnDemand: r.Chance(50), Load: r.Chance(30)}
		if !t.NoRedirect && !t.OnDemand && !t.Load && r.Chance(90) {
			t.NoRedirect = true
		}
		return t
	}
}

func c15GenSite(r *Rand, pool []string) c15Site {
	s := c15Site{Host: r.Pick(pool)}
	switch k := r.Intn(100); {
	case k < 62:
	case k < 78:
		s.Scheme = "https"
	case k < 94:
		s.Scheme = "http"
	case k < 97:
		s.Scheme = "HTTP"
	default:
		s.Scheme = "HTTPS"
	}
	s.Port = r.Pick(c15Ports)
	// unbracketed IPv6 cannot carry a port
	if strings.Contains(s.Host, ":") && !strings.HasPrefix(s.Host, "[") {
		s.Port = ""
	}
	// scheme/port combinations that violate the convention are kept rare
	if (strings.EqualFold(s.Scheme, "http") && (s.Port == "443" || s.Port == "https")) || (strings.EqualFold(s.Scheme, "https") && (s.Port == "80" || s.Port == "http")) {
		if !r.Chance(10) {
			s.Port = ""
		}
	}
	if r.Chance(25) {
		s.Path = r.Pick([]string{"/a", "/b", "/a/b"})
	}
	if r.Chance(22) {
		s.Bind = r.Pick(c15Binds)
	}
	s.TLS = c15GenTLS(r)
	// a tls directive on an explicitly-HTTP declaration (the class of F-C15-1) is kept to a few percent
	if c15DeclHTTP(s) && c15TLSOn(s.TLS) && !r.Chance(12) {
		if r.Bool() {
			s.TLS = nil
		} else {
			s.TLS = &c15TLS{Arg: "a1", Val: "off"}
		}
	}
	if c15SiteKey(s) == "" {
		s.Port = "8080"
	}
	return s
}

func c15Gen(r *Rand, tier string) []interface{} {
	var out []interface{}
	nPipe, nRedir, nClassRand, nIPRand, splitLen := 2600, 900, 500, 900, 5
	nAct := 300
	if tier == "thorough" {
		nAct = 3000
	}
	nE2E, tokLen, tokAlpha, binLen := 416, 5, []string{"", "1", "fc00", "10.0.0.1"}, 8
	if tier == "thorough" {
		nPipe, nRedir, nClassRand, nIPRand, splitLen = 30000, 9000, 5000, 9000, 7
		nE2E, tokLen, tokAlpha, binLen = 4000, 6, []string{"", "1", "fc00", "10.0.0.1", "0", "ffff"}, 11
	}
	// ---- pipeline: single sites over every host class, then site sets with shared hosts
	for _, h := range c15SiteHosts {
		for _, sc := range []string{"", "http", "https"} {
			for _, p := range []string{"", "80", "443", "8443"} {
				if strings.Contains(h, ":") && !strings.HasPrefix(h, "[") && p != "" {
					continue
				}
				if (sc == "http" && p == "443") || (sc == "https" && p == "80") {
					continue
				}
				if h == "" && p == "" && sc == "" {
					continue
				}
				out = append(out, &c15In{Kind: "pipe", Sites: []c15Site{{Scheme: sc, Host: h, Port: p, TLS: c15GenTLS(r)}}})
			}
		}
	}
	for i := 0; i < nPipe; i++ {
		n := r.Range(1, 4)
		pool := []string{r.Pick(c15SiteHosts)}
		if r.Chance(45) {
			pool = append(pool, r.Pick(c15SiteHosts))
		}
		if r.Chance(60) {
			pool = []string{r.Pick([]string{"example.com", "www.example.org", "a.example.net", "localhost", "b.local", "10.0.0.1", ""})}
			if r.Chance(30) {
				pool = append(pool, "b.example.net")
			}
		}
		in := &c15In{Kind: "pipe"}
		for j := 0; j < n; j++ {
			in.Sites = append(in.Sites, c15GenSite(r, pool))
		}
		out = append(out, in)
	}
	// ---- the REAL activateHTTPS (through casket.Start): configurations in which every TLS site brings
	// its own certificate, is self-signed, loads from a directory, is on-demand, or does not qualify —
	// nothing is obtained at startup, so it runs offline; some with one unrelated plain/internal site
	actTLS := func() *c15TLS {
		switch k := r.Intn(100); {
		case k < 35:
			return &c15TLS{Arg: "a2", NoRedirect: r.Chance(12), OnDemand: r.Chance(10)}
		case k < 60:
			return &c15TLS{Arg: "a1", Val: "self_signed", NoRedirect: r.Chance(12)}
		case k < 72:
			return &c15TLS{Arg: "a0", Load: true, NoRedirect: r.Chance(12)}
		case k < 84:
			return &c15TLS{Arg: "a0", OnDemand: true, NoRedirect: r.Chance(12)}
		case k < 92:
			return &c15TLS{Arg: "a1", Val: "foo@example.com", OnDemand: true}
		case k < 96:
			return &c15TLS{Arg: "a1", Val: "off"}
		}
		return nil
	}
	actHosts := []string{"example.com", "example.com", "www.example.org", "a.example.net", "b.example.net", "*.example.com", "shop.example.com"}
	plainHosts := []string{"localhost", "127.0.0.1", "10.0.0.1", "b.local", "a.test", "[::1]", ""}
	for i := 0; i < nAct; i++ {
		in := &c15In{Kind: "act"}
		for j := r.Range(1, 4); j > 0; j-- {
			s := c15Site{Host: r.Pick(actHosts), Port: r.Pick([]string{"", "", "443", "443", "8443", "444", "https"}), TLS: actTLS()}
			if r.Chance(15) {
				s.Scheme = "https"
			}
			if r.Chance(15) {
				s.Path = r.Pick([]string{"/a", "/b", "/a/b"})
			}
			if s.TLS == nil {
				// without a tls directive a public name would be managed: declare it plain HTTP or take a host that does not qualify
				if r.Bool() {
					s.Scheme, s.Port = "http", r.Pick([]string{"", "80", "8080"})
				} else {
					s.Host, s.Port = r.Pick(plainHosts), r.Pick([]string{"8080", "80", "2015", "443"})
				}
			}
			in.Sites = append(in.Sites, s)
		}
		if r.Chance(30) {
			in.Sites = append(in.Sites, c15Site{Host: r.Pick(plainHosts), Port: r.Pick([]string{"8080", "80", "2015"}), Bind: r.Pick([]string{"", "", "127.0.0.1", "10.0.0.5"})})
		}
		out = append(out, in)
	}
	// ---- process-level settings (-port, -host, -http-port, -https-port) varied: the pure stages (pipe)
	// and the real activateHTTPS / MakeServers through casket.Start (act).  Most declarations leave the
	// port (some also the host) to the defaults, so that the settings decide the effective address.
	genSet := func() *c15Set {
		st := &c15Set{Port: r.Pick([]string{"2015", "80", "80", "80", "443", "8080", "8443", "2016"}), HTTP: 80, HTTPS: 443}
		if r.Chance(30) {
			st.Host = r.Pick([]string{"example.com", "localhost", "b.local", "www.example.org"})
		}
		if r.Chance(25) {
			st.HTTP = []int{8080, 2016, 81}[r.Intn(3)]
			if r.Chance(50) {
				st.Port = fmt.Sprint(st.HTTP)
			}
		}
		if r.Chance(20) {
			st.HTTPS = []int{8443, 4430}[r.Intn(2)]
			if r.Chance(30) {
				st.Port = fmt.Sprint(st.HTTPS)
			}
		}
		return st
	}
	nPipeS, nActS := 500, 250
	if tier == "thorough" {
		nPipeS, nActS = 6000, 2500
	}
	for i := 0; i < nPipeS; i++ {
		in := &c15In{Kind: "pipe", Set: genSet()}
		pool := []string{r.Pick([]string{"example.com", "www.example.org", "a.example.net", "localhost", "b.local", "10.0.0.1", ""})}
		if r.Chance(40) {
			pool = append(pool, r.Pick(c15SiteHosts))
		}
		for j := r.Range(1, 3); j > 0; j-- {
			s := c15GenSite(r, pool)
			if r.Chance(60) {
				s.Port = ""
				if r.Chance(70) {
					s.Scheme = ""
				}
			}
			if r.Chance(10) {
				s.Port = r.Pick([]string{fmt.Sprint(in.Set.HTTP), fmt.Sprint(in.Set.HTTPS), in.Set.Port})
			}
			if r.Chance(35) {
				s.TLS = actTLS()
			}
			if c15SiteKey(s) == "" {
				s.Path = "/a"
			}
			in.Sites = append(in.Sites, s)
		}
		out = append(out, in)
	}
	for i := 0; i < nActS; i++ {
		in := &c15In{Kind: "act", Set: genSet()}
		for j := r.Range(1, 3); j > 0; j-- {
			s := c15Site{Host: r.Pick(actHosts), Port: r.Pick([]string{"", "", "", "", "443", "8443", "https", fmt.Sprint(in.Set.HTTPS), in.Set.Port}), TLS: actTLS()}
			if r.Chance(10) {
				s.Scheme = "https"
			}
			if s.TLS == nil {
				if r.Bool() {
					s.Scheme, s.Port = "http", r.Pick([]string{"", "", fmt.Sprint(in.Set.HTTP), "8081"})
				} else {
					s.Host, s.Port = r.Pick(plainHosts), r.Pick([]string{"", "8081", "80", "2015"})
				}
			}
			if c15SiteKey(s) == "" {
				s.Path = "/a"
			}
			in.Sites = append(in.Sites, s)
		}
		out = append(out, in)
	}
	// ---- redirect handler
	rports := []string{"", "", "8443", "444", "2015", "65535", "4430"}
	hosts := []string{"example.com", "example.com:80", "EXAMPLE.com:8080", "www.example.org:", "a.b.c", "1.2.3.4", "1.2.3.4:80", "localhost:80",
		"[::1]", "[::1]:80", "[2001:db8::1]:8080", "[2001:db8::1]", "::1", "example.com:http", "xn--mnchen-3ya.de", "m\xc3\xbcnchen.de", "a_b.example.com:81",
		"example.com.", "example.com:80:80", "[::1", "::1]:80", "exa[mple.com", "-", "a:b:c"}
	segs := []string{"a", "b.html", "A", "~u", "a%20b", "a%2Fb", "a%2fb", "%41", "a;b=c", "a,b", "a:b", "a@b", "a!b", "a'b", "(a)", "a*b", "a+b", "a=b", "a&b", "$a", "-._~",
		"..", ".", "", "a^b", "a|b", "a{b}", "a\"b", "a<b>", "a`b", "a[b]", "a\\b", "a#b", "%zz", "%", "\xc3\xbc", "a%00b", "index.php"}
	queries := []string{"", "", "?", "?x=1", "?x=1&y=2", "?q=a%20b", "?q=a+b", "?a=/b/c", "??", "?x=%zz", "?x=a#b", "?x=\xc3\xbc", "?x=a^b", "?u=http://e.com/", "?x=a;b", "?x='\"", "?x=[1]"}
	special := []string{"*", "http://abs.example/p?q=1", "https://abs.example:8443/p", "//evil.example/x", "/", "/?", "//", "/.", "/..", "http://abs.example", "abs", "/a b"}
	methods := []string{"GET", "GET", "GET", "HEAD", "POST", "PUT", "OPTIONS", "DELETE"}
	for i := 0; i < nRedir; i++ {
		in := &c15In{Kind: "redir", RPort: r.Pick(rports), Method: r.Pick(methods), Host: r.Pick(hosts)}
		if r.Chance(12) {
			in.Target = r.Pick(special)
		} else {
			t := ""
			for k := r.Range(1, 4); k > 0; k-- {
				t += "/" + r.Pick(segs)
			}
			if r.Chance(20) {
				t += "/"
			}
			in.Target = t + r.Pick(queries)
		}
		out = append(out, in)
	}
	// ---- the redirect response end to end: real server for the HTTP port, real TCP, raw request bytes
	manual := &c15TLS{Arg: "a2"}
	type e2eCfg struct {
		sites []c15Site
		hosts []string // Host header values that select the redirect site
		any   bool     // catch-all: every Host value (and none) reaches it
		paths []string // the paths the HTTPS sites are declared with (request targets below and outside them)
	}
	e2eCfgs := []e2eCfg{
		{sites: []c15Site{{Host: "example.com", Port: "443", TLS: manual}}, hosts: []string{"example.com", "example.com:80", "EXAMPLE.com", "Example.COM:8080", "example.com:"}},
		{sites: []c15Site{{Host: "example.com", Port: "8443", TLS: manual}}, hosts: []string{"example.com", "example.com:80", "EXAMPLE.COM:80"}},
		{sites: []c15Site{{Host: "example.com", Port: "444", TLS: &c15TLS{Arg: "a1", Val: "self_signed"}}}, hosts: []string{"example.com", "example.com:80"}},
		{sites: []c15Site{{Host: "example.com", Port: "8443", TLS: manual}, {Host: "example.com", Port: "9443", TLS: manual}}, hosts: []string{"example.com", "example.com:80"}},
		{sites: []c15Site{{Host: "example.com", Port: "9443", TLS: manual}, {Host: "example.com", Port: "443", TLS: manual}, {Host: "other.example", Port: "80"}}, hosts: []string{"example.com", "example.com:80"}},
		{sites: []c15Site{{Host: "[::1]", Port: "8443", TLS: manual}}, hosts: []string{"[::1]", "[::1]:80", "[::1]:8080"}},
		{sites: []c15Site{{Host: "[2001:db8::1]", Port: "443", TLS: manual}}, hosts: []string{"[2001:db8::1]", "[2001:db8::1]:80", "[2001:DB8::1]:80"}},
		{sites: []c15Site{{Host: "127.0.0.1", Port: "8443", TLS: manual}}, hosts: []string{"127.0.0.1", "127.0.0.1:80"}},
		{sites: []c15Site{{Host: "", Port: "8443", TLS: manual}}, any: true},
		{sites: []c15Site{{Host: "", Port: "443", TLS: manual}}, any: true},
		// HTTPS sites declared WITH a path: the redirect site answers for the whole host, URI unchanged
		{sites: []c15Site{{Host: "example.com", Port: "443", Path: "/blog", TLS: manual}}, hosts: []string{"example.com", "example.com:80", "EXAMPLE.com"}, paths: []string{"/blog", "/blog/", "/blo", "/blogs"}},
		{sites: []c15Site{{Host: "example.com", Port: "8443", Path: "/v2/", TLS: manual}}, hosts: []string{"example.com", "example.com:80"}, paths: []string{"/v2", "/v2/", "/v1"}},
		{sites: []c15Site{{Host: "example.com", Port: "443", Path: "/blog", TLS: manual}, {Host: "example.com", Port: "443", Path: "/docs", TLS: &c15TLS{Arg: "a1", Val: "self_signed"}}}, hosts: []string{"example.com", "example.com:80"}, paths: []string{"/blog", "/docs", "/docs/", "/other"}},
		{sites: []c15Site{{Host: "example.com", Port: "443", Path: "/a/b", TLS: manual}, {Host: "example.com", Port: "443", Path: "/a", TLS: manual}, {Host: "example.com", Port: "443", Path: "/c", TLS: manual}}, hosts: []string{"example.com", "example.com:80"}, paths: []string{"/a", "/a/b", "/a/b/", "/c", "/ab"}},
		{sites: []c15Site{{Host: "a.example.net", Port: "9443", Path: "/app", TLS: manual}, {Host: "other.example", Port: "80"}}, hosts: []string{"a.example.net", "a.example.net:80"}, paths: []string{"/app", "/app/x"}},
		{sites: []c15Site{{Host: "", Port: "8443", Path: "/app", TLS: manual}}, any: true, paths: []string{"/app", "/app/", "/apps"}},
	}
	for i := 0; i < nE2E; i++ {
		cfg := e2eCfgs[i%len(e2eCfgs)]
		in := &c15In{Kind: "redire2e", Sites: cfg.sites, Method: r.Pick(methods), Proto: "1.1"}
		if cfg.any {
			in.Host = r.Pick(hosts)
		} else {
			in.Host = r.Pick(cfg.hosts)
		}
		switch k := r.Intn(100); {
		case k < 10:
			in.Proto = "1.0"
		case k < 35 && cfg.any:
			in.Proto, in.NoHost, in.Host = "1.0", true, ""
		case k < 20:
			in.Proto, in.NoHost, in.Host = "1.0", true, ""
		}
		if r.Chance(10) {
			in.Target = r.Pick(special)
		} else {
			t := ""
			for k := r.Range(1, 4); k > 0; k-- {
				t += "/" + r.Pick(segs)
			}
			if r.Chance(20) {
				t += "/"
			}
			in.Target = t + r.Pick(queries)
			if len(cfg.paths) > 0 && r.Chance(65) {
				in.Target = r.Pick(cfg.paths) + in.Target
				if r.Chance(15) {
					in.Target = r.Pick(cfg.paths) + r.Pick(queries)
				}
			}
		}
		out = append(out, in)
	}
	// ---- classifiers: every labelled host; labelled hosts with decorations and random strings as "any"
	for _, l := range c15LabelOrder {
		for _, h := range c15HostsByLabel[l] {
			out = append(out, &c15In{Kind: "class", Label: l, S: h})
		}
	}
	for a := 0; a < 256; a += 1 {
		// first octet sweep and the 172.x / 192.x second octet sweeps
		for _, s := range []string{fmt.Sprintf("%d.1.2.3", a), fmt.Sprintf("172.%d.0.1", a), fmt.Sprintf("192.%d.0.1", a), fmt.Sprintf("%x00::1", a)} {
			out = append(out, &c15In{Kind: "class", Label: "any", S: s})
		}
	}
	// names under an internal-only suffix with 1..6 labels in front of it (the suffix test must not
	// depend on the number of labels)
	for _, tld := range []string{".test", ".example", ".invalid", ".local"} {
		for n := 1; n <= 6; n++ {
			var ls []string
			for k := 0; k < n; k++ {
				ls = append(ls, r.Pick([]string{"www", "api", "v2", "corp", "db", "a", "x-1", "cluster"}))
			}
			out = append(out, &c15In{Kind: "class", Label: "privtld", S: strings.Join(ls, ".") + tld})
		}
	}
	for _, suf := range []string{".localhost", ".local", ".home.arpa"} {
		for n := 1; n <= 4; n++ {
			out = append(out, &c15In{Kind: "class", Label: "certinternal", S: strings.Repeat("sub.", n-1) + "name" + suf})
		}
	}
	deco := func(h string) string {
		switch r.Intn(9) {
		case 0:
			return h + ":80"
		case 1:
			return "[" + h + "]"
		case 2:
			return "[" + h + "]:443"
		case 3:
			return strings.ToUpper(h)
		case 4:
			return h + "."
		case 5:
			return "x." + h
		case 6:
			return h + ":"
		case 7:
			return strings.ToUpper(h) + ":80"
		}
		return h + "x"
	}
	for i := 0; i < nClassRand; i++ {
		l := r.Pick(c15LabelOrder)
		out = append(out, &c15In{Kind: "class", Label: "any", S: deco(r.Pick(c15HostsByLabel[l]))})
	}
	// ---- net.ParseIP model
	ipSeeds := []string{"1.2.3.4", "01.2.3.4", "1.2.3.04", "0.0.0.0", "00.0.0.0", "255.255.255.255", "256.0.0.1", "1.2.3", "1.2.3.4.5", "1..2.3", ".1.2.3", "1.2.3.", "1.2.3.4 ", "1.2.3.a",
		"1000.1.1.1", "1.2.3.0255", "::", "::1", "1::", "1::1", "::1:2:3:4:5:6:7", "1:2:3:4:5:6:7::", "1:2:3:4:5:6:7:8", "1:2:3:4:5:6:7:8:9", "1:2:3:4:5:6:7", "::1:2:3:4:5:6:7:8",
		"1:2:3:4::5:6:7:8", "1::2::3", ":1", "1:", ":", ":::", "1:::2", "12345::1", "g::1", "::g", "::ffff:1.2.3.4", "::1.2.3.4", "1:2:3:4:5:6:1.2.3.4", "1:2:3:4:5:1.2.3.4", "1:2:3:4:5:6:7:1.2.3.4",
		"::ffff:1.2.3", "::ffff:1.2.3.4.5", "::ffff:01.2.3.4", "::1.2.3.4:5", "1.2.3.4::", "fe80::1%eth0", "fe80::1%", "%eth0", "1.2.3.4%a", "FFFF::ffff", "0:0:0:0:0:0:0:0", "00000::", "0000::",
		"::0000", "1::2:3.4.5.6", "1:2::3:4:5:6:7:8", "::ffff:256.1.1.1", "abcd:ef01:2345:6789:abcd:ef01:2345:6789", "", "a", "1", "1.2", "::.1.2.3", ":1.2.3.4", "1:2:3:4:5:6::1.2.3.4", "1:2:3:4:5::1.2.3.4"}
	for _, s := range ipSeeds {
		out = append(out, &c15In{Kind: "ip", S: s})
	}
	ipAlpha := []byte("0123456789abcfF::::....%g")
	for i := 0; i < nIPRand; i++ {
		var s []byte
		if r.Chance(60) {
			s = []byte(r.Pick(ipSeeds))
			for k := r.Range(1, 2); k > 0 && len(s) > 0; k-- {
				switch p := r.Intn(len(s)); r.Intn(3) {
				case 0:
					s[p] = ipAlpha[r.Intn(len(ipAlpha))]
				case 1:
					s = append(s[:p], s[p+1:]...)
				default:
					s = append(s[:p], append([]byte{ipAlpha[r.Intn(len(ipAlpha))]}, s[p:]...)...)
				}
			}
		} else {
			for k := r.Range(1, 18); k > 0; k-- {
				s = append(s, ipAlpha[r.Intn(len(ipAlpha))])
			}
		}
		out = append(out, &c15In{Kind: "ip", S: string(s)})
	}
	// ---- net.ParseIP model, exhaustively over a small hextet alphabet: every ':'-joined sequence of
	// up to tokLen tokens ("" yields the "::" forms), and every sequence over {"", "1"} up to binLen
	// tokens (full 8-group addresses and over-long ones)
	var tokRec func(prefix []string, alpha []string, maxLen int)
	tokRec = func(prefix []string, alpha []string, maxLen int) {
		if len(prefix) > 0 {
			out = append(out, &c15In{Kind: "ip", S: strings.Join(prefix, ":")})
		}
		if len(prefix) == maxLen {
			return
		}
		for _, t := range alpha {
			tokRec(append(append([]string(nil), prefix...), t), alpha, maxLen)
		}
	}
	tokRec(nil, tokAlpha, tokLen)
	var binRec func(prefix []string)
	binRec = func(prefix []string) {
		if len(prefix) > tokLen {
			out = append(out, &c15In{Kind: "ip", S: strings.Join(prefix, ":")})
		}
		if len(prefix) == binLen {
			return
		}
		for _, t := range []string{"", "1"} {
			binRec(append(append([]string(nil), prefix...), t))
		}
	}
	binRec(nil)
	// ---- IPNet.Contains of the four private networks: octet sweeps in plain and ::ffff: mapped form,
	// first-byte and second-byte sweeps of IPv6, and every IP literal of the host lists
	for a := 0; a < 256; a++ {
		tmpl := []string{fmt.Sprintf("::ffff:%d.9.8.7", a), fmt.Sprintf("::ffff:172.%d.255.254", a), fmt.Sprintf("192.%d.0.1", a), fmt.Sprintf("%x00::1", a), fmt.Sprintf("%xff:ffff::", a)}
		if tier == "thorough" {
			tmpl = append(tmpl, fmt.Sprintf("%d.1.2.3", a), fmt.Sprintf("172.%d.0.1", a), fmt.Sprintf("::ffff:192.%d.3.4", a), fmt.Sprintf("fc%02x::1", a), fmt.Sprintf("::%x:0:1", a))
		}
		for _, s := range tmpl {
			out = append(out, &c15In{Kind: "net", S: s})
		}
	}
	for _, l := range []string{"loopv4", "loopv6", "privv4", "pubv4", "ulav6", "pubv6", "public"} {
		for _, h := range c15HostsByLabel[l] {
			out = append(out, &c15In{Kind: "net", S: strings.Trim(h, "[]")})
		}
	}
	// ---- net.SplitHostPort model: exhaustive over a 4-letter alphabet
	var rec func(p []byte)
	rec = func(p []byte) {
		out = append(out, &c15In{Kind: "split", S: string(p)})
		if len(p) == splitLen {
			return
		}
		for _, ch := range []byte("a:[]") {
			rec(append(append([]byte(nil), p...), ch))
		}
	}
	rec(nil)
	for _, s := range append(append([]string{}, hosts...), c15Binds...) {
		out = append(out, &c15In{Kind: "split", S: s})
	}
	return out
}

func init() {
	register(&Property{
		ID: "C15", Imports: "V.Lib V.C15_Model", Judge: "judge", Shard: 500,
		Rule: "pipe/act cases with `set` run under non-default process settings (httpserver.Port/Host, certmagic.HTTPPort/HTTPSPort set for the run and restored), judged as CPipeS with the settings-parametrised model and the spec on effective ports, servers built by MakeServers observed as (port, has TLS config); act = the same declared sites as Casketfile text through casket.Start (REAL activateHTTPS as the tls parsing callback, real MakeServers; a probe directive records the site list and aborts before listening), only configurations where no certificate is obtained at startup; redire2e includes HTTPS sites declared with a path (several per host), targets below and outside the paths; redire2e = declared TLS sites through all real stages incl. MakeServers, the resulting HTTP-port server served on a loopback listener, one raw request over TCP, raw response observed (status, Location, Connection, connection closed); net = IPNet.Contains of the four private networks on net.ParseIP; ip also exhaustive over ':'-joined token sequences; pipe cases = Casketfile text through the real parser, InspectServerBlocks, bind/tls setups, the three pure stages of activateHTTPS and MakeServers, synthesised sites probed; redir = real redirect middleware on ReadRequest-parsed requests; class/ip/split = real classifiers and stdlib functions. non-trivial: pipe with at least one TLS-enabled or managed site, redir with a response, class with a positive classification, ip/split that parse; distinct = distinct Coq case term",
		Gen: c15Gen,
		Decode: func(raw json.RawMessage) (interface{}, error) {
			in := &c15In{}
			return in, json.Unmarshal(raw, in)
		},
		Run: c15Run,
	})
}
