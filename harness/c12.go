package main

// C12 — each request gets exactly one well-formed response; panics are contained.
//
// Every case is one real HTTP/1.1 round trip against an in-process casket instance whose
// server block is a subset of the wrapping directives (request_id, limits, log, rewrite, gzip,
// header, errors in five variants, status, mime, templates) around a scripted innermost
// handler (directive `c12probe`, registered through the public plugin API): header sets,
// WriteHeader, Write, Flush, panic, then `return status, err`. Observed: status line, headers,
// wire body (decoded by Content-Encoding: first gzip member + whatever follows it), the number
// of "superfluous response.WriteHeader" diagnostics net/http logged for the request, whether a
// follow-up request on the same connection is answered, and - for panicking requests - whether
// a concurrent in-flight request on another connection completes untouched.
// Sequences (requests pipelined on concurrent connections) and nests (requests served completely while
// another one is held at a gate inside its handler or in its response path, under one scheduler context)
// compare every response, body bytes included, with the same request served alone.

import (
	"bufio"
	"bytes"
	"compress/gzip"
	"crypto/sha256"
	"encoding/json"
	"errors"
	"fmt"
	"io"
	"log"
	"net"
	"net/http"
	"os"
	"path/filepath"
	"runtime"
	"runtime/debug"
	"sort"
	"strings"
	"sync"
	"time"

	"github.com/tmpim/casket"
	_ "github.com/tmpim/casket/caskethttp"
	"github.com/tmpim/casket/caskethttp/httpserver"
)

// ---------------------------------------------------------------------------------------------
// inputs

type c12Cfg struct {
	ReqID     bool   `json:"reqid,omitempty"`
	Limits    bool   `json:"limits,omitempty"`
	Log       bool   `json:"log,omitempty"`
	Rewrite   bool   `json:"rewrite,omitempty"`
	Gzip      bool   `json:"gzip,omitempty"`
	Header    bool   `json:"header,omitempty"`
	Errors    string `json:"errors,omitempty"` // "" | plain | visible | pages | generic | missing | empty | genmissing | missgen
	Redir     bool   `json:"redir,omitempty"`  // redir /rd /there 302
	Status    int    `json:"status,omitempty"` // status <code> /st
	Mime      bool   `json:"mime,omitempty"`   // mime .txt text/x-c12
	Internal  bool   `json:"internal,omitempty"` // internal /int
	Templates bool   `json:"templates,omitempty"`
	// harness only (not part of the model's cfg): the site carries the test-only outermost directive c12gate, which
	// is transparent except for requests that name a gate (nested cases)
	Gated bool `json:"gated,omitempty"`
}
type c12Op struct {
	// set | wh | w | f | panic (A = kind of the panic value) | read
	// body-producing ops other than Write: ws (io.WriteString) | copy (io.Copy from a plain io.Reader:
	// the io.ReaderFrom entry point of the writers that offer one) | copywt (io.Copy from a source that is
	// an io.WriterTo) | rf (w.(io.ReaderFrom).ReadFrom if offered, else io.Copy) | copyn (io.CopyN, N bytes)
	K string `json:"k"`
	A string `json:"a,omitempty"`
	B string `json:"b,omitempty"`
	N int    `json:"n,omitempty"`
	D string `json:"d,omitempty"`
	// R > 1: the data of the op is D repeated R times (bodies longer than the 32 KiB copy buffers; N of copyn counts
	// bytes of the repeated data). Expanded by c12Expand before the case runs; long byte strings go to Coq as `brep`.
	R int `json:"r,omitempty"`
}
type c12In struct {
	Cfg    c12Cfg  `json:"cfg"`
	Path   string  `json:"path"`
	AE     bool    `json:"ae,omitempty"` // Accept-Encoding: gzip
	Blen   int     `json:"blen,omitempty"` // length of the request body (POST when > 0)
	Script []c12Op `json:"script,omitempty"` // op "read" = the handler reads the request body here
	Ret    int     `json:"ret"`
	Err    bool    `json:"err,omitempty"`
	Conn   int     `json:"conn,omitempty"` // sequences: requests with the same number share a connection
	// a sequence of requests served one after the other by the same server (Path/Script unused)
	Seq []c12In `json:"seq,omitempty"`
	// nested service: while this request is held at its gate, the requests Inner (each possibly gated in turn) are
	// served completely, one after the other, by the same site. Gate: "op" = at the script's op "gate" (inside the
	// innermost handler); "hdr" = in the response path, when the header commit (WriteHeader, or the first Write/Flush)
	// arrives on the connection side of every directive; "body" = there, at the first body Write; "post" = there, at
	// the first write (header commit, body bytes or flush) that arrives AFTER the innermost handler has returned or
	// panicked: the writes the directives make on the way out - the final flush of the compressed stream (last
	// deflate block and gzip trailer), the page templates buffered, an error page
	Gate  string  `json:"gate,omitempty"`
	Inner []c12In `json:"inner,omitempty"`
}

// ---------------------------------------------------------------------------------------------
// probe directive

type c12Script struct {
	script []c12Op
	ret    int
	err    bool
}

var c12Scripts struct {
	sync.RWMutex
	m map[string]c12Script
}
var c12ByReached = make(chan struct{}, 4)
var c12ByRelease = make(chan struct{}, 4)

type c12Probe struct{ next httpserver.Handler }

func (p c12Probe) ServeHTTP(w http.ResponseWriter, r *http.Request) (int, error) {
	id := r.Header.Get("X-C12-Probe")
	if id == "" {
		return p.next.ServeHTTP(w, r)
	}
	c12Scripts.RLock()
	sc, ok := c12Scripts.m[id]
	c12Scripts.RUnlock()
	if !ok {
		return p.next.ServeHTTP(w, r)
	}
	if gid := r.Header.Get("X-C12-Gate"); gid != "" {
		defer c12HandlerDone(gid) // also when the script panics
	}
	for _, o := range sc.script {
		switch o.K {
		case "set":
			w.Header().Set(o.A, o.B)
		case "wh":
			w.WriteHeader(o.N)
		case "w":
			w.Write([]byte(o.D))
		case "ws":
			io.WriteString(w, o.D)
		case "copy":
			io.Copy(w, c12PlainReader{strings.NewReader(o.D)})
		case "copywt":
			io.Copy(w, strings.NewReader(o.D))
		case "rf":
			if rf, ok := w.(io.ReaderFrom); ok {
				rf.ReadFrom(c12PlainReader{strings.NewReader(o.D)})
			} else {
				io.Copy(w, c12PlainReader{strings.NewReader(o.D)})
			}
		case "copyn":
			io.CopyN(w, c12PlainReader{strings.NewReader(o.D)}, int64(o.N))
		case "f":
			if f, ok := w.(http.Flusher); ok {
				f.Flush()
			}
		case "panic":
			c12Panic(o.A, len(sc.script))
		case "read":
			if r.Body != nil {
				if _, err := io.ReadAll(r.Body); err == httpserver.ErrMaxBytesExceeded {
					return http.StatusRequestEntityTooLarge, err // what proxy does
				}
			}
		case "gate":
			if gid := r.Header.Get("X-C12-Gate"); gid != "" {
				c12FireGate(gid, "op")
			}
		case "wait":
			c12ByReached <- struct{}{}
			select {
			case <-c12ByRelease:
			case <-time.After(5 * time.Second):
			}
		}
	}
	if sc.err {
		return sc.ret, errors.New("c12err")
	}
	return sc.ret, nil
}

// c12PlainReader hides every method of the source but Read (an upstream body, a pipe, a LimitedReader)
type c12PlainReader struct{ r io.Reader }

func (p c12PlainReader) Read(b []byte) (int, error) { return p.r.Read(b) }

// ---------------------------------------------------------------------------------------------
// gate directive (outermost): holds a request in its response path while other requests are served

type c12GateSpec struct {
	kind  string
	run   func()
	fired bool
	// the innermost (scripted) handler of the request has returned or panicked: what is written from now on
	// is written by the directives on the way out (the final flush of a compressed stream, a buffered page)
	handlerDone bool
}

// c12HandlerDone marks the gate's request as being on its way out of the directive chain
func c12HandlerDone(id string) {
	c12Gates.Lock()
	if g := c12Gates.m[id]; g != nil {
		g.handlerDone = true
	}
	c12Gates.Unlock()
}

var c12Gates struct {
	sync.Mutex
	m map[string]*c12GateSpec
}

// c12FireGate runs the gate's action once, on the goroutine of the request that is held
func c12FireGate(id, at string) {
	c12Gates.Lock()
	g := c12Gates.m[id]
	var run func()
	if g != nil && g.kind == at && !g.fired && (at != "post" || g.handlerDone) {
		g.fired = true
		run = g.run
	}
	c12Gates.Unlock()
	if run != nil {
		run()
	}
}

type c12GateMW struct{ next httpserver.Handler }

func (g c12GateMW) ServeHTTP(w http.ResponseWriter, r *http.Request) (int, error) {
	id := r.Header.Get("X-C12-Gate")
	if id == "" {
		return g.next.ServeHTTP(w, r)
	}
	return g.next.ServeHTTP(&c12GateW{ResponseWriterWrapper: &httpserver.ResponseWriterWrapper{ResponseWriter: w}, id: id}, r)
}

// c12GateW sits between the site's directives and net/http's writer and passes everything on unchanged
type c12GateW struct {
	*httpserver.ResponseWriterWrapper
	id string
}

func (w *c12GateW) WriteHeader(code int) {
	c12FireGate(w.id, "hdr")
	c12FireGate(w.id, "post")
	w.ResponseWriterWrapper.WriteHeader(code)
}
func (w *c12GateW) Write(b []byte) (int, error) {
	c12FireGate(w.id, "hdr")
	c12FireGate(w.id, "body")
	c12FireGate(w.id, "post")
	return w.ResponseWriterWrapper.Write(b)
}
func (w *c12GateW) Flush() {
	c12FireGate(w.id, "hdr")
	c12FireGate(w.id, "post")
	w.ResponseWriterWrapper.Flush()
}

type c12PanicVal struct{ code int }

var c12PanicKinds = []string{"string", "error", "runtime", "abort", "nilderef", "custom", "nil"}

// c12Panic panics with a value of the given kind
func c12Panic(kind string, n int) {
	switch kind {
	case "error":
		panic(errors.New("c12 scripted panic"))
	case "runtime":
		var a []int
		_ = a[n] // index out of range
	case "abort":
		panic(http.ErrAbortHandler)
	case "nilderef":
		var p *c12Script
		_ = p.ret
	case "custom":
		panic(c12PanicVal{n})
	case "nil":
		var v interface{}
		panic(v)
	}
	panic("c12 scripted panic")
}

func c12PanicTerm(kind string) string {
	switch kind {
	case "error":
		return "PError"
	case "runtime":
		return "PRuntime"
	case "abort":
		return "PAbort"
	case "nilderef":
		return "PNilDeref"
	case "custom":
		return "PCustom"
	case "nil":
		return "PNil"
	}
	return "PString"
}

// c12Norm maps the handler's ops to the ops of the model: io.WriteString is a Write; io.Copy from
// an io.WriterTo source is one Write (none when the source is empty); io.Copy / io.CopyN from a plain
// reader and a direct ReadFrom are the model's ORf (the io.ReaderFrom entry point) with the bytes copied
func c12Norm(ops []c12Op) []c12Op {
	var out []c12Op
	for _, o := range ops {
		switch o.K {
		case "ws":
			out = append(out, c12Op{K: "w", D: o.D})
		case "copywt":
			if o.D != "" {
				out = append(out, c12Op{K: "w", D: o.D})
			}
		case "copy", "rf":
			out = append(out, c12Op{K: "rf", D: o.D})
		case "copyn":
			d := o.D
			if o.N < len(d) {
				d = d[:o.N]
			}
			if o.N < 0 {
				d = ""
			}
			out = append(out, c12Op{K: "rf", D: d})
		default:
			out = append(out, o)
		}
	}
	return out
}

var c12Registered bool

type c12LogBuf struct {
	sync.Mutex
	b bytes.Buffer
}

func (l *c12LogBuf) Write(p []byte) (int, error) {
	l.Lock()
	defer l.Unlock()
	if l.b.Len() > 1<<20 {
		l.b.Reset()
		c12LogEpoch++
	}
	return l.b.Write(p)
}

var c12Log c12LogBuf
var c12LogEpoch int

func c12SupCount() (int, int) {
	c12Log.Lock()
	defer c12Log.Unlock()
	return bytes.Count(c12Log.b.Bytes(), []byte("superfluous response.WriteHeader")), c12LogEpoch
}

func c12Register() {
	if c12Registered {
		return
	}
	c12Registered = true
	c12Scripts.m = map[string]c12Script{
		"ok": {script: []c12Op{{K: "set", A: "X-C12", B: "f"}, {K: "w", D: "c12-ok"}}},
		"by": {script: []c12Op{{K: "w", D: "part1"}, {K: "f"}, {K: "wait"}, {K: "w", D: "part2"}}},
	}
	// net/http reports repeated header commits on http.Server.ErrorLog, which casket leaves at
	// the standard logger
	log.SetOutput(&c12Log)
	log.SetFlags(0)
	c12Gates.m = map[string]*c12GateSpec{}
	httpserver.RegisterDevDirective("c12gate", "root")
	casket.RegisterPlugin("c12gate", casket.Plugin{ServerType: "http", Action: func(c *casket.Controller) error {
		for c.Next() {
		}
		httpserver.GetConfig(c).AddMiddleware(func(next httpserver.Handler) httpserver.Handler { return c12GateMW{next} })
		return nil
	}})
	httpserver.RegisterDevDirective("c12probe", "")
	casket.RegisterPlugin("c12probe", casket.Plugin{ServerType: "http", Action: func(c *casket.Controller) error {
		for c.Next() {
		}
		httpserver.GetConfig(c).AddMiddleware(func(next httpserver.Handler) httpserver.Handler { return c12Probe{next} })
		return nil
	}})
}

// ---------------------------------------------------------------------------------------------
// fixture and sites

var c12Root string

const (
	c12Page404 = "<h1>c12 page for 404</h1>\n"
	c12Page500 = "<h1>c12 page for 500</h1>\n"
	c12Page403 = "<h1>c12 page for 403</h1>\n"
	c12PageGen = "<h1>c12 generic error page</h1>\n"
)

func c12Fixture() string {
	if c12Root != "" {
		return c12Root
	}
	base := os.Getenv("VERIF_ROOT")
	if base == "" {
		base = "/var/tmp"
	} else {
		base = filepath.Join(base, "run")
	}
	os.MkdirAll(base, 0o755)
	if old, _ := filepath.Glob(filepath.Join(base, "c12fix*")); len(old) > 0 {
		for _, d := range old {
			os.RemoveAll(d)
		}
	}
	root, err := os.MkdirTemp(base, "c12fix")
	if err != nil {
		panic(err)
	}
	if err := writeFixture(root, map[string]string{
		"e404.html": c12Page404, "e500.html": c12Page500, "e403.html": c12Page403, "gen.html": c12PageGen,
		"empty.html": "", "index.html": "<html>index</html>",
	}); err != nil {
		panic(err)
	}
	c12Root = root
	return root
}

func c12SiteText(c c12Cfg) string {
	root := c12Fixture()
	var sb strings.Builder
	sb.WriteString("root " + root + "\nc12probe\n")
	if c.Gated {
		sb.WriteString("c12gate\n")
	}
	if c.ReqID {
		sb.WriteString("request_id\n")
	}
	if c.Limits {
		sb.WriteString("limits {\n body / 8\n}\n")
	}
	if c.Log {
		sb.WriteString("log / " + root + "/access.log\n")
	}
	if c.Rewrite {
		sb.WriteString("rewrite /rw/a.txt /a.html\n")
	}
	if c.Gzip {
		sb.WriteString("gzip {\n ext *\n}\n")
	}
	if c.Header {
		sb.WriteString("header / {\n X-Cfg c12\n -X-Del\n}\n")
	}
	elog := root + "/errors.log"
	switch c.Errors {
	case "plain":
		sb.WriteString("errors " + elog + "\n")
	case "visible":
		sb.WriteString("errors visible\n")
	case "pages":
		sb.WriteString("errors " + elog + " {\n 404 e404.html\n 500 e500.html\n}\n")
	case "generic":
		sb.WriteString("errors " + elog + " {\n * gen.html\n 403 e403.html\n}\n")
	case "missing":
		sb.WriteString("errors " + elog + " {\n 404 nothere.html\n 500 e500.html\n}\n")
	case "empty":
		sb.WriteString("errors " + elog + " {\n 404 empty.html\n}\n")
	case "genmissing": // the `*` page cannot be opened
		sb.WriteString("errors " + elog + " {\n * nothere.html\n 403 e403.html\n}\n")
	case "missgen": // the page of the status cannot be opened, the `*` page can
		sb.WriteString("errors " + elog + " {\n 404 nothere.html\n * gen.html\n}\n")
	}
	if c.Redir {
		sb.WriteString("redir /rd /there 302\n")
	}
	if c.Status != 0 {
		fmt.Fprintf(&sb, "status %d /st\n", c.Status)
	}
	if c.Mime {
		sb.WriteString("mime .txt text/x-c12\n")
	}
	if c.Internal {
		sb.WriteString("internal /int\n")
	}
	if c.Templates {
		sb.WriteString("templates / .html\n")
	}
	return sb.String()
}

func c12ErrorsTerm(mode string) string {
	pg := func(code int, content *string) string { return cPair(cZ(int64(code)), c12OptOpt(content)) }
	s := func(x string) *string { return &x }
	switch mode {
	case "":
		return "ENone"
	case "plain":
		return "EPlain"
	case "visible":
		return "EDebug"
	case "pages":
		return cApp("EPages", cList([]string{pg(404, s(c12Page404)), pg(500, s(c12Page500))}), "None")
	case "generic":
		return cApp("EPages", cList([]string{pg(403, s(c12Page403))}), "(Some "+c12OptOpt(s(c12PageGen))+")")
	case "missing":
		return cApp("EPages", cList([]string{pg(404, nil), pg(500, s(c12Page500))}), "None")
	case "empty":
		return cApp("EPages", cList([]string{pg(404, s(""))}), "None")
	case "genmissing":
		return cApp("EPages", cList([]string{pg(403, s(c12Page403))}), "(Some None)")
	case "missgen":
		return cApp("EPages", cList([]string{pg(404, nil)}), "(Some "+c12OptOpt(s(c12PageGen))+")")
	}
	panic("bad errors mode " + mode)
}
func c12OptOpt(p *string) string {
	if p == nil {
		return "None"
	}
	return "(Some " + cStr(*p) + ")"
}

func c12CfgTerm(c c12Cfg) string {
	st := "None"
	if c.Status != 0 {
		st = "(Some " + cZ(int64(c.Status)) + ")"
	}
	return cApp("Build_cfg", cBool(c.ReqID), cBool(c.Limits), cBool(c.Log), cBool(c.Rewrite), cBool(c.Gzip), cBool(c.Header),
		c12ErrorsTerm(c.Errors), cBool(c.Redir), st, cBool(c.Mime), cBool(c.Internal), cBool(c.Templates))
}

var c12Sites = map[string]*liveSite{}

func c12Site(body string) (*liveSite, error) {
	if s, ok := c12Sites[body]; ok {
		return s, nil
	}
	c12Register()
	if len(c12Sites) >= 48 {
		for k, s := range c12Sites {
			s.inst.Stop()
			delete(c12Sites, k)
		}
	}
	casket.Quiet = true
	text := "127.0.0.1:0 {\n" + body + "\n}\n"
	inst, err := casket.Start(casket.CasketfileInput{Contents: []byte(text), Filepath: "Casketfile", ServerTypeName: "http"})
	if err != nil {
		return nil, err
	}
	srvs := inst.Servers()
	if len(srvs) == 0 {
		inst.Stop()
		return nil, fmt.Errorf("no servers")
	}
	_, port, _ := net.SplitHostPort(srvs[0].Addr().String())
	s := &liveSite{inst: inst, addr: "127.0.0.1:" + port, text: body}
	c12Sites[body] = s
	return s, nil
}

// ---------------------------------------------------------------------------------------------
// round trips

type c12Resp struct {
	Status int
	Header http.Header
	Body   []byte
	Err    string
}

func c12ReqBytes(addr, path, probe string, ae, closeConn bool, blen int) []byte {
	return c12ReqBytesG(addr, path, probe, "", ae, closeConn, blen)
}

func c12ReqBytesG(addr, path, probe, gate string, ae, closeConn bool, blen int) []byte {
	var sb bytes.Buffer
	method := "GET"
	if blen > 0 {
		method = "POST"
	}
	fmt.Fprintf(&sb, "%s %s HTTP/1.1\r\nHost: %s\r\nX-C12-Probe: %s\r\n", method, path, addr, probe)
	if gate != "" {
		fmt.Fprintf(&sb, "X-C12-Gate: %s\r\n", gate)
	}
	if ae {
		sb.WriteString("Accept-Encoding: gzip\r\n")
	}
	if closeConn {
		sb.WriteString("Connection: close\r\n")
	}
	if blen > 0 {
		fmt.Fprintf(&sb, "Content-Length: %d\r\n", blen)
	}
	sb.WriteString("\r\n")
	sb.WriteString(strings.Repeat("b", blen))
	return sb.Bytes()
}

func c12WriteReq(conn net.Conn, addr, path, probe string, ae, closeConn bool) error {
	_, err := conn.Write(c12ReqBytes(addr, path, probe, ae, closeConn, 0))
	return err
}

func c12ReadResp(br *bufio.Reader) c12Resp {
	resp, err := http.ReadResponse(br, &http.Request{Method: "GET"})
	if err != nil {
		return c12Resp{Err: "read: " + err.Error()}
	}
	defer resp.Body.Close()
	b, rerr := io.ReadAll(resp.Body)
	r := c12Resp{Status: resp.StatusCode, Header: resp.Header, Body: b}
	if rerr != nil {
		r.Err = "body: " + rerr.Error()
	}
	return r
}

// c12Exchange sends the case request and then the follow-up ("ok" script) on the same
// connection; when the server has closed the connection the follow-up uses a new one.
func c12Exchange(addr, path, probe string, ae bool, blen int) (c12Resp, bool, bool) {
	conn, err := net.DialTimeout("tcp", addr, 2*time.Second)
	if err != nil {
		return c12Resp{Err: "dial: " + err.Error()}, false, false
	}
	defer conn.Close()
	conn.SetDeadline(time.Now().Add(8 * time.Second))
	br := bufio.NewReader(conn)
	var r1 c12Resp
	if _, err := conn.Write(c12ReqBytes(addr, path, probe, ae, false, blen)); err != nil {
		r1 = c12Resp{Err: "write: " + err.Error()}
	} else {
		r1 = c12ReadResp(br)
	}
	okResp := func(r c12Resp) bool {
		if r.Err != "" || r.Status != 200 || r.Header.Get("X-C12") != "f" {
			return false
		}
		v, garbled := c12View(r.Header, r.Body)
		return !garbled && string(v) == "c12-ok"
	}
	reused := false
	var r2 c12Resp
	if r1.Err == "" {
		if err := c12WriteReq(conn, addr, "/f.html", "ok", true, true); err == nil {
			r2 = c12ReadResp(br)
			reused = r2.Err == ""
		}
	}
	if !reused {
		c2, err := net.DialTimeout("tcp", addr, 2*time.Second)
		if err != nil {
			return r1, false, false
		}
		defer c2.Close()
		c2.SetDeadline(time.Now().Add(8 * time.Second))
		if err := c12WriteReq(c2, addr, "/f.html", "ok", true, true); err != nil {
			return r1, false, false
		}
		r2 = c12ReadResp(bufio.NewReader(c2))
	}
	return r1, okResp(r2), reused
}

// c12View undoes the gzip coding named by Content-Encoding: the first gzip member is decoded,
// whatever follows it is appended as it is.
func c12View(h http.Header, body []byte) ([]byte, bool) {
	ce := h["Content-Encoding"]
	if len(ce) == 1 && ce[0] == "gzip" {
		if len(body) == 0 {
			return nil, false
		}
		br := bytes.NewReader(body)
		zr, err := gzip.NewReader(br)
		if err != nil {
			return nil, true
		}
		zr.Multistream(false)
		d, err := io.ReadAll(zr)
		if err != nil {
			return nil, true
		}
		rest := body[len(body)-br.Len():]
		return append(d, rest...), false
	}
	if len(ce) > 0 {
		return nil, true
	}
	if bytes.Contains(body, []byte("\x1f\x8b\x08")) {
		return nil, true
	}
	return body, false
}

// c12Expand replaces the repeated data of the ops (R > 1) by the data itself
func c12Expand(in *c12In) *c12In {
	any := false
	for _, o := range in.Script {
		if o.R > 1 {
			any = true
		}
	}
	for i := range in.Seq {
		for _, o := range in.Seq[i].Script {
			if o.R > 1 {
				any = true
			}
		}
	}
	if !any {
		return in
	}
	out := *in
	exp := func(ops []c12Op) []c12Op {
		r := append([]c12Op{}, ops...)
		for i := range r {
			if r[i].R > 1 {
				r[i].D, r[i].R = strings.Repeat(r[i].D, r[i].R), 0
			}
		}
		return r
	}
	out.Script = exp(in.Script)
	out.Seq = append([]c12In{}, in.Seq...)
	for i := range out.Seq {
		out.Seq[i].Script = exp(out.Seq[i].Script)
	}
	return &out
}

// c12Bytes is cBytes for byte strings of any length: Coq cannot read a literal of tens of thousands of bytes,
// so the longest periodic stretch of a long string (period <= 64) is written as `brep k unit`
func c12Bytes(b []byte) string {
	const long = 16384
	if len(b) <= long {
		return cBytes(b)
	}
	bestI, bestJ, bestP := 0, 0, 0
	for p := 1; p <= 64; p++ {
		i := 0
		for k := 0; k+p <= len(b); k++ {
			if k+p == len(b) || b[k] != b[k+p] {
				// b[i..k+p) has period p
				if k+p-i > bestJ-bestI {
					bestI, bestJ, bestP = i, k+p, p
				}
				i = k + 1
			}
		}
	}
	if bestP == 0 || bestJ-bestI < 2*bestP {
		return cBytes(b)
	}
	n := (bestJ - bestI) / bestP
	mid := bestI + n*bestP
	return "(" + c12Bytes(b[:bestI]) + " ++ brep " + cNat(n) + " " + cBytes(b[bestI:bestI+bestP]) + " ++ " + c12Bytes(b[mid:]) + ")"
}
func c12Str(s string) string { return c12Bytes([]byte(s)) }

func c12Texts(codes ...int) string {
	seen := map[int]bool{}
	var it []string
	for _, c := range codes {
		if seen[c] {
			continue
		}
		seen[c] = true
		it = append(it, cPair(cZ(int64(c)), cStr(fmt.Sprintf("%d %s\n", c, http.StatusText(c)))))
	}
	return cList(it)
}

func c12OpsTerm(ops []c12Op) string {
	var it []string
	for _, o := range c12Norm(ops) {
		switch o.K {
		case "set":
			it = append(it, cApp("OSet", cStr(http.CanonicalHeaderKey(o.A)), cStr(o.B)))
		case "wh":
			it = append(it, cApp("OWh", cZ(int64(o.N))))
		case "w":
			it = append(it, cApp("OWr", c12Str(o.D)))
		case "f":
			it = append(it, "OFl")
		case "panic":
			it = append(it, cApp("OPanic", c12PanicTerm(o.A)))
		case "rf":
			it = append(it, cApp("ORf", c12Str(o.D)))
		}
	}
	return cList(it)
}

// c12Rd is the place of the "read" op among the modelled ops ("None" when the body is never read)
func c12Rd(ops []c12Op) string {
	n := 0
	for _, o := range c12Norm(ops) {
		switch o.K {
		case "read":
			return "(Some " + cNat(n) + ")"
		case "set", "wh", "w", "f", "panic", "rf":
			n++
		}
	}
	return "None"
}

// c12Effective is the script the handler gets to run: cut at a read that fails
func c12Effective(in *c12In) *c12In {
	out := *in
	for i, o := range in.Script {
		if o.K == "read" {
			if in.Cfg.Limits && in.Blen > 8 {
				out.Script = append([]c12Op{}, in.Script[:i]...)
				out.Ret, out.Err = 413, true
				return &out
			}
		}
	}
	return &out
}

// ---------------------------------------------------------------------------------------------
// input classes (computed from the input only)

func c12EffPath(in *c12In) string {
	if in.Cfg.Rewrite && in.Path == "/rw/a.txt" {
		return "/a.html"
	}
	return in.Path
}

type c12Shape struct {
	redir      bool
	internal   bool
	statusRule bool
	touched    bool // WriteHeader/Write/Flush before the end / the panic
	panics     bool
	buffering  bool // templates decided to buffer the inner response
	flushBuf   bool // Flush while templates is buffering
	earlyFlush bool // Flush before the header was committed
	multiWH    bool
	emptyCopy  bool // templates' ResponseBuffer is handed an empty source before the header is committed
}

func c12ShapeOf(in *c12In) c12Shape {
	var s c12Shape
	ep := c12EffPath(in)
	s.redir = in.Cfg.Redir && ep == "/rd"
	s.internal = in.Cfg.Internal && strings.HasPrefix(ep, "/int")
	s.statusRule = in.Cfg.Status != 0 && strings.HasPrefix(ep, "/st")
	ext := filepath.Ext(ep)
	ct := ""
	committed := false // inner's view: WriteHeader or Write happened
	for _, o := range c12Norm(in.Script) {
		if o.K == "panic" {
			s.panics = true
			break
		}
		if o.K == "rf" {
			if o.D != "" {
				o.K = "w"
			} else if in.Cfg.Templates && !committed {
				s.emptyCopy = true
				continue
			} else {
				continue
			}
		}
		switch o.K {
		case "set":
			if !committed && http.CanonicalHeaderKey(o.A) == "Content-Type" {
				ct = o.B
			}
		case "wh", "w":
			s.touched = true
			if committed && o.K == "wh" {
				s.multiWH = true
			}
			if !committed {
				committed = true
				if in.Cfg.Templates {
					s.buffering = ext == ".html" || (ext == "" && strings.Contains(ct, "text/html; charset=utf-8"))
				}
			}
		case "f":
			s.touched = true
			if !committed {
				s.earlyFlush = true
			} else if s.buffering {
				s.flushBuf = true
			}
		}
	}
	return s
}

func c12Sig(in0 *c12In) string {
	if len(in0.Seq) > 0 {
		return "sequence"
	}
	in := c12Effective(in0)
	s := c12ShapeOf(in)
	if s.redir {
		return "redir"
	}
	if s.statusRule {
		return "status-rule"
	}
	if s.internal {
		return "internal-location"
	}
	if len(in.Script) != len(in0.Script) {
		if s.touched {
			return "limits-413:after-writing"
		}
		return "limits-413"
	}
	switch {
	case s.emptyCopy:
		return "templates:empty-copy-before-header"
	case s.panics && s.touched:
		return "panic-after-write"
	case s.panics:
		return "panic-before-write"
	case s.touched && in.Ret >= 400:
		return "contract-violation:wrote-and-error-status"
	case s.touched && s.flushBuf:
		return "templates-buffering:flush"
	case s.touched && s.earlyFlush:
		return "flush-before-header"
	case s.touched && s.buffering && in.Ret >= 300:
		return "templates-buffering:returned-3xx-after-writing"
	case s.touched && s.buffering && in.Err:
		return "templates-buffering:returned-error-after-writing"
	case s.touched && in.Err && in.Cfg.Errors == "visible":
		return "errors-visible:error-after-writing"
	case s.touched:
		return "wrote"
	case in.Ret >= 400:
		return "error-status"
	}
	return "no-write-no-error"
}

// ---------------------------------------------------------------------------------------------
// run

var c12Seq int

type c12Observed struct {
	term   string
	respOK bool
	sup    int
	obs    map[string]interface{}
}

// c12Observe turns a response into the observation term (sup is counted by the caller)
func c12Observe(r1 c12Resp, sup int) c12Observed {
	respOK := r1.Err == ""
	view, garbled := c12View(r1.Header, r1.Body)
	if i := bytes.Index(view, []byte("[PANIC ")); i >= 0 {
		view = append(append([]byte{}, view[:i]...), []byte("[PANIC]")...)
	}
	// the message of text/template's parse error is not modelled: it is replaced by the probe's
	if i := bytes.Index(view, []byte("] template: ")); i >= 0 && bytes.HasPrefix(view, []byte("[ERROR 500 ")) {
		if j := bytes.IndexByte(view[i:], '\n'); j >= 0 {
			view = append(append(append([]byte{}, view[:i]...), []byte("] c12err")...), view[i+j:]...)
		}
	}
	// ErrMaxBytesExceeded's text under errors visible: the probe's error text in the model
	view = bytes.Replace(view, []byte("] http: request body too large\n"), []byte("] c12err\n"), 1)
	if garbled {
		view = nil
	}
	xprobe := "None"
	if v, ok := r1.Header["X-C12"]; ok && len(v) > 0 {
		xprobe = "(Some " + cStr(v[0]) + ")"
	}
	_, xcfg := r1.Header["X-Cfg"]
	_, xdel := r1.Header["X-Del"]
	mime := r1.Header.Get("Content-Type") == "text/x-c12"
	loc := r1.Header.Get("Location") == "/there"
	_, etag := r1.Header["Etag"]
	term := cApp("Build_obs", cZ(int64(r1.Status)), cBool(garbled), c12Bytes(view), cNat(sup), xprobe, cBool(xcfg), cBool(xdel), cBool(mime), cBool(loc), cBool(etag))
	bh := r1.Body
	if len(bh) > 80 {
		bh = bh[:80]
	}
	o := map[string]interface{}{"status": r1.Status, "ce": r1.Header["Content-Encoding"], "ct": r1.Header.Get("Content-Type"),
		"view": c12Quote(view), "wire_head": fmt.Sprintf("%q", bh), "garbled": garbled, "superfluous_writeheader": sup,
		"x_c12": r1.Header["X-C12"], "etag": r1.Header["Etag"], "content_length": r1.Header["Content-Length"], "wire_len": len(r1.Body), "x_cfg": xcfg, "x_del": xdel, "location": r1.Header.Get("Location"), "err": r1.Err}
	return c12Observed{term: term, respOK: respOK, sup: sup, obs: o}
}

// c12Quote quotes a view for the record of the case; a long one is cut (its length is given)
func c12Quote(view []byte) string {
	if len(view) > 16384 {
		return fmt.Sprintf("%q... (%d bytes, sha256 %x)", view[:200], len(view), sha256.Sum256(view))
	}
	return fmt.Sprintf("%q", view)
}

func c12ReqTerm(in *c12In) string {
	return cApp("Build_req", cStr(in.Path), cBool(in.AE), cN(uint64(in.Blen)), c12Rd(in.Script), c12OpsTerm(in.Script), cZ(int64(in.Ret)), cBool(in.Err))
}

// c12RunSeq: every request is first served alone (own connection), then all of them are sent
// again - requests with the same Conn number pipelined on one connection, the connections
// concurrently - and every response must equal the one of the solo run.
func c12RunSeq(in *c12In) Result {
	site, err := c12Site(c12SiteText(in.Cfg))
	if err != nil {
		return Result{Term: "CSkip", Obs: "setup: " + err.Error(), Sig: "setup-error", Class: "setup-error"}
	}
	n := len(in.Seq)
	ids := make([]string, n)
	c12Scripts.Lock()
	for i := range in.Seq {
		c12Seq++
		ids[i] = fmt.Sprintf("s%d", c12Seq)
		c12Scripts.m[ids[i]] = c12Script{script: in.Seq[i].Script, ret: in.Seq[i].Ret, err: in.Seq[i].Err}
	}
	c12Scripts.Unlock()
	defer func() {
		c12Scripts.Lock()
		for _, id := range ids {
			delete(c12Scripts.m, id)
		}
		c12Scripts.Unlock()
	}()
	allOK := true
	solo := make([]c12Observed, n)
	soloSup := 0
	for i := range in.Seq {
		q := &in.Seq[i]
		sup0, ep0 := c12SupCount()
		var r c12Resp
		conn, err := net.DialTimeout("tcp", site.addr, 2*time.Second)
		if err != nil {
			r = c12Resp{Err: "dial: " + err.Error()}
		} else {
			conn.SetDeadline(time.Now().Add(8 * time.Second))
			if _, err := conn.Write(c12ReqBytes(site.addr, q.Path, ids[i], q.AE, true, q.Blen)); err != nil {
				r = c12Resp{Err: "write: " + err.Error()}
			} else {
				r = c12ReadResp(bufio.NewReader(conn))
			}
			conn.Close()
		}
		time.Sleep(time.Millisecond)
		sup1, ep1 := c12SupCount()
		sup := sup1 - sup0
		if ep0 != ep1 {
			sup = sup1
		}
		soloSup += sup
		solo[i] = c12Observe(r, sup)
		if !solo[i].respOK {
			allOK = false
		}
	}
	// the sequence
	byConn := map[int][]int{}
	var order []int
	for i := range in.Seq {
		if _, ok := byConn[in.Seq[i].Conn]; !ok {
			order = append(order, in.Seq[i].Conn)
		}
		byConn[in.Seq[i].Conn] = append(byConn[in.Seq[i].Conn], i)
	}
	seqResp := make([]c12Resp, n)
	sup0, ep0 := c12SupCount()
	var wg sync.WaitGroup
	for _, cn := range order {
		idx := byConn[cn]
		wg.Add(1)
		go func(idx []int) {
			defer wg.Done()
			conn, err := net.DialTimeout("tcp", site.addr, 2*time.Second)
			if err != nil {
				for _, i := range idx {
					seqResp[i] = c12Resp{Err: "dial: " + err.Error()}
				}
				return
			}
			defer conn.Close()
			conn.SetDeadline(time.Now().Add(10 * time.Second))
			var all bytes.Buffer
			for k, i := range idx {
				q := &in.Seq[i]
				all.Write(c12ReqBytes(site.addr, q.Path, ids[i], q.AE, k == len(idx)-1, q.Blen))
			}
			if _, err := conn.Write(all.Bytes()); err != nil {
				for _, i := range idx {
					seqResp[i] = c12Resp{Err: "write: " + err.Error()}
				}
				return
			}
			br := bufio.NewReader(conn)
			for _, i := range idx {
				seqResp[i] = c12ReadResp(br)
			}
		}(idx)
	}
	wg.Wait()
	time.Sleep(2 * time.Millisecond)
	sup1, ep1 := c12SupCount()
	seqSup := sup1 - sup0
	if ep0 != ep1 {
		seqSup = sup1
	}
	if seqSup != soloSup {
		allOK = false
	}
	var items []string
	var obsList []interface{}
	for i := range in.Seq {
		// the superfluous-WriteHeader diagnostics of concurrent requests cannot be told apart:
		// their total is compared above, each observation carries the solo count
		so := c12Observe(seqResp[i], solo[i].sup)
		if !so.respOK {
			allOK = false
		}
		items = append(items, cPair(cPair(c12ReqTerm(&in.Seq[i]), so.term), solo[i].term))
		obsList = append(obsList, map[string]interface{}{"path": in.Seq[i].Path, "conn": in.Seq[i].Conn, "seq": so.obs, "solo": solo[i].obs})
	}
	term := cApp("CSeq", c12CfgTerm(in.Cfg), cList(items), cBool(allOK))
	pan := 0
	for i := range in.Seq {
		if c12ShapeOf(&in.Seq[i]).panics {
			pan++
		}
	}
	return Result{Term: term, Obs: map[string]interface{}{"requests": obsList, "seq_sup": seqSup, "solo_sup": soloSup, "site": c12SiteText(in.Cfg)},
		Sig: "sequence", Class: fmt.Sprintf("sequence:conns=%d:panics=%d", len(order), pan), Nontrivial: pan > 0 && n > pan}
}

// c12One: one request on its own connection
func c12One(addr string, q *c12In, probe, gate string) c12Resp {
	conn, err := net.DialTimeout("tcp", addr, 2*time.Second)
	if err != nil {
		return c12Resp{Err: "dial: " + err.Error()}
	}
	defer conn.Close()
	conn.SetDeadline(time.Now().Add(8 * time.Second))
	if _, err := conn.Write(c12ReqBytesG(addr, q.Path, probe, gate, q.AE, true, q.Blen)); err != nil {
		return c12Resp{Err: "write: " + err.Error()}
	}
	return c12ReadResp(bufio.NewReader(conn))
}

// c12Flat lists the requests of a nest in pre-order
func c12Flat(in *c12In, out []*c12In) []*c12In {
	out = append(out, in)
	for i := range in.Inner {
		out = c12Flat(&in.Inner[i], out)
	}
	return out
}

func c12NestTerm(in *c12In) string {
	var inner []string
	for i := range in.Inner {
		inner = append(inner, c12NestTerm(&in.Inner[i]))
	}
	return cApp("Nest", c12ReqTerm(in), cList(inner))
}

// c12RunNest: every request of the nest is first served alone; then the outermost one is sent with its gate armed:
// when it reaches the gate - on its own server goroutine, inside the handler or in its response path - its inner
// requests are served completely (each on a connection of its own, gated in turn if it has inner requests), and only
// then does it go on. One scheduler context and no collection while the nest runs, so that the sync.Pools hand an
// object that was put back to the very next Get: an object given back too early is then seen by the inner request.
// Every response of the nested run must equal the one of the solo run.
func c12RunNest(in *c12In) Result {
	site, err := c12Site(c12SiteText(in.Cfg))
	if err != nil {
		return Result{Term: "CSkip", Obs: "setup: " + err.Error(), Sig: "setup-error", Class: "setup-error"}
	}
	flat := c12Flat(in, nil)
	n := len(flat)
	index := map[*c12In]int{}
	ids := make([]string, n)
	c12Scripts.Lock()
	for i, q := range flat {
		index[q] = i
		c12Seq++
		ids[i] = fmt.Sprintf("n%d", c12Seq)
		c12Scripts.m[ids[i]] = c12Script{script: q.Script, ret: q.Ret, err: q.Err}
	}
	c12Scripts.Unlock()
	defer func() {
		c12Scripts.Lock()
		for _, id := range ids {
			delete(c12Scripts.m, id)
		}
		c12Scripts.Unlock()
		c12Gates.Lock()
		for _, id := range ids {
			delete(c12Gates.m, id)
		}
		c12Gates.Unlock()
	}()
	allOK := true
	solo := make([]c12Observed, n)
	soloSup := 0
	for i, q := range flat {
		sup0, ep0 := c12SupCount()
		r := c12One(site.addr, q, ids[i], "")
		time.Sleep(time.Millisecond)
		sup1, ep1 := c12SupCount()
		sup := sup1 - sup0
		if ep0 != ep1 {
			sup = sup1
		}
		soloSup += sup
		solo[i] = c12Observe(r, sup)
		if !solo[i].respOK {
			allOK = false
		}
	}
	// the nest
	nestResp := make([]c12Resp, n)
	served := make([]bool, n)
	var serve func(q *c12In)
	serve = func(q *c12In) {
		i := index[q]
		gate := ""
		if len(q.Inner) > 0 {
			gate = ids[i]
			c12Gates.Lock()
			c12Gates.m[gate] = &c12GateSpec{kind: q.Gate, run: func() {
				for k := range q.Inner {
					serve(&q.Inner[k])
				}
			}}
			c12Gates.Unlock()
		}
		nestResp[i] = c12One(site.addr, q, ids[i], gate)
		served[i] = true
	}
	sup0, ep0 := c12SupCount()
	prevProcs := runtime.GOMAXPROCS(1)
	prevGC := debug.SetGCPercent(-1)
	serve(in)
	reached := true
	for i, q := range flat { // a gate that was never reached (panic before the gate op, no body): serve what is left afterwards
		if !served[i] {
			reached = false
			serve(q)
		}
	}
	debug.SetGCPercent(prevGC)
	runtime.GOMAXPROCS(prevProcs)
	time.Sleep(2 * time.Millisecond)
	sup1, ep1 := c12SupCount()
	nestSup := sup1 - sup0
	if ep0 != ep1 {
		nestSup = sup1
	}
	if nestSup != soloSup {
		allOK = false
	}
	var items []string
	var obsList []interface{}
	pan := 0
	for i, q := range flat {
		// superfluous-WriteHeader diagnostics of overlapping requests cannot be told apart: the totals are compared
		// above, each observation carries the solo count
		so := c12Observe(nestResp[i], solo[i].sup)
		if !so.respOK {
			allOK = false
		}
		items = append(items, cPair(so.term, solo[i].term))
		obsList = append(obsList, map[string]interface{}{"path": q.Path, "gate": q.Gate, "inner": len(q.Inner), "nested": so.obs, "solo": solo[i].obs})
		if c12ShapeOf(&c12In{Cfg: in.Cfg, Path: q.Path, Script: q.Script, Ret: q.Ret, Err: q.Err}).panics {
			pan++
		}
	}
	term := cApp("CNest", c12CfgTerm(in.Cfg), c12NestTerm(in), cList(items), cBool(allOK))
	return Result{Term: term, Obs: map[string]interface{}{"requests": obsList, "nest_sup": nestSup, "solo_sup": soloSup, "gates_reached": reached, "site": c12SiteText(in.Cfg)},
		Sig: "nested", Class: fmt.Sprintf("nested:gate=%s:n=%d:panics=%d:reached=%v", in.Gate, n, pan, reached), Nontrivial: n >= 2 && reached}
}

func c12Run(in0 interface{}) Result {
	in := c12Expand(in0.(*c12In))
	c12Register()
	if len(in.Seq) > 0 {
		return c12RunSeq(in)
	}
	if len(in.Inner) > 0 {
		return c12RunNest(in)
	}
	site, err := c12Site(c12SiteText(in.Cfg))
	sig := c12Sig(in)
	if err != nil {
		return Result{Term: "CSkip", Obs: "setup: " + err.Error(), Sig: "setup-error", Class: "setup-error"}
	}
	c12Seq++
	id := fmt.Sprintf("c%d", c12Seq)
	c12Scripts.Lock()
	c12Scripts.m[id] = c12Script{script: in.Script, ret: in.Ret, err: in.Err}
	c12Scripts.Unlock()
	defer func() {
		c12Scripts.Lock()
		delete(c12Scripts.m, id)
		c12Scripts.Unlock()
	}()
	shape := c12ShapeOf(c12Effective(in))

	// a concurrent in-flight request that must not be disturbed by a panic next to it
	bystanderOK := true
	var byDone chan c12Resp
	if shape.panics {
		byDone = make(chan c12Resp, 1)
		go func() {
			conn, err := net.DialTimeout("tcp", site.addr, 2*time.Second)
			if err != nil {
				byDone <- c12Resp{Err: "dial: " + err.Error()}
				return
			}
			defer conn.Close()
			conn.SetDeadline(time.Now().Add(10 * time.Second))
			if err := c12WriteReq(conn, site.addr, "/by.txt", "by", false, true); err != nil {
				byDone <- c12Resp{Err: "write: " + err.Error()}
				return
			}
			byDone <- c12ReadResp(bufio.NewReader(conn))
		}()
		select {
		case <-c12ByReached:
		case <-time.After(5 * time.Second):
			bystanderOK = false
		}
	}

	sup0, ep0 := c12SupCount()
	r1, followOK, reused := c12Exchange(site.addr, in.Path, id, in.AE, in.Blen)
	if !reused {
		time.Sleep(2 * time.Millisecond) // the handler goroutine of a dropped connection may still be logging
	}
	sup1, ep1 := c12SupCount()
	sup := sup1 - sup0
	if ep0 != ep1 {
		sup = sup1
	}

	if shape.panics {
		c12ByRelease <- struct{}{}
		select {
		case br := <-byDone:
			if br.Err != "" || br.Status != 200 || string(br.Body) != "part1part2" {
				bystanderOK = false
			}
		case <-time.After(8 * time.Second):
			bystanderOK = false
		}
	}

	ob := c12Observe(r1, sup)
	codes := []int{500, 404, 413, in.Ret}
	if in.Cfg.Status != 0 {
		codes = append(codes, in.Cfg.Status)
	}
	term := cApp("CReq", c12CfgTerm(in.Cfg), cStr(in.Path), cBool(in.AE), cN(uint64(in.Blen)), c12Rd(in.Script), c12OpsTerm(in.Script), cZ(int64(in.Ret)), cBool(in.Err),
		c12Texts(codes...), ob.term, cBool(ob.respOK), cBool(followOK), cBool(bystanderOK))
	o := ob.obs
	o["followup_ok"], o["conn_reused"], o["bystander_ok"], o["site"] = followOK, reused, bystanderOK, c12SiteText(in.Cfg)
	n := 0
	for _, b := range []bool{in.Cfg.Log, in.Cfg.Gzip && in.AE, in.Cfg.Header, in.Cfg.Errors != "", in.Cfg.Status != 0, in.Cfg.Templates,
		in.Cfg.Redir, in.Cfg.Internal, in.Cfg.Mime, in.Cfg.Limits && in.Blen > 0, in.Cfg.Rewrite} {
		if b {
			n++
		}
	}
	return Result{Term: term, Obs: o, Sig: sig, Class: fmt.Sprintf("%s:wrappers=%d", sig, n), Nontrivial: n >= 2}
}

// ---------------------------------------------------------------------------------------------
// generator

var c12ErrModes = []string{"", "plain", "visible", "pages", "generic", "missing", "empty"}
var c12Paths = []string{"/x.html", "/x.txt", "/x", "/st/x.html", "/rw/a.txt", "/dir/y.html", "/st"}
var c12ErrModesAll = []string{"", "plain", "visible", "pages", "generic", "missing", "empty", "genmissing", "missgen"}
var c12Bodies = []string{"hello", "<html><body>c12 body</body></html>", "a", "line1\nline2\n", "plain text with {braces} and }} only", "{{",
	// templates that parse and fail at execution
	"<p>{{.Include \"nothere.html\"}}</p>", "before {{.NoSuchField}} after", "{{index .Req.Header.Nope 3}}", "json {\"a\": {{.Cookie}} }"}

// c12WriteKinds are the ways a handler produces body bytes
var c12WriteKinds = []string{"w", "ws", "copy", "copywt", "rf", "copyn"}

func c12BodyOp(r *Rand, kind, d string) c12Op {
	switch kind {
	case "copyn":
		// the source may hold more than is copied
		return c12Op{K: "copyn", D: d + r.Pick([]string{"", "", "TAIL"}), N: len(d)}
	case "copywt":
		if d == "" {
			return c12Op{K: "w", D: d}
		}
	}
	return c12Op{K: kind, D: d}
}

// c12Vary rewrites a script: every Write becomes one of the body-producing ops, every panic gets a
// value kind (mode 0: leave Writes / string panics; 1: one kind for the whole script; 2: a kind per op)
func c12Vary(r *Rand, ops []c12Op, mode int) []c12Op {
	out := append([]c12Op{}, ops...)
	kind := r.Pick(c12WriteKinds[1:])
	for i, o := range out {
		switch o.K {
		case "w":
			if mode == 0 || (o.D == "" && !r.Chance(10)) {
				continue // an empty copy is its own class (c12EmptyCopyCases and a small share here)
			}
			if mode == 2 {
				kind = r.Pick(c12WriteKinds)
			}
			out[i] = c12BodyOp(r, kind, o.D)
		case "panic":
			if o.A == "" && mode != 0 {
				out[i].A = r.Pick(c12PanicKinds)
			}
		}
	}
	return out
}

// c12FileLike is what the static file server does: the complete header of the representation
// (Content-Length, validators), WriteHeader, then the body copied from a plain reader
func c12FileLike(ct, body string, copyKind string) []c12Op {
	ops := []c12Op{{K: "set", A: "X-C12", B: "file"}}
	if ct != "" {
		ops = append(ops, c12Op{K: "set", A: "Content-Type", B: ct})
	}
	ops = append(ops, c12Op{K: "set", A: "Accept-Ranges", B: "bytes"}, c12Op{K: "set", A: "Content-Length", B: fmt.Sprint(len(body))},
		c12Op{K: "set", A: "Etag", B: "\"c12etag\""}, c12Op{K: "set", A: "Last-Modified", B: "Mon, 02 Jan 2006 15:04:05 GMT"},
		c12Op{K: "wh", N: 200}, c12Op{K: copyKind, D: body, N: len(body)})
	return ops
}

func c12HasCL(ops []c12Op) bool {
	for _, o := range ops {
		if o.K == "set" && http.CanonicalHeaderKey(o.A) == "Content-Length" {
			return true
		}
	}
	return false
}

func c12Chunks(r *Rand, b string) []c12Op {
	var ops []c12Op
	if b == "" {
		if r.Bool() {
			ops = append(ops, c12Op{K: "w", D: ""})
		}
		return ops
	}
	for len(b) > 0 {
		n := len(b)
		if r.Chance(40) {
			n = r.Range(1, len(b))
		}
		ops = append(ops, c12Op{K: "w", D: b[:n]})
		b = b[n:]
		if r.Chance(8) {
			ops = append(ops, c12Op{K: "f"})
		}
	}
	return ops
}

// c12CoreScripts is the systematic part: every configuration meets each of these shapes.
func c12CoreScripts(r *Rand) []c12In {
	html := c12Op{K: "set", A: "Content-Type", B: "text/html; charset=utf-8"}
	xp := c12Op{K: "set", A: "X-C12", B: "v1"}
	xd := c12Op{K: "set", A: "X-Del", B: "gone"}
	w := func(s string) c12Op { return c12Op{K: "w", D: s} }
	wh := func(n int) c12Op { return c12Op{K: "wh", N: n} }
	pn := c12Op{K: "panic"}
	fl := c12Op{K: "f"}
	return []c12In{
		// error status reported without writing
		{Ret: 404}, {Ret: 500, Err: true}, {Ret: 403, Script: []c12Op{xp, xd}}, {Ret: 404, Err: true, Script: []c12Op{html}},
		{Ret: 503}, {Ret: 400, Err: true},
		// nothing written, no error status
		{Ret: 0}, {Ret: 200}, {Ret: 301}, {Ret: 0, Err: true},
		// written responses
		{Ret: 0, Script: []c12Op{xp, html, w("<p>hello</p>")}},
		{Ret: 200, Script: []c12Op{xp, xd, html, wh(200), w("<p>he"), w("llo</p>")}},
		{Ret: 0, Script: []c12Op{xp, html, wh(404), w("custom not found")}},
		{Ret: 0, Script: []c12Op{html, wh(500), w("custom failure")}},
		{Ret: 301, Script: []c12Op{xp, html, {K: "set", A: "Location", B: "/there/"}, wh(301), w("<a href=\"/there/\">Moved Permanently</a>.\n\n")}},
		{Ret: 0, Script: []c12Op{xp, html, {K: "set", A: "Location", B: "/there/"}, wh(302), w("moved")}},
		{Ret: 0, Script: []c12Op{wh(204)}},
		{Ret: 0, Script: []c12Op{xp, w("text"), fl, w(" more")}},
		{Ret: 0, Err: true, Script: []c12Op{xp, html, w("partial")}},
		{Ret: 0, Script: []c12Op{html, w("{{")}},
		// panics
		{Script: []c12Op{pn}}, {Script: []c12Op{xp, html, pn}},
		{Script: []c12Op{html, wh(200), pn}}, {Script: []c12Op{xp, html, w("before the panic"), pn}},
		{Script: []c12Op{html, w("flushed"), fl, pn}},
		// handlers that break the contract
		{Ret: 404, Script: []c12Op{html, w("wrote and failed")}},
		{Ret: 0, Script: []c12Op{html, wh(200), wh(404), w("twice")}},
		// bodies produced without Write: io.Copy / ReadFrom / io.CopyN / io.WriteString, with the implicit header
		{Ret: 0, Script: []c12Op{xp, {K: "set", A: "Content-Type", B: "text/plain; charset=utf-8"}, {K: "set", A: "Etag", B: "\"v\""}, {K: "copy", D: "copied, not a template: {{"}}},
		{Ret: 0, Script: []c12Op{xp, html, {K: "rf", D: "<p>read from</p>"}}},
		{Ret: 0, Script: []c12Op{xp, {K: "copyn", D: "0123456789", N: 4}, {K: "ws", D: " then a string"}, {K: "copywt", D: " then a WriterTo"}}},
		{Ret: 0, Err: true, Script: []c12Op{xp, html, {K: "copy", D: "partial copy"}}},
		{Ret: 302, Script: []c12Op{xp, {K: "set", A: "Location", B: "/there/"}, wh(302), {K: "copy", D: "moved"}}},
		{Script: []c12Op{xp, {K: "copy", D: "copied before the panic"}, {K: "panic", A: "abort"}}},
		// what the static file server does (complete header, Content-Length, validators, copy), with a page,
		// a template that fails at execution, one that does not parse, and a non-template
		{Ret: 0, Script: c12FileLike("text/html; charset=utf-8", "<html><body>a page</body></html>", "copyn")},
		{Ret: 200, Script: c12FileLike("text/html; charset=utf-8", "<html>{{.Include \"nothere.html\"}} and a long tail so that the source is longer than any error text: 0123456789 0123456789 0123456789</html>", "copyn")},
		{Ret: 0, Script: c12FileLike("text/html; charset=utf-8", "{{.NoSuchField}}", "copy")},
		{Ret: 0, Script: c12FileLike("text/html; charset=utf-8", "<p>{{</p>", "w")},
		{Ret: 0, Script: c12FileLike("application/json", "{\"a\": \"{{\"}", "rf")},
		// panic values
		{Script: []c12Op{{K: "panic", A: "abort"}}}, {Script: []c12Op{xp, {K: "panic", A: "nil"}}},
	}
}

// c12PanicValueCases: every kind of panic value x every subset of the directives that recover
// (log, errors) or sit between them and the handler (header, templates), before and after writing
func c12PanicValueCases(r *Rand) []*c12In {
	var out []*c12In
	for _, kind := range c12PanicKinds {
		for mask := 0; mask < 16; mask++ {
			c := c12Cfg{Log: mask&1 != 0, Header: mask&4 != 0, Templates: mask&8 != 0, ReqID: r.Bool(), Mime: r.Bool()}
			if mask&2 != 0 {
				c.Errors = r.Pick([]string{"plain", "visible", "pages", "generic"})
			}
			pre := []c12Op{}
			if r.Bool() {
				pre = append(pre, c12Op{K: "set", A: "X-C12", B: "v1"})
			}
			out = append(out, &c12In{Cfg: c, Path: r.Pick(c12Paths[:3]), AE: r.Bool(), Script: append(pre, c12Op{K: "panic", A: kind})})
			if mask%4 == int(kind[0])%4 { // a sample after writing
				sc := append(append([]c12Op{}, pre...), c12Op{K: r.Pick(c12WriteKinds), D: "sent", N: 4}, c12Op{K: "f"}, c12Op{K: "panic", A: kind})
				out = append(out, &c12In{Cfg: c, Path: "/x.txt", AE: r.Bool(), Script: sc})
			}
		}
		c := c12RandomCfg(r)
		c.Gzip = true
		out = append(out, &c12In{Cfg: c, Path: "/x.html", AE: true, Script: []c12Op{{K: "panic", A: kind}}})
	}
	return out
}

// c12EmptyCopyCases: io.Copy / ReadFrom from an empty source (nothing is written) before the header,
// with and without templates' ResponseBuffer (the only wrapper with a ReadFrom of its own)
func c12EmptyCopyCases(r *Rand) []*c12In {
	var out []*c12In
	for _, t := range []bool{false, true} {
		for _, k := range []string{"copy", "rf", "copyn"} {
			c := c12Cfg{Templates: t, Log: r.Bool(), Header: r.Bool(), Gzip: r.Bool()}
			out = append(out, &c12In{Cfg: c, Path: r.Pick(c12Paths[:3]), AE: r.Bool(), Ret: 404, Script: []c12Op{{K: k, D: ""}}},
				&c12In{Cfg: c, Path: r.Pick(c12Paths[:3]), AE: r.Bool(), Script: []c12Op{{K: k, D: ""}, {K: "wh", N: 404}, {K: "w", D: "custom not found"}}})
		}
	}
	return out
}

// c12LongCopyCases: copies with the implicit header from a source longer than (or exactly as long as, or one
// byte longer than) ResponseBuffer's pooled 32 KiB copy buffer: ReadFrom passes the first buffer-full through
// Write (implicit header, decision about buffering) and the rest through its streaming / buffering path -
// streamed (.txt), buffered and rendered (.html), buffered and passed on (302, error value), through gzip,
// followed by further writes, and with the header written first (the old entry into the two paths)
func c12LongCopyCases() []*c12In {
	unit := "0123456789abcdef"
	xp := c12Op{K: "set", A: "X-C12", B: "long"}
	html := c12Op{K: "set", A: "Content-Type", B: "text/html; charset=utf-8"}
	var out []*c12In
	for i, k := range []string{"copy", "rf", "copyn"} {
		for j, n := range []int{2048, 2049, 2500} { // 32768, 32784, 40000 bytes
			big := c12Op{K: k, D: unit, R: n, N: n*len(unit) - 3}
			if j == 1 {
				big = c12Op{K: k, D: unit, R: n, N: 32769}
			}
			c := c12Cfg{Templates: true, Log: i == 1, Header: j == 2, Gzip: i == 2}
			out = append(out,
				&c12In{Cfg: c, Path: "/x.txt", AE: true, Script: []c12Op{xp, big}},
				&c12In{Cfg: c, Path: "/x.html", AE: j == 0, Script: []c12Op{xp, big, {K: "w", D: "<p>tail</p>"}}},
				&c12In{Cfg: c, Path: "/x", Script: []c12Op{xp, html, big}, Ret: []int{0, 302, 0}[j], Err: j == 2})
		}
		c := c12Cfg{Templates: true, Errors: "plain"}
		out = append(out,
			&c12In{Cfg: c, Path: "/x.html", Script: []c12Op{xp, {K: "wh", N: 203}, {K: k, D: unit, R: 2500, N: 39000}}},
			&c12In{Cfg: c, Path: "/x.txt", Script: []c12Op{xp, {K: "wh", N: 203}, {K: k, D: unit, R: 2500, N: 39000}}},
			&c12In{Cfg: c12Cfg{Log: true, Gzip: i == 0}, Path: "/x.txt", AE: true, Script: []c12Op{xp, {K: k, D: unit, R: 2500, N: 39000}}},
			// a page that is a failing template, longer than the copy buffer
			&c12In{Cfg: c, Path: "/x.html", Script: []c12Op{xp, {K: "w", D: "{{.NoSuchField}}"}, {K: k, D: unit, R: 2500, N: 39000}}},
			&c12In{Cfg: c, Path: "/x.html", Script: []c12Op{xp, {K: k, D: unit, R: 2500, N: 40000}, {K: "w", D: "{{.NoSuchField}}"}}})
	}
	return out
}

func c12RandomScript(r *Rand) c12In {
	var in c12In
	var ops []c12Op
	if r.Chance(50) {
		ops = append(ops, c12Op{K: "set", A: "Content-Type", B: r.Pick([]string{"text/html; charset=utf-8", "text/plain; charset=utf-8", "application/json"})})
	}
	if r.Chance(50) {
		ops = append(ops, c12Op{K: "set", A: "X-C12", B: r.Pick([]string{"v1", "v2"})})
	}
	if r.Chance(20) {
		ops = append(ops, c12Op{K: "set", A: "X-Del", B: "gone"})
	}
	kind := r.Intn(100)
	switch {
	case kind < 22: // error status, nothing written
		in.Ret = r.Range(400, 420)
		if r.Chance(40) {
			in.Ret = []int{404, 403, 500, 502, 503, 400, 410, 451, 599, 999}[r.Intn(10)]
		}
		in.Err = r.Chance(40)
	case kind < 30: // nothing written, no error status
		in.Ret = []int{0, 200, 204, 301, 302, 304, 399}[r.Intn(7)]
		in.Err = r.Chance(25)
	case kind < 80: // written response
		status := 200
		if r.Chance(55) {
			status = []int{200, 201, 202, 206, 301, 302, 307, 400, 403, 404, 410, 500, 502, 204, 304}[r.Intn(15)]
		}
		if r.Chance(4) {
			ops = append(ops, c12Op{K: "f"})
		}
		if status != 200 || r.Chance(40) {
			ops = append(ops, c12Op{K: "wh", N: status})
		}
		if r.Chance(3) {
			ops = append(ops, c12Op{K: "wh", N: status})
		}
		body := r.Pick(c12Bodies)
		if r.Chance(10) {
			body = ""
		}
		if status == 204 || status == 304 {
			body = ""
		}
		if r.Chance(3) {
			body = strings.Repeat("0123456789abcdef", 300) // beyond net/http's 4 kB buffer
		}
		if body != "" || r.Chance(30) {
			ops = append(ops, c12Chunks(r, body)...)
		}
		if r.Chance(4) {
			ops = append(ops, c12Op{K: "set", A: "X-Late", B: "1"})
		}
		if r.Chance(35) && status < 400 {
			in.Ret = status // what the file server (200) and browse (301) do after writing
		}
		if r.Chance(6) {
			in.Ret = []int{404, 500}[r.Intn(2)] // contract broken
		}
		in.Err = r.Chance(8)
	default: // panic
		switch r.Intn(5) {
		case 0:
		case 1:
			ops = append(ops, c12Op{K: "wh", N: []int{200, 404, 301}[r.Intn(3)]})
		case 2:
			ops = append(ops, c12Chunks(r, r.Pick(c12Bodies))...)
		case 3:
			ops = append(ops, c12Op{K: "w", D: "flushed"}, c12Op{K: "f"})
		case 4:
			ops = append(ops, c12Op{K: "f"})
		}
		ops = append(ops, c12Op{K: "panic"})
		if r.Chance(30) {
			ops = append(ops, c12Op{K: "w", D: "never"})
		}
	}
	in.Script = ops
	return in
}

func c12RandomCfg(r *Rand) c12Cfg {
	c := c12Cfg{ReqID: r.Bool(), Limits: r.Bool(), Log: r.Bool(), Rewrite: r.Bool(), Gzip: r.Bool(), Header: r.Bool(), Mime: r.Bool(), Templates: r.Bool(),
		Redir: r.Bool(), Internal: r.Bool()}
	c.Errors = r.Pick(c12ErrModesAll)
	if r.Chance(30) {
		c.Status = []int{404, 204, 403, 500, 301, 200, 410}[r.Intn(7)]
	}
	return c
}

// c12SubsetCfg builds the configuration with exactly the wrappers of mask (bit order = canonical
// nesting order: request_id limits log rewrite gzip header errors redir status mime internal templates)
func c12SubsetCfg(r *Rand, mask int) c12Cfg {
	c := c12Cfg{ReqID: mask&1 != 0, Limits: mask&2 != 0, Log: mask&4 != 0, Rewrite: mask&8 != 0, Gzip: mask&16 != 0, Header: mask&32 != 0,
		Redir: mask&128 != 0, Mime: mask&512 != 0, Internal: mask&1024 != 0, Templates: mask&2048 != 0}
	if mask&64 != 0 {
		c.Errors = r.Pick(c12ErrModesAll[1:])
	}
	if mask&256 != 0 {
		c.Status = []int{404, 204, 403, 301, 599}[r.Intn(5)]
	}
	return c
}

// c12WithBody makes the handler read a request body at a random place of its script
func c12WithBody(r *Rand, in *c12In) {
	in.Blen = []int{4, 20, 9, 8}[r.Intn(4)]
	// before the handler writes: once net/http has sent the header it has itself consumed the
	// request body, and a later read through the limit reader sees EOF (outside the model)
	first := len(in.Script)
	for i, o := range in.Script {
		if o.K != "set" && o.K != "panic" {
			first = i
			break
		}
	}
	k := r.Intn(first + 1)
	if c12HasCL(in.Script) {
		k = 0 // a header that describes the representation is set after the request has been read
	}
	sc := append([]c12Op{}, in.Script[:k]...)
	sc = append(sc, c12Op{K: "read"})
	in.Script = append(sc, in.Script[k:]...)
}

func c12SeqCase(r *Rand) *c12In {
	c := c12RandomCfg(r)
	if r.Chance(70) {
		c.Templates = true
	}
	if r.Chance(70) {
		c.Gzip = true
	}
	c.Limits = false
	html := c12Op{K: "set", A: "Content-Type", B: "text/html; charset=utf-8"}
	pn := c12Op{K: "panic"}
	w := func(s string) c12Op { return c12Op{K: "w", D: s} }
	n := r.Range(3, 6)
	conns := r.Range(1, 3)
	in := &c12In{Cfg: c}
	for i := 0; i < n; i++ {
		var q c12In
		switch r.Intn(6) {
		case 0: // panics while templates buffers / after streaming
			q = c12In{Script: []c12Op{html, w("left behind by a panicking request "), w("0123456789"), pn}}
		case 1:
			q = c12In{Script: []c12Op{w("streamed"), {K: "f"}, pn}}
		case 2:
			q = c12In{Script: []c12Op{pn}}
		case 3:
			q = c12In{Ret: []int{404, 500, 403}[r.Intn(3)], Err: r.Bool()}
		default:
			q = c12RandomScript(r)
		}
		q.Script = c12Vary(r, q.Script, []int{0, 1, 2}[r.Intn(3)])
		q.Path = r.Pick([]string{"/x.html", "/x.html", "/y.html", "/x.txt", "/x", "/rd", "/int/a.html", "/st/x.html"})
		q.AE = r.Chance(75)
		q.Conn = r.Intn(conns)
		in.Seq = append(in.Seq, q)
	}
	return in
}

// c12NestCase: a request held at a gate (inside its handler / at the header commit / at the first body write on the
// connection side of every directive) while one or two other requests of the site - one of them possibly held in
// turn - are served completely. The outer request is mostly one whose response templates buffers and then passes
// through or renders, or gzip compresses: the ones that hold a pooled object while they are in flight.
func c12NestCase(r *Rand) *c12In {
	c := c12RandomCfg(r)
	if r.Chance(85) {
		c.Templates = true
	}
	if r.Chance(45) {
		c.Gzip = true
	}
	c.Limits = false
	c.Gated = true
	html := c12Op{K: "set", A: "Content-Type", B: "text/html; charset=utf-8"}
	w := func(s string) c12Op { return c12Op{K: "w", D: s} }
	held := func(tag string) c12In {
		own := "<p>page of " + tag + " " + r.Pick([]string{"0123456789", "abcdefghijklmnopqrstuvwxyz", "x"}) + "</p>"
		var q c12In
		switch r.Intn(8) {
		case 0: // wrote, returned (0, err): passed through by templates
			q = c12In{Script: []c12Op{html, {K: "wh", N: 200}, w(own)}, Ret: 0, Err: true}
		case 1: // wrote a redirect and returned its status: passed through
			st := []int{301, 302, 307}[r.Intn(3)]
			q = c12In{Script: []c12Op{html, {K: "set", A: "Location", B: "/there"}, {K: "wh", N: st}, w(own)}, Ret: st}
		case 2: // a page templates renders
			q = c12In{Script: []c12Op{html, w(own), w(" second chunk")}}
		case 3: // streamed
			q = c12In{Script: []c12Op{w(own), {K: "f"}, w(" after flush")}}
		case 4: // error status without writing
			q = c12In{Ret: []int{404, 500, 403}[r.Intn(3)], Err: r.Bool()}
		case 5: // panics while templates buffers
			q = c12In{Script: []c12Op{html, w(own), {K: "panic"}}}
		case 6: // wrote, implicit header, returned (0, err)
			q = c12In{Script: []c12Op{html, w(own)}, Ret: 0, Err: true}
		default:
			q = c12RandomScript(r)
		}
		q.Path = r.Pick([]string{"/x.html", "/x.html", "/y.html", "/dir/y.html", "/x.txt", "/x"})
		q.AE = r.Chance(50)
		return q
	}
	gateOf := func(q *c12In) {
		q.Gate = r.Pick([]string{"hdr", "hdr", "body", "op", "post", "post"})
		if q.Gate == "op" {
			k := r.Intn(len(q.Script) + 1)
			sc := append([]c12Op{}, q.Script[:k]...)
			sc = append(sc, c12Op{K: "gate"})
			q.Script = append(sc, q.Script[k:]...)
		}
	}
	a := held("the first client")
	gateOf(&a)
	for k := r.Range(1, 2); k > 0; k-- {
		b := held(fmt.Sprintf("client %d", k+1))
		if r.Chance(20) {
			gateOf(&b)
			b.Inner = []c12In{held("the innermost client")}
		}
		a.Inner = append(a.Inner, b)
	}
	a.Cfg = c
	return &a
}

func c12Gen(r *Rand, tier string) []interface{} {
	r = NewRand(r.U64())
	var out []interface{}
	nRandCfg, perCfg, nTriples, perSubset, nSeq := 40, 25, 40, 8, 120
	if tier == "thorough" {
		nRandCfg, perCfg, nTriples, perSubset, nSeq = 500, 60, 0, 6, 1500
	}
	pickPath := func(c c12Cfg) string {
		if c.Status != 0 && r.Chance(25) {
			return r.Pick([]string{"/st/x.html", "/st"})
		}
		if c.Redir && r.Chance(12) {
			return "/rd"
		}
		if c.Internal && r.Chance(12) {
			return r.Pick([]string{"/int/x.html", "/int"})
		}
		return r.Pick(c12Paths[:6])
	}
	add := func(c c12Cfg, in c12In) {
		in.Cfg = c
		in.Path = pickPath(c)
		in.AE = r.Chance(60)
		in.Script = c12Vary(r, in.Script, []int{0, 0, 1, 1, 2}[r.Intn(5)])
		if r.Chance(12) && in.Path != "/rd" { // http.Redirect answers GET and POST differently
			c12WithBody(r, &in)
		}
		out = append(out, &in)
	}
	// systematic 1: every subset of log/gzip/header/templates x errors variants x the core scripts
	for mask := 0; mask < 16; mask++ {
		for _, em := range c12ErrModes {
			c := c12Cfg{Log: mask&1 != 0, Gzip: mask&2 != 0, Header: mask&4 != 0, Templates: mask&8 != 0, Errors: em,
				ReqID: r.Bool(), Limits: r.Bool(), Rewrite: r.Bool(), Mime: r.Bool(), Redir: r.Bool(), Internal: r.Bool()}
			if r.Chance(35) {
				c.Status = []int{404, 204, 403, 301}[r.Intn(4)]
			}
			for _, in := range c12CoreScripts(r) {
				add(c, in)
			}
		}
	}
	// systematic 2: the subset lattice of the twelve wrappers (canonical nesting order) x a sample
	// of the core scripts + the requests the self-answering directives catch
	var masks []int
	if tier == "thorough" {
		for m := 0; m < 4096; m++ {
			masks = append(masks, m)
		}
	} else {
		for i := 0; i < 12; i++ {
			masks = append(masks, 1<<i)
			for j := i + 1; j < 12; j++ {
				masks = append(masks, 1<<i|1<<j)
			}
		}
		for t := 0; t < nTriples; t++ {
			masks = append(masks, 1<<r.Intn(12)|1<<r.Intn(12)|1<<r.Intn(12)|1<<r.Intn(12))
		}
		masks = append(masks, 4095, 4095&^64)
	}
	core := c12CoreScripts(r)
	for _, m := range masks {
		c := c12SubsetCfg(r, m)
		for k := 0; k < perSubset; k++ {
			add(c, core[r.Intn(len(core))])
		}
		for _, p := range []string{"/rd", "/int/x.html", "/st/x.html", "/x.txt"} {
			if (p == "/rd" && !c.Redir) || (p == "/int/x.html" && !c.Internal) || (p == "/st/x.html" && c.Status == 0) || (p == "/x.txt" && !c.Mime) {
				continue
			}
			in := core[r.Intn(len(core))]
			in.Cfg, in.Path, in.AE = c, p, r.Bool()
			out = append(out, &in)
		}
	}
	// systematic 3: which error body - every errors variant x statuses (with and without reason
	// phrase, with and without a page) x error x gzip
	for _, em := range c12ErrModesAll {
		for _, code := range []int{404, 403, 500, 599, 451, 999} {
			for k := 0; k < 4; k++ {
				c := c12Cfg{Errors: em, Gzip: k&1 != 0, Log: r.Bool(), Header: r.Bool(), Templates: r.Bool()}
				in := c12In{Cfg: c, Path: r.Pick(c12Paths[:3]), AE: true, Ret: code, Err: k&2 != 0}
				out = append(out, &in)
			}
		}
	}
	// every kind of panic value; copies from an empty source
	for _, in := range c12PanicValueCases(r) {
		out = append(out, in)
	}
	for _, in := range c12EmptyCopyCases(r) {
		out = append(out, in)
	}
	for _, in := range c12LongCopyCases() {
		out = append(out, in)
	}
	// limits: a body over / under the limit read before / after writing
	for k := 0; k < 40; k++ {
		c := c12RandomCfg(r)
		c.Limits = k%4 != 0
		in := core[r.Intn(len(core))]
		in.Cfg, in.Path, in.AE = c, r.Pick(c12Paths[:3]), r.Bool()
		c12WithBody(r, &in)
		out = append(out, &in)
	}
	for i := 0; i < nRandCfg; i++ {
		c := c12RandomCfg(r)
		for j := 0; j < perCfg; j++ {
			add(c, c12RandomScript(r))
		}
	}
	// sequences: panicking and normal requests interleaved on the same and on different connections
	for i := 0; i < nSeq; i++ {
		out = append(out, c12SeqCase(r))
	}
	// nests: requests served completely while another one is held inside its handler or in its response path
	rn := NewRand(r.U64())
	for i := 0; i < nSeq; i++ {
		out = append(out, c12NestCase(rn))
	}
	// nests of compressed responses: every request of the nest asks for gzip on a site that compresses, the outer one
	// mostly held at its first write after the handler returned (the final flush of its compressed stream)
	rg := NewRand(rn.U64())
	for i := 0; i < nSeq/3; i++ {
		out = append(out, c12NestGzipCase(rg))
	}
	// the three pools one by one: request k leaves a pooled object dirty (a panic after partial writes), request k+1
	// takes it from the pool and is judged alone (own Rand: the streams above keep their cases)
	rp := NewRand(rg.U64())
	for i := 0; i < nSeq/4; i++ {
		out = append(out, c12SeqPoolCase(rp, i))
	}
	return out
}

// c12SeqPoolCase: a sequence on ONE connection slot in which a request dirties one of the three pooled objects of the
// response path and is followed by requests that take that object from its pool: templates' bytes.Buffer (a buffered
// page, then a panic: the deferred Put hands the buffer back with the page in it), gzip's pooled gzip.Writer (compressed
// output begun, then a panic: putWriter closes and returns it) and ResponseBuffer's copy buffer from respBufPool (a copy
// as long as the buffer, from a plain reader, then a panic; the buffer goes back filled). The followers are short, so
// that anything left in the object would show: C12_three_pools_independent says each is answered as if alone.
func c12SeqPoolCase(r *Rand, i int) *c12In {
	kind := i % 4
	c := c12Cfg{Templates: kind != 1 || r.Bool(), Gzip: kind == 1 || kind == 3 || r.Chance(30), Log: r.Bool(), Header: r.Chance(30),
		Errors: r.Pick(c12ErrModes)}
	html := c12Op{K: "set", A: "Content-Type", B: "text/html; charset=utf-8"}
	pn := c12Op{K: "panic", A: r.Pick(c12PanicKinds)}
	w := func(s string) c12Op { return c12Op{K: "w", D: s} }
	dirt := "DIRTY-" + strings.Repeat("Z", r.Range(1, 40)) + "-"
	rep := []int{1, 3, 700, 2048, 2500}[r.Intn(5)] // up to 16-byte units x 2500 = longer than the 32 KiB copy buffer
	unit := (dirt + "0123456789abcdef")[:16]
	ck := r.Pick([]string{"copy", "rf", "copyn"})
	big := c12Op{K: ck, D: unit, R: rep, N: rep * 16}
	in := &c12In{Cfg: c}
	add := func(path string, ae bool, ops ...c12Op) {
		in.Seq = append(in.Seq, c12In{Path: path, AE: ae, Script: ops})
	}
	short := func(path string, ae bool) {
		k := r.Pick([]string{"w", "copy", "rf", "copyn"})
		d := r.Pick([]string{"ok", "<p>x</p>", "short page", "0"})
		add(path, ae, c12Op{K: "set", A: "X-C12", B: "after"}, c12BodyOp(r, k, d))
	}
	switch kind {
	case 0: // templates' buffer
		add("/x.html", r.Bool(), html, w(dirt), big, pn)
		short("/x.html", r.Bool())
		add("/y.html", false, html, pn)
		short("/x", false)
	case 1: // gzip's writer
		add("/x.txt", true, w(dirt), big, c12Op{K: "f"}, w(dirt), pn)
		short("/x.txt", true)
		add("/x.txt", true, big, pn)
		short(r.Pick([]string{"/x.txt", "/x.html"}), true)
	case 2: // the copy buffer, streaming and buffering
		add("/x.txt", false, big, pn)
		short("/x.txt", false)
		add("/x.html", false, big, pn)
		short("/x.html", false)
	default: // all three at once
		add("/x.html", true, html, big, w(dirt), pn)
		short("/x.html", true)
		add("/x.txt", true, big, c12Op{K: "f"}, pn)
		short("/x.txt", true)
		short("/x.html", false)
	}
	return in
}

// c12NestGzipCase: a nest on a gzip site in which every request accepts gzip and produces a body (a few bytes up to
// several hundred KiB); gates mostly "post".
func c12NestGzipCase(r *Rand) *c12In {
	a := c12NestCase(r)
	a.Cfg.Gzip = true
	if r.Chance(60) {
		a.Cfg.Templates = false
	}
	var fix func(q *c12In, tag string)
	fix = func(q *c12In, tag string) {
		q.AE = true
		if r.Chance(75) {
			body := c12Op{K: "w", D: "<p>compressed page of " + tag + " " + r.Pick([]string{"0123456789", "abcdefghijklmnopqrstuvwxyz", "x"}) + "</p>"}
			if r.Chance(40) {
				body.R = []int{40, 700, 9000}[r.Intn(3)]
			}
			q.Script = []c12Op{{K: "set", A: "Content-Type", B: "text/html; charset=utf-8"}, body}
			if r.Chance(30) {
				q.Script = append(q.Script, c12Op{K: "w", D: " tail of " + tag})
			}
			q.Ret, q.Err = 0, false
			q.Path = r.Pick([]string{"/x.html", "/y.html", "/dir/y.html"})
			if q.Gate == "op" {
				q.Gate = "post"
			}
		}
		if len(q.Inner) > 0 && q.Gate != "op" && r.Chance(70) {
			q.Gate = "post"
		}
		for k := range q.Inner {
			fix(&q.Inner[k], fmt.Sprintf("%s.%d", tag, k))
		}
	}
	fix(a, "client")
	return a
}

func c12Cleanup() {
	for k, s := range c12Sites {
		s.inst.Stop()
		delete(c12Sites, k)
	}
	if c12Root != "" {
		os.RemoveAll(c12Root)
		c12Root = ""
	}
}

func init() {
	_ = sort.Strings
	register(&Property{
		ID: "C12", Imports: "V.Lib V.C12_Model", Judge: "judge", Shard: 400,
		Rule: "every case = one real HTTP/1.1 round trip (plus a follow-up request on the same connection that goes through templates' buffer pool and gzip's writer pool, and for panicking handlers a concurrent in-flight request) against an in-process casket site made of a subset of request_id/limits/log/rewrite/gzip/header/errors(8 variants)/redir/status/mime/internal/templates around a scripted innermost handler, or a sequence of 3-6 such requests (panicking ones included) served alone and then pipelined on one to three concurrent connections, or a NEST: a request held at a gate - the op `gate` of its script (inside the innermost handler), or the test-only outermost directive c12gate at its header commit / first body write / first write after the innermost handler returned (the directives' writes on the way out: final flush of the compressed stream incl. gzip trailer, buffered page; also nests in which every request is compressed) on the connection side of every directive - while one or two other requests of the site (one of them possibly held in turn) are served completely, under GOMAXPROCS(1) with the collector off so that the sync.Pools hand an object put back to the very next Get; every response of the sequence / nest is compared, body bytes included, with the same request served alone; non-trivial = at least two response-relevant wrappers are active for the request (sequences: a panicking and a normal request); distinct = distinct case term",
		Gen: c12Gen,
		Decode: func(raw json.RawMessage) (interface{}, error) {
			in := &c12In{}
			return in, json.Unmarshal(raw, in)
		},
		Run: c12Run,
	})
}
