package main

// C12 — each request gets exactly one well-formed response; panics are contained.
//
// Every case is one real HTTP/1.1 round trip against an in-process casket instance whose
// server block is a subset of the wrapping directives (request_id, limits, log, rewrite, gzip,
// header, errors in five variants, status, mime, templates) around a scripted innermost
// handler (directive `c12probe`, registered through the public plugin API): header sets,
// WriteHeader, Write, Flush, panic, then `return status, err`. Observed: status line, headers,
// wire body (decoded by Content-Encoding: first gzip member + whatever follows it), the number
// of "superfluous response.WriteHeader" diagnostics net/http logged for the request, whether a
// follow-up request on the same connection is answered, and - for panicking requests - whether
// a concurrent in-flight request on another connection completes untouched.

import (
	"bufio"
	"bytes"
	"compress/gzip"
	"encoding/json"
	"errors"
	"fmt"
	"io"
	"log"
	"net"
	"net/http"
	"os"
	"path/filepath"
	"sort"
	"strings"
	"sync"
	"time"

	"github.com/tmpim/casket"
	_ "github.com/tmpim/casket/caskethttp"
	"github.com/tmpim/casket/caskethttp/httpserver"
)

// ---------------------------------------------------------------------------------------------
// inputs

type c12Cfg struct {
	ReqID     bool   `json:"reqid,omitempty"`
	Limits    bool   `json:"limits,omitempty"`
	Log       bool   `json:"log,omitempty"`
	Rewrite   bool   `json:"rewrite,omitempty"`
	Gzip      bool   `json:"gzip,omitempty"`
	Header    bool   `json:"header,omitempty"`
	Errors    string `json:"errors,omitempty"` // "" | plain | visible | pages | generic | missing | empty
	Status    int    `json:"status,omitempty"` // status <code> /st
	Mime      bool   `json:"mime,omitempty"`
	Templates bool   `json:"templates,omitempty"`
}
type c12Op struct {
	K string `json:"k"` // set | wh | w | f | panic
	A string `json:"a,omitempty"`
	B string `json:"b,omitempty"`
	N int    `json:"n,omitempty"`
	D string `json:"d,omitempty"`
}
type c12In struct {
	Cfg    c12Cfg  `json:"cfg"`
	Path   string  `json:"path"`
	AE     bool    `json:"ae,omitempty"` // Accept-Encoding: gzip
	Script []c12Op `json:"script,omitempty"`
	Ret    int     `json:"ret"`
	Err    bool    `json:"err,omitempty"`
}

// ---------------------------------------------------------------------------------------------
// probe directive

type c12Script struct {
	script []c12Op
	ret    int
	err    bool
}

var c12Scripts struct {
	sync.RWMutex
	m map[string]c12Script
}
var c12ByReached = make(chan struct{}, 4)
var c12ByRelease = make(chan struct{}, 4)

type c12Probe struct{ next httpserver.Handler }

func (p c12Probe) ServeHTTP(w http.ResponseWriter, r *http.Request) (int, error) {
	id := r.Header.Get("X-C12-Probe")
	if id == "" {
		return p.next.ServeHTTP(w, r)
	}
	c12Scripts.RLock()
	sc, ok := c12Scripts.m[id]
	c12Scripts.RUnlock()
	if !ok {
		return p.next.ServeHTTP(w, r)
	}
	for _, o := range sc.script {
		switch o.K {
		case "set":
			w.Header().Set(o.A, o.B)
		case "wh":
			w.WriteHeader(o.N)
		case "w":
			w.Write([]byte(o.D))
		case "f":
			if f, ok := w.(http.Flusher); ok {
				f.Flush()
			}
		case "panic":
			panic("c12 scripted panic")
		case "wait":
			c12ByReached <- struct{}{}
			select {
			case <-c12ByRelease:
			case <-time.After(5 * time.Second):
			}
		}
	}
	if sc.err {
		return sc.ret, errors.New("c12err")
	}
	return sc.ret, nil
}

var c12Registered bool

type c12LogBuf struct {
	sync.Mutex
	b bytes.Buffer
}

func (l *c12LogBuf) Write(p []byte) (int, error) {
	l.Lock()
	defer l.Unlock()
	if l.b.Len() > 1<<20 {
		l.b.Reset()
		c12LogEpoch++
	}
	return l.b.Write(p)
}

var c12Log c12LogBuf
var c12LogEpoch int

func c12SupCount() (int, int) {
	c12Log.Lock()
	defer c12Log.Unlock()
	return bytes.Count(c12Log.b.Bytes(), []byte("superfluous response.WriteHeader")), c12LogEpoch
}

func c12Register() {
	if c12Registered {
		return
	}
	c12Registered = true
	c12Scripts.m = map[string]c12Script{
		"ok": {script: []c12Op{{K: "set", A: "X-C12", B: "f"}, {K: "w", D: "c12-ok"}}},
		"by": {script: []c12Op{{K: "w", D: "part1"}, {K: "f"}, {K: "wait"}, {K: "w", D: "part2"}}},
	}
	// net/http reports repeated header commits on http.Server.ErrorLog, which casket leaves at
	// the standard logger
	log.SetOutput(&c12Log)
	log.SetFlags(0)
	httpserver.RegisterDevDirective("c12probe", "")
	casket.RegisterPlugin("c12probe", casket.Plugin{ServerType: "http", Action: func(c *casket.Controller) error {
		for c.Next() {
		}
		httpserver.GetConfig(c).AddMiddleware(func(next httpserver.Handler) httpserver.Handler { return c12Probe{next} })
		return nil
	}})
}

// ---------------------------------------------------------------------------------------------
// fixture and sites

var c12Root string

const (
	c12Page404 = "<h1>c12 page for 404</h1>\n"
	c12Page500 = "<h1>c12 page for 500</h1>\n"
	c12Page403 = "<h1>c12 page for 403</h1>\n"
	c12PageGen = "<h1>c12 generic error page</h1>\n"
)

func c12Fixture() string {
	if c12Root != "" {
		return c12Root
	}
	base := os.Getenv("VERIF_ROOT")
	if base == "" {
		base = "/var/tmp"
	} else {
		base = filepath.Join(base, "run")
	}
	os.MkdirAll(base, 0o755)
	if old, _ := filepath.Glob(filepath.Join(base, "c12fix*")); len(old) > 0 {
		for _, d := range old {
			os.RemoveAll(d)
		}
	}
	root, err := os.MkdirTemp(base, "c12fix")
	if err != nil {
		panic(err)
	}
	if err := writeFixture(root, map[string]string{
		"e404.html": c12Page404, "e500.html": c12Page500, "e403.html": c12Page403, "gen.html": c12PageGen,
		"empty.html": "", "index.html": "<html>index</html>",
	}); err != nil {
		panic(err)
	}
	c12Root = root
	return root
}

func c12SiteText(c c12Cfg) string {
	root := c12Fixture()
	var sb strings.Builder
	sb.WriteString("root " + root + "\nc12probe\n")
	if c.ReqID {
		sb.WriteString("request_id\n")
	}
	if c.Limits {
		sb.WriteString("limits 1mb\n")
	}
	if c.Log {
		sb.WriteString("log / " + root + "/access.log\n")
	}
	if c.Rewrite {
		sb.WriteString("rewrite /rw/a.txt /a.html\n")
	}
	if c.Gzip {
		sb.WriteString("gzip {\n ext *\n}\n")
	}
	if c.Header {
		sb.WriteString("header / {\n X-Cfg c12\n -X-Del\n}\n")
	}
	elog := root + "/errors.log"
	switch c.Errors {
	case "plain":
		sb.WriteString("errors " + elog + "\n")
	case "visible":
		sb.WriteString("errors visible\n")
	case "pages":
		sb.WriteString("errors " + elog + " {\n 404 e404.html\n 500 e500.html\n}\n")
	case "generic":
		sb.WriteString("errors " + elog + " {\n * gen.html\n 403 e403.html\n}\n")
	case "missing":
		sb.WriteString("errors " + elog + " {\n 404 nothere.html\n 500 e500.html\n}\n")
	case "empty":
		sb.WriteString("errors " + elog + " {\n 404 empty.html\n}\n")
	}
	if c.Status != 0 {
		fmt.Fprintf(&sb, "status %d /st\n", c.Status)
	}
	if c.Mime {
		sb.WriteString("mime .foo text/x-foo\n")
	}
	if c.Templates {
		sb.WriteString("templates / .html\n")
	}
	return sb.String()
}

func c12ErrorsTerm(mode string) string {
	pg := func(code int, content *string) string { return cPair(cZ(int64(code)), c12OptOpt(content)) }
	s := func(x string) *string { return &x }
	switch mode {
	case "":
		return "ENone"
	case "plain":
		return "EPlain"
	case "visible":
		return "EDebug"
	case "pages":
		return cApp("EPages", cList([]string{pg(404, s(c12Page404)), pg(500, s(c12Page500))}), "None")
	case "generic":
		return cApp("EPages", cList([]string{pg(403, s(c12Page403))}), "(Some "+c12OptOpt(s(c12PageGen))+")")
	case "missing":
		return cApp("EPages", cList([]string{pg(404, nil), pg(500, s(c12Page500))}), "None")
	case "empty":
		return cApp("EPages", cList([]string{pg(404, s(""))}), "None")
	}
	panic("bad errors mode " + mode)
}
func c12OptOpt(p *string) string {
	if p == nil {
		return "None"
	}
	return "(Some " + cStr(*p) + ")"
}

func c12CfgTerm(c c12Cfg) string {
	st := "None"
	if c.Status != 0 {
		st = "(Some " + cZ(int64(c.Status)) + ")"
	}
	return cApp("Build_cfg", cBool(c.ReqID), cBool(c.Limits), cBool(c.Log), cBool(c.Rewrite), cBool(c.Gzip), cBool(c.Header),
		c12ErrorsTerm(c.Errors), st, cBool(c.Mime), cBool(c.Templates))
}

var c12Sites = map[string]*liveSite{}

func c12Site(body string) (*liveSite, error) {
	if s, ok := c12Sites[body]; ok {
		return s, nil
	}
	c12Register()
	if len(c12Sites) >= 48 {
		for k, s := range c12Sites {
			s.inst.Stop()
			delete(c12Sites, k)
		}
	}
	casket.Quiet = true
	text := "127.0.0.1:0 {\n" + body + "\n}\n"
	inst, err := casket.Start(casket.CasketfileInput{Contents: []byte(text), Filepath: "Casketfile", ServerTypeName: "http"})
	if err != nil {
		return nil, err
	}
	srvs := inst.Servers()
	if len(srvs) == 0 {
		inst.Stop()
		return nil, fmt.Errorf("no servers")
	}
	_, port, _ := net.SplitHostPort(srvs[0].Addr().String())
	s := &liveSite{inst: inst, addr: "127.0.0.1:" + port, text: body}
	c12Sites[body] = s
	return s, nil
}

// ---------------------------------------------------------------------------------------------
// round trips

type c12Resp struct {
	Status int
	Header http.Header
	Body   []byte
	Err    string
}

func c12WriteReq(conn net.Conn, addr, path, probe string, ae, closeConn bool) error {
	var sb bytes.Buffer
	fmt.Fprintf(&sb, "GET %s HTTP/1.1\r\nHost: %s\r\nX-C12-Probe: %s\r\n", path, addr, probe)
	if ae {
		sb.WriteString("Accept-Encoding: gzip\r\n")
	}
	if closeConn {
		sb.WriteString("Connection: close\r\n")
	}
	sb.WriteString("\r\n")
	_, err := conn.Write(sb.Bytes())
	return err
}

func c12ReadResp(br *bufio.Reader) c12Resp {
	resp, err := http.ReadResponse(br, &http.Request{Method: "GET"})
	if err != nil {
		return c12Resp{Err: "read: " + err.Error()}
	}
	defer resp.Body.Close()
	b, rerr := io.ReadAll(resp.Body)
	r := c12Resp{Status: resp.StatusCode, Header: resp.Header, Body: b}
	if rerr != nil {
		r.Err = "body: " + rerr.Error()
	}
	return r
}

// c12Exchange sends the case request and then the follow-up ("ok" script) on the same
// connection; when the server has closed the connection the follow-up uses a new one.
func c12Exchange(addr, path, probe string, ae bool) (c12Resp, bool, bool) {
	conn, err := net.DialTimeout("tcp", addr, 2*time.Second)
	if err != nil {
		return c12Resp{Err: "dial: " + err.Error()}, false, false
	}
	defer conn.Close()
	conn.SetDeadline(time.Now().Add(8 * time.Second))
	br := bufio.NewReader(conn)
	var r1 c12Resp
	if err := c12WriteReq(conn, addr, path, probe, ae, false); err != nil {
		r1 = c12Resp{Err: "write: " + err.Error()}
	} else {
		r1 = c12ReadResp(br)
	}
	okResp := func(r c12Resp) bool {
		return r.Err == "" && r.Status == 200 && string(r.Body) == "c12-ok" && r.Header.Get("X-C12") == "f"
	}
	reused := false
	var r2 c12Resp
	if r1.Err == "" {
		if err := c12WriteReq(conn, addr, "/f.txt", "ok", false, true); err == nil {
			r2 = c12ReadResp(br)
			reused = r2.Err == ""
		}
	}
	if !reused {
		c2, err := net.DialTimeout("tcp", addr, 2*time.Second)
		if err != nil {
			return r1, false, false
		}
		defer c2.Close()
		c2.SetDeadline(time.Now().Add(8 * time.Second))
		if err := c12WriteReq(c2, addr, "/f.txt", "ok", false, true); err != nil {
			return r1, false, false
		}
		r2 = c12ReadResp(bufio.NewReader(c2))
	}
	return r1, okResp(r2), reused
}

// c12View undoes the gzip coding named by Content-Encoding: the first gzip member is decoded,
// whatever follows it is appended as it is.
func c12View(h http.Header, body []byte) ([]byte, bool) {
	ce := h["Content-Encoding"]
	if len(ce) == 1 && ce[0] == "gzip" {
		if len(body) == 0 {
			return nil, false
		}
		br := bytes.NewReader(body)
		zr, err := gzip.NewReader(br)
		if err != nil {
			return nil, true
		}
		zr.Multistream(false)
		d, err := io.ReadAll(zr)
		if err != nil {
			return nil, true
		}
		rest := body[len(body)-br.Len():]
		return append(d, rest...), false
	}
	if len(ce) > 0 {
		return nil, true
	}
	if bytes.Contains(body, []byte("\x1f\x8b\x08")) {
		return nil, true
	}
	return body, false
}

func c12Texts(codes ...int) string {
	seen := map[int]bool{}
	var it []string
	for _, c := range codes {
		if seen[c] {
			continue
		}
		seen[c] = true
		it = append(it, cPair(cZ(int64(c)), cStr(fmt.Sprintf("%d %s\n", c, http.StatusText(c)))))
	}
	return cList(it)
}

func c12OpsTerm(ops []c12Op) string {
	var it []string
	for _, o := range ops {
		switch o.K {
		case "set":
			it = append(it, cApp("OSet", cStr(http.CanonicalHeaderKey(o.A)), cStr(o.B)))
		case "wh":
			it = append(it, cApp("OWh", cZ(int64(o.N))))
		case "w":
			it = append(it, cApp("OWr", cStr(o.D)))
		case "f":
			it = append(it, "OFl")
		case "panic":
			it = append(it, "OPanic")
		}
	}
	return cList(it)
}

// ---------------------------------------------------------------------------------------------
// input classes (computed from the input only)

func c12EffPath(in *c12In) string {
	if in.Cfg.Rewrite && in.Path == "/rw/a.txt" {
		return "/a.html"
	}
	return in.Path
}

type c12Shape struct {
	statusRule bool
	touched    bool // WriteHeader/Write/Flush before the end / the panic
	panics     bool
	buffering  bool // templates decided to buffer the inner response
	flushBuf   bool // Flush while templates is buffering
	earlyFlush bool // Flush before the header was committed
	multiWH    bool
}

func c12ShapeOf(in *c12In) c12Shape {
	var s c12Shape
	ep := c12EffPath(in)
	s.statusRule = in.Cfg.Status != 0 && strings.HasPrefix(ep, "/st")
	ext := filepath.Ext(ep)
	ct := ""
	committed := false // inner's view: WriteHeader or Write happened
	for _, o := range in.Script {
		if o.K == "panic" {
			s.panics = true
			break
		}
		switch o.K {
		case "set":
			if !committed && http.CanonicalHeaderKey(o.A) == "Content-Type" {
				ct = o.B
			}
		case "wh", "w":
			s.touched = true
			if committed && o.K == "wh" {
				s.multiWH = true
			}
			if !committed {
				committed = true
				if in.Cfg.Templates {
					s.buffering = ext == ".html" || (ext == "" && strings.Contains(ct, "text/html; charset=utf-8"))
				}
			}
		case "f":
			s.touched = true
			if !committed {
				s.earlyFlush = true
			} else if s.buffering {
				s.flushBuf = true
			}
		}
	}
	return s
}

func c12Sig(in *c12In) string {
	s := c12ShapeOf(in)
	if s.statusRule {
		return "status-rule"
	}
	switch {
	case s.panics && s.touched:
		return "panic-after-write"
	case s.panics:
		return "panic-before-write"
	case s.touched && in.Ret >= 400:
		return "contract-violation:wrote-and-error-status"
	case s.touched && s.flushBuf:
		return "templates-buffering:flush"
	case s.touched && s.earlyFlush:
		return "flush-before-header"
	case s.touched && s.buffering && in.Ret >= 300:
		return "templates-buffering:returned-3xx-after-writing"
	case s.touched && s.buffering && in.Err:
		return "templates-buffering:returned-error-after-writing"
	case s.touched && in.Err && in.Cfg.Errors == "visible":
		return "errors-visible:error-after-writing"
	case s.touched:
		return "wrote"
	case in.Ret >= 400:
		return "error-status"
	}
	return "no-write-no-error"
}

// ---------------------------------------------------------------------------------------------
// run

var c12Seq int

func c12Run(in0 interface{}) Result {
	in := in0.(*c12In)
	c12Register()
	site, err := c12Site(c12SiteText(in.Cfg))
	sig := c12Sig(in)
	if err != nil {
		return Result{Term: "CSkip", Obs: "setup: " + err.Error(), Sig: "setup-error", Class: "setup-error"}
	}
	c12Seq++
	id := fmt.Sprintf("c%d", c12Seq)
	c12Scripts.Lock()
	c12Scripts.m[id] = c12Script{script: in.Script, ret: in.Ret, err: in.Err}
	c12Scripts.Unlock()
	defer func() {
		c12Scripts.Lock()
		delete(c12Scripts.m, id)
		c12Scripts.Unlock()
	}()
	shape := c12ShapeOf(in)

	// a concurrent in-flight request that must not be disturbed by a panic next to it
	bystanderOK := true
	var byDone chan c12Resp
	if shape.panics {
		byDone = make(chan c12Resp, 1)
		go func() {
			conn, err := net.DialTimeout("tcp", site.addr, 2*time.Second)
			if err != nil {
				byDone <- c12Resp{Err: "dial: " + err.Error()}
				return
			}
			defer conn.Close()
			conn.SetDeadline(time.Now().Add(10 * time.Second))
			if err := c12WriteReq(conn, site.addr, "/by.txt", "by", false, true); err != nil {
				byDone <- c12Resp{Err: "write: " + err.Error()}
				return
			}
			byDone <- c12ReadResp(bufio.NewReader(conn))
		}()
		select {
		case <-c12ByReached:
		case <-time.After(5 * time.Second):
			bystanderOK = false
		}
	}

	sup0, ep0 := c12SupCount()
	r1, followOK, reused := c12Exchange(site.addr, in.Path, id, in.AE)
	if !reused {
		time.Sleep(2 * time.Millisecond) // the handler goroutine of a dropped connection may still be logging
	}
	sup1, ep1 := c12SupCount()
	sup := sup1 - sup0
	if ep0 != ep1 {
		sup = sup1
	}

	if shape.panics {
		c12ByRelease <- struct{}{}
		select {
		case br := <-byDone:
			if br.Err != "" || br.Status != 200 || string(br.Body) != "part1part2" {
				bystanderOK = false
			}
		case <-time.After(8 * time.Second):
			bystanderOK = false
		}
	}

	respOK := r1.Err == ""
	view, garbled := c12View(r1.Header, r1.Body)
	if i := bytes.Index(view, []byte("[PANIC ")); i >= 0 {
		view = append(append([]byte{}, view[:i]...), []byte("[PANIC]")...)
	}
	// the message of text/template's parse error is not modelled: it is replaced by the probe's
	if i := bytes.Index(view, []byte("] template: ")); i >= 0 && bytes.HasPrefix(view, []byte("[ERROR 500 ")) {
		if j := bytes.IndexByte(view[i:], '\n'); j >= 0 {
			view = append(append(append([]byte{}, view[:i]...), []byte("] c12err")...), view[i+j:]...)
		}
	}
	if garbled {
		view = nil
	}
	xprobe := "None"
	if v, ok := r1.Header["X-C12"]; ok && len(v) > 0 {
		xprobe = "(Some " + cStr(v[0]) + ")"
	}
	_, xcfg := r1.Header["X-Cfg"]
	_, xdel := r1.Header["X-Del"]
	obs := cApp("Build_obs", cZ(int64(r1.Status)), cBool(garbled), cBytes(view), cNat(sup), xprobe, cBool(xcfg), cBool(xdel))
	codes := []int{500, in.Ret}
	if in.Cfg.Status != 0 {
		codes = append(codes, in.Cfg.Status)
	}
	term := cApp("CReq", c12CfgTerm(in.Cfg), cStr(in.Path), cBool(in.AE), c12OpsTerm(in.Script), cZ(int64(in.Ret)), cBool(in.Err),
		c12Texts(codes...), obs, cBool(respOK), cBool(followOK), cBool(bystanderOK))
	bh := r1.Body
	if len(bh) > 80 {
		bh = bh[:80]
	}
	o := map[string]interface{}{"status": r1.Status, "ce": r1.Header["Content-Encoding"], "ct": r1.Header.Get("Content-Type"),
		"view": fmt.Sprintf("%q", view), "wire_head": fmt.Sprintf("%q", bh), "garbled": garbled, "superfluous_writeheader": sup,
		"x_c12": r1.Header["X-C12"], "x_cfg": xcfg, "x_del": xdel, "err": r1.Err, "followup_ok": followOK, "conn_reused": reused,
		"bystander_ok": bystanderOK, "site": c12SiteText(in.Cfg)}
	n := 0
	for _, b := range []bool{in.Cfg.Log, in.Cfg.Gzip && in.AE, in.Cfg.Header, in.Cfg.Errors != "", in.Cfg.Status != 0, in.Cfg.Templates} {
		if b {
			n++
		}
	}
	return Result{Term: term, Obs: o, Sig: sig, Class: fmt.Sprintf("%s:wrappers=%d", sig, n), Nontrivial: n >= 2}
}

// ---------------------------------------------------------------------------------------------
// generator

var c12ErrModes = []string{"", "plain", "visible", "pages", "generic", "missing", "empty"}
var c12Paths = []string{"/x.html", "/x.txt", "/x", "/st/x.html", "/rw/a.txt", "/dir/y.html", "/st"}
var c12Bodies = []string{"hello", "<html><body>c12 body</body></html>", "a", "line1\nline2\n", "plain text with {braces} and }} only", "{{"}

func c12Chunks(r *Rand, b string) []c12Op {
	var ops []c12Op
	if b == "" {
		if r.Bool() {
			ops = append(ops, c12Op{K: "w", D: ""})
		}
		return ops
	}
	for len(b) > 0 {
		n := len(b)
		if r.Chance(40) {
			n = r.Range(1, len(b))
		}
		ops = append(ops, c12Op{K: "w", D: b[:n]})
		b = b[n:]
		if r.Chance(8) {
			ops = append(ops, c12Op{K: "f"})
		}
	}
	return ops
}

// c12CoreScripts is the systematic part: every configuration meets each of these shapes.
func c12CoreScripts(r *Rand) []c12In {
	html := c12Op{K: "set", A: "Content-Type", B: "text/html; charset=utf-8"}
	xp := c12Op{K: "set", A: "X-C12", B: "v1"}
	xd := c12Op{K: "set", A: "X-Del", B: "gone"}
	w := func(s string) c12Op { return c12Op{K: "w", D: s} }
	wh := func(n int) c12Op { return c12Op{K: "wh", N: n} }
	pn := c12Op{K: "panic"}
	fl := c12Op{K: "f"}
	return []c12In{
		// error status reported without writing
		{Ret: 404}, {Ret: 500, Err: true}, {Ret: 403, Script: []c12Op{xp, xd}}, {Ret: 404, Err: true, Script: []c12Op{html}},
		{Ret: 503}, {Ret: 400, Err: true},
		// nothing written, no error status
		{Ret: 0}, {Ret: 200}, {Ret: 301}, {Ret: 0, Err: true},
		// written responses
		{Ret: 0, Script: []c12Op{xp, html, w("<p>hello</p>")}},
		{Ret: 200, Script: []c12Op{xp, xd, html, wh(200), w("<p>he"), w("llo</p>")}},
		{Ret: 0, Script: []c12Op{xp, html, wh(404), w("custom not found")}},
		{Ret: 0, Script: []c12Op{html, wh(500), w("custom failure")}},
		{Ret: 301, Script: []c12Op{xp, html, {K: "set", A: "Location", B: "/there/"}, wh(301), w("<a href=\"/there/\">Moved Permanently</a>.\n\n")}},
		{Ret: 0, Script: []c12Op{xp, html, {K: "set", A: "Location", B: "/there/"}, wh(302), w("moved")}},
		{Ret: 0, Script: []c12Op{wh(204)}},
		{Ret: 0, Script: []c12Op{xp, w("text"), fl, w(" more")}},
		{Ret: 0, Err: true, Script: []c12Op{xp, html, w("partial")}},
		{Ret: 0, Script: []c12Op{html, w("{{")}},
		// panics
		{Script: []c12Op{pn}}, {Script: []c12Op{xp, html, pn}},
		{Script: []c12Op{html, wh(200), pn}}, {Script: []c12Op{xp, html, w("before the panic"), pn}},
		{Script: []c12Op{html, w("flushed"), fl, pn}},
		// handlers that break the contract
		{Ret: 404, Script: []c12Op{html, w("wrote and failed")}},
		{Ret: 0, Script: []c12Op{html, wh(200), wh(404), w("twice")}},
	}
}

func c12RandomScript(r *Rand) c12In {
	var in c12In
	var ops []c12Op
	if r.Chance(50) {
		ops = append(ops, c12Op{K: "set", A: "Content-Type", B: r.Pick([]string{"text/html; charset=utf-8", "text/plain; charset=utf-8", "application/json"})})
	}
	if r.Chance(50) {
		ops = append(ops, c12Op{K: "set", A: "X-C12", B: r.Pick([]string{"v1", "v2"})})
	}
	if r.Chance(20) {
		ops = append(ops, c12Op{K: "set", A: "X-Del", B: "gone"})
	}
	kind := r.Intn(100)
	switch {
	case kind < 22: // error status, nothing written
		in.Ret = r.Range(400, 420)
		if r.Chance(40) {
			in.Ret = []int{404, 403, 500, 502, 503, 400, 410, 451, 599, 999}[r.Intn(10)]
		}
		in.Err = r.Chance(40)
	case kind < 30: // nothing written, no error status
		in.Ret = []int{0, 200, 204, 301, 302, 304, 399}[r.Intn(7)]
		in.Err = r.Chance(25)
	case kind < 80: // written response
		status := 200
		if r.Chance(55) {
			status = []int{200, 201, 202, 206, 301, 302, 307, 400, 403, 404, 410, 500, 502, 204, 304}[r.Intn(15)]
		}
		if r.Chance(4) {
			ops = append(ops, c12Op{K: "f"})
		}
		if status != 200 || r.Chance(40) {
			ops = append(ops, c12Op{K: "wh", N: status})
		}
		if r.Chance(3) {
			ops = append(ops, c12Op{K: "wh", N: status})
		}
		body := r.Pick(c12Bodies)
		if r.Chance(10) {
			body = ""
		}
		if status == 204 || status == 304 {
			body = ""
		}
		if r.Chance(3) {
			body = strings.Repeat("0123456789abcdef", 300) // beyond net/http's 4 kB buffer
		}
		if body != "" || r.Chance(30) {
			ops = append(ops, c12Chunks(r, body)...)
		}
		if r.Chance(4) {
			ops = append(ops, c12Op{K: "set", A: "X-Late", B: "1"})
		}
		if r.Chance(35) && status < 400 {
			in.Ret = status // what the file server (200) and browse (301) do after writing
		}
		if r.Chance(6) {
			in.Ret = []int{404, 500}[r.Intn(2)] // contract broken
		}
		in.Err = r.Chance(8)
	default: // panic
		switch r.Intn(5) {
		case 0:
		case 1:
			ops = append(ops, c12Op{K: "wh", N: []int{200, 404, 301}[r.Intn(3)]})
		case 2:
			ops = append(ops, c12Chunks(r, r.Pick(c12Bodies))...)
		case 3:
			ops = append(ops, c12Op{K: "w", D: "flushed"}, c12Op{K: "f"})
		case 4:
			ops = append(ops, c12Op{K: "f"})
		}
		ops = append(ops, c12Op{K: "panic"})
		if r.Chance(30) {
			ops = append(ops, c12Op{K: "w", D: "never"})
		}
	}
	in.Script = ops
	return in
}

func c12RandomCfg(r *Rand) c12Cfg {
	c := c12Cfg{ReqID: r.Bool(), Limits: r.Bool(), Log: r.Bool(), Rewrite: r.Bool(), Gzip: r.Bool(), Header: r.Bool(), Mime: r.Bool(), Templates: r.Bool()}
	c.Errors = r.Pick(c12ErrModes)
	if r.Chance(30) {
		c.Status = []int{404, 204, 403, 500, 301, 200, 410}[r.Intn(7)]
	}
	return c
}

func c12Gen(r *Rand, tier string) []interface{} {
	r = NewRand(r.U64())
	var out []interface{}
	nRandCfg, perCfg := 60, 30
	if tier == "thorough" {
		nRandCfg, perCfg = 700, 60
	}
	pickPath := func(c c12Cfg) string {
		if c.Status != 0 && r.Chance(25) {
			return r.Pick([]string{"/st/x.html", "/st"})
		}
		return r.Pick(c12Paths[:6])
	}
	// systematic: every subset of the response-relevant wrappers x the core scripts
	var cfgs []c12Cfg
	for mask := 0; mask < 16; mask++ {
		for _, em := range c12ErrModes {
			c := c12Cfg{Log: mask&1 != 0, Gzip: mask&2 != 0, Header: mask&4 != 0, Templates: mask&8 != 0, Errors: em,
				ReqID: r.Bool(), Limits: r.Bool(), Rewrite: r.Bool(), Mime: r.Bool()}
			if r.Chance(35) {
				c.Status = []int{404, 204, 403, 301}[r.Intn(4)]
			}
			cfgs = append(cfgs, c)
		}
	}
	for _, c := range cfgs {
		for _, in := range c12CoreScripts(r) {
			in := in
			in.Cfg = c
			in.Path = pickPath(c)
			in.AE = r.Chance(60)
			out = append(out, &in)
		}
	}
	for i := 0; i < nRandCfg; i++ {
		c := c12RandomCfg(r)
		for j := 0; j < perCfg; j++ {
			in := c12RandomScript(r)
			in.Cfg = c
			in.Path = pickPath(c)
			in.AE = r.Chance(60)
			out = append(out, &in)
		}
	}
	return out
}

func c12Cleanup() {
	for k, s := range c12Sites {
		s.inst.Stop()
		delete(c12Sites, k)
	}
	if c12Root != "" {
		os.RemoveAll(c12Root)
		c12Root = ""
	}
}

func init() {
	_ = sort.Strings
	register(&Property{
		ID: "C12", Imports: "V.Lib V.C12_Model", Judge: "judge", Shard: 400,
		Rule: "every case = one real HTTP/1.1 round trip (plus a follow-up request on the same connection, and for panicking handlers a concurrent in-flight request) against an in-process casket site made of a subset of log/gzip/header/errors(6 variants)/status/templates/request_id/limits/rewrite/mime around a scripted innermost handler; non-trivial = at least two response-relevant wrappers are active for the request; distinct = distinct case term",
		Gen: c12Gen,
		Decode: func(raw json.RawMessage) (interface{}, error) {
			in := &c12In{}
			return in, json.Unmarshal(raw, in)
		},
		Run: c12Run,
	})
}
