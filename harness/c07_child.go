package main

// C07: every lineage runs in a child process of the harness binary, so that a crash of the server
// code (a panic in one of casket's goroutines, e.g. a negative wait-group counter, os.Exit from a
// signal handler, a deadlock) is an observation about that lineage and not the end of the run,
// and so that lineages do not share process state (descriptors leaked by failed reloads, event
// hooks, signal handlers).  C07_INPROC=1 runs them in-process (debugging).

import (
	"bytes"
	"encoding/json"
	"fmt"
	"io"
	"os"
	"os/exec"
	"strings"
	"time"
)

type c07Wire struct {
	Term       string `json:"term"`
	Obs        c07Obs `json:"obs"`
	Sig        string `json:"sig"`
	Nontrivial bool   `json:"nontrivial"`
	Key        string `json:"key"`
	Direct     string `json:"direct"`
	Class      string `json:"class"`
}

func init() {
	extraCommands["c07child"] = func(args []string) int {
		raw, err := io.ReadAll(os.Stdin)
		if err != nil {
			return 3
		}
		in := &c07In{}
		if err := json.Unmarshal(raw, in); err != nil {
			fmt.Fprintln(os.Stderr, "c07child: bad input:", err)
			return 3
		}
		r := c07RunLineage(in)
		o, _ := r.Obs.(c07Obs)
		b, _ := json.Marshal(c07Wire{Term: r.Term, Obs: o, Sig: r.Sig, Nontrivial: r.Nontrivial, Key: r.Key, Direct: r.Direct, Class: r.Class})
		os.Stdout.Write(append([]byte("C07RESULT "), append(b, '\n')...))
		return 0
	}
}

func c07SigClass(in *c07In) (string, string) {
	kinds := map[string]bool{}
	for _, r := range in.Reloads {
		kinds[r.Kind] = true
	}
	var ks []string
	for _, k := range []string{"listen", "ok", "parse", "setup", "startup"} {
		if kinds[k] {
			ks = append(ks, k)
		}
	}
	mode := in.Mode
	if in.Signal {
		mode += "-sigusr1"
	}
	shut := in.ShutErr0
	for _, r := range in.Reloads {
		shut = shut || r.ShutErr
	}
	for _, r := range in.Reloads {
		if r.Hold {
			mode += "-hold"
			break
		}
	}
	if shut {
		// a class of its own: the instance being replaced has a failing OnShutdown callback
		return "hist:" + mode + ":old-onshutdown-error", mode + ":old-onshutdown-error"
	}
	return "hist:" + mode + ":" + strings.Join(ks, "+"), mode
}

// c07RunChild runs one lineage in a child process; ok=false means the child did not deliver a
// result (crash, hang): the returned Result then carries the direct violation.
func c07RunChild(in *c07In) Result {
	sig, class := c07SigClass(in)
	raw, _ := json.Marshal(in)
	cmd := exec.Command(os.Args[0], "c07child")
	cmd.Stdin = bytes.NewReader(raw)
	var stdout, stderr bytes.Buffer
	cmd.Stdout = &stdout
	cmd.Stderr = &stderr
	if err := cmd.Start(); err != nil {
		return Result{Term: "(CHist [] [] [])", Sig: sig, Class: class, Direct: "harness: cannot start the child process: " + err.Error()}
	}
	done := make(chan error, 1)
	go func() { done <- cmd.Wait() }()
	var werr error
	select {
	case werr = <-done:
	case <-time.After(100 * time.Second):
		cmd.Process.Kill()
		<-done
		c07Hung++
		return Result{Term: "(CHist [] [] [])", Sig: sig, Class: class,
			Obs:    c07Obs{Note: "child killed after 100 s; stderr tail: " + c07Tail(stderr.String(), 1500)},
			Direct: "the lineage did not finish within 100 s (Restart, Stop or a request hangs beyond every client timeout)"}
	}
	out := stdout.String()
	if i := strings.LastIndex(out, "C07RESULT "); i >= 0 {
		var w c07Wire
		line := out[i+10:]
		if j := strings.IndexByte(line, '\n'); j >= 0 {
			line = line[:j]
		}
		if err := json.Unmarshal([]byte(line), &w); err == nil {
			return Result{Term: w.Term, Obs: w.Obs, Sig: w.Sig, Nontrivial: w.Nontrivial, Key: w.Key, Direct: w.Direct, Class: w.Class}
		}
	}
	// no result: the process died
	what := "exit: " + fmt.Sprint(werr)
	st := stderr.String()
	if i := strings.Index(st, "panic: "); i >= 0 {
		what = c07Tail(st[i:], 0)
		if len(what) > 600 {
			what = what[:600]
		}
	} else if i := strings.Index(st, "fatal error: "); i >= 0 {
		what = st[i:]
		if len(what) > 600 {
			what = what[:600]
		}
	}
	return Result{Term: "(CHist [] [] [])", Sig: sig, Class: class,
		Obs:    c07Obs{Note: "child process died; stderr tail: " + c07Tail(st, 1500)},
		Direct: "the server process died during the lineage (" + what + ")"}
}

func c07Tail(s string, n int) string {
	if n > 0 && len(s) > n {
		return s[len(s)-n:]
	}
	return s
}
