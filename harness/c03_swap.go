package main

// C03 — sequences on one running site: requests interleaved with replacements of directories and
// files of the root by NEW INODES with the same content (a release written to a staging directory
// and renamed in, `rm -r` + re-create, `git checkout`, an editor's safe-write). What protects an
// internal location from its ancestors' listings and archives is the site's hide list, and
// FileServer.IsHidden compares with the files the hide-list entries name WHEN IT IS CALLED; a
// basicauth scope is a matter of the request path alone. So every request of such a sequence is
// judged exactly like a single request: the executable property on what the response discloses
// (CDisc), the names a listing / an archive carries against the tree as it is on disk at that
// moment (CHide), the file whose bytes are served (CServe).
// These cases run on a copy of the fixture of their own (<fixture>-swap), so that no other case
// ever sees a replaced inode.

import (
	"encoding/base64"
	"encoding/json"
	"fmt"
	"os"
	"path"
	"path/filepath"
	"strings"
)

type c03PreStep struct {
	Get   string `json:"get,omitempty"`   // request-target of a GET
	Creds string `json:"creds,omitempty"` // none | wrong | right …
	Swap  string `json:"swap,omitempty"`  // cleaned rooted path below the root: replaced by a new inode (a directory with everything below it)
}

var c03AltRoot string

// c03RootOf: the root the case's site serves — the shared fixture, or for a sequence its own copy
func c03RootOf(in *c03In) string {
	root := c03Fixture()
	if len(in.Pre) == 0 {
		return root
	}
	if c03AltRoot == "" {
		alt := root + "-swap"
		os.RemoveAll(alt)
		if err := c03CopyTree(root, alt); err != nil {
			panic(err)
		}
		c03AltRoot = alt
	}
	return c03AltRoot
}

func c03CopyTree(src, dst string) error {
	return filepath.Walk(src, func(p string, fi os.FileInfo, err error) error {
		if err != nil {
			return err
		}
		rel, _ := filepath.Rel(src, p)
		if fi.IsDir() {
			return os.MkdirAll(filepath.Join(dst, rel), 0o755)
		}
		b, err := os.ReadFile(p)
		if err != nil {
			return err
		}
		return os.WriteFile(filepath.Join(dst, rel), b, 0o644)
	})
}

func c03PreKey(in *c03In) string {
	if len(in.Pre) == 0 {
		return ""
	}
	b, _ := json.Marshal(in.Pre)
	return "|pre" + string(b)
}

// c03PreShape: "" for a single request, else "+seq(rSr)" — r a request, S a replacement
func c03PreShape(in *c03In) string {
	if len(in.Pre) == 0 {
		return ""
	}
	s := ""
	for _, st := range in.Pre {
		if st.Swap != "" {
			s += "S"
		} else {
			s += "r"
		}
	}
	return "+seq(" + s + "r)"
}

func c03RunPre(addr string, in *c03In, root string) error {
	for _, st := range in.Pre {
		switch {
		case st.Swap != "":
			if err := c03SwapPath(root, st.Swap); err != nil {
				return fmt.Errorf("swap %s: %v", st.Swap, err)
			}
		case st.Get != "":
			hdr := map[string]string{}
			if user, pw, ok := c03CredPair(st.Creds); ok {
				hdr["Authorization"] = "Basic " + base64.StdEncoding.EncodeToString([]byte(user+":"+pw))
			}
			if in.ep != nil {
				hdr["Host"] = in.ep.host
			}
			doRaw(addr, "GET", st.Get, hdr, nil)
		}
	}
	return nil
}

// c03SwapPath replaces root+p by a new inode with the same content: a file by write + rename, a
// directory by building a copy beside it and renaming the copy into its place.
func c03SwapPath(root, p string) error {
	if p != path.Clean("/"+p) || p == "/" {
		return fmt.Errorf("not a cleaned rooted path below the root")
	}
	at := filepath.Join(root, filepath.FromSlash(p))
	fi, err := os.Lstat(at)
	if err != nil {
		return err
	}
	neu, old := at+".new~", at+".old~"
	os.RemoveAll(neu)
	os.RemoveAll(old)
	if fi.IsDir() {
		if err := c03CopyTree(at, neu); err != nil {
			return err
		}
		if err := os.Rename(at, old); err != nil {
			return err
		}
		if err := os.Rename(neu, at); err != nil {
			return err
		}
		return os.RemoveAll(old)
	}
	b, err := os.ReadFile(at)
	if err != nil {
		return err
	}
	if err := os.WriteFile(neu, b, 0o644); err != nil {
		return err
	}
	return os.Rename(neu, at)
}

// c03GenSwap: for the protections with an internal location (a directory, a directory deeper in
// the tree, an index page, a plain file, a precompressed sibling, two directives, basicauth +
// internal) and for basicauth-protected directories: a request that makes the server evaluate the
// hide list (a public file, a listing, an archive, the protected thing itself), then the protected
// directory / file — or the directory it lies in — replaced on disk by a new inode, then, without
// credentials: the listing (HTML, JSON) and the archives of every ancestor, the protected files
// asked for directly and through the file server's own lookups. Longer histories swap twice with
// requests in between; every request of a history is a judged case.
func c03GenSwap(r *Rand, tier string) []interface{} {
	var out []interface{}
	browse := "browse / {\n servearchive zip tar\n}"
	type plan struct {
		prot  string
		swaps []string // what is replaced: the protected thing and its ancestors
		dirs  []string // ancestors whose listing / archive is asked for
		files []string // protected files asked for directly
	}
	plans := []plan{
		{"internal", []string{"/int"}, []string{"/"}, []string{"/int/h.txt", "/int/", "/int/index.html"}},
		{"int-deep", []string{"/arc/priv", "/arc"}, []string{"/", "/arc/"}, []string{"/arc/priv/p.txt", "/arc/priv/"}},
		{"int-index", []string{"/int/index.html", "/int"}, []string{"/", "/int/"}, []string{"/int/index.html", "/int/"}},
		{"int-file", []string{"/int/h.txt", "/int"}, []string{"/", "/int/"}, []string{"/int/h.txt"}},
		{"int-gz", []string{"/secret/f.txt.gz", "/secret"}, []string{"/", "/secret/"}, []string{"/secret/f.txt.gz", "/secret/f.txt"}},
		{"int-two", []string{"/int", "/arc/priv/p.txt", "/secret/pub/deep/x", "/secret/pub/deep", "/arc/priv"}, []string{"/", "/arc/", "/arc/priv/", "/secret/pub/deep/", "/secret/pub/"}, []string{"/int/h.txt", "/arc/priv/p.txt", "/secret/pub/deep/x/y.txt"}},
		{"auth-int", []string{"/int", "/secret/pub/deep", "/secret/pub", "/secret"}, []string{"/", "/secret/pub/", "/secret/pub/deep/"}, []string{"/int/h.txt", "/secret/pub/deep/d.txt", "/secret/f.txt"}},
		{"auth-dir", []string{"/secret", "/arc/priv", "/arc"}, []string{"/", "/arc/", "/secret/"}, []string{"/secret/f.txt", "/arc/priv/p.txt", "/secret/sub/g.md"}},
		{"auth-dir-ex", []string{"/secret", "/secret/pub"}, []string{"/", "/secret/", "/secret/pub/"}, []string{"/secret/f.txt", "/secret/pub/open.txt"}},
	}
	warm := []c03PreStep{{Get: "/pub/a.txt"}, {Get: "/"}, {Get: "/?archive=zip"}, {Get: "/index.html"}, {Get: "/arc/open.txt"}}
	thorough := tier == "thorough"
	for _, pl := range plans {
		onlyInternal := len(c03Prots[pl.prot].rules) == 0
		for si, sw := range pl.swaps {
			w := warm[r.Intn(len(warm))]
			if r.Chance(30) {
				w = c03PreStep{Get: pl.files[r.Intn(len(pl.files))], Creds: r.Pick([]string{"none", "right"})}
			}
			pre := []c03PreStep{w, {Swap: sw}}
			// a longer history: another request, another replacement (the same thing again or another one)
			long := []c03PreStep{w, {Swap: sw}, {Get: pl.dirs[0] + "?archive=tar"}, {Swap: pl.swaps[(si+1)%len(pl.swaps)]}, {Get: pl.files[0]}}
			for _, d := range pl.dirs {
				// the fixture's root has an index page, which browse would serve instead of a listing / an archive
				ex := []string{browse}
				if d == "/" || r.Chance(30) {
					ex = append(ex, "index nothing.html")
				}
				for _, q := range []string{"", "?archive=zip", "?archive=tar"} {
					for _, p := range [][]c03PreStep{pre, long} {
						if len(p) > 2 && !(thorough || r.Chance(50)) {
							continue
						}
						if onlyInternal {
							out = append(out, &c03In{Kind: "hide", Prot: pl.prot, Extras: ex, Target: d + q, Method: "GET", Creds: "none",
								Accept: []string{"", "json"}[(si+len(q))%2], Pre: p})
						}
						out = append(out, &c03In{Kind: "site", Prot: pl.prot, Extras: ex, Target: d + q, Method: "GET",
							Creds: r.Pick([]string{"none", "none", "wrong"}), AE: r.Pick([]string{"", "gzip"}), Pre: p})
					}
				}
			}
			for _, f := range pl.files {
				out = append(out, &c03In{Kind: "site", Prot: pl.prot, Extras: []string{browse}, Target: f, Method: r.Pick([]string{"GET", "GET", "HEAD", "POST"}),
					Creds: r.Pick([]string{"none", "wrong"}), AE: r.Pick([]string{"", "gzip", "gzip, br"}), Pre: pre})
				// with valid credentials the same request is served normally, before and after the replacement
				out = append(out, &c03In{Kind: "site", Prot: pl.prot, Extras: []string{browse}, Target: f, Method: "GET", Creds: "right", Pre: pre})
				if onlyInternal {
					out = append(out, &c03In{Kind: "serve", Prot: pl.prot, Target: f, Method: "GET", Creds: "none", AE: r.Pick([]string{"", "gzip", "br,gzip"}), Pre: pre})
					if strings.HasSuffix(f, ".gz") || strings.HasSuffix(f, "/") {
						out = append(out, &c03In{Kind: "serve", Prot: pl.prot, Target: f, Method: "GET", Creds: "none", AE: "gzip", Pre: long})
					}
				}
			}
		}
	}
	return out
}
