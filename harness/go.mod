module verifharness

go 1.22

require (
	github.com/andybalholm/brotli v1.1.0
	github.com/caddyserver/certmagic v0.20.0
	github.com/golang/snappy v0.0.4
	github.com/klauspost/compress v1.17.8
	github.com/pierrec/lz4/v4 v4.1.21
	github.com/tmpim/casket v0.0.0
	github.com/ulikunitz/xz v0.5.12
)

require (
	github.com/djherbis/buffer v1.2.0 // indirect
	github.com/djherbis/nio/v3 v3.0.1 // indirect
	github.com/dsnet/compress v0.0.2-0.20210315054119-f66993602bf5 // indirect
	github.com/dustin/go-humanize v1.0.1 // indirect
	github.com/flynn/go-shlex v0.0.0-20150515145356-3f9db97f8568 // indirect
	github.com/google/uuid v1.6.0 // indirect
	github.com/gorilla/websocket v1.5.1 // indirect
	github.com/hashicorp/go-syslog v1.0.0 // indirect
	github.com/inhies/go-bytesize v0.0.0-20220417184213-4913239db9cf // indirect
	github.com/jimstudt/http-authentication v0.0.0-20140401203705-3eca13d6893a // indirect
	github.com/klauspost/cpuid v1.3.1 // indirect
	github.com/klauspost/cpuid/v2 v2.2.7 // indirect
	github.com/klauspost/pgzip v1.2.6 // indirect
	github.com/libdns/libdns v0.2.2 // indirect
	github.com/mholt/acmez v1.2.0 // indirect
	github.com/mholt/archiver/v3 v3.5.1 // indirect
	github.com/miekg/dns v1.1.59 // indirect
	github.com/naoina/go-stringutil v0.1.0 // indirect
	github.com/naoina/toml v0.1.1 // indirect
	github.com/nwaples/rardecode v1.1.3 // indirect
	github.com/quic-go/qpack v0.4.0 // indirect
	github.com/quic-go/quic-go v0.43.0 // indirect
	github.com/rakyll/statik v0.1.7 // indirect
	github.com/russross/blackfriday v1.6.0 // indirect
	github.com/xi2/xz v0.0.0-20171230120015-48954b6210f8 // indirect
	github.com/zeebo/blake3 v0.2.3 // indirect
	go.uber.org/multierr v1.11.0 // indirect
	go.uber.org/zap v1.27.0 // indirect
	golang.org/x/crypto v0.22.0 // indirect
	golang.org/x/exp v0.0.0-20240416160154-fe59bbe5cc7f // indirect
	golang.org/x/net v0.24.0 // indirect
	golang.org/x/sys v0.19.0 // indirect
	golang.org/x/text v0.14.0 // indirect
	gopkg.in/natefinch/lumberjack.v2 v2.2.1 // indirect
	gopkg.in/yaml.v2 v2.4.0 // indirect
)

replace github.com/tmpim/casket => /repo
