package main

import (
	"log"
	"io"
	"encoding/hex"
	"encoding/json"
	"fmt"
	"net/http"
	"net/http/httptest"
	"net/url"
	"regexp"
	"strings"
	"unicode/utf8"

	"github.com/caddyserver/certmagic"
	"github.com/tmpim/casket"
	"github.com/tmpim/casket/caskethttp/httpserver"
	"github.com/tmpim/casket/caskettls"
)

// c01B is a byte string. In JSON it is a plain string when it is valid UTF-8 and {"hex":"…"}
// otherwise, so replays reproduce arbitrary bytes (truncated multi-byte sequences, 0xff …).
type c01B string

func (b c01B) MarshalJSON() ([]byte, error) {
	if utf8.ValidString(string(b)) {
		return json.Marshal(string(b))
	}
	return json.Marshal(map[string]string{"hex": hex.EncodeToString([]byte(b))})
}
func (b *c01B) UnmarshalJSON(raw []byte) error {
	var s string
	if err := json.Unmarshal(raw, &s); err == nil {
		*b = c01B(s)
		return nil
	}
	var m map[string]string
	if err := json.Unmarshal(raw, &m); err != nil {
		return err
	}
	x, err := hex.DecodeString(m["hex"])
	*b = c01B(x)
	return err
}

type c01Site struct {
	Key      c01B `json:"key"` // address as written in the Casketfile
	Fallback bool `json:"fallback,omitempty"`
}
type c01In struct {
	Sites  []c01Site `json:"sites"`
	Host   c01B      `json:"host"`
	Path   c01B      `json:"path"`             // URL.Path as the server sees it (decoded bytes)
	Target c01B      `json:"target,omitempty"` // if set: raw request-target, parsed by url.ParseRequestURI as net/http does
	Proto  int       `json:"proto"`
	// several listeners created one after the other in ONE process (a group listed twice = the listener
	// created again, as a reload does), then requests to any of them after all exist
	Groups [][]c01Site `json:"groups,omitempty"`
	Reqs   []c01Req    `json:"reqs,omitempty"`
	// set for the request-SEQUENCE stream (H): the shape of the history (miss-then-hits, hits-then-miss, …)
	Seq string `json:"seq,omitempty"`
}
type c01Req struct {
	Srv   int  `json:"srv"` // index into groups
	Host  c01B `json:"host"`
	Path  c01B `json:"path"`
	Proto int  `json:"proto"`
}

var c01Magic *certmagic.Config

func c01TLS() *caskettls.Config {
	if c01Magic == nil {
		c01Magic = certmagic.NewDefault()
	}
	return &caskettls.Config{Manager: c01Magic, Issuer: certmagic.NewACMEIssuer(c01Magic, certmagic.ACMEIssuer{})}
}

var c01Simple = regexp.MustCompile(`^[A-Za-z0-9/._-]*$`)

const c01Trivial = `(CRoute [] [] [] [] 1%N false [] 404%N [] [])`

// c01RunMulti: NewServer for every group in order, all servers kept alive, then every request is sent to its
// listener. Site ids are unique over the whole process, so a site of another listener answering is visible.
func c01RunMulti(in *c01In) Result {
	var trace []uint64
	gotPath, gotPrefix := "", ""
	var srvs []*httpserver.Server
	var groupTerms []string
	nextID := uint64(0)
	fbPer := []int{}
	for _, g := range in.Groups {
		var group []*httpserver.SiteConfig
		var siteTerms, xf []string
		for _, s := range g {
			addr, err := httpserver.VerifStandardizeAddress(string(s.Key))
			if err != nil {
				return Result{Term: c01Trivial, Obs: "address error: " + err.Error(), Class: "addr-error", Sig: "addr-error"}
			}
			addr = addr.Normalize()
			cfg := &httpserver.SiteConfig{Addr: addr, TLS: c01TLS(), FallbackSite: s.Fallback}
			id := nextID
			nextID++
			cfg.AddMiddleware(func(next httpserver.Handler) httpserver.Handler {
				return handlerFunc(func(w http.ResponseWriter, r *http.Request) (int, error) {
					trace = append(trace, id)
					gotPath = r.URL.Path
					gotPrefix, _ = r.Context().Value(casket.CtxKey("path_prefix")).(string)
					w.WriteHeader(200)
					return 0, nil
				})
			})
			group = append(group, cfg)
			siteTerms = append(siteTerms, cPair(cStr(addr.VHost()), cN(id)))
			if s.Fallback {
				xf = append(xf, addr.Host)
			}
		}
		srv, err := httpserver.NewServer("127.0.0.1:0", group)
		if err != nil {
			return Result{Term: c01Trivial, Obs: "NewServer: " + err.Error(), Class: "newserver-error", Sig: "newserver-error", Direct: "NewServer failed: " + err.Error()}
		}
		srvs = append(srvs, srv)
		groupTerms = append(groupTerms, cPair(cList(siteTerms), cStrList(xf)))
		fbPer = append(fbPer, len(xf))
	}
	var reqTerms []string
	var obs []map[string]interface{}
	hits := 0
	for _, q := range in.Reqs {
		if q.Srv < 0 || q.Srv >= len(srvs) {
			return Result{Term: c01Trivial, Obs: "request names no listener", Class: "bad-listener", Sig: "bad-listener"}
		}
		trace, gotPath, gotPrefix = nil, "", ""
		req := httptest.NewRequest("GET", "http://placeholder.invalid/", nil)
		req.Host = string(q.Host)
		up := string(q.Path)
		req.URL = &url.URL{Path: up}
		req.RequestURI = up
		req.ProtoMajor = q.Proto
		rec := httptest.NewRecorder()
		srvs[q.Srv].ServeHTTP(rec, req)
		if len(trace) > 0 {
			hits++
		}
		reqTerms = append(reqTerms, "{| mq_srv := "+cN(uint64(q.Srv))+"; mq_host := "+cStr(string(q.Host))+"; mq_path := "+cStr(up)+
			"; mq_proto := "+cN(uint64(q.Proto))+"; mq_simple := "+cBool(c01Simple.MatchString(up))+"; mq_trace := "+cNList(trace)+
			"; mq_status := "+cN(uint64(rec.Code))+"; mq_prefix := "+cStr(gotPrefix)+"; mq_opath := "+cStr(gotPath)+" |}")
		obs = append(obs, map[string]interface{}{"srv": q.Srv, "trace": append([]uint64{}, trace...), "status": rec.Code, "prefix": gotPrefix})
	}
	term := cApp("CMulti", cList(groupTerms), cList(reqTerms))
	one := 0
	for _, n := range fbPer {
		if n == 1 {
			one++
		}
	}
	if in.Seq != "" {
		// a request SEQUENCE against one running server (or two): every answer is judged by the per-request
		// spec on its own listener's sites — the routing of request i must not depend on requests 1..i-1
		return Result{Term: term, Obs: obs, Sig: "sequence", Nontrivial: len(in.Reqs) >= 2,
			Class: fmt.Sprintf("sequence:%s:n=%d:reqs=%d:hits=%d", in.Seq, len(in.Groups), len(in.Reqs), hits)}
	}
	return Result{Term: term, Obs: obs, Sig: "listeners", Nontrivial: len(in.Groups) >= 2 && len(in.Reqs) >= 2,
		Class: fmt.Sprintf("listeners:n=%d:one-fallback=%d:hit-all=%v", len(in.Groups), one, hits == len(in.Reqs))}
}

func c01Run(in0 interface{}) Result {
	in := in0.(*c01In)
	// serveHTTP logs "No such site" with the raw Host text; ill-formed UTF-8 there must not reach the driver's pipe
	log.SetOutput(io.Discard)
	if len(in.Groups) > 0 {
		return c01RunMulti(in)
	}
	var group []*httpserver.SiteConfig
	var trace []uint64 // ids of the sites whose marker ran, in order: which site ran and how many handlers ran
	gotPath, gotPrefix := "", ""
	var siteTerms, xf []string
	for i, s := range in.Sites {
		addr, err := httpserver.VerifStandardizeAddress(string(s.Key))
		if err != nil {
			return Result{Term: c01Trivial, Obs: "address error: " + err.Error(), Class: "addr-error", Sig: "addr-error"}
		}
		addr = addr.Normalize() // as InspectServerBlocks does
		cfg := &httpserver.SiteConfig{Addr: addr, TLS: c01TLS(), FallbackSite: s.Fallback}
		id := uint64(i)
		cfg.AddMiddleware(func(next httpserver.Handler) httpserver.Handler {
			return handlerFunc(func(w http.ResponseWriter, r *http.Request) (int, error) {
				trace = append(trace, id)
				gotPath = r.URL.Path
				gotPrefix, _ = r.Context().Value(casket.CtxKey("path_prefix")).(string)
				w.Header().Set("X-Site", fmt.Sprint(id))
				w.WriteHeader(200)
				return 0, nil
			})
		})
		group = append(group, cfg)
		siteTerms = append(siteTerms, cPair(cStr(addr.VHost()), cN(id)))
		if s.Fallback {
			xf = append(xf, addr.Host)
		}
	}
	srv, err := httpserver.NewServer("127.0.0.1:0", group)
	if err != nil {
		return Result{Term: c01Trivial, Obs: "NewServer: " + err.Error(), Class: "newserver-error", Sig: "newserver-error", Direct: "NewServer failed: " + err.Error()}
	}
	req := httptest.NewRequest("GET", "http://placeholder.invalid/", nil)
	req.Host = string(in.Host)
	up := string(in.Path)
	if strings.HasPrefix(string(in.Target), "/") {
		// origin-form target: the Coq model decodes the raw text itself (CTarget); Go's URL.Path is handed over
		// only to be compared with the model's decoding and to be checked by the lock-step spelling clause
		raw := string(in.Target)
		u, err := url.ParseRequestURI(raw)
		var gp *string
		code := 400 // net/http answers 400 before any handler when the request line does not parse
		if err == nil {
			req.URL = u
			req.RequestURI = raw
			req.ProtoMajor = in.Proto
			rec := httptest.NewRecorder()
			srv.ServeHTTP(rec, req)
			code = rec.Code
			t := cStr(u.Path)
			gp = &t
		}
		term := cApp("CTarget", cList(siteTerms), cStrList(xf), cStr(string(in.Host)), cStr(raw), cOpt(gp), cN(uint64(in.Proto)),
			cNList(trace), cN(uint64(code)), cStr(gotPrefix), cStr(gotPath))
		esc, upper, lower, hi, slash := false, false, false, false, false
		for i := 0; i+2 < len(raw); i++ {
			if raw[i] == '%' {
				esc = true
				d := raw[i+1 : i+3]
				if strings.ContainsAny(d, "ABCDEF") {
					upper = true
				}
				if strings.ContainsAny(d, "abcdef") {
					lower = true
				}
				if d[0] >= '8' {
					hi = true
				}
				if strings.EqualFold(d, "2f") {
					slash = true
				}
			}
		}
		feat := ""
		if esc {
			feat += "+esc"
		}
		if upper && lower {
			feat += "+mixedhex"
		}
		if hi {
			feat += "+hioctet"
		}
		if slash {
			feat += "+2F"
		}
		if err != nil {
			feat += "+rejected"
		}
		return Result{Term: term, Obs: map[string]interface{}{"trace": trace, "status": code, "prefix": gotPrefix, "path": gotPath, "rejected": err != nil},
			Sig: "target", Nontrivial: len(in.Sites) >= 2 && esc, Class: fmt.Sprintf("target%s:hit=%v", feat, len(trace) > 0)}
	}
	if in.Target != "" {
		u, err := url.ParseRequestURI(string(in.Target))
		if err != nil {
			return Result{Term: c01Trivial, Obs: "request-target rejected by net/url: " + err.Error(), Class: "bad-target", Sig: "bad-target"}
		}
		req.URL = u
		req.RequestURI = string(in.Target)
		up = u.Path
	} else {
		req.URL = &url.URL{Path: up}
		req.RequestURI = up
	}
	req.ProtoMajor = in.Proto
	rec := httptest.NewRecorder()
	srv.ServeHTTP(rec, req)
	simple := c01Simple.MatchString(up) && in.Target == ""
	term := cApp("CRoute", cList(siteTerms), cStrList(xf), cStr(string(in.Host)), cStr(up), cN(uint64(in.Proto)), cBool(simple),
		cNList(trace), cN(uint64(rec.Code)), cStr(gotPrefix), cStr(gotPath))
	if in.Target == "" && !c01ASCII(string(in.Host)) && !strings.Contains(string(in.Host), "/") && strings.HasPrefix(up, "/") {
		// a Host with non-ASCII bytes: judged by the model with Go's Unicode-aware folding (CRouteU)
		term = cApp("CRouteU", cList(siteTerms), cStrList(xf), cStr(string(in.Host)), cStr(up), cN(uint64(in.Proto)),
			cNList(trace), cN(uint64(rec.Code)), cStr(gotPrefix), cStr(gotPath))
		cls := "valid"
		if !utf8.ValidString(string(in.Host)) {
			cls = "illformed"
		} else if strings.ToLower(string(in.Host)) != c01LowerASCII(string(in.Host)) {
			cls = "upper"
		}
		return Result{Term: term, Obs: map[string]interface{}{"trace": trace, "status": rec.Code, "prefix": gotPrefix, "path": gotPath},
			Sig: "route:nonascii-host", Nontrivial: len(in.Sites) >= 2, Class: fmt.Sprintf("route:nonascii-host:%s:hit=%v", cls, len(trace) > 0)}
	}
	sig := "route"
	brack := strings.Contains(string(in.Host), "[")
	multi := !c01ASCII(up)
	wild, nested := 0, false
	hostsSeen := map[string]int{}
	for _, s := range in.Sites {
		k := string(s.Key)
		if strings.Contains(k, "[") {
			brack = true
		}
		if strings.Contains(k, "*") {
			wild++
		}
		if !c01ASCII(k) {
			multi = true
		}
		h := strings.ToLower(strings.SplitN(strings.TrimPrefix(k, "http://"), "/", 2)[0])
		hostsSeen[h]++
		if hostsSeen[h] > 1 {
			nested = true
		}
	}
	if brack {
		sig = "route:bracketed-ipv6"
	}
	feat := ""
	if wild >= 2 {
		feat += "+wild"
	}
	if nested {
		feat += "+nested"
	}
	if multi {
		feat += "+nonascii"
	}
	if in.Target != "" {
		feat += "+target"
	}
	return Result{Term: term, Obs: map[string]interface{}{"trace": trace, "status": rec.Code, "prefix": gotPrefix, "path": gotPath},
		Sig: sig, Nontrivial: len(in.Sites) >= 2, Class: fmt.Sprintf("%s%s:hit=%v", sig, feat, len(trace) > 0)}
}

func c01LowerASCII(s string) string {
	b := []byte(s)
	for i, c := range b {
		if c >= 'A' && c <= 'Z' {
			b[i] = c + 32
		}
	}
	return string(b)
}

func c01ASCII(s string) bool {
	for i := 0; i < len(s); i++ {
		if s[i] >= 0x80 {
			return false
		}
	}
	return true
}

// ---- generator ----

func c01MixCase(r *Rand, s string) string {
	b := []byte(s)
	for i, c := range b {
		if c >= 'a' && c <= 'z' && r.Chance(40) {
			b[i] = c - 32
		} else if c >= 'A' && c <= 'Z' && r.Chance(40) {
			b[i] = c + 32
		}
	}
	return string(b)
}

// the host part of a site key (scheme, port and path removed), brackets kept
func c01KeyHost(key string) string {
	s := strings.TrimPrefix(key, "http://")
	if j := strings.Index(s, "/"); j >= 0 {
		s = s[:j]
	}
	if strings.HasPrefix(s, "[") {
		if j := strings.Index(s, "]"); j >= 0 {
			return s[:j+1]
		}
		return s
	}
	if j := strings.LastIndex(s, ":"); j >= 0 && !strings.Contains(s[:j], ":") {
		s = s[:j]
	}
	return s
}
func c01KeyPath(key string) string {
	s := strings.TrimPrefix(key, "http://")
	if j := strings.Index(s, "/"); j >= 0 {
		return s[j:]
	}
	return "/"
}

var c01SitePaths = []string{"", "", "/", "/a", "/a/b", "/ab", "/a/", "/A", "/a/b/c", "/x.y",
	"/caf", "/caf\xc3", "/caf\xc3\xa9", "/caf\xc3\xa9/menu", "/\xe3\x83\x89", "/\xe3\x83\x89\xe3\x82\xad", "/\xe3\x83",
	"/a%20b", "/a%2Fb", "/%C3%A9", "/a+b", "/\xf0\x9f\x98\x80", "/\xf0\x9f\x98", "/\xc3\x83\xc2\xa9"}

var c01PathTails = []string{"", "", "/", "x", "/x", "\xa9", "\xc3\xa9", "\xc3", "\xe3\x82\xad", "\x83\x89", "%20", "%2F", "/../b", "//", "\xff", "\xc2\x80", "b/c/d", "\x80", "?", "é/ü"}

func c01ReqPath(r *Rand, sites []c01Site) string {
	base := "/"
	if len(sites) > 0 && r.Chance(75) {
		base = c01KeyPath(string(sites[r.Intn(len(sites))].Key))
	} else {
		base = r.Pick(c01SitePaths)
		if base == "" {
			base = "/"
		}
	}
	switch r.Intn(10) {
	case 0: // a proper prefix, possibly cutting a multi-byte sequence
		if len(base) > 1 {
			base = base[:r.Range(1, len(base)-1)]
		}
	case 1: // one byte changed
		b := []byte(base)
		if len(b) > 1 {
			i := r.Range(1, len(b)-1)
			b[i] ^= byte(1 << uint(r.Intn(8)))
			base = string(b)
		}
	case 2: // other letter case
		base = c01MixCase(r, base)
	case 3: // a stray byte (often >= 0x80) inside a declared prefix, then the rest of it
		if len(base) > 1 {
			i := r.Range(1, len(base)-1)
			base = base[:i] + r.Pick([]string{"\xc3", "\xa9", "\xe3\x83", "\xff", "%", "/", "\x80"}) + base[i:] + r.Pick(c01PathTails)
		}
	default:
		base += r.Pick(c01PathTails)
		if r.Chance(20) {
			base += r.Pick(c01PathTails)
		}
	}
	return base
}

func c01ReqHost(r *Rand, sites []c01Site, foreign []string) string {
	host := r.Pick(foreign)
	if len(sites) > 0 && r.Chance(65) { // aim at a declared host
		host = c01KeyHost(string(sites[r.Intn(len(sites))].Key))
		for strings.Contains(host, "*") {
			host = strings.Replace(host, "*", r.Pick([]string{"w", "W", "q-1", "*", "xn--caf-dma"}), 1)
		}
		if r.Chance(15) { // one label more / one label less
			if r.Bool() {
				host = "sub." + host
			} else if j := strings.Index(host, "."); j >= 0 {
				host = host[j+1:]
			}
		}
	}
	if r.Chance(45) {
		host = c01MixCase(r, host)
	}
	return host + r.Pick([]string{"", "", "", ":80", ":8080", ":2015", ":", ":443", ":http"})
}

func c01Perms(n int) [][]int {
	if n == 0 {
		return [][]int{{}}
	}
	var out [][]int
	for _, p := range c01Perms(n - 1) {
		for i := 0; i <= len(p); i++ {
			q := append(append(append([]int{}, p[:i]...), n-1), p[i:]...)
			out = append(out, q)
		}
	}
	return out
}

func c01Gen(r *Rand, tier string) []interface{} {
	var out []interface{}
	hosts := []string{"a.com", "b.a.com", "c.b.a.com", "*.a.com", "*.*.com", "*.b.a.com", "*", "", "0.0.0.0", "[::]", "127.0.0.1",
		"localhost", "A.com", "x.org", "*.org", "*.*.*.com", "[::1]", "[2001:DB8::1]", "b.A.com", "a.com.", "*.*", "*.*.a.com", "*.*.*.*",
		"B.a.CoM", "[fe80::1]", "*.localhost", "xn--caf-dma.com", "caf\xc3\xa9.com", "*.caf\xc3\xa9.com", "CAF\xc3\xa9.com"}
	ports := []string{"", "", "", ":8080", ":2015", ":80"}
	foreign := []string{"a.com", "A.COM", "b.a.com", "B.a.Com", "c.b.a.com", "d.c.b.a.com", "z.com", "x.org", "y.x.org", "", "localhost",
		"127.0.0.1", "0.0.0.0", "[::1]", "[::]", "zzz", "a.com.", "q.z.com", "*.a.com", "com", "b.a.org", "[2001:db8::1]", "[2001:DB8::1]", "::1", "[fe80::1]", "a.b.c.d", "caf\xc3\xa9.com", "Caf\xc3\xa9.COM:80", "w.caf\xc3\xa9.com"}
	scale := 1
	if tier == "thorough" {
		scale = 10
	}
	protoOf := func() int {
		switch r.Intn(20) {
		case 0, 1, 2:
			return 2
		case 3:
			return 3
		case 4:
			return 0
		}
		return 1
	}
	emit := func(sites []c01Site, host, path string, proto int) {
		in := &c01In{Sites: sites, Host: c01B(host), Path: c01B(path), Proto: proto}
		out = append(out, in)
	}
	permuted := func(sites []c01Site, perm []int) []c01Site {
		ps := make([]c01Site, len(sites))
		for a, b := range perm {
			ps[a] = sites[b]
		}
		return ps
	}

	// (A) mixed site sets, 1-5 addresses; distinct normalised keys mostly, sometimes a repeated address
	for i := 0; i < 1700*scale; i++ {
		ns := r.Range(1, 5)
		var sites []c01Site
		seen := map[string]bool{}
		for tries := 0; len(sites) < ns && tries < 20; tries++ {
			h := r.Pick(hosts)
			p := r.Pick(c01SitePaths)
			key := h + r.Pick(ports) + p
			if h == "" && p == "" {
				key = ":2015"
			}
			pp := p
			if pp == "" {
				pp = "/"
			}
			nk := strings.ToLower(strings.Trim(h, "[]")) + "|" + pp
			if seen[nk] && !r.Chance(8) {
				continue
			}
			seen[nk] = true
			if r.Chance(12) {
				key = "http://" + key
			}
			sites = append(sites, c01Site{Key: c01B(key), Fallback: r.Chance(10) && h != ""})
		}
		if len(sites) == 0 {
			continue
		}
		host, path, proto := c01ReqHost(r, sites, foreign), c01ReqPath(r, sites), protoOf()
		emit(sites, host, path, proto)
		if r.Chance(35) && len(sites) > 1 {
			emit(permuted(sites, r.Perm(len(sites))), host, path, proto)
		}
	}

	// (B) wildcard patterns of different depths for one name, declared in EVERY order
	chains := [][]string{
		{"c.b.a.com", "*.b.a.com", "*.*.a.com", "*.*.*.com", "*.*.*.*"},
		{"b.a.com", "*.a.com", "*.*.com", "*.*.*", "*"},
		{"x.org", "*.org", "*.*", "", "0.0.0.0"},
		{"localhost", "*", "*.localhost", "[::]", ""},
	}
	for i := 0; i < 24*scale; i++ {
		ch := chains[r.Intn(len(chains))]
		k := r.Range(2, 4)
		idx := r.Perm(len(ch))[:k]
		var sites []c01Site
		for _, j := range idx {
			h := ch[j]
			key := c01MixCase(r, h) + r.Pick(ports) + r.Pick([]string{"", "", "/a", "/caf\xc3\xa9"})
			if key == "" {
				key = ":2015"
			}
			sites = append(sites, c01Site{Key: c01B(key)})
		}
		target := ch[0]
		if r.Chance(30) {
			target = r.Pick([]string{"z." + target, "q.w.e.r", "zzz", "a.b.c"})
		}
		host := c01MixCase(r, target) + r.Pick([]string{"", ":80", ":2015"})
		path, proto := c01ReqPath(r, sites), protoOf()
		for _, perm := range c01Perms(k) {
			emit(permuted(sites, perm), host, path, proto)
		}
	}

	// (C) several sites sharing one host with nested path prefixes (multi-byte, percent text), plus a decoy host
	nestFamilies := [][]string{
		{"/", "/a", "/a/b", "/a/b/c", "/ab", "/a/"},
		{"/caf", "/caf\xc3", "/caf\xc3\xa9", "/caf\xc3\xa9/menu", "/", "/caf\xc3\xa9/m"},
		{"/\xe3\x83\x89", "/\xe3\x83\x89\xe3\x82\xad", "/\xe3\x83", "/\xe3", "/\xe3\x83\x89/\xe3\x82\xad"},
		{"/a%20b", "/a%20", "/a%2F", "/a", "/a%20b/c", "/a b"},
		{"/\xf0\x9f\x98\x80", "/\xf0\x9f\x98", "/\xf0\x9f", "/\xf0", "/\xf0\x9f\x98\x80/x"},
	}
	for i := 0; i < 700*scale; i++ {
		fam := nestFamilies[r.Intn(len(nestFamilies))]
		h := r.Pick([]string{"a.com", "*.a.com", "", "[::1]", "B.a.com", "*"})
		k := r.Range(2, 5)
		if k > len(fam) {
			k = len(fam)
		}
		idx := r.Perm(len(fam))[:k]
		var sites []c01Site
		for _, j := range idx {
			key := h + r.Pick(ports) + fam[j]
			if h == "" && !strings.Contains(key, ":") {
				key = ":2015" + fam[j]
			}
			sites = append(sites, c01Site{Key: c01B(key)})
		}
		if r.Chance(50) { // another host owning a longer / the root prefix: must never be consulted once h matched
			other := r.Pick([]string{"", "*", "*.com", "0.0.0.0", "z.com"})
			key := other + r.Pick([]string{":2015", ":80"}) + r.Pick([]string{"/", strings.TrimSuffix(fam[r.Intn(len(fam))], "/") + "/deeper"})
			pos := r.Intn(len(sites) + 1)
			sites = append(sites[:pos], append([]c01Site{{Key: c01B(key), Fallback: r.Chance(20) && other != ""}}, sites[pos:]...)...)
		}
		host, path, proto := c01ReqHost(r, sites, foreign), c01ReqPath(r, sites), protoOf()
		emit(sites, host, path, proto)
		if r.Chance(50) {
			emit(permuted(sites, r.Perm(len(sites))), host, path, proto)
		}
	}

	// (D) IPv6 literals with and without brackets/ports on both sides (repaired defect 74e3e5b)
	v6 := []string{"[::1]", "[::1]:2015", "[::]", "[::]:80", "[2001:DB8::1]", "[2001:db8::1]:8080", "[fe80::1]:2015", "[::ffff:1.2.3.4]"}
	v6req := []string{"[::1]", "[::1]:80", "[::1]:", "::1", "[::]", "[::]:2015", "[2001:db8::1]", "[2001:DB8::1]:9", "[2001:Db8::1]", "[fe80::1]", "[::2]", "[::ffff:1.2.3.4]:1", "[::1", "::1]"}
	for i := 0; i < 300*scale; i++ {
		k := r.Range(1, 3)
		var sites []c01Site
		for j := 0; j < k; j++ {
			sites = append(sites, c01Site{Key: c01B(r.Pick(v6) + r.Pick([]string{"", "", "/a", "/a/b"})), Fallback: r.Chance(10)})
		}
		if r.Chance(30) {
			sites = append(sites, c01Site{Key: c01B(r.Pick(hosts) + r.Pick(ports))})
		}
		if string(sites[len(sites)-1].Key) == "" {
			sites[len(sites)-1].Key = ":2015"
		}
		emit(sites, r.Pick(v6req), c01ReqPath(r, sites), protoOf())
	}

	// (F) default catch-all hosts next to designated fallback sites: the built-in fallback hosts are tried first,
	// then the designated ones in declaration order; a matched host without a path prefix ends the search
	for i := 0; i < 260*scale; i++ {
		var sites []c01Site
		if r.Chance(60) {
			sites = append(sites, c01Site{Key: c01B(r.Pick([]string{":2015", "0.0.0.0:2015", "[::]:2015", "*:2015", "0.0.0.0", "*.*.*.*"}) + r.Pick([]string{"", "", "/a", "/caf\xc3\xa9"}))})
		}
		for _, j := range r.Perm(4)[:r.Range(1, 3)] {
			h := []string{"fb1.example", "FB2.example", "*.fb3.example", "[::1]"}[j]
			sites = append(sites, c01Site{Key: c01B(h + r.Pick(ports) + r.Pick([]string{"", "", "/a", "/a/b"})), Fallback: r.Chance(85)})
		}
		if r.Chance(40) {
			sites = append(sites, c01Site{Key: c01B(r.Pick(hosts) + r.Pick(ports))})
			if string(sites[len(sites)-1].Key) == "" {
				sites[len(sites)-1].Key = ":2015"
			}
		}
		sites = permuted(sites, r.Perm(len(sites)))
		host := r.Pick([]string{"nosuch.example", "zzz", "", "x.fb3.example", "1.2.3.4", "[::2]", "fb2.EXAMPLE:80"})
		emit(sites, host, r.Pick([]string{"/", "/a", "/a/b/c", "/b", "/caf\xc3\xa9/x"}), protoOf())
	}

	// (E) raw request-targets parsed as net/http does: percent-encoded bytes decode into URL.Path before the lookup
	targets := []string{"/caf%C3%A9", "/caf%c3%a9/menu", "/caf%C3", "/a%20b", "/a%2Fb", "/a%252Fb", "/%E3%83%89", "/a/b?x=/a/b/c", "/a%2520b", "/caf\xc3\xa9",
		"http://other.example/a/b", "/a/b#frag", "/%41", "/a%ZZ", "//a", "/a/./b", "/%2e%2e/a"}
	for i := 0; i < 350*scale; i++ {
		fam := nestFamilies[r.Intn(len(nestFamilies))]
		h := r.Pick([]string{"a.com", "*.com", ""})
		var sites []c01Site
		for _, j := range r.Perm(len(fam))[:r.Range(1, 3)] {
			key := h + fam[j]
			if h == "" {
				key = ":2015" + fam[j]
			}
			sites = append(sites, c01Site{Key: c01B(key)})
		}
		in := &c01In{Sites: sites, Host: c01B(c01ReqHost(r, sites, foreign)), Target: c01B(r.Pick(targets)), Proto: protoOf()}
		out = append(out, in)
	}

	// (G) several listeners in one process: 2-3 site groups, each with zero, one or two designated fallback sites of
	// different host names (plus ordinary / catch-all sites), created one after the other — sometimes a group is
	// created again, as a reload does — and only then requests to EVERY listener: unknown hosts (the listener's own
	// designated fallback must answer, never another listener's), the fallback host names of all groups, declared hosts
	fbNames := []string{"fb-a.example", "FB-b.example", "fb-c.example:2015", "*.fb-d.example", "[::1]", "fb-e.example/a", "fb-f.example"}
	for i := 0; i < 110*scale; i++ {
		ng := r.Range(2, 3)
		names := r.Perm(len(fbNames))
		ni := 0
		var groups [][]c01Site
		for g := 0; g < ng; g++ {
			var sites []c01Site
			nfb := []int{1, 1, 1, 0, 2}[r.Intn(5)]
			for k := 0; k < nfb && ni < len(names); k++ {
				sites = append(sites, c01Site{Key: c01B(fbNames[names[ni]]), Fallback: true})
				ni++
			}
			if r.Chance(50) {
				sites = append(sites, c01Site{Key: c01B(r.Pick([]string{"a.com", "*.a.com", "x.org/a", "b.a.com:8080", "localhost"}))})
			}
			if r.Chance(15) {
				sites = append(sites, c01Site{Key: c01B(r.Pick([]string{":2015", "0.0.0.0:2015", "[::]:80/a", "*"}))})
			}
			if r.Chance(20) && ni > 0 { // a site named like ANOTHER group's fallback host, not designated here
				sites = append(sites, c01Site{Key: c01B(fbNames[names[r.Intn(ni)]] )})
			}
			if len(sites) == 0 {
				sites = append(sites, c01Site{Key: c01B("only.example")})
			}
			// distinct addresses inside one group
			seen := map[string]bool{}
			var uniq []c01Site
			for _, s := range sites {
				k := strings.ToLower(string(s.Key))
				if !seen[k] {
					seen[k] = true
					uniq = append(uniq, s)
				}
			}
			groups = append(groups, permuted(uniq, r.Perm(len(uniq))))
		}
		if r.Chance(35) { // reload: one of the groups is created again, after the others
			groups = append(groups, groups[r.Intn(len(groups))])
		}
		var reqs []c01Req
		for g := range groups {
			hostsFor := []string{r.Pick([]string{"nosuch.example", "zzz", "", "1.2.3.4", "q.fb-d.example"})}
			og := groups[r.Intn(len(groups))]
			hostsFor = append(hostsFor, c01KeyHost(string(og[r.Intn(len(og))].Key)))
			if r.Chance(50) {
				hostsFor = append(hostsFor, c01ReqHost(r, groups[g], foreign))
			}
			for _, h := range hostsFor {
				reqs = append(reqs, c01Req{Srv: g, Host: c01B(h), Path: c01B(r.Pick([]string{"/", "/a", "/a/b", "/b"})), Proto: protoOf()})
			}
		}
		out = append(out, &c01In{Groups: groups, Reqs: reqs})
	}
	out = append(out, c01GenSeq(r, scale, protoOf)...)
	out = append(out, c01GenSpell(r, scale, protoOf)...)
	return out
}

// (H) request SEQUENCES against ONE running server (sometimes two listeners): serveHTTP must route request i by
// the site set and request i's Host and path alone, whatever was asked before. Site sets in which a host
// (exact, wildcard, catch-all, designated fallback) has ONLY sites with non-root path prefixes — so that the
// host matches and no prefix covers some paths — next to hosts with a root site; histories: a miss first
// (uncovered path, unknown host, other letter case / port of the host), then hits on the same host; hits first,
// then the miss, then the same hits again; misses and hits alternating across hosts and listeners; the same
// request repeated. Every answer of the history is judged by the per-request spec.
func c01GenSeq(r *Rand, scale int, protoOf func() int) []interface{} {
	var out []interface{}
	hosts := []string{"example.com", "Shop.example.com", "*.example.com", "*.com", "a.b.example.org", "xn--caf-dma.example", "10.0.0.1", "[::1]", "", "localhost:8080"}
	prefixes := []string{"/app", "/api", "/app/v2", "/a", "/static/", "/caf\xc3\xa9", "/x.y"}
	uncovered := []string{"/favicon.ico", "/robots.txt", "/", "/ap", "/APP", "/other/app", "/b", ""}
	instantiate := func(h string) string { // a request host the pattern matches
		switch {
		case h == "":
			return r.Pick([]string{"whatever.example", "1.2.3.4", "zzz"})
		case strings.HasPrefix(h, "*."):
			return r.Pick([]string{"www", "a", "Shop"}) + h[1:]
		}
		return c01KeyHost(h)
	}
	respell := func(h string) string { // the same host as a client may spell it
		switch r.Intn(4) {
		case 0:
			return strings.ToUpper(h)
		case 1:
			if !strings.Contains(h, ":") || strings.HasSuffix(h, "]") {
				return h + ":" + r.Pick([]string{"80", "2015", "8080"})
			}
		case 2:
			return c01MixCase(r, h)
		}
		return h
	}
	for i := 0; i < 160*scale; i++ {
		ng := 1
		if r.Chance(20) {
			ng = 2
		}
		var groups [][]c01Site
		type target struct {
			srv      int
			host     string   // a request host of a prefix-only host pattern
			covered  []string // request paths some prefix of that host covers
		}
		var prefOnly []target
		var rooted []target
		for g := 0; g < ng; g++ {
			var sites []c01Site
			seen := map[string]bool{}
			add := func(key string, fb bool) {
				if k := strings.ToLower(key); !seen[k] {
					seen[k] = true
					sites = append(sites, c01Site{Key: c01B(key), Fallback: fb})
				}
			}
			hs := r.Perm(len(hosts))
			np := r.Range(1, 2)
			for _, hi := range hs[:np] { // hosts with non-root prefixes only
				h := hosts[hi]
				key := h
				if h == "" {
					key = ":2015"
				}
				ps := r.Perm(len(prefixes))[:r.Range(1, 3)]
				t := target{srv: g, host: instantiate(h)}
				for _, pi := range ps {
					add(key+prefixes[pi], r.Chance(8))
					t.covered = append(t.covered, prefixes[pi]+r.Pick([]string{"", "/", "/index.html", "x", "/v1/users"}))
				}
				prefOnly = append(prefOnly, t)
			}
			for _, hi := range hs[np : np+r.Range(0, 2)] { // hosts with a root site (and maybe a prefix site too)
				h := hosts[hi]
				key := h
				if h == "" {
					key = ":2015"
				}
				add(key, r.Chance(10))
				if r.Chance(40) {
					add(key+r.Pick(prefixes), false)
				}
				rooted = append(rooted, target{srv: g, host: instantiate(h), covered: []string{"/", "/app/x", "/nothing"}})
			}
			var shuffled []c01Site
			for _, j := range r.Perm(len(sites)) {
				shuffled = append(shuffled, sites[j])
			}
			groups = append(groups, shuffled)
		}
		rq := func(t target, host, p string) c01Req {
			return c01Req{Srv: t.srv, Host: c01B(host), Path: c01B(p), Proto: protoOf()}
		}
		t := prefOnly[r.Intn(len(prefOnly))]
		hit := func() c01Req { return rq(t, t.host, r.Pick(t.covered)) }
		miss := func() c01Req { return rq(t, t.host, r.Pick(uncovered)) }
		var reqs []c01Req
		shape := []string{"miss-then-hits", "hits-then-miss-then-hits", "across-hosts", "respelled-host", "repeated"}[i%5]
		switch shape {
		case "miss-then-hits":
			reqs = append(reqs, miss())
			for k := r.Range(2, 4); k > 0; k-- {
				reqs = append(reqs, hit())
			}
		case "hits-then-miss-then-hits":
			h1, h2 := hit(), hit()
			reqs = append(reqs, h1, h2, miss(), h1, h2, miss(), hit())
		case "across-hosts":
			// a miss on one host, then hits and misses on the others and on it, listeners interleaved
			all := append(append([]target{}, prefOnly...), rooted...)
			reqs = append(reqs, miss(), rq(t, r.Pick([]string{"nosuch.example", "zzz", ""}), r.Pick(uncovered)))
			for k := 0; k < 6; k++ {
				o := all[r.Intn(len(all))]
				p := r.Pick(o.covered)
				if r.Chance(30) {
					p = r.Pick(uncovered)
				}
				reqs = append(reqs, rq(o, o.host, p))
			}
			reqs = append(reqs, hit())
		case "respelled-host":
			reqs = append(reqs, rq(t, respell(t.host), r.Pick(uncovered)), hit(), rq(t, respell(t.host), r.Pick(t.covered)), miss(), rq(t, respell(t.host), r.Pick(t.covered)))
		case "repeated":
			m, h := miss(), hit()
			reqs = append(reqs, h, m, m, h, h, m, h)
		}
		out = append(out, &c01In{Groups: groups, Reqs: reqs, Seq: shape})
	}
	return out
}

// c01Spell writes a decoded path as a request-target (or a Casketfile path): every octet either as itself or as
// "%XY" with hex digits of random letter case; octets that cannot stand for themselves are always escaped.
func c01Spell(r *Rand, p string, pct int, forKey bool) string {
	var b strings.Builder
	for i := 0; i < len(p); i++ {
		c := p[i]
		must := c == '%' || c == '?' || c < 0x20 || c == 0x7f
		if forKey {
			must = must || c == ' ' || c == '#' || c == '{' || c == '}' || c == '"' || c == ':'
		}
		if i == 0 && c == '/' {
			b.WriteByte(c)
			continue
		}
		if must || r.Chance(pct) {
			const up, lo = "0123456789ABCDEF", "0123456789abcdef"
			b.WriteByte('%')
			for _, d := range []byte{c >> 4, c & 15} {
				if r.Bool() {
					b.WriteByte(up[d])
				} else {
					b.WriteByte(lo[d])
				}
			}
		} else {
			b.WriteByte(c)
		}
	}
	return b.String()
}

// (I) SPELLINGS: site sets sharing a host whose path prefixes contain "/" inside, ASCII that is often written
// percent-encoded, non-ASCII and invalid UTF-8 octets — the prefixes themselves written in the Casketfile with random
// octets percent-encoded — and, for ONE decoded request path, several raw request-targets spelling it differently
// (%2F / %2f for "/" inside a prefix, %61 for "a", %C3%a9, every octet escaped, a query appended) plus the literal
// one; then malformed targets derived from them ("%" followed by fewer than two hex digits, a control byte).
// (J) ORDER: the same site set (wildcards of several depths, catch-all, nested prefixes on one host) handed to
// NewServer in 3-4 random orders, the same 3 requests sent to every order.
func c01GenSpell(r *Rand, scale int, protoOf func() int) []interface{} {
	var out []interface{}
	fams := [][]string{
		{"/a/b", "/a", "/a/b/c", "/", "/a/bc", "/a/b/"},
		{"/caf\xc3\xa9", "/caf", "/caf\xc3", "/caf\xc3\xa9/menu", "/caf\xc3\xa9s"},
		{"/a b", "/a b/c", "/a", "/a%b", "/a%2Fb", "/a%"},
		{"/\xff", "/\xff\xfe", "/\xff/\x80", "/", "/\xc0\xaf"},
		{"/x/\xe3\x83\x89", "/x/\xe3\x83", "/x", "/x/\xe3\x83\x89/y", "/x/"},
		{"/A/b", "/a/B", "/a/b", "/A"},
	}
	tails := []string{"", "", "/", "x", "/x", "/c/d", "\xa9", "\xc3\xa9", "%", "%2F", "?", " ", "\xff", "//", "/../a", "\x00", "+", "#f"}
	hostsI := []string{"a.com", "*.a.com", "", "*", "[::1]", "B.a.com", "*.*.com"}
	for i := 0; i < 260*scale; i++ {
		fam := fams[r.Intn(len(fams))]
		h := r.Pick(hostsI)
		var sites []c01Site
		for _, j := range r.Perm(len(fam))[:r.Range(2, 4)] {
			pre := c01Spell(r, fam[j], 25, true)
			key := h + r.Pick([]string{"", ":2015", ":80"}) + pre
			if h == "" && !strings.HasPrefix(key, ":") {
				key = ":2015" + pre
			}
			sites = append(sites, c01Site{Key: c01B(key)})
		}
		if r.Chance(40) {
			sites = append(sites, c01Site{Key: c01B(r.Pick([]string{"z.com", "*.com", "0.0.0.0:2015"}) + r.Pick([]string{"", "/a/b/c/d", "/caf%C3%A9/menu/x"}))})
		}
		host := h
		for strings.Contains(host, "*") {
			host = strings.Replace(host, "*", r.Pick([]string{"w", "Q"}), 1)
		}
		if r.Chance(15) {
			host = r.Pick([]string{"zzz", "q.z.com", "a.com"})
		}
		host = c01MixCase(r, host) + r.Pick([]string{"", ":80", ":2015"})
		p := fam[r.Intn(len(fam))] + r.Pick(tails)
		if r.Chance(15) && len(p) > 2 {
			p = p[:r.Range(1, len(p)-1)]
		}
		proto := protoOf()
		query := r.Pick([]string{"", "", "?", "?x=/a/b/c", "?%zz", "?a?b"})
		spellings := []string{c01Spell(r, p, 0, false), c01Spell(r, p, 100, false), c01Spell(r, p, 30, false), c01Spell(r, p, 60, false)}
		// "/" inside the region of a prefix written as %2F / %2f
		if j := strings.Index(p[1:], "/"); j >= 0 {
			spellings = append(spellings, p[:1]+c01Spell(r, p[1:1+j], 10, false)+r.Pick([]string{"%2F", "%2f"})+c01Spell(r, p[2+j:], 10, false))
		}
		for _, sp := range spellings {
			out = append(out, &c01In{Sites: sites, Host: c01B(host), Target: c01B(sp + query), Proto: proto})
		}
		if r.Chance(50) { // malformed: cut an escape short / non-hex digit / control byte
			sp := spellings[1]
			if len(sp) < 4 {
				sp += "%61%2Fb"
			}
			var bad string
			switch r.Intn(4) {
			case 0:
				bad = sp[:len(sp)-r.Range(1, 2)]
			case 1:
				k := r.Range(1, len(sp)-1)
				bad = sp[:k] + r.Pick([]string{"%", "%G0", "%0g", "%%", "% 1"}) + sp[k:]
			case 2:
				k := r.Range(1, len(sp))
				bad = sp[:k] + r.Pick([]string{"\x00", "\x1f", "\x7f", "\n"}) + sp[k:]
			default:
				bad = sp + "%" + r.Pick([]string{"", "4", "x1"})
			}
			out = append(out, &c01In{Sites: sites, Host: c01B(host), Target: c01B(bad), Proto: proto})
		}
	}
	// (J)
	pool := []string{"c.b.a.com", "*.b.a.com", "*.*.a.com", "*.*.*.com", "*.*.*.*", "c.b.a.com/x", "*.b.a.com/x/y", "*.*.a.com/x", ":2015", ":2015/x",
		"b.a.com", "*.a.com/caf\xc3\xa9", "*.*.com/x", "0.0.0.0:2015/x/y", "*", "*.*", "C.B.a.com:80/x/y/z", "*.*.*.com/x/y"}
	reqHosts := []string{"c.b.a.com", "C.b.A.com:80", "q.b.a.com", "q.r.a.com", "q.r.s.com", "q.r.s.t", "b.a.com", "w.a.com", "zzz", "a.b", "x.y.z.w.v", ""}
	reqPaths := []string{"/", "/x", "/x/y", "/x/y/z/w", "/xy", "/caf\xc3\xa9/m", "/caf\xc3"}
	for i := 0; i < 60*scale; i++ {
		k := r.Range(3, 6)
		var sites []c01Site
		seen := map[string]bool{}
		for _, j := range r.Perm(len(pool)) {
			nk := strings.ToLower(strings.Replace(strings.Replace(pool[j], ":80", "", 1), ":2015", "", 1))
			if seen[nk] || len(sites) >= k {
				continue
			}
			seen[nk] = true
			sites = append(sites, c01Site{Key: c01B(pool[j]), Fallback: r.Chance(8) && !strings.HasPrefix(pool[j], ":")})
		}
		type rq struct {
			h, p  string
			proto int
		}
		var rqs []rq
		for n := 0; n < 3; n++ {
			rqs = append(rqs, rq{r.Pick(reqHosts), r.Pick(reqPaths), protoOf()})
		}
		for o := 0; o < r.Range(3, 4); o++ {
			ps := make([]c01Site, len(sites))
			for a, b := range r.Perm(len(sites)) {
				ps[a] = sites[b]
			}
			for _, q := range rqs {
				out = append(out, &c01In{Sites: ps, Host: c01B(q.h), Path: c01B(q.p), Proto: q.proto})
			}
		}
	}
	// (K) host names with non-ASCII text: upper/lower case beyond A-Z (Latin-1, Latin Extended-A, Greek, Cyrillic, KELVIN
	// SIGN, dotted capital I), caseless scripts, ill-formed UTF-8 (stray bytes, truncated sequences, surrogates)
	declK := []string{"CAF\xc3\x89.com", "caf\xc3\xa9.com", "\xce\x91\xce\xb2.gr", "\xd0\x96.ru", "k.com", "i.com", "a\xff.com", "a\xfe.com",
		"\xe6\x97\xa5\xe6\x9c\xac.jp", "*.caf\xc3\xa9.com", "\xc4\x80.com", "*.\xce\xb1\xce\xb2.gr", "a\xef\xbf\xbd.com", "\xd0\x81.ru", "K.com"}
	reqK := []string{"caf\xc3\x89.COM", "CAF\xc3\xa9.com:80", "\xce\xb1\xce\x92.gr", "\xd0\xb6.ru", "\xe2\x84\xaa.com", "\xc4\xb0.com", "a\xfe.com", "a\xff.COM",
		"a\xc3.com", "w.CAF\xc3\x89.com:80", "\xc4\x81.com", "\xed\xa0\x80.com", "\xf0\x9f\x98\x80.com", "\xe6\x97\xa5\xe6\x9c\xac.JP", "W.\xce\x91\xce\x92.gr",
		"a\xef\xbf\xbd.com", "\xd1\x91.ru", "\xe2\x84\xab.com", "\xc3\x9f.com", "\xc3\x97.com", "a\x80\x80.com", "\xe2\x84\xaa.COM:2015"}
	for i := 0; i < 220*scale; i++ {
		var sites []c01Site
		seen := map[string]bool{}
		for _, j := range r.Perm(len(declK))[:r.Range(2, 4)] {
			lk := strings.ToLower(declK[j])
			if seen[lk] {
				continue
			}
			seen[lk] = true
			sites = append(sites, c01Site{Key: c01B(declK[j] + r.Pick([]string{"", "", ":2015", "/x"}))})
		}
		if r.Chance(30) {
			sites = append(sites, c01Site{Key: c01B(r.Pick([]string{":2015", "*.com", "*.*"}))})
		}
		host := r.Pick(reqK)
		if r.Chance(50) { // aim at a declared one, re-cased by Go's own ToUpper/ToLower where that is well-formed
			host = c01KeyHost(string(sites[r.Intn(len(sites))].Key))
			host = strings.Replace(host, "*", "w", -1)
			if utf8.ValidString(host) && r.Bool() {
				host = strings.ToUpper(host)
			}
		}
		out = append(out, &c01In{Sites: sites, Host: c01B(host), Path: c01B(r.Pick([]string{"/", "/x", "/x/y", "/y"})), Proto: protoOf()})
	}
	return out
}

func init() {
	register(&Property{
		ID: "C01", Imports: "V.Lib V.GoPath V.GoNet V.C01_Model", Judge: "judge",
		Rule:   "httpserver.NewServer + Server.ServeHTTP with a marker middleware per site that records the ordered list of sites whose handlers ran, the path_prefix context value and the trimmed path; streams: (A) mixed sets of 1-5 addresses over exact/wildcard/catch-all/IPv4/IPv6/punycode hosts x ports x mixed case x path prefixes (multi-byte UTF-8, truncated sequences, percent text), optional fallback flag, occasional repeated address, re-run permuted; (B) wildcard patterns of every depth for one name declared in EVERY order; (C) 2-5 sites sharing a host with nested byte-wise path prefixes plus a decoy host owning a longer prefix; (D) IPv6 literals with/without brackets and ports on both sides; (E) raw request-targets decoded by url.ParseRequestURI; (F) built-in catch-all hosts next to designated fallback sites in every mix; (G) 2-3 listeners (site groups with zero, one or two designated fallback sites of different names) created one after the other in ONE process by NewServer, sometimes one of them created again as a reload does, and only then requests to EVERY listener (unknown hosts, the other listeners' fallback host names, declared hosts), each judged against its own listener's site group; (H) request SEQUENCES (4-9 requests) against ONE running server, sometimes two listeners, over site sets in which a host (exact, wildcard, catch-all, designated fallback) has only sites with non-root path prefixes next to hosts with a root site: miss first (uncovered path, unknown host, respelled host) then hits; hits, miss, the same hits again; alternating across hosts and listeners; repeated requests; every answer judged by the per-request spec; (I) SPELLINGS: origin-form request-targets handed RAW to the Coq model (which decodes them itself; Go's URL.Path is compared with the model's decoding and checked by a lock-step spelling clause): for one decoded path 4-5 raw spellings (literal, every octet escaped, random octets escaped with hex digits of random case, the '/' inside a prefix as %2F/%2f, a query appended) against sites sharing a host whose prefixes (written in the Casketfile with random octets percent-encoded too) contain '/', spaces, '%', non-ASCII and invalid UTF-8 octets, plus malformed targets (short escape, non-hex digit, control byte: must be rejected by both); (J) ORDER: one site set (wildcards of 1-4 leading labels, catch-alls, nested prefixes) handed to NewServer in 3-4 random orders, the same 3 requests to every order; (K) Hosts with non-ASCII text (upper/lower case in Latin-1, Latin Extended-A, Greek, Cyrillic, KELVIN SIGN, dotted capital I; caseless scripts; ill-formed UTF-8: stray bytes, truncated sequences, surrogates) against declared hosts of the same kinds, judged by the model with Go's Unicode-aware folding (CRouteU). Requests aim at declared hosts (wildcards instantiated, one label more/less, random letter case, ports) or foreign hosts; paths are declared prefixes extended/truncated/bit-flipped with arbitrary bytes; protocol major 0-3. non-trivial = at least two sites; distinct = distinct case term",
		Gen:    c01Gen,
		Decode: func(raw json.RawMessage) (interface{}, error) { in := &c01In{}; return in, json.Unmarshal(raw, in) },
		Run:    c01Run,
		Shard:  250,
	})
}
