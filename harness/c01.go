package main

import (
	"encoding/json"
	"fmt"
	"net/http"
	"net/http/httptest"
	"net/url"
	"regexp"
	"strings"

	"github.com/caddyserver/certmagic"
	"github.com/tmpim/casket/caskethttp/httpserver"
	"github.com/tmpim/casket/caskettls"
)

type c01Site struct {
	Key      string `json:"key"` // address as written in the Casketfile
	Fallback bool   `json:"fallback,omitempty"`
}
type c01In struct {
	Sites []c01Site `json:"sites"`
	Host  string    `json:"host"`
	Path  string    `json:"path"`
	Proto int       `json:"proto"`
}

var c01Magic *certmagic.Config

func c01TLS() *caskettls.Config {
	if c01Magic == nil {
		c01Magic = certmagic.NewDefault()
	}
	return &caskettls.Config{Manager: c01Magic, Issuer: certmagic.NewACMEIssuer(c01Magic, certmagic.ACMEIssuer{})}
}

var c01Simple = regexp.MustCompile(`^[A-Za-z0-9/._-]*$`)

func c01Run(in0 interface{}) Result {
	in := in0.(*c01In)
	var group []*httpserver.SiteConfig
	calls := 0
	gotSite := -1
	gotPath := ""
	var siteTerms, xf []string
	for i, s := range in.Sites {
		addr, err := httpserver.VerifStandardizeAddress(s.Key)
		if err != nil {
			return Result{Term: `(CRoute [] [] [] [] 1%N false None 404%N 0%N [])`, Obs: "address error: " + err.Error(), Class: "addr-error", Sig: "addr-error"}
		}
		addr = addr.Normalize() // as InspectServerBlocks does
		cfg := &httpserver.SiteConfig{Addr: addr, TLS: c01TLS(), FallbackSite: s.Fallback}
		id := i
		cfg.AddMiddleware(func(next httpserver.Handler) httpserver.Handler {
			return handlerFunc(func(w http.ResponseWriter, r *http.Request) (int, error) {
				calls++
				gotSite = id
				gotPath = r.URL.Path
				w.Header().Set("X-Site", fmt.Sprint(id))
				w.WriteHeader(200)
				return 0, nil
			})
		})
		group = append(group, cfg)
		siteTerms = append(siteTerms, cPair(cStr(addr.VHost()), cN(uint64(i))))
		if s.Fallback {
			xf = append(xf, addr.Host)
		}
	}
	srv, err := httpserver.NewServer("127.0.0.1:0", group)
	if err != nil {
		return Result{Term: `(CRoute [] [] [] [] 1%N false None 404%N 0%N [])`, Obs: "NewServer: " + err.Error(), Class: "newserver-error", Sig: "newserver-error", Direct: "NewServer failed: " + err.Error()}
	}
	req := httptest.NewRequest("GET", "http://placeholder.invalid/", nil)
	req.Host = in.Host
	req.URL = &url.URL{Path: in.Path}
	req.RequestURI = in.Path
	req.ProtoMajor = in.Proto
	rec := httptest.NewRecorder()
	srv.ServeHTTP(rec, req)
	obsSite := "None"
	if calls > 0 {
		obsSite = fmt.Sprintf("(Some %d%%N)", gotSite)
	}
	simple := c01Simple.MatchString(in.Path)
	term := cApp("CRoute", cList(siteTerms), cStrList(xf), cStr(in.Host), cStr(in.Path), cN(uint64(in.Proto)), cBool(simple),
		obsSite, cN(uint64(rec.Code)), cN(uint64(calls)), cStr(gotPath))
	sig := "route"
	if strings.Contains(in.Host, "[") || func() bool {
		for _, s := range in.Sites {
			if strings.Contains(s.Key, "[") {
				return true
			}
		}
		return false
	}() {
		sig = "route:bracketed-ipv6"
	}
	return Result{Term: term, Obs: map[string]interface{}{"site": gotSite, "status": rec.Code, "calls": calls, "path": gotPath},
		Sig: sig, Nontrivial: len(in.Sites) >= 2, Class: fmt.Sprintf("%s:sites%d:hit=%v", sig, len(in.Sites), calls > 0)}
}

func c01Gen(r *Rand, tier string) []interface{} {
	var out []interface{}
	hosts := []string{"a.com", "b.a.com", "c.b.a.com", "*.a.com", "*.*.com", "*.b.a.com", "*", "", "0.0.0.0", "[::]", "127.0.0.1",
		"localhost", "A.com", "x.org", "*.org", "*.*.*.com", "[::1]", "[2001:DB8::1]", "b.A.com", "a.com.", "*.*"}
	ports := []string{"", "", "", ":8080", ":2015"}
	paths := []string{"", "", "/", "/a", "/a/b", "/ab", "/a/", "/A", "/café", "/ド", "/a/b/c", "/x.y"}
	reqHosts := []string{"a.com", "A.COM", "b.a.com", "B.a.Com", "c.b.a.com", "d.c.b.a.com", "z.com", "x.org", "y.x.org", "", "localhost",
		"127.0.0.1", "0.0.0.0", "[::1]", "[::]", "zzz", "a.com.", "q.z.com", "*.a.com", "com", "b.a.org"}
	reqPorts := []string{"", "", ":80", ":8080", ":2015", ":"}
	reqPaths := []string{"/", "/a", "/a/b", "/ab", "/abc", "/a/b/c/d", "/A", "/café", "/café/menu", "/cafÃ©", "/ドキ", "/b", "/a/", "/x.y/z", "/a%20b", "//a", "/a/../b"}
	n := 2500
	if tier == "thorough" {
		n = 40000
	}
	for i := 0; i < n; i++ {
		ns := r.Range(1, 5)
		var sites []c01Site
		seen := map[string]bool{}
		for len(sites) < ns {
			h := r.Pick(hosts)
			p := r.Pick(paths)
			key := h + r.Pick(ports) + p
			if h == "" && p == "" {
				key = ":2015"
			}
			nk := strings.ToLower(strings.Trim(h, "[]")) + "|" + p
			if p == "" {
				nk = strings.ToLower(strings.Trim(h, "[]")) + "|/"
			}
			if seen[nk] {
				ns--
				continue
			}
			seen[nk] = true
			if r.Chance(15) {
				key = "http://" + key
			}
			sites = append(sites, c01Site{Key: key, Fallback: r.Chance(10) && h != ""})
		}
		if len(sites) == 0 {
			continue
		}
		host := r.Pick(reqHosts)
		if r.Chance(50) { // aim at a declared host
			s := sites[r.Intn(len(sites))].Key
			s = strings.TrimPrefix(s, "http://")
			if j := strings.Index(s, "/"); j >= 0 {
				s = s[:j]
			}
			if !strings.HasPrefix(s, "[") {
				if j := strings.LastIndex(s, ":"); j >= 0 && !strings.Contains(s[:j], ":") {
					s = s[:j]
				}
			} else if j := strings.Index(s, "]"); j >= 0 {
				s = s[:j+1]
			}
			host = strings.Replace(s, "*", r.Pick([]string{"w", "W.v", "q"}), 1)
			if r.Chance(30) {
				host = strings.ToUpper(host)
			}
		}
		host += r.Pick(reqPorts)
		in := &c01In{Sites: sites, Host: host, Path: r.Pick(reqPaths), Proto: 1}
		if r.Chance(15) {
			in.Proto = 2
		}
		out = append(out, in)
		// the same set in another declaration order must route identically (the model is proved order-independent)
		if r.Chance(40) && len(sites) > 1 {
			perm := r.Perm(len(sites))
			ps := make([]c01Site, len(sites))
			for a, b := range perm {
				ps[a] = sites[b]
			}
			out = append(out, &c01In{Sites: ps, Host: in.Host, Path: in.Path, Proto: in.Proto})
		}
	}
	return out
}

func init() {
	register(&Property{
		ID: "C01", Imports: "V.Lib V.GoPath V.GoNet V.C01_Model", Judge: "judge",
		Rule: "site sets (1-5 addresses over exact/wildcard/catch-all/IP hosts x ports x nested path prefixes incl. multi-byte, optional fallback flag, re-run in permuted declaration order) through httpserver.NewServer + Server.ServeHTTP with a marker middleware per site; requests aim at declared hosts with case/port variations or at foreign hosts; non-trivial = at least two sites; distinct = distinct case term",
		Gen:    c01Gen,
		Decode: func(raw json.RawMessage) (interface{}, error) { in := &c01In{}; return in, json.Unmarshal(raw, in) },
		Run:    c01Run,
	})
}
