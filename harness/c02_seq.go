package main

// C02 — SEQUENCES on one running site: requests interleaved with changes of the files below the
// root. A disk step replaces a file (or a whole directory) of the tree by a NEW INODE with new
// content of the same size and modification time — what an editor's safe-write, `sed -i`,
// `git checkout`, `cp --remove-destination` or a deploy that swaps a directory do (write the new
// thing, rename it over the old one). Hard links of the table that point to (or lie in) what was
// replaced are made again, and the tree is re-read from disk and compared with the table
// (c02VerifyDisk: same paths, kinds, identity partition), so after every disk step the file system
// is again exactly the one Gen_C02b describes — only the inode numbers differ. IsHidden (and with
// it the file server, the sibling check, listings and the archive walk) is a function of the
// CURRENT file system (C02_hidden_check_uses_current_files), so every request of a sequence is
// judged like any other request: same model, same executable property.

import (
	"fmt"
	"os"
	"path"
	"path/filepath"
	"strings"
)

type c02Step struct {
	Get  string `json:"get,omitempty"`  // a request-target sent with GET (Accept-Encoding: AE)
	AE   string `json:"ae,omitempty"`   //
	Swap string `json:"swap,omitempty"` // a path of the tree: replaced on disk by a new inode (a directory: with everything below it)
}

func c02SeqShape(pre []c02Step) string {
	s := ""
	for _, st := range pre {
		if st.Swap != "" {
			s += "S"
		} else {
			s += "r"
		}
	}
	return s + "r"
}

// c02RunPre performs the steps that come before the judged request.
func c02RunPre(in *c02In, addr, host string, tree *c02Tree) error {
	for _, st := range in.Pre {
		switch {
		case st.Swap != "":
			if err := c02Swap(tree, st.Swap); err != nil {
				return fmt.Errorf("swap %s: %v", st.Swap, err)
			}
		case st.Get != "":
			hdr := map[string]string{"Host": host}
			if st.AE != "" {
				hdr["Accept-Encoding"] = st.AE
			}
			doRaw(addr, "GET", st.Get, hdr, nil)
		}
	}
	return nil
}

// c02NewContent: other bytes of the same length — the padding after the token text (spaces or
// tildes) is toggled; coded files, which have no padding, keep their bytes (the inode is new anyway).
func c02NewContent(b []byte) []byte {
	out := append([]byte{}, b...)
	for i := len(out) - 1; i >= 0 && (out[i] == ' ' || out[i] == '~'); i-- {
		if out[i] == ' ' {
			out[i] = '~'
		} else {
			out[i] = ' '
		}
	}
	return out
}

// c02CopyNew writes a new file at dst with (new) content of src's size and src's modification time.
func c02CopyNew(src, dst string) error {
	fi, err := os.Stat(src)
	if err != nil {
		return err
	}
	b, err := os.ReadFile(src)
	if err != nil {
		return err
	}
	os.Remove(dst)
	if err := os.WriteFile(dst, c02NewContent(b), fi.Mode().Perm()); err != nil {
		return err
	}
	return os.Chtimes(dst, fi.ModTime(), fi.ModTime())
}

func c02Under(p, d string) bool { return p == d || d == "/" || strings.HasPrefix(p, d+"/") }

// c02Swap replaces the entry p of the tree on disk by a new inode (see the head of this file).
func c02Swap(t *c02Tree, p string) error {
	if p != path.Clean("/"+p) || p == "/" {
		return fmt.Errorf("not a cleaned rooted path below the root")
	}
	abs := func(q string) string { return filepath.Join(t.Dir, filepath.FromSlash(q)) }
	var ent *c02Ent
	all := t.all()
	for i := range all {
		if all[i].Path == p {
			ent = &all[i]
		}
	}
	if ent == nil {
		return fmt.Errorf("not in the table")
	}
	switch ent.Kind {
	case 'f':
		tmp := abs(p) + ".new~"
		if err := c02CopyNew(abs(p), tmp); err != nil {
			return err
		}
		if err := os.Rename(tmp, abs(p)); err != nil {
			return err
		}
	case 'd':
		old, neu := abs(p)+".old~", abs(p)+".new~"
		os.RemoveAll(neu)
		err := filepath.Walk(abs(p), func(q string, fi os.FileInfo, err error) error {
			if err != nil {
				return err
			}
			rel, _ := filepath.Rel(abs(p), q)
			if fi.IsDir() {
				return os.MkdirAll(filepath.Join(neu, rel), 0o755)
			}
			return c02CopyNew(q, filepath.Join(neu, rel))
		})
		if err != nil {
			return err
		}
		// directories get their modification times back (deepest first does not matter: nothing is written afterwards)
		filepath.Walk(abs(p), func(q string, fi os.FileInfo, err error) error {
			if err == nil && fi.IsDir() {
				rel, _ := filepath.Rel(abs(p), q)
				os.Chtimes(filepath.Join(neu, rel), fi.ModTime(), fi.ModTime())
			}
			return nil
		})
		if err := os.Rename(abs(p), old); err != nil {
			return err
		}
		if err := os.Rename(neu, abs(p)); err != nil {
			return err
		}
		if err := os.RemoveAll(old); err != nil {
			return err
		}
	default:
		return fmt.Errorf("only regular files and directories are replaced")
	}
	// the table's hard links into / inside what was replaced
	for _, e := range all {
		if e.Kind == 'h' && (c02Under(e.To, p) || c02Under(e.Path, p)) {
			tmp := abs(e.Path) + ".lnk~"
			os.Remove(tmp)
			if err := os.Link(abs(e.To), tmp); err != nil {
				return err
			}
			if err := os.Rename(tmp, abs(e.Path)); err != nil {
				return err
			}
		}
	}
	if msg := c02VerifyDisk(t); msg != "" {
		return fmt.Errorf("after the swap the tree on disk differs from the table: %s", msg)
	}
	return nil
}

// c02GenSeq: on every site kind of the main tree (static; browse / with all archive types; browse
// /dir; origin Casketfile in a sub-directory) and for every entry of its hide list (the origin
// Casketfile, `internal` files, a hidden precompressed sibling, a hidden index page, a hidden
// directory) and some visible entries (controls): a warming request that makes the server
// evaluate the hide list, the entry (or the directory it lies in) replaced by a new inode, then
// the entry asked for directly under several spellings, below it, through its precompressed
// sibling / index page, in the HTML and JSON listing of its directory and in archives of its
// directory and of the root. Longer histories repeat request and swap; EVERY request of a history
// is a judged case (the case with the steps before it as Pre).
func c02GenSeq(r *Rand, thorough bool) []interface{} {
	var out []interface{}
	kindOf := map[string]byte{}
	for _, e := range c02Table {
		kindOf[e.Path] = e.Kind
	}
	warm := []c02Step{{Get: "/a.txt"}, {Get: "/b.txt", AE: "gzip"}, {Get: "/idx/"}, {Get: "/dir/c.txt"}, {Get: "/"}, {Get: "/?archive=zip"}, {Get: "/dir/"}}
	for _, site := range []string{"browse", "static", "scoped", "origin-sub"} {
		paths := append(append([]string{}, c02HideOf(site)...), "/a.txt", "/dir", "/idx/index.html")
		_, types := c02Browse(site)
		for _, h := range paths {
			parent := path.Dir(h)
			pslash := strings.TrimSuffix(parent, "/") + "/"
			var finals []c02Step
			fin := func(t, ae string) { finals = append(finals, c02Step{Get: t, AE: ae}) }
			fin(h, "")
			fin("/"+h, "gzip")
			fin("/."+h, "")
			fin("/x/.."+h, "br")
			fin(strings.ToUpper(h), "")
			if kindOf[h] == 'd' {
				fin(h+"/", "")
				fin(h+"/in.txt", "")
				fin(h+"/c.txt", "zstd")
				fin(h+"/?archive=zip", "")
			}
			for _, ext := range []string{".gz", ".br", ".zst"} { // h as the precompressed sibling of another file
				if strings.HasSuffix(h, ext) {
					fin(strings.TrimSuffix(h, ext), "gzip, br, zstd")
				}
			}
			if strings.HasPrefix(path.Base(h), "index.") { // h as an index page
				fin(pslash, "")
				fin(pslash, "gzip")
			}
			fin(pslash, "")
			fin(pslash+"?limit=100&sort=time", "")
			for _, at := range types {
				if at == "zip" || at == "tar.gz" || thorough || r.Chance(25) {
					fin(pslash+"?archive="+at, "")
					if parent != "/" {
						fin("/?archive="+at, "")
					}
				}
			}
			// which of the steps replace: the entry itself, or the directory it lies in
			swaps := []string{h}
			if parent != "/" {
				swaps = append(swaps, parent)
			}
			for fi, f := range finals {
				js := fi%3 == 1 && strings.HasSuffix(f.Get, "/")
				w := warm[r.Intn(len(warm))]
				if r.Chance(25) {
					w = c02Step{Get: h} // the hidden entry itself was asked for before
				}
				sw := swaps[fi%len(swaps)]
				// request, swap, request
				out = append(out, &c02In{Site: site, Method: "GET", Target: f.Get, AE: f.AE, JSON: js, Pre: []c02Step{w, {Swap: sw}}})
				if fi%4 == 0 || thorough {
					// request, swap, request, swap, request — every request judged
					w2 := warm[r.Intn(len(warm))]
					pre := []c02Step{w, {Swap: sw}, f, {Swap: swaps[(fi+1)%len(swaps)]}}
					out = append(out, &c02In{Site: site, Method: "GET", Target: w2.Get, AE: w2.AE, Pre: pre})
					out = append(out, &c02In{Site: site, Method: r.Pick([]string{"GET", "HEAD"}), Target: f.Get, AE: f.AE, JSON: js, Pre: append(append([]c02Step{}, pre...), w2)})
				}
			}
			// swap before the first request ever asks for it, and a swap of something else in between
			out = append(out, &c02In{Site: site, Method: "GET", Target: h, Pre: []c02Step{{Swap: h}}})
			out = append(out, &c02In{Site: site, Method: "GET", Target: h, Pre: []c02Step{warm[0], {Swap: "/b.txt"}, {Get: h}, {Swap: h}, {Get: "/b.txt"}}})
		}
	}
	return out
}
