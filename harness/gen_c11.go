package main

// Translator for C11: collects, for every index / slice expression on a value derived from
// Dispenser.RemainingArgs(), strings.Split*/Fields or a []string parameter, the length facts that
// are in scope (switch len(x), if len(x) <op> k guards with early exits, loop bounds, x = x[1:])
// and emits one Coq lemma per site:  forall lengths, facts -> 0 <= index < length,  proved by lia.
// The translator only COLLECTS facts; lia judges. Anything it does not understand contributes no
// fact (weaker premise), so an unknown shape can make an obligation unprovable, never provable.

import (
	"bytes"
	"regexp"
	"crypto/sha256"
	"encoding/hex"
	"encoding/json"
	"fmt"
	"go/ast"
	"go/parser"
	"go/printer"
	"go/token"
	"os"
	"path/filepath"
	"sort"
	"strings"
)

type c11Ob struct {
	ID    string `json:"id"`
	File  string `json:"file"`
	Line  int    `json:"line"`
	Func  string `json:"func"`
	Expr  string `json:"expr"`
	Hash  string `json:"func_hash"`
	Lemma string `json:"lemma"`
}

type c11Ctx struct {
	env   map[string]string // go slice variable -> current length symbol
	ints  map[string]string // go int variable -> symbol (created lazily; dropped on assignment)
	atoms map[string]string // pure boolean expression text -> Prop symbol (dropped when a mentioned identifier is assigned)
	facts []string
}

func newCtx() c11Ctx {
	return c11Ctx{env: map[string]string{}, ints: map[string]string{}, atoms: map[string]string{}}
}

func (c c11Ctx) clone() c11Ctx {
	n := c11Ctx{env: map[string]string{}, ints: map[string]string{}, atoms: map[string]string{}, facts: append([]string(nil), c.facts...)}
	for k, v := range c.env {
		n.env[k] = v
	}
	for k, v := range c.atoms {
		n.atoms[k] = v
	}
	for k, v := range c.ints {
		n.ints[k] = v
	}
	return n
}

type c11An struct {
	fset   *token.FileSet
	file   string
	fn     string
	fnHash string
	nsym   int
	syms   []string
	props  []string
	obs    []c11Ob
}

func (a *c11An) fresh(base string) string {
	a.nsym++
	s := fmt.Sprintf("%s_%d", sanitize(base), a.nsym)
	a.syms = append(a.syms, s)
	return s
}

func sanitize(s string) string {
	var b strings.Builder
	for _, r := range s {
		if (r >= 'a' && r <= 'z') || (r >= 'A' && r <= 'Z') || (r >= '0' && r <= '9') {
			b.WriteRune(r)
		} else {
			b.WriteRune('_')
		}
	}
	return "v" + b.String()
}

func exprStr(fset *token.FileSet, e ast.Node) string {
	var buf bytes.Buffer
	printer.Fprint(&buf, fset, e)
	return buf.String()
}

// intTerm translates an int expression into a Coq Z term if it only involves literals, len(x) of
// tracked slices, known int variables, + and -.
func (a *c11An) intTerm(e ast.Expr, c c11Ctx) (string, bool) {
	switch v := e.(type) {
	case *ast.ParenExpr:
		return a.intTerm(v.X, c)
	case *ast.BasicLit:
		if v.Kind == token.INT {
			return v.Value, true
		}
	case *ast.Ident:
		if s, ok := c.ints[v.Name]; ok {
			return s, true
		}
		if _, isSlice := c.env[v.Name]; !isSlice && v.Name != "nil" && v.Name != "true" && v.Name != "false" && v.Name != "_" && v.Obj != nil && v.Obj.Kind == ast.Var {
			// an int-valued local used in a comparison: a symbol that lives until the variable is assigned
			s := a.fresh(v.Name)
			c.ints[v.Name] = s
			return s, true
		}
	case *ast.CallExpr:
		if id, ok := v.Fun.(*ast.Ident); ok && id.Name == "len" && len(v.Args) == 1 {
			if x, ok := v.Args[0].(*ast.Ident); ok {
				if s, ok := c.env[x.Name]; ok {
					return s, true
				}
			}
		}
	case *ast.BinaryExpr:
		if v.Op == token.ADD || v.Op == token.SUB {
			l, ok1 := a.intTerm(v.X, c)
			r, ok2 := a.intTerm(v.Y, c)
			if ok1 && ok2 {
				op := "+"
				if v.Op == token.SUB {
					op = "-"
				}
				return "(" + l + " " + op + " " + r + ")", true
			}
		}
	}
	return "", false
}

// cond returns facts that hold when e is true / false ("" = nothing known).
func (a *c11An) cond(e ast.Expr, c c11Ctx) (pos, neg string) {
	switch v := e.(type) {
	case *ast.ParenExpr:
		return a.cond(v.X, c)
	case *ast.UnaryExpr:
		if v.Op == token.NOT {
			p, n := a.cond(v.X, c)
			return n, p
		}
	case *ast.BinaryExpr:
		switch v.Op {
		case token.LAND:
			p1, n1 := a.cond(v.X, c)
			p2, n2 := a.cond(v.Y, c)
			pos = conj(p1, p2)
			if n1 != "" && n2 != "" {
				neg = "(" + n1 + " \\/ " + n2 + ")"
			}
			return
		case token.LOR:
			p1, n1 := a.cond(v.X, c)
			p2, n2 := a.cond(v.Y, c)
			neg = conj(n1, n2)
			if p1 != "" && p2 != "" {
				pos = "(" + p1 + " \\/ " + p2 + ")"
			}
			return
		case token.EQL, token.NEQ, token.LSS, token.LEQ, token.GTR, token.GEQ:
			l, ok1 := a.intTerm(v.X, c)
			r, ok2 := a.intTerm(v.Y, c)
			if !ok1 || !ok2 {
				return a.atom(e, c)
			}
			ops := map[token.Token][2]string{
				token.EQL: {"=", "<>"}, token.NEQ: {"<>", "="}, token.LSS: {"<", ">="},
				token.LEQ: {"<=", ">"}, token.GTR: {">", "<="}, token.GEQ: {">=", "<"}}
			o := ops[v.Op]
			return "(" + l + " " + o[0] + " " + r + ")", "(" + l + " " + o[1] + " " + r + ")"
		}
	}
	return a.atom(e, c)
}

// atom: a pure boolean expression the translator does not interpret becomes an opaque Prop
// variable (same text => same variable until one of its identifiers is assigned).
func (a *c11An) atom(e ast.Expr, c c11Ctx) (string, string) {
	pure := true
	ast.Inspect(e, func(n ast.Node) bool {
		switch n.(type) {
		case *ast.CallExpr, *ast.FuncLit, *ast.UnaryExpr:
			if u, ok := n.(*ast.UnaryExpr); ok && u.Op == token.NOT {
				return true
			}
			pure = false
		case *ast.IndexExpr, *ast.SliceExpr, *ast.StarExpr:
			pure = false
		}
		return pure
	})
	if !pure {
		return "", ""
	}
	key := exprStr(a.fset, e)
	sym, ok := c.atoms[key]
	if !ok {
		sym = a.freshProp()
		c.atoms[key] = sym
	}
	return sym, "(~ " + sym + ")"
}

func (a *c11An) freshProp() string {
	a.nsym++
	s := fmt.Sprintf("P_%d", a.nsym)
	a.props = append(a.props, s)
	return s
}

func conj(a, b string) string {
	switch {
	case a == "":
		return b
	case b == "":
		return a
	}
	return "(" + a + " /\\ " + b + ")"
}

func terminates(stmts []ast.Stmt) bool {
	if len(stmts) == 0 {
		return false
	}
	switch s := stmts[len(stmts)-1].(type) {
	case *ast.ReturnStmt:
		return true
	case *ast.BranchStmt:
		return s.Tok == token.CONTINUE || s.Tok == token.BREAK || s.Tok == token.GOTO
	case *ast.ExprStmt:
		if call, ok := s.X.(*ast.CallExpr); ok {
			f := exprStr(token.NewFileSet(), call.Fun)
			return f == "panic" || f == "log.Fatal" || f == "log.Fatalf" || f == "os.Exit"
		}
	case *ast.BlockStmt:
		return terminates(s.List)
	}
	return false
}

// source recognises expressions that produce a fresh []string and returns its base facts.
func (a *c11An) source(e ast.Expr) (string, []string, bool) {
	call, ok := e.(*ast.CallExpr)
	if !ok {
		return "", nil, false
	}
	name := exprStr(a.fset, call.Fun)
	switch {
	case strings.HasSuffix(name, ".RemainingArgs") && len(call.Args) == 0:
		s := a.fresh("args")
		return s, []string{"0 <= " + s}, true
	case name == "strings.Split" && len(call.Args) == 2:
		s := a.fresh("split")
		return s, []string{"1 <= " + s}, true
	case name == "strings.SplitN" && len(call.Args) == 3:
		s := a.fresh("splitn")
		f := []string{"0 <= " + s}
		if bl, ok := call.Args[2].(*ast.BasicLit); ok && bl.Kind == token.INT && bl.Value != "0" {
			f = []string{"1 <= " + s, s + " <= " + bl.Value}
		}
		return s, f, true
	case name == "strings.Fields" && len(call.Args) == 1:
		s := a.fresh("fields")
		return s, []string{"0 <= " + s}, true
	}
	return "", nil, false
}

func assignedIdents(n ast.Node) map[string]bool {
	out := map[string]bool{}
	if n == nil {
		return out
	}
	ast.Inspect(n, func(x ast.Node) bool {
		switch s := x.(type) {
		case *ast.AssignStmt:
			for _, l := range s.Lhs {
				if id, ok := l.(*ast.Ident); ok {
					out[id.Name] = true
				}
			}
		case *ast.IncDecStmt:
			if id, ok := s.X.(*ast.Ident); ok {
				out[id.Name] = true
			}
		case *ast.RangeStmt:
			for _, l := range []ast.Expr{s.Key, s.Value} {
				if id, ok := l.(*ast.Ident); ok {
					out[id.Name] = true
				}
			}
		}
		return true
	})
	return out
}

func (c *c11Ctx) havoc(names map[string]bool) {
	for n := range names {
		c.forget(n)
	}
}

var identRe = map[string]*regexp.Regexp{}

func (c *c11Ctx) forget(n string) {
	delete(c.env, n)
	delete(c.ints, n)
	re, ok := identRe[n]
	if !ok {
		re = regexp.MustCompile(`\b` + regexp.QuoteMeta(n) + `\b`)
		identRe[n] = re
	}
	for k := range c.atoms {
		if re.MatchString(k) {
			delete(c.atoms, k)
		}
	}
}

// scan collects obligations from every index/slice expression inside an expression/statement
// that is evaluated under ctx c (closures are analysed with no facts).
func (a *c11An) scan(n ast.Node, c c11Ctx) {
	if n == nil {
		return
	}
	ast.Inspect(n, func(x ast.Node) bool {
		switch v := x.(type) {
		case *ast.FuncLit:
			a.block(v.Body.List, newCtx())
			return false
		case *ast.BinaryExpr:
			if v.Op == token.LAND || v.Op == token.LOR {
				// short-circuit evaluation: the right operand runs under the left one's outcome
				a.scan(v.X, c)
				pos, neg := a.cond(v.X, c)
				rc := c.clone()
				if v.Op == token.LAND && pos != "" {
					rc.facts = append(rc.facts, pos)
				}
				if v.Op == token.LOR && neg != "" {
					rc.facts = append(rc.facts, neg)
				}
				a.scan(v.Y, rc)
				return false
			}
		case *ast.IndexExpr:
			if id, ok := v.X.(*ast.Ident); ok {
				if sym, ok := c.env[id.Name]; ok {
					idx, known := a.intTerm(v.Index, c)
					if !known {
						idx = a.fresh("unknown_index")
					}
					a.emit(v, c, fmt.Sprintf("0 <= %s < %s", idx, sym))
				}
			}
		case *ast.SliceExpr:
			if id, ok := v.X.(*ast.Ident); ok {
				if sym, ok := c.env[id.Name]; ok {
					lo, hi := "0", sym
					if v.Low != nil {
						if t, ok := a.intTerm(v.Low, c); ok {
							lo = t
						} else {
							lo = a.fresh("unknown_low")
						}
					}
					if v.High != nil {
						if t, ok := a.intTerm(v.High, c); ok {
							hi = t
						} else {
							hi = a.fresh("unknown_high")
						}
					}
					a.emit(v, c, fmt.Sprintf("0 <= %s /\\ %s <= %s /\\ %s <= %s", lo, lo, hi, hi, sym))
				}
			}
		}
		return true
	})
}

func (a *c11An) emit(n ast.Node, c c11Ctx, goal string) {
	pos := a.fset.Position(n.Pos())
	id := fmt.Sprintf("ob_%s_%d_%d", strings.TrimPrefix(sanitize(strings.TrimSuffix(a.file, ".go")), "v"), pos.Line, pos.Column)
	vars := append([]string(nil), a.syms...)
	var sb strings.Builder
	fmt.Fprintf(&sb, "Lemma %s : forall (%s : Z)", id, strings.Join(vars, " "))
	if len(a.props) > 0 {
		fmt.Fprintf(&sb, " (%s : Prop)", strings.Join(a.props, " "))
	}
	sb.WriteString(", ")
	for _, f := range c.facts {
		sb.WriteString(f + " -> ")
	}
	sb.WriteString(goal + ".\nProof. intros; first [lia | intuition lia]. Qed.\n")
	a.obs = append(a.obs, c11Ob{ID: id, File: a.file, Line: pos.Line, Func: a.fn, Expr: exprStr(a.fset, n), Hash: a.fnHash, Lemma: sb.String()})
}

func (a *c11An) block(stmts []ast.Stmt, c c11Ctx) c11Ctx {
	c = c.clone()
	for _, st := range stmts {
		c = a.stmt(st, c)
	}
	return c
}

func (a *c11An) stmt(st ast.Stmt, c c11Ctx) c11Ctx {
	switch s := st.(type) {
	case *ast.AssignStmt:
		for _, r := range s.Rhs {
			a.scan(r, c)
		}
		for _, l := range s.Lhs {
			if _, ok := l.(*ast.Ident); !ok {
				a.scan(l, c)
			}
		}
		if len(s.Lhs) == len(s.Rhs) {
			for i, l := range s.Lhs {
				id, ok := l.(*ast.Ident)
				if !ok {
					continue
				}
				if sym, facts, ok := a.source(s.Rhs[i]); ok {
					c.forget(id.Name)
					c.env[id.Name] = sym
					c.facts = append(c.facts, facts...)
					continue
				}
				// x = x[k:]  (re-slicing a tracked slice)
				if se, ok := s.Rhs[i].(*ast.SliceExpr); ok {
					if base, ok := se.X.(*ast.Ident); ok {
						if bs, ok := c.env[base.Name]; ok && se.High == nil && se.Low != nil {
							if lo, ok := a.intTerm(se.Low, c); ok {
								ns := a.fresh(id.Name)
								c.facts = append(c.facts, fmt.Sprintf("%s = %s - %s", ns, bs, lo))
								c.forget(id.Name)
								c.env[id.Name] = ns
								continue
							}
						}
					}
				}
				c.forget(id.Name)
			}
		} else {
			for _, l := range s.Lhs {
				if id, ok := l.(*ast.Ident); ok {
					c.forget(id.Name)
				}
			}
		}
	case *ast.IncDecStmt:
		a.scan(s.X, c)
		if id, ok := s.X.(*ast.Ident); ok {
			c.forget(id.Name)
		}
	case *ast.ExprStmt:
		a.scan(s.X, c)
	case *ast.ReturnStmt:
		for _, r := range s.Results {
			a.scan(r, c)
		}
	case *ast.DeclStmt:
		a.scan(s, c)
		if gd, ok := s.Decl.(*ast.GenDecl); ok {
			for _, sp := range gd.Specs {
				if vs, ok := sp.(*ast.ValueSpec); ok {
					for i, n := range vs.Names {
						delete(c.env, n.Name)
						if i < len(vs.Values) {
							if sym, facts, ok := a.source(vs.Values[i]); ok {
								c.env[n.Name] = sym
								c.facts = append(c.facts, facts...)
							}
						}
					}
				}
			}
		}
	case *ast.BlockStmt:
		inner := a.block(s.List, c)
		c.havoc(assignedIdents(s))
		_ = inner
	case *ast.LabeledStmt:
		return a.stmt(s.Stmt, c)
	case *ast.IfStmt:
		if s.Init != nil {
			c = a.stmt(s.Init, c)
		}
		a.scan(s.Cond, c)
		pos, neg := a.cond(s.Cond, c)
		tc := c.clone()
		if pos != "" {
			tc.facts = append(tc.facts, pos)
		}
		a.block(s.Body.List, tc)
		thenTerm := terminates(s.Body.List)
		elseTerm := false
		if s.Else != nil {
			ec := c.clone()
			if neg != "" {
				ec.facts = append(ec.facts, neg)
			}
			switch e := s.Else.(type) {
			case *ast.BlockStmt:
				a.block(e.List, ec)
				elseTerm = terminates(e.List)
			default:
				a.stmt(e, ec)
			}
		}
		if !thenTerm {
			c.havoc(assignedIdents(s.Body))
		}
		if s.Else != nil && !elseTerm {
			c.havoc(assignedIdents(s.Else))
		}
		if thenTerm && neg != "" {
			c.facts = append(c.facts, neg)
		}
		if elseTerm && pos != "" {
			c.facts = append(c.facts, pos)
		}
	case *ast.SwitchStmt:
		if s.Init != nil {
			c = a.stmt(s.Init, c)
		}
		tagTerm, tagKnown := "", false
		if s.Tag != nil {
			a.scan(s.Tag, c)
			tagTerm, tagKnown = a.intTerm(s.Tag, c)
		}
		var seenNeg []string // negations of earlier cases
		var after []string   // condition of each non-terminating case (for the join)
		afterKnown := true
		hasDefault := false
		var defaultBody []ast.Stmt
		for _, cc0 := range s.Body.List {
			cc := cc0.(*ast.CaseClause)
			if cc.List == nil {
				hasDefault = true
				defaultBody = cc.Body
				continue
			}
			var alts, negs []string
			known := true
			for _, e := range cc.List {
				a.scan(e, c)
				if s.Tag != nil {
					if t, ok := a.intTerm(e, c); ok && tagKnown {
						alts = append(alts, "("+tagTerm+" = "+t+")")
						negs = append(negs, "("+tagTerm+" <> "+t+")")
					} else {
						known = false
					}
				} else {
					p, n := a.cond(e, c)
					if p == "" {
						known = false
					} else {
						alts = append(alts, p)
					}
					if n != "" {
						negs = append(negs, n)
					} else {
						negs = append(negs, "")
					}
				}
			}
			bc := c.clone()
			caseCond := ""
			if known && len(alts) > 0 {
				caseCond = "(" + strings.Join(alts, " \\/ ") + ")"
				bc.facts = append(bc.facts, caseCond)
			}
			for _, n := range seenNeg {
				bc.facts = append(bc.facts, n)
			}
			a.block(cc.Body, bc)
			if !terminates(cc.Body) {
				if caseCond == "" {
					afterKnown = false
				} else {
					after = append(after, caseCond)
				}
			}
			for _, n := range negs {
				if n != "" {
					seenNeg = append(seenNeg, n)
				}
			}
			if !known {
				// an unknown case may have matched: later cases cannot assume its negation — nothing to add
			}
		}
		dc := c.clone()
		dc.facts = append(dc.facts, seenNeg...)
		defCond := "True"
		if len(seenNeg) > 0 {
			defCond = "(" + strings.Join(seenNeg, " /\\ ") + ")"
		}
		if hasDefault {
			a.block(defaultBody, dc)
			if !terminates(defaultBody) {
				after = append(after, defCond)
			}
		} else {
			after = append(after, defCond)
		}
		c.havoc(assignedIdents(s.Body))
		if afterKnown && len(after) > 0 {
			c.facts = append(c.facts, "("+strings.Join(after, " \\/ ")+")")
		}
	case *ast.TypeSwitchStmt:
		a.scan(s, newCtx())
		c.havoc(assignedIdents(s))
	case *ast.ForStmt:
		if s.Init != nil {
			c = a.stmt(s.Init, c)
		}
		bodyAssigned := assignedIdents(s.Body)
		lc := c.clone()
		lc.havoc(bodyAssigned)
		// loop index facts: for i := K; i < len(x) ...; i++  (i not assigned in the body)
		if as, ok := s.Init.(*ast.AssignStmt); ok && len(as.Lhs) == 1 && len(as.Rhs) == 1 {
			if id, ok := as.Lhs[0].(*ast.Ident); ok && !bodyAssigned[id.Name] {
				if inc, ok := s.Post.(*ast.IncDecStmt); ok && inc.Tok == token.INC {
					if pid, ok := inc.X.(*ast.Ident); ok && pid.Name == id.Name {
						if start, ok := a.intTerm(as.Rhs[0], lc); ok {
							sym := a.fresh(id.Name)
							lc.ints[id.Name] = sym
							lc.facts = append(lc.facts, fmt.Sprintf("%s <= %s", start, sym))
						}
					}
				}
			}
		}
		if s.Cond != nil {
			a.scan(s.Cond, lc)
			if pos, _ := a.cond(s.Cond, lc); pos != "" {
				lc.facts = append(lc.facts, pos)
			}
		}
		a.block(s.Body.List, lc)
		if s.Post != nil {
			a.scan(s.Post, lc)
		}
		c.havoc(bodyAssigned)
		if s.Post != nil {
			c.havoc(assignedIdents(s.Post))
		}
	case *ast.RangeStmt:
		a.scan(s.X, c)
		bodyAssigned := assignedIdents(s.Body)
		lc := c.clone()
		lc.havoc(bodyAssigned)
		if k, ok := s.Key.(*ast.Ident); ok && k.Name != "_" && !bodyAssigned[k.Name] {
			if x, ok := s.X.(*ast.Ident); ok {
				if sym, ok := lc.env[x.Name]; ok {
					is := a.fresh(k.Name)
					lc.ints[k.Name] = is
					lc.facts = append(lc.facts, fmt.Sprintf("0 <= %s < %s", is, sym))
				}
			}
		}
		if v, ok := s.Value.(*ast.Ident); ok {
			delete(lc.env, v.Name)
		}
		a.block(s.Body.List, lc)
		c.havoc(bodyAssigned)
	case *ast.GoStmt:
		a.scan(s.Call, newCtx())
	case *ast.DeferStmt:
		a.scan(s.Call, newCtx())
	case *ast.SendStmt, *ast.SelectStmt, *ast.CommClause:
		a.scan(s, newCtx())
	default:
		a.scan(s, c)
	}
	return c
}

func c11Analyze(repo string) ([]c11Ob, error) {
	var all []c11Ob
	dirs := []string{"caskethttp", "caskettls", "onevent", "casketfile"}
	for _, d := range dirs {
		err := filepath.Walk(filepath.Join(repo, d), func(path string, info os.FileInfo, err error) error {
			if err != nil || info.IsDir() || !strings.HasSuffix(path, ".go") || strings.HasSuffix(path, "_test.go") || strings.HasPrefix(info.Name(), "verif_export") {
				return nil
			}
			fset := token.NewFileSet()
			f, perr := parser.ParseFile(fset, path, nil, 0)
			if perr != nil {
				return perr
			}
			rel, _ := filepath.Rel(repo, path)
			for _, decl := range f.Decls {
				fd, ok := decl.(*ast.FuncDecl)
				if !ok || fd.Body == nil {
					continue
				}
				src := exprStr(fset, fd)
				h := sha256.Sum256([]byte(src))
				a := &c11An{fset: fset, file: rel, fn: fd.Name.Name, fnHash: hex.EncodeToString(h[:8])}
				c := newCtx()
				// []string / ...string parameters
				for _, fld := range fd.Type.Params.List {
					t := exprStr(fset, fld.Type)
					if t == "[]string" || t == "...string" {
						for _, n := range fld.Names {
							s := a.fresh(n.Name)
							c.env[n.Name] = s
							c.facts = append(c.facts, "0 <= "+s)
						}
					}
				}
				a.block(fd.Body.List, c)
				all = append(all, a.obs...)
			}
			return nil
		})
		if err != nil {
			return nil, err
		}
	}
	sort.Slice(all, func(i, j int) bool { return all[i].ID < all[j].ID })
	return all, nil
}

func init() {
	registerGen("Gen_C11.v", func(repo string) (string, error) {
		obs, err := c11Analyze(repo)
		if err != nil {
			return "", err
		}
		var sb strings.Builder
		sb.WriteString("From Coq Require Import ZArith Lia.\nLocal Open Scope Z_scope.\n")
		sb.WriteString(fmt.Sprintf("(* %d index/slice obligations on argument slices *)\n", len(obs)))
		seen := map[string]bool{}
		var kept []c11Ob
		for _, o := range obs {
			if seen[o.ID] {
				continue
			}
			seen[o.ID] = true
			kept = append(kept, o)
			fmt.Fprintf(&sb, "(* %s:%d %s: %s *)\n%s", o.File, o.Line, o.Func, strings.ReplaceAll(o.Expr, "*)", "* )"), o.Lemma)
		}
		names := make([]string, len(kept))
		for i, o := range kept {
			names[i] = o.ID
		}
		fmt.Fprintf(&sb, "Definition c11_obligation_count : nat := %d%%nat.\n", len(kept))
		meta, _ := json.MarshalIndent(kept, "", " ")
		if root := os.Getenv("VERIF_ROOT"); root != "" {
			os.MkdirAll(filepath.Join(root, "run"), 0o755)
			os.WriteFile(filepath.Join(root, "run", "c11_obligations.json"), meta, 0o644)
		}
		return sb.String(), nil
	})
}
