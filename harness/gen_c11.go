package main

// Translator for C11. For every function of the packages that hold directive setup code it
// collects, per program point, the facts that are syntactically in scope and emits one Coq lemma
// per potentially panicking site, proved (or not) by lia:
//
//   slice  — index / slice expression on a []string derived from Dispenser.RemainingArgs(),
//            strings.Split*/Fields, a []string literal or a []string parameter (every function);
//   string — index / slice expression on a STRING value, in the functions reachable from a
//            registered directive's setup function, from ValidateAndExecuteDirectives, from the
//            parsing callbacks and from the http context (call graph by go/types, static calls and
//            function values; interface calls are not followed);
//   nil    — field access through a pointer that the function itself treats as possibly nil
//            (compared with nil, declared without a value, assigned nil, left out of the
//            composite literal that built its parent, or a parameter that some caller feeds
//            with such a value), same reachable functions;
//   map    — write into a map with the same "possibly nil" status.
//
// Facts: switch len(x) / if len(x) <op> k guards with early exits, loop bounds, x = x[k:],
// s != "" / s == "lit", strings.HasPrefix/HasSuffix/Contains, i := strings.Index*(s, x) with its
// range, strings.Trim*/TrimPrefix/TrimSuffix result lengths, concatenation, sub-string lengths,
// p == nil / p != nil, p = &T{..} / new / make / a function that returns a fresh object on every
// path, boolean flags assigned from such tests, and value joins after if / switch.
// The translator only COLLECTS facts; lia judges. Whatever it does not understand contributes no
// fact (weaker premise): an unknown shape can make an obligation unprovable, never provable.

import (
	"bytes"
	"crypto/sha256"
	"encoding/hex"
	"encoding/json"
	"fmt"
	"go/ast"
	"go/build"
	"go/constant"
	"go/importer"
	"go/parser"
	"go/printer"
	"go/token"
	"go/types"
	"io"
	"os"
	"os/exec"
	"path/filepath"
	"regexp"
	"sort"
	"strconv"
	"strings"
)

const c11Mod = "github.com/tmpim/casket"

type c11Ob struct {
	ID    string `json:"id"`
	File  string `json:"file"`
	Line  int    `json:"line"`
	Func  string `json:"func"`
	Expr  string `json:"expr"`
	Hash  string `json:"func_hash"`
	Kind  string `json:"kind"`
	Lemma string `json:"lemma"`
}

// ---------------------------------------------------------------- loading (go/types)

type c11World struct {
	repo   string
	fset   *token.FileSet
	gc     types.Importer
	export map[string]string
	pkgs   map[string]*types.Package
	infos  map[string]*types.Info
	files  map[string][]*ast.File
	order  []string
	errs   []string

	decls    map[*types.Func]*c11Fn
	reach    map[*types.Func]bool
	nonnil   map[*types.Func]bool         // every return yields a fresh object as first result
	derefs   map[*types.Func]map[int]bool // pointer parameters the function reads a field through
	tolerant map[*types.Func]map[int]bool // pointer / map parameters the function itself compares with nil
	nilField map[*types.Var]bool             // struct fields that some function compares with nil or sets to nil
	writes   map[*types.Func]map[string]bool // field names the function (or anything it calls) may assign; "*" = anything
}

type c11Fn struct {
	decl *ast.FuncDecl
	info *types.Info
	pkg  string
	file string
}

func (w *c11World) Import(path string) (*types.Package, error) {
	if p, ok := w.pkgs[path]; ok {
		return p, nil
	}
	if path == c11Mod || strings.HasPrefix(path, c11Mod+"/") {
		return w.load(path)
	}
	p, err := w.gc.Import(path)
	if err != nil {
		return nil, err
	}
	w.pkgs[path] = p
	return p, nil
}

func (w *c11World) load(path string) (*types.Package, error) {
	dir := filepath.Join(w.repo, strings.TrimPrefix(strings.TrimPrefix(path, c11Mod), "/"))
	ents, err := os.ReadDir(dir)
	if err != nil {
		return nil, err
	}
	bctx := build.Default
	var files []*ast.File
	for _, e := range ents {
		n := e.Name()
		if e.IsDir() || !strings.HasSuffix(n, ".go") || strings.HasSuffix(n, "_test.go") || strings.HasPrefix(n, "verif_export") {
			continue
		}
		if ok, _ := bctx.MatchFile(dir, n); !ok {
			continue
		}
		f, err := parser.ParseFile(w.fset, filepath.Join(dir, n), nil, 0)
		if err != nil {
			return nil, err
		}
		files = append(files, f)
	}
	info := &types.Info{Types: map[ast.Expr]types.TypeAndValue{}, Uses: map[*ast.Ident]types.Object{},
		Defs: map[*ast.Ident]types.Object{}, Selections: map[*ast.SelectorExpr]*types.Selection{}}
	conf := types.Config{Importer: w, Error: func(err error) { w.errs = append(w.errs, err.Error()) }}
	p, _ := conf.Check(path, w.fset, files, info)
	w.pkgs[path] = p
	w.infos[path] = info
	w.files[path] = files
	w.order = append(w.order, path)
	return p, nil
}

func c11Load(repo string) (*c11World, error) {
	w := &c11World{repo: repo, fset: token.NewFileSet(), export: map[string]string{}, pkgs: map[string]*types.Package{},
		infos: map[string]*types.Info{}, files: map[string][]*ast.File{}}
	// export data of everything the repository imports (compiled by the harness build already)
	cmd := exec.Command("go", "list", "-export", "-deps", "-f", "{{.ImportPath}} {{.Export}}",
		"./caskethttp/...", "./caskettls/...", "./onevent/...", "./casketfile/...", ".")
	cmd.Dir = repo
	var stderr bytes.Buffer
	cmd.Stderr = &stderr
	out, err := cmd.Output()
	if err != nil {
		return nil, fmt.Errorf("go list -export: %v: %s", err, stderr.String())
	}
	for _, l := range strings.Split(string(out), "\n") {
		f := strings.Fields(l)
		if len(f) == 2 {
			w.export[f[0]] = f[1]
		}
	}
	w.gc = importer.ForCompiler(w.fset, "gc", func(path string) (io.ReadCloser, error) {
		if f, ok := w.export[path]; ok {
			return os.Open(f)
		}
		return nil, fmt.Errorf("no export data for %s", path)
	})
	var dirs []string
	for _, d := range []string{"caskethttp", "caskettls", "onevent", "casketfile"} {
		filepath.Walk(filepath.Join(repo, d), func(p string, i os.FileInfo, err error) error {
			if err == nil && i.IsDir() {
				dirs = append(dirs, p)
			}
			return nil
		})
	}
	dirs = append(dirs, repo)
	sort.Strings(dirs)
	for _, d := range dirs {
		g, _ := filepath.Glob(filepath.Join(d, "*.go"))
		if len(g) == 0 {
			continue
		}
		rel, _ := filepath.Rel(repo, d)
		ip := c11Mod
		if rel != "." {
			ip += "/" + filepath.ToSlash(rel)
		}
		if _, err := w.Import(ip); err != nil {
			return nil, err
		}
	}
	if len(w.errs) > 0 {
		return nil, fmt.Errorf("type errors while loading the repository (first: %s)", w.errs[0])
	}
	w.index()
	return w, nil
}

// index builds the declaration table, the reachable set and the function summaries.
func (w *c11World) index() {
	w.decls = map[*types.Func]*c11Fn{}
	for _, path := range w.order {
		info := w.infos[path]
		for _, f := range w.files[path] {
			fname, _ := filepath.Rel(w.repo, w.fset.Position(f.Pos()).Filename)
			for _, d := range f.Decls {
				if fd, ok := d.(*ast.FuncDecl); ok && fd.Body != nil {
					if o, ok := info.Defs[fd.Name].(*types.Func); ok {
						w.decls[o] = &c11Fn{decl: fd, info: info, pkg: path, file: fname}
					}
				}
			}
		}
	}
	// reachability: roots = ValidateAndExecuteDirectives, the http context's InspectServerBlocks /
	// MakeServers, every function mentioned in a RegisterPlugin / RegisterParsingCallback /
	// RegisterServerType call; edges = every mention of a function (call or value)
	w.reach = map[*types.Func]bool{}
	var work []*types.Func
	add := func(o *types.Func) {
		if _, ok := w.decls[o]; ok && !w.reach[o] {
			w.reach[o] = true
			work = append(work, o)
		}
	}
	for o, f := range w.decls {
		n := o.Name()
		if (f.pkg == c11Mod && n == "ValidateAndExecuteDirectives") || n == "InspectServerBlocks" || n == "MakeServers" {
			add(o)
		}
		ast.Inspect(f.decl.Body, func(x ast.Node) bool {
			call, ok := x.(*ast.CallExpr)
			if !ok {
				return true
			}
			se, ok := call.Fun.(*ast.SelectorExpr)
			if !ok || (se.Sel.Name != "RegisterPlugin" && se.Sel.Name != "RegisterParsingCallback" && se.Sel.Name != "RegisterServerType") {
				return true
			}
			for _, arg := range call.Args {
				ast.Inspect(arg, func(y ast.Node) bool {
					if id, ok := y.(*ast.Ident); ok {
						if fo, ok := f.info.Uses[id].(*types.Func); ok {
							add(fo)
						}
					}
					return true
				})
			}
			return true
		})
	}
	for len(work) > 0 {
		o := work[len(work)-1]
		work = work[:len(work)-1]
		f := w.decls[o]
		ast.Inspect(f.decl.Body, func(x ast.Node) bool {
			if id, ok := x.(*ast.Ident); ok {
				if fo, ok := f.info.Uses[id].(*types.Func); ok {
					add(fo)
				}
			}
			return true
		})
	}
	// nonnil summaries
	w.nonnil = map[*types.Func]bool{}
	for o, f := range w.decls {
		sig := o.Type().(*types.Signature)
		if sig.Results().Len() == 0 {
			continue
		}
		all, n := true, 0
		ast.Inspect(f.decl.Body, func(x ast.Node) bool {
			switch v := x.(type) {
			case *ast.FuncLit:
				return false
			case *ast.ReturnStmt:
				n++
				if len(v.Results) == 0 || !freshObject(v.Results[0]) {
					all = false
				}
			}
			return true
		})
		if all && n > 0 {
			w.nonnil[o] = true
		}
	}
	// fields of pointer / map type that the code itself treats as possibly nil somewhere
	w.nilField = map[*types.Var]bool{}
	for _, f := range w.decls {
		isNil := func(e ast.Expr) bool { id, ok := e.(*ast.Ident); return ok && id.Name == "nil" }
		markF := func(e ast.Expr) {
			if se, ok := e.(*ast.SelectorExpr); ok {
				if sel, ok := f.info.Selections[se]; ok && sel.Kind() == types.FieldVal {
					if v, ok := sel.Obj().(*types.Var); ok && nilable(v.Type()) && isMapT(v.Type()) {
						w.nilField[v] = true
					}
				}
			}
		}
		ast.Inspect(f.decl.Body, func(x ast.Node) bool {
			switch v := x.(type) {
			case *ast.BinaryExpr:
				if v.Op == token.EQL || v.Op == token.NEQ {
					if isNil(v.Y) {
						markF(v.X)
					} else if isNil(v.X) {
						markF(v.Y)
					}
				}
			case *ast.AssignStmt:
				if len(v.Lhs) == len(v.Rhs) {
					for i, r := range v.Rhs {
						if isNil(r) {
							markF(v.Lhs[i])
						}
					}
				}
			}
			return true
		})
	}
	// parameter summaries: which pointer parameters are dereferenced, which are tested against nil
	w.derefs = map[*types.Func]map[int]bool{}
	w.tolerant = map[*types.Func]map[int]bool{}
	for o, f := range w.decls {
		sig := o.Type().(*types.Signature)
		pidx := map[types.Object]int{}
		for i := 0; i < sig.Params().Len(); i++ {
			pidx[sig.Params().At(i)] = i
		}
		w.derefs[o], w.tolerant[o] = map[int]bool{}, map[int]bool{}
		isNil := func(e ast.Expr) bool { id, ok := e.(*ast.Ident); return ok && id.Name == "nil" }
		param := func(e ast.Expr) (int, bool) {
			if id, ok := e.(*ast.Ident); ok {
				if i, ok := pidx[f.info.Uses[id]]; ok {
					return i, true
				}
			}
			return 0, false
		}
		ast.Inspect(f.decl.Body, func(x ast.Node) bool {
			switch v := x.(type) {
			case *ast.SelectorExpr:
				if sel, ok := f.info.Selections[v]; ok && sel.Kind() == types.FieldVal {
					if i, ok := param(v.X); ok {
						w.derefs[o][i] = true
					}
				}
			case *ast.StarExpr:
				if i, ok := param(v.X); ok {
					w.derefs[o][i] = true
				}
			case *ast.BinaryExpr:
				if v.Op == token.EQL || v.Op == token.NEQ {
					if isNil(v.Y) {
						if i, ok := param(v.X); ok {
							w.tolerant[o][i] = true
						}
					} else if isNil(v.X) {
						if i, ok := param(v.Y); ok {
							w.tolerant[o][i] = true
						}
					}
				}
			}
			return true
		})
	}
	// write sets (field names), closed over static calls
	w.writes = map[*types.Func]map[string]bool{}
	for o, f := range w.decls {
		a := &c11An{w: w, fset: w.fset, info: f.info}
		a.prepare(f.decl, o)
		w.writes[o] = a.directWrites(f.decl.Body)
	}
	for changed := true; changed; {
		changed = false
		for o, f := range w.decls {
			ws := w.writes[o]
			if ws["*"] {
				continue
			}
			a := &c11An{w: w, fset: w.fset, info: f.info}
			ast.Inspect(f.decl.Body, func(x ast.Node) bool {
				if call, ok := x.(*ast.CallExpr); ok {
					if callee := a.callee(call); callee != nil && w.decls[callee] != nil {
						for k := range w.writes[callee] {
							if !ws[k] {
								ws[k] = true
								changed = true
							}
						}
					}
				}
				return true
			})
		}
	}
}

// freshObject: &T{..}, new(T), make(..), T{..} of map type — never nil
func freshObject(e ast.Expr) bool {
	switch v := e.(type) {
	case *ast.ParenExpr:
		return freshObject(v.X)
	case *ast.UnaryExpr:
		if v.Op == token.AND {
			_, ok := v.X.(*ast.CompositeLit)
			return ok
		}
	case *ast.CallExpr:
		if id, ok := v.Fun.(*ast.Ident); ok && (id.Name == "new" || id.Name == "make") {
			return true
		}
	case *ast.CompositeLit:
		if _, ok := v.Type.(*ast.MapType); ok {
			return true
		}
	}
	return false
}

func nilable(t types.Type) bool {
	if t == nil {
		return false
	}
	switch u := t.Underlying().(type) {
	case *types.Pointer:
		_, ok := u.Elem().Underlying().(*types.Struct)
		return ok
	case *types.Map:
		return true
	}
	return false
}

func isMapT(t types.Type) bool {
	if t == nil {
		return false
	}
	_, ok := t.Underlying().(*types.Map)
	return ok
}

func isStringT(t types.Type) bool {
	if t == nil {
		return false
	}
	b, ok := t.Underlying().(*types.Basic)
	return ok && b.Info()&types.IsString != 0
}
func isIntT(t types.Type) bool {
	if t == nil {
		return false
	}
	b, ok := t.Underlying().(*types.Basic)
	return ok && b.Info()&types.IsInteger != 0
}
func isBoolT(t types.Type) bool {
	if t == nil {
		return false
	}
	b, ok := t.Underlying().(*types.Basic)
	return ok && b.Info()&types.IsBoolean != 0
}
func isStrSliceT(t types.Type) bool {
	if t == nil {
		return false
	}
	s, ok := t.Underlying().(*types.Slice)
	return ok && isStringT(s.Elem())
}

// ---------------------------------------------------------------- contexts

type c11Ctx struct {
	env   map[string]string // []string variable -> length symbol
	ints  map[string]string // int variable -> symbol
	atoms map[string]string // pure boolean expression text -> Prop symbol
	strs  map[string]string // string-valued path (x, x.f, x[0]) -> length symbol
	nils  map[string]string // pointer / map valued path -> symbol (0 = nil, 1 = allocated)
	facts []string
}

func newCtx() *c11Ctx {
	return &c11Ctx{env: map[string]string{}, ints: map[string]string{}, atoms: map[string]string{}, strs: map[string]string{}, nils: map[string]string{}}
}

func cloneMap(m map[string]string) map[string]string {
	n := make(map[string]string, len(m))
	for k, v := range m {
		n[k] = v
	}
	return n
}

func (c *c11Ctx) clone() *c11Ctx {
	return &c11Ctx{env: cloneMap(c.env), ints: cloneMap(c.ints), atoms: cloneMap(c.atoms), strs: cloneMap(c.strs), nils: cloneMap(c.nils),
		facts: append([]string(nil), c.facts...)}
}

func (c *c11Ctx) add(f ...string) {
	for _, x := range f {
		if x != "" {
			c.facts = append(c.facts, x)
		}
	}
}

func (c *c11Ctx) maps() []map[string]string {
	return []map[string]string{c.env, c.ints, c.strs, c.nils}
}

var identRe = map[string]*regexp.Regexp{}

func wordRe(n string) *regexp.Regexp {
	re, ok := identRe[n]
	if !ok {
		re = regexp.MustCompile(`(^|[^A-Za-z0-9_])` + regexp.QuoteMeta(n) + `($|[^A-Za-z0-9_])`)
		identRe[n] = re
	}
	return re
}

// forget drops everything known about a variable (and about every path or expression that mentions it).
func (c *c11Ctx) forget(n string) {
	re := wordRe(n)
	for _, m := range []map[string]string{c.env, c.ints, c.atoms, c.strs, c.nils} {
		for k := range m {
			if k == n || re.MatchString(k) {
				delete(m, k)
			}
		}
	}
}

func (c *c11Ctx) havoc(names map[string]bool) {
	for n, whole := range names {
		if whole {
			c.forget(n)
		} else {
			c.forgetBelow(n)
		}
	}
}

// forgetBelow: something was stored through n (n.f = .., n[i] = ..): n itself keeps its value
func (c *c11Ctx) forgetBelow(n string) {
	re := wordRe(n)
	for _, m := range []map[string]string{c.atoms, c.strs, c.nils} {
		for k := range m {
			if k != n && re.MatchString(k) {
				delete(m, k)
			}
		}
	}
}

// dropPaths forgets every fact about memory that a callee could reach: field and element paths.
func (c *c11Ctx) dropPaths() {
	for _, m := range []map[string]string{c.atoms, c.strs, c.nils} {
		for k := range m {
			if strings.ContainsAny(k, ".[") {
				delete(m, k)
			}
		}
	}
}

var fieldRe = regexp.MustCompile(`\.([A-Za-z_][A-Za-z0-9_]*)`)

// dropWritten forgets the facts about paths that a call with the given write set may have changed.
func (c *c11Ctx) dropWritten(ws map[string]bool) {
	if len(ws) == 0 {
		return
	}
	if ws["*"] {
		c.dropPaths()
		return
	}
	for _, m := range []map[string]string{c.atoms, c.strs, c.nils} {
		for k := range m {
			if strings.Contains(k, "[") {
				delete(m, k)
				continue
			}
			for _, f := range fieldRe.FindAllStringSubmatch(k, -1) {
				if ws[f[1]] {
					delete(m, k)
					break
				}
			}
		}
	}
}

// ---------------------------------------------------------------- per-function analysis

type c11An struct {
	w      *c11World
	fset   *token.FileSet
	info   *types.Info
	file   string
	fn     string
	fnHash string
	reach  bool
	nsym   int
	syms   []string
	props  []string
	obs    []c11Ob

	unstable map[string]bool // variables assigned inside a closure or whose address is taken: never tracked
	closures map[string]*ast.FuncLit // local name := func(..) {..}, assigned once
	suspects map[string]bool // pointer / map paths the function treats as possibly nil
}

func (a *c11An) fresh(base string) string {
	a.nsym++
	s := fmt.Sprintf("%s_%d", sanitize(base), a.nsym)
	a.syms = append(a.syms, s)
	return s
}

func (a *c11An) freshProp() string {
	a.nsym++
	s := fmt.Sprintf("P_%d", a.nsym)
	a.props = append(a.props, s)
	return s
}

func sanitize(s string) string {
	var b strings.Builder
	for _, r := range s {
		if (r >= 'a' && r <= 'z') || (r >= 'A' && r <= 'Z') || (r >= '0' && r <= '9') {
			b.WriteRune(r)
		} else {
			b.WriteRune('_')
		}
	}
	return "v" + b.String()
}

func exprStr(fset *token.FileSet, e ast.Node) string {
	var buf bytes.Buffer
	printer.Fprint(&buf, fset, e)
	return buf.String()
}

func (a *c11An) typeOf(e ast.Expr) types.Type {
	if a.info == nil {
		return nil
	}
	if tv, ok := a.info.Types[e]; ok && tv.Type != nil {
		return tv.Type
	}
	if id, ok := e.(*ast.Ident); ok {
		if o := a.info.ObjectOf(id); o != nil {
			return o.Type()
		}
	}
	return nil
}

func (a *c11An) constInt(e ast.Expr) (string, bool) {
	if tv, ok := a.info.Types[e]; ok && tv.Value != nil && tv.Value.Kind() == constant.Int {
		if v, ok := constant.Int64Val(tv.Value); ok {
			if v < 0 {
				return fmt.Sprintf("(%d)", v), true
			}
			return fmt.Sprint(v), true
		}
	}
	return "", false
}

func (a *c11An) constStr(e ast.Expr) (string, bool) {
	if tv, ok := a.info.Types[e]; ok && tv.Value != nil && tv.Value.Kind() == constant.String {
		return constant.StringVal(tv.Value), true
	}
	return "", false
}

func (a *c11An) localVar(id *ast.Ident) bool {
	if id.Name == "_" || a.unstable[id.Name] {
		return false
	}
	v, ok := a.info.ObjectOf(id).(*types.Var)
	if !ok || v.IsField() {
		return false
	}
	return v.Pkg() == nil || v.Parent() != v.Pkg().Scope() // not a package-level variable
}

// pathKey names a piece of memory by its source text: local variable, field path, constant element.
func (a *c11An) pathKey(e ast.Expr) string {
	switch v := e.(type) {
	case *ast.ParenExpr:
		return a.pathKey(v.X)
	case *ast.Ident:
		if a.localVar(v) {
			return v.Name
		}
	case *ast.SelectorExpr:
		if sel, ok := a.info.Selections[v]; ok && sel.Kind() == types.FieldVal {
			if b := a.pathKey(v.X); b != "" {
				return b + "." + v.Sel.Name
			}
		}
	case *ast.IndexExpr:
		if t := a.typeOf(v.X); t != nil {
			if _, ok := t.Underlying().(*types.Slice); ok {
				if b := a.pathKey(v.X); b != "" {
					if k, ok := a.constInt(v.Index); ok {
						return b + "[" + k + "]"
					}
				}
			}
		}
	}
	return ""
}

// callee resolves a static call.
func (a *c11An) callee(call *ast.CallExpr) *types.Func {
	var id *ast.Ident
	switch f := call.Fun.(type) {
	case *ast.Ident:
		id = f
	case *ast.SelectorExpr:
		id = f.Sel
	case *ast.ParenExpr:
		if i, ok := f.X.(*ast.Ident); ok {
			id = i
		}
	}
	if id == nil {
		return nil
	}
	fo, _ := a.info.Uses[id].(*types.Func)
	return fo
}

func (a *c11An) calleeName(call *ast.CallExpr) string {
	if fo := a.callee(call); fo != nil && fo.Pkg() != nil {
		if sig := fo.Type().(*types.Signature); sig.Recv() == nil {
			return fo.Pkg().Path() + "." + fo.Name()
		}
		return "method." + fo.Name()
	}
	if id, ok := call.Fun.(*ast.Ident); ok {
		if _, ok := a.info.Uses[id].(*types.Builtin); ok {
			return "builtin." + id.Name
		}
	}
	return ""
}

// directWrites: the field names a piece of code assigns itself (x.f = .., x.f++, &x.f), plus "*" when it
// calls something whose effect is unknown (a function value, a method of one of the repository's interfaces).
// Static calls into the repository are added by the fixpoint in index() / by callWrites.
func (a *c11An) directWrites(n ast.Node) map[string]bool {
	ws := map[string]bool{}
	field := func(e ast.Expr) {
		for {
			switch v := e.(type) {
			case *ast.ParenExpr:
				e = v.X
				continue
			case *ast.IndexExpr:
				e = v.X
				continue
			case *ast.StarExpr:
				ws["*"] = true // store through a pointer
			case *ast.SelectorExpr:
				ws[v.Sel.Name] = true
			}
			return
		}
	}
	ast.Inspect(n, func(x ast.Node) bool {
		switch v := x.(type) {
		case *ast.AssignStmt:
			for _, l := range v.Lhs {
				if _, ok := l.(*ast.Ident); !ok {
					field(l)
				}
			}
		case *ast.IncDecStmt:
			if _, ok := v.X.(*ast.Ident); !ok {
				field(v.X)
			}
		case *ast.RangeStmt:
			for _, l := range []ast.Expr{v.Key, v.Value} {
				if l != nil {
					if _, ok := l.(*ast.Ident); !ok {
						field(l)
					}
				}
			}
		case *ast.UnaryExpr:
			if v.Op == token.AND {
				if se, ok := v.X.(*ast.SelectorExpr); ok {
					ws[se.Sel.Name] = true
				}
			}
		case *ast.CallExpr:
			if a.unknownCall(v) {
				ws["*"] = true
			}
		}
		return true
	})
	return ws
}

// unknownCall: neither a conversion, a builtin, a static call, a call of a local closure, nor a method of a
// foreign interface / foreign function (which has no pointer into the repository's structures).
func (a *c11An) unknownCall(call *ast.CallExpr) bool {
	if tv, ok := a.info.Types[call.Fun]; ok && tv.IsType() {
		return false
	}
	if strings.HasPrefix(a.calleeName(call), "builtin.") {
		return false
	}
	if fo := a.callee(call); fo != nil {
		sig := fo.Type().(*types.Signature)
		if sig.Recv() != nil {
			if _, isIface := sig.Recv().Type().Underlying().(*types.Interface); isIface {
				return fo.Pkg() != nil && strings.HasPrefix(fo.Pkg().Path(), c11Mod)
			}
		}
		return false
	}
	if id, ok := call.Fun.(*ast.Ident); ok && a.closures != nil && a.closures[id.Name] != nil {
		return false
	}
	return true
}

// callWrites: what one call may assign.
func (a *c11An) callWrites(call *ast.CallExpr) map[string]bool {
	ws := map[string]bool{}
	addAll := func(m map[string]bool) {
		for k := range m {
			ws[k] = true
		}
	}
	if a.unknownCall(call) {
		ws["*"] = true
		return ws
	}
	if fo := a.callee(call); fo != nil && a.w != nil {
		addAll(a.w.writes[fo])
	} else if id, ok := call.Fun.(*ast.Ident); ok && a.closures != nil && a.closures[id.Name] != nil {
		addAll(a.bodyWrites(a.closures[id.Name].Body, 0))
	}
	// functions handed over as arguments may run inside the callee
	for _, arg := range call.Args {
		switch v := arg.(type) {
		case *ast.FuncLit:
			addAll(a.bodyWrites(v.Body, 0))
		case *ast.Ident:
			if fo, ok := a.info.Uses[v].(*types.Func); ok && a.w != nil {
				addAll(a.w.writes[fo])
			} else if a.closures != nil && a.closures[v.Name] != nil {
				addAll(a.bodyWrites(a.closures[v.Name].Body, 0))
			}
		}
	}
	return ws
}

// bodyWrites: write set of a statement / closure body including its calls.
func (a *c11An) bodyWrites(n ast.Node, depth int) map[string]bool {
	ws := map[string]bool{}
	if n == nil || depth > 3 {
		if depth > 3 {
			ws["*"] = true
		}
		return ws
	}
	for k := range a.directWrites(n) {
		ws[k] = true
	}
	ast.Inspect(n, func(x ast.Node) bool {
		if call, ok := x.(*ast.CallExpr); ok {
			if fo := a.callee(call); fo != nil && a.w != nil {
				for k := range a.w.writes[fo] {
					ws[k] = true
				}
			} else if id, ok := call.Fun.(*ast.Ident); ok && a.closures != nil && a.closures[id.Name] != nil {
				for k := range a.bodyWrites(a.closures[id.Name].Body, depth+1) {
					ws[k] = true
				}
			}
		}
		return true
	})
	return ws
}

// prepare computes the variables that must not be tracked and the possibly-nil paths.
func (a *c11An) prepare(fd *ast.FuncDecl, fo *types.Func) {
	a.unstable = map[string]bool{}
	a.suspects = map[string]bool{}
	a.closures = map[string]*ast.FuncLit{}
	nassign := map[string]int{}
	ast.Inspect(fd.Body, func(x ast.Node) bool {
		if as, ok := x.(*ast.AssignStmt); ok {
			for i, l := range as.Lhs {
				if id, ok := l.(*ast.Ident); ok {
					nassign[id.Name]++
					if len(as.Lhs) == len(as.Rhs) {
						if fl, ok := as.Rhs[i].(*ast.FuncLit); ok {
							a.closures[id.Name] = fl
						}
					}
				}
			}
		}
		if vs, ok := x.(*ast.ValueSpec); ok {
			for _, id := range vs.Names {
				nassign[id.Name]++
			}
		}
		return true
	})
	for n := range a.closures {
		if nassign[n] != 1 {
			delete(a.closures, n)
		}
	}
	ast.Inspect(fd.Body, func(x ast.Node) bool {
		switch v := x.(type) {
		case *ast.FuncLit:
			// captured variables the closure assigns (its own locals are tracked inside it as usual)
			ast.Inspect(v.Body, func(y ast.Node) bool {
				var lhs []ast.Expr
				switch st := y.(type) {
				case *ast.AssignStmt:
					lhs = st.Lhs
				case *ast.IncDecStmt:
					lhs = []ast.Expr{st.X}
				case *ast.RangeStmt:
					lhs = []ast.Expr{st.Key, st.Value}
				}
				for _, l := range lhs {
					if id, ok := l.(*ast.Ident); ok && id.Name != "_" {
						if o := a.info.ObjectOf(id); o != nil && (o.Pos() < v.Pos() || o.Pos() > v.End()) {
							a.unstable[id.Name] = true
						}
					}
				}
				return true
			})
		case *ast.UnaryExpr:
			if v.Op == token.AND {
				if id, ok := v.X.(*ast.Ident); ok {
					a.unstable[id.Name] = true
				}
			}
		}
		return true
	})
	// variables declared inside a closure are local to it; only captured ones matter, but a name is a name:
	// being conservative here only loses facts
	isNil := func(e ast.Expr) bool { id, ok := e.(*ast.Ident); return ok && id.Name == "nil" }
	mark := func(e ast.Expr) {
		if nilable(a.typeOf(e)) {
			if k := a.pathKey(e); k != "" {
				a.suspects[k] = true
			}
		}
	}
	ast.Inspect(fd.Body, func(x ast.Node) bool {
		switch v := x.(type) {
		case *ast.SelectorExpr:
			if sel, ok := a.info.Selections[v]; ok && sel.Kind() == types.FieldVal && a.w != nil {
				if fv, ok := sel.Obj().(*types.Var); ok && a.w.nilField[fv] {
					mark(v)
				}
			}
		case *ast.BinaryExpr:
			if v.Op == token.EQL || v.Op == token.NEQ {
				if isNil(v.Y) {
					mark(v.X)
				} else if isNil(v.X) {
					mark(v.Y)
				}
			}
		case *ast.AssignStmt:
			if len(v.Lhs) == len(v.Rhs) {
				for i, r := range v.Rhs {
					if isNil(r) {
						mark(v.Lhs[i])
					}
					// x := &T{...} / T{...}: nilable fields the literal leaves out are nil
					if id, ok := v.Lhs[i].(*ast.Ident); ok && a.localVar(id) {
						a.literalFields(id.Name, r, func(path string, present bool, val ast.Expr) {
							if !present {
								a.suspects[path] = true
							}
						})
					}
				}
			}
		case *ast.ValueSpec:
			if len(v.Values) == 0 {
				for _, n := range v.Names {
					mark(n)
				}
			}
		}
		return true
	})
}

// literalFields walks x := &T{..} / T{..} (and nested struct literals) and reports every nilable field.
func (a *c11An) literalFields(base string, e ast.Expr, f func(path string, present bool, val ast.Expr)) {
	if u, ok := e.(*ast.UnaryExpr); ok && u.Op == token.AND {
		e = u.X
	}
	cl, ok := e.(*ast.CompositeLit)
	if !ok {
		return
	}
	t := a.typeOf(cl)
	if t == nil {
		return
	}
	st, ok := t.Underlying().(*types.Struct)
	if !ok {
		return
	}
	given := map[string]ast.Expr{}
	for i, el := range cl.Elts {
		if kv, ok := el.(*ast.KeyValueExpr); ok {
			if id, ok := kv.Key.(*ast.Ident); ok {
				given[id.Name] = kv.Value
			}
		} else if i < st.NumFields() {
			given[st.Field(i).Name()] = el
		}
	}
	for i := 0; i < st.NumFields(); i++ {
		fl := st.Field(i)
		val, present := given[fl.Name()]
		if nilable(fl.Type()) {
			f(base+"."+fl.Name(), present, val)
		}
		if present {
			a.literalFields(base+"."+fl.Name(), val, f)
		}
	}
}

// ---- terms

func (a *c11An) strSym(key string, c *c11Ctx) string {
	if s, ok := c.strs[key]; ok {
		return s
	}
	s := a.fresh("len_" + key)
	c.strs[key] = s
	c.add("0 <= " + s)
	return s
}

func (a *c11An) nilSym(key string, c *c11Ctx) string {
	if s, ok := c.nils[key]; ok {
		return s
	}
	s := a.fresh("alloc_" + key)
	c.nils[key] = s
	c.add("0 <= " + s + " <= 1")
	return s
}

var c11TrimFuncs = map[string]bool{"strings.TrimSpace": true, "strings.Trim": true, "strings.TrimLeft": true, "strings.TrimRight": true,
	"strings.TrimFunc": true, "strings.TrimLeftFunc": true, "strings.TrimRightFunc": true}

// strLen: Coq term for len(e), e a string expression. Always succeeds (unknown => fresh non-negative symbol).
func (a *c11An) strLen(e ast.Expr, c *c11Ctx) string {
	if s, ok := a.constStr(e); ok {
		return fmt.Sprint(len(s))
	}
	switch v := e.(type) {
	case *ast.ParenExpr:
		return a.strLen(v.X, c)
	case *ast.BinaryExpr:
		if v.Op == token.ADD {
			return "(" + a.strLen(v.X, c) + " + " + a.strLen(v.Y, c) + ")"
		}
	case *ast.SliceExpr:
		if isStringT(a.typeOf(v.X)) && v.Max == nil {
			lo, hi := "0", ""
			ok := true
			if v.Low != nil {
				lo, ok = a.intTerm(v.Low, c)
			}
			if ok {
				if v.High != nil {
					hi, ok = a.intTerm(v.High, c)
				} else {
					hi = a.strLen(v.X, c)
				}
			}
			if ok {
				return "(" + hi + " - " + lo + ")"
			}
		}
	case *ast.CallExpr:
		n := a.calleeName(v)
		switch {
		case (n == "strings.TrimPrefix" || n == "strings.TrimSuffix") && len(v.Args) == 2:
			ls, lp := a.strLen(v.Args[0], c), a.strLen(v.Args[1], c)
			t := a.fresh("trimmed")
			c.add("0 <= "+t, t+" <= "+ls, ls+" - "+lp+" <= "+t)
			return t
		case c11TrimFuncs[n] && len(v.Args) >= 1:
			ls := a.strLen(v.Args[0], c)
			t := a.fresh("trimmed")
			c.add("0 <= "+t, t+" <= "+ls)
			return t
		case (n == "path.Clean" || n == "path/filepath.Clean") && len(v.Args) == 1:
			t := a.fresh("cleaned")
			c.add("1 <= " + t)
			return t
		}
	}
	if k := a.pathKey(e); k != "" {
		return a.strSym(k, c)
	}
	t := a.fresh("len")
	c.add("0 <= " + t)
	return t
}

// intTerm translates an int expression into a Coq Z term: constants, len(x) of tracked slices and of
// strings, known int variables, + and -.
func (a *c11An) intTerm(e ast.Expr, c *c11Ctx) (string, bool) {
	if k, ok := a.constInt(e); ok {
		return k, true
	}
	switch v := e.(type) {
	case *ast.ParenExpr:
		return a.intTerm(v.X, c)
	case *ast.Ident:
		if s, ok := c.ints[v.Name]; ok {
			return s, true
		}
		if isIntT(a.typeOf(v)) && a.localVar(v) {
			// an int-valued local: a symbol that lives until the variable is assigned
			s := a.fresh(v.Name)
			c.ints[v.Name] = s
			return s, true
		}
	case *ast.CallExpr:
		if id, ok := v.Fun.(*ast.Ident); ok && id.Name == "len" && len(v.Args) == 1 {
			if x, ok := v.Args[0].(*ast.Ident); ok {
				if s, ok := c.env[x.Name]; ok {
					return s, true
				}
			}
			if isStringT(a.typeOf(v.Args[0])) {
				return a.strLen(v.Args[0], c), true
			}
		}
		// int(x) / int64(x) of a term
		if tv, ok := a.info.Types[v.Fun]; ok && tv.IsType() && isIntT(tv.Type) && len(v.Args) == 1 && isIntT(a.typeOf(v.Args[0])) {
			if b, ok := tv.Type.Underlying().(*types.Basic); ok && (b.Kind() == types.Int || b.Kind() == types.Int64) {
				return a.intTerm(v.Args[0], c)
			}
		}
	case *ast.BinaryExpr:
		if v.Op == token.ADD || v.Op == token.SUB {
			if !isIntT(a.typeOf(v)) {
				return "", false
			}
			l, ok1 := a.intTerm(v.X, c)
			r, ok2 := a.intTerm(v.Y, c)
			if ok1 && ok2 {
				op := "+"
				if v.Op == token.SUB {
					op = "-"
				}
				return "(" + l + " " + op + " " + r + ")", true
			}
		}
	}
	return "", false
}

// indexFacts: i := strings.Index*(s, x) — returns the facts about the result symbol.
func (a *c11An) indexCall(e ast.Expr, c *c11Ctx) (string, bool) {
	call, ok := e.(*ast.CallExpr)
	if !ok {
		return "", false
	}
	n := a.calleeName(call)
	switch n {
	case "strings.Index", "strings.LastIndex":
		if len(call.Args) == 2 {
			ls, lx := a.strLen(call.Args[0], c), a.strLen(call.Args[1], c)
			i := a.fresh("idx")
			c.add(fmt.Sprintf("(%s = -1 \\/ (0 <= %s /\\ %s + %s <= %s))", i, i, i, lx, ls))
			return i, true
		}
	case "strings.IndexByte", "strings.IndexRune", "strings.IndexAny", "strings.LastIndexByte", "strings.LastIndexAny", "strings.IndexFunc", "strings.LastIndexFunc":
		if len(call.Args) == 2 {
			ls := a.strLen(call.Args[0], c)
			i := a.fresh("idx")
			c.add(fmt.Sprintf("(%s = -1 \\/ (0 <= %s /\\ %s + 1 <= %s))", i, i, i, ls))
			return i, true
		}
	case "strings.Count":
		i := a.fresh("count")
		c.add("0 <= " + i)
		return i, true
	}
	return "", false
}

// cond returns facts that hold when e is true / false ("" = nothing known).
func (a *c11An) cond(e ast.Expr, c *c11Ctx) (pos, neg string) {
	switch v := e.(type) {
	case *ast.ParenExpr:
		return a.cond(v.X, c)
	case *ast.UnaryExpr:
		if v.Op == token.NOT {
			p, n := a.cond(v.X, c)
			return n, p
		}
	case *ast.CallExpr:
		n := a.calleeName(v)
		switch {
		case (n == "strings.HasPrefix" || n == "strings.HasSuffix" || n == "strings.Contains") && len(v.Args) == 2:
			ls, lp := a.strLen(v.Args[0], c), a.strLen(v.Args[1], c)
			p, ng := a.atom(e, c)
			return conj(p, "("+lp+" <= "+ls+")"), ng
		case (n == "strings.ContainsRune" || n == "strings.ContainsAny") && len(v.Args) == 2:
			ls := a.strLen(v.Args[0], c)
			p, ng := a.atom(e, c)
			return conj(p, "(1 <= "+ls+")"), ng
		}
	case *ast.BinaryExpr:
		switch v.Op {
		case token.LAND:
			p1, n1 := a.cond(v.X, c)
			p2, n2 := a.cond(v.Y, c)
			pos = conj(p1, p2)
			if n1 != "" && n2 != "" {
				neg = "(" + n1 + " \\/ " + n2 + ")"
			}
			return
		case token.LOR:
			p1, n1 := a.cond(v.X, c)
			p2, n2 := a.cond(v.Y, c)
			neg = conj(n1, n2)
			if p1 != "" && p2 != "" {
				pos = "(" + p1 + " \\/ " + p2 + ")"
			}
			return
		case token.EQL, token.NEQ, token.LSS, token.LEQ, token.GTR, token.GEQ:
			// p == nil / p != nil on a possibly-nil path
			if v.Op == token.EQL || v.Op == token.NEQ {
				x, y := v.X, v.Y
				if id, ok := x.(*ast.Ident); ok && id.Name == "nil" {
					x, y = y, x
				}
				if id, ok := y.(*ast.Ident); ok && id.Name == "nil" {
					if k := a.pathKey(x); k != "" && a.suspects[k] && nilable(a.typeOf(x)) {
						s := a.nilSym(k, c)
						p, ng := "("+s+" = 0)", "("+s+" <> 0)"
						if v.Op == token.NEQ {
							p, ng = ng, p
						}
						return p, ng
					}
					return a.atom(e, c)
				}
				// string comparison: equal strings have equal lengths
				if isStringT(a.typeOf(v.X)) && isStringT(a.typeOf(v.Y)) {
					lx, ly := a.strLen(v.X, c), a.strLen(v.Y, c)
					eq := "(" + lx + " = " + ly + ")"
					var p, ng string
					if sx, ok := a.constStr(v.Y); ok && sx == "" {
						p, ng = eq, "("+lx+" <> "+ly+")"
					} else if sx, ok := a.constStr(v.X); ok && sx == "" {
						p, ng = eq, "("+lx+" <> "+ly+")"
					} else {
						ap, an := a.atom(e, c)
						if v.Op == token.NEQ {
							ap, an = an, ap
						}
						p, ng = conj(ap, eq), an
					}
					if v.Op == token.NEQ {
						p, ng = ng, p
					}
					return p, ng
				}
			}
			if !isIntT(a.typeOf(v.X)) || !isIntT(a.typeOf(v.Y)) {
				return a.atom(e, c)
			}
			l, ok1 := a.intTerm(v.X, c)
			r, ok2 := a.intTerm(v.Y, c)
			if !ok1 || !ok2 {
				return a.atom(e, c)
			}
			ops := map[token.Token][2]string{
				token.EQL: {"=", "<>"}, token.NEQ: {"<>", "="}, token.LSS: {"<", ">="},
				token.LEQ: {"<=", ">"}, token.GTR: {">", "<="}, token.GEQ: {">=", "<"}}
			o := ops[v.Op]
			return "(" + l + " " + o[0] + " " + r + ")", "(" + l + " " + o[1] + " " + r + ")"
		}
	}
	return a.atom(e, c)
}

// atom: a pure boolean expression the translator does not interpret becomes an opaque Prop
// variable (same text => same variable until one of its identifiers is assigned).
func (a *c11An) atom(e ast.Expr, c *c11Ctx) (string, string) {
	pure := true
	ast.Inspect(e, func(n ast.Node) bool {
		switch v := n.(type) {
		case *ast.CallExpr:
			nm := a.calleeName(v)
			if !(strings.HasPrefix(nm, "strings.Has") || strings.HasPrefix(nm, "strings.Contains") || nm == "builtin.len") {
				pure = false
			}
		case *ast.FuncLit:
			pure = false
		case *ast.UnaryExpr:
			if v.Op != token.NOT && v.Op != token.SUB {
				pure = false
			}
		case *ast.SliceExpr, *ast.StarExpr:
			pure = false
		case *ast.IndexExpr:
			if a.pathKey(v) == "" {
				pure = false
			}
		case *ast.Ident:
			if a.unstable[v.Name] {
				pure = false
			}
			if o, ok := a.info.ObjectOf(v).(*types.Var); ok && !o.IsField() && o.Pkg() != nil && o.Parent() == o.Pkg().Scope() {
				pure = false // package-level variable
			}
		}
		return pure
	})
	if !pure {
		return "", ""
	}
	key := exprStr(a.fset, e)
	sym, ok := c.atoms[key]
	if !ok {
		sym = a.freshProp()
		c.atoms[key] = sym
	}
	return sym, "(~ " + sym + ")"
}

func conj(a, b string) string {
	switch {
	case a == "":
		return b
	case b == "":
		return a
	}
	return "(" + a + " /\\ " + b + ")"
}

func terminates(stmts []ast.Stmt) bool {
	if len(stmts) == 0 {
		return false
	}
	switch s := stmts[len(stmts)-1].(type) {
	case *ast.ReturnStmt:
		return true
	case *ast.BranchStmt:
		return s.Tok == token.CONTINUE || s.Tok == token.BREAK || s.Tok == token.GOTO
	case *ast.ExprStmt:
		if call, ok := s.X.(*ast.CallExpr); ok {
			f := exprStr(token.NewFileSet(), call.Fun)
			return f == "panic" || f == "log.Fatal" || f == "log.Fatalf" || f == "os.Exit"
		}
	case *ast.BlockStmt:
		return terminates(s.List)
	}
	return false
}

// source recognises expressions that produce a fresh []string and returns its base facts.
func (a *c11An) source(e ast.Expr) (string, []string, bool) {
	if cl, ok := e.(*ast.CompositeLit); ok && isStrSliceT(a.typeOf(cl)) {
		keyed := false
		for _, el := range cl.Elts {
			if _, ok := el.(*ast.KeyValueExpr); ok {
				keyed = true
			}
		}
		if !keyed {
			s := a.fresh("lit")
			return s, []string{fmt.Sprintf("%s = %d", s, len(cl.Elts))}, true
		}
	}
	call, ok := e.(*ast.CallExpr)
	if !ok {
		return "", nil, false
	}
	name := exprStr(a.fset, call.Fun)
	switch {
	case strings.HasSuffix(name, ".RemainingArgs") && len(call.Args) == 0:
		s := a.fresh("args")
		return s, []string{"0 <= " + s}, true
	case name == "strings.Split" && len(call.Args) == 2:
		s := a.fresh("split")
		return s, []string{"1 <= " + s}, true
	case name == "strings.SplitN" && len(call.Args) == 3:
		s := a.fresh("splitn")
		f := []string{"0 <= " + s}
		if bl, ok := call.Args[2].(*ast.BasicLit); ok && bl.Kind == token.INT && bl.Value != "0" {
			f = []string{"1 <= " + s, s + " <= " + bl.Value}
		}
		return s, f, true
	case name == "strings.Fields" && len(call.Args) == 1:
		s := a.fresh("fields")
		return s, []string{"0 <= " + s}, true
	}
	return "", nil, false
}

// assignedIdents: every name assigned, incremented, declared or bound by a range inside n (true),
// and every name that is only stored THROUGH (x.f = .., x[i] = .., *x = ..: false).
func assignedIdents(n ast.Node) map[string]bool {
	out := map[string]bool{}
	if n == nil {
		return out
	}
	lhs := func(l ast.Expr) {
		if id, ok := l.(*ast.Ident); ok {
			out[id.Name] = true
		} else if id := rootIdent(l); id != nil {
			if !out[id.Name] {
				out[id.Name] = false
			}
		}
	}
	ast.Inspect(n, func(x ast.Node) bool {
		switch s := x.(type) {
		case *ast.AssignStmt:
			for _, l := range s.Lhs {
				lhs(l)
			}
		case *ast.IncDecStmt:
			lhs(s.X)
		case *ast.RangeStmt:
			for _, l := range []ast.Expr{s.Key, s.Value} {
				if l != nil {
					lhs(l)
				}
			}
		case *ast.ValueSpec:
			for _, id := range s.Names {
				out[id.Name] = true
			}
		}
		return true
	})
	return out
}

// rootIdent: x for x, x.f, x[i], *x — an assignment through any of them changes what the name stands for
func rootIdent(e ast.Expr) *ast.Ident {
	for {
		switch v := e.(type) {
		case *ast.Ident:
			return v
		case *ast.SelectorExpr:
			e = v.X
		case *ast.IndexExpr:
			e = v.X
		case *ast.StarExpr:
			e = v.X
		case *ast.ParenExpr:
			e = v.X
		default:
			return nil
		}
	}
}

// declaredIdents: names introduced (:=, var, range :=) directly or deeper inside n
func (a *c11An) declaredIdents(n ast.Node) map[string]bool {
	out := map[string]bool{}
	if n == nil {
		return out
	}
	ast.Inspect(n, func(x ast.Node) bool {
		if id, ok := x.(*ast.Ident); ok {
			if _, isDef := a.info.Defs[id]; isDef {
				out[id.Name] = true
			}
		}
		return true
	})
	return out
}

// scan collects obligations from every index/slice/dereference inside an expression that is
// evaluated under ctx c (closures are analysed with no facts), in evaluation order.
func (a *c11An) scan(n ast.Node, c *c11Ctx) {
	if n == nil {
		return
	}
	ast.Inspect(n, func(x ast.Node) bool {
		switch v := x.(type) {
		case *ast.FuncLit:
			a.block(v.Body.List, newCtx())
			return false
		case *ast.CallExpr:
			a.scan(v.Fun, c)
			for _, arg := range v.Args {
				a.scan(arg, c)
			}
			a.nilArgCheck(v, c)
			c.dropWritten(a.callWrites(v))
			return false
		case *ast.BinaryExpr:
			if v.Op == token.LAND || v.Op == token.LOR {
				// short-circuit evaluation: the right operand runs under the left one's outcome
				a.scan(v.X, c)
				pos, neg := a.cond(v.X, c)
				rc := c.clone()
				if v.Op == token.LAND {
					rc.add(pos)
				} else {
					rc.add(neg)
				}
				a.scan(v.Y, rc)
				return false
			}
		case *ast.SelectorExpr:
			a.derefCheck(v, c)
		case *ast.IndexExpr:
			a.indexCheck(v, c)
		case *ast.SliceExpr:
			a.sliceCheck(v, c)
		}
		return true
	})
}

// nilArgCheck: a possibly-nil path handed to a repository function that reads fields through that parameter
// without ever testing it against nil — the callee's (implicit) precondition is checked at the call.
func (a *c11An) nilArgCheck(call *ast.CallExpr, c *c11Ctx) {
	if !a.reach || a.w == nil {
		return
	}
	fo := a.callee(call)
	if fo == nil || a.w.decls[fo] == nil {
		return
	}
	for i, arg := range call.Args {
		if !a.w.derefs[fo][i] || a.w.tolerant[fo][i] || !nilable(a.typeOf(arg)) {
			continue
		}
		if k := a.pathKey(arg); k != "" && a.suspects[k] {
			a.emit(arg, c, "nil", a.nilSym(k, c)+" <> 0")
		}
	}
}

func (a *c11An) derefCheck(v *ast.SelectorExpr, c *c11Ctx) {
	if !a.reach {
		return
	}
	sel, ok := a.info.Selections[v]
	if !ok || sel.Kind() != types.FieldVal {
		return
	}
	t := a.typeOf(v.X)
	if t == nil {
		return
	}
	if _, isPtr := t.Underlying().(*types.Pointer); !isPtr {
		return
	}
	if k := a.pathKey(v.X); k != "" && a.suspects[k] {
		a.emit(v, c, "nil", a.nilSym(k, c)+" <> 0")
	}
}

func (a *c11An) mapWriteCheck(l ast.Expr, c *c11Ctx) {
	ix, ok := l.(*ast.IndexExpr)
	if !ok || !a.reach {
		return
	}
	t := a.typeOf(ix.X)
	if t == nil {
		return
	}
	if _, isMap := t.Underlying().(*types.Map); !isMap {
		return
	}
	if k := a.pathKey(ix.X); k != "" && a.suspects[k] {
		a.emit(ix, c, "map", a.nilSym(k, c)+" <> 0")
	}
}

func (a *c11An) indexCheck(v *ast.IndexExpr, c *c11Ctx) {
	sym := ""
	kind := "slice"
	if id, ok := v.X.(*ast.Ident); ok {
		sym = c.env[id.Name]
	}
	if sym == "" && a.reach && isStringT(a.typeOf(v.X)) {
		if _, isConst := a.constStr(v.X); isConst {
			if _, ok := a.constInt(v.Index); ok {
				return // constant index into a constant string: checked by the compiler
			}
		}
		sym, kind = a.strLen(v.X, c), "string"
	}
	if sym == "" {
		return
	}
	idx, known := a.intTerm(v.Index, c)
	if !known {
		idx = a.fresh("unknown_index")
	}
	a.emit(v, c, kind, fmt.Sprintf("0 <= %s < %s", idx, sym))
}

func (a *c11An) sliceCheck(v *ast.SliceExpr, c *c11Ctx) {
	sym := ""
	kind := "slice"
	if id, ok := v.X.(*ast.Ident); ok {
		sym = c.env[id.Name]
	}
	if sym == "" && a.reach && isStringT(a.typeOf(v.X)) {
		sym, kind = a.strLen(v.X, c), "string"
	}
	if sym == "" {
		return
	}
	lo, hi := "0", sym
	if v.Low != nil {
		if t, ok := a.intTerm(v.Low, c); ok {
			lo = t
		} else {
			lo = a.fresh("unknown_low")
		}
	}
	if v.High != nil {
		if t, ok := a.intTerm(v.High, c); ok {
			hi = t
		} else {
			hi = a.fresh("unknown_high")
		}
	}
	a.emit(v, c, kind, fmt.Sprintf("0 <= %s /\\ %s <= %s /\\ %s <= %s", lo, lo, hi, hi, sym))
}

func (a *c11An) emit(n ast.Node, c *c11Ctx, kind, goal string) {
	pos := a.fset.Position(n.Pos())
	id := fmt.Sprintf("ob_%s_%d_%d", strings.TrimPrefix(sanitize(strings.TrimSuffix(a.file, ".go")), "v"), pos.Line, pos.Column)
	// quantify over the symbols the statement mentions only (keeps the lemmas readable)
	text := strings.Join(c.facts, " ") + " " + goal
	var vars, props []string
	for _, s := range a.syms {
		if wordRe(s).MatchString(text) {
			vars = append(vars, s)
		}
	}
	for _, p := range a.props {
		if wordRe(p).MatchString(text) {
			props = append(props, p)
		}
	}
	var sb strings.Builder
	fmt.Fprintf(&sb, "Lemma %s : forall", id)
	if len(vars) > 0 {
		fmt.Fprintf(&sb, " (%s : Z)", strings.Join(vars, " "))
	}
	if len(props) > 0 {
		fmt.Fprintf(&sb, " (%s : Prop)", strings.Join(props, " "))
	}
	if len(vars) == 0 && len(props) == 0 {
		sb.WriteString(" (_ : unit)")
	}
	sb.WriteString(", ")
	for _, f := range c.facts {
		sb.WriteString(f + " -> ")
	}
	sb.WriteString(goal + ".\nProof. intros; first [lia | intuition lia]. Qed.\n")
	a.obs = append(a.obs, c11Ob{ID: id, File: a.file, Line: pos.Line, Func: a.fn, Expr: exprStr(a.fset, n), Hash: a.fnHash, Kind: kind, Lemma: sb.String()})
}

func (a *c11An) block(stmts []ast.Stmt, c *c11Ctx) *c11Ctx {
	c = c.clone()
	for _, st := range stmts {
		a.stmt(st, c)
	}
	return c
}

// nilness of an expression assigned to a possibly-nil path: 1 allocated, 0 nil, "" unknown
func (a *c11An) allocTerm(e ast.Expr, c *c11Ctx) string {
	if id, ok := e.(*ast.Ident); ok && id.Name == "nil" {
		return "0"
	}
	if freshObject(e) {
		return "1"
	}
	if call, ok := e.(*ast.CallExpr); ok {
		if fo := a.callee(call); fo != nil && a.w != nil && a.w.nonnil[fo] {
			return "1"
		}
	}
	if k := a.pathKey(e); k != "" {
		if s, ok := c.nils[k]; ok {
			return s
		}
	}
	return ""
}

type c11Upd struct {
	apply func(c *c11Ctx)
}

// assign handles one lhs = rhs pair: computes what is known about the new value in the OLD
// context and returns the update to apply after all right-hand sides have been evaluated.
func (a *c11An) assign(l, r ast.Expr, tok token.Token, c *c11Ctx) func(c *c11Ctx) {
	id, isIdent := l.(*ast.Ident)
	if isIdent && id.Name == "_" {
		return nil
	}
	t := a.typeOf(l)
	key := a.pathKey(l)
	root := rootIdent(l)
	forgetAll := func(c *c11Ctx) {
		if isIdent {
			c.forget(id.Name)
		} else if key != "" {
			c.forget(key)
		} else if root != nil {
			// a store through an index / pointer we cannot name: everything below the root may have changed
			c.forgetBelow(root.Name)
		}
	}
	if r == nil || key == "" {
		return forgetAll
	}
	switch {
	case isStrSliceT(t) && isIdent && (tok == token.ASSIGN || tok == token.DEFINE):
		if sym, facts, ok := a.source(r); ok {
			return func(c *c11Ctx) { forgetAll(c); c.env[id.Name] = sym; c.add(facts...) }
		}
		// x = y[k:]  (re-slicing a tracked slice)
		if se, ok := r.(*ast.SliceExpr); ok {
			if base, ok := se.X.(*ast.Ident); ok {
				if bs, ok := c.env[base.Name]; ok && se.High == nil && se.Low != nil {
					if lo, ok := a.intTerm(se.Low, c); ok {
						ns := a.fresh(id.Name)
						f := fmt.Sprintf("%s = %s - %s", ns, bs, lo)
						return func(c *c11Ctx) { forgetAll(c); c.env[id.Name] = ns; c.add(f) }
					}
				}
			}
		}
	case isStringT(t):
		var term string
		switch tok {
		case token.ASSIGN, token.DEFINE:
			term = a.strLen(r, c)
		case token.ADD_ASSIGN:
			term = "(" + a.strLen(l, c) + " + " + a.strLen(r, c) + ")"
		}
		if term != "" {
			ns := a.fresh("len_" + key)
			return func(c *c11Ctx) { forgetAll(c); c.strs[key] = ns; c.add(ns + " = " + term) }
		}
	case isIntT(t) && isIdent:
		var term string
		var ok bool
		switch tok {
		case token.ASSIGN, token.DEFINE:
			if term, ok = a.indexCall(r, c); !ok {
				term, ok = a.intTerm(r, c)
			}
		case token.ADD_ASSIGN, token.SUB_ASSIGN:
			var lt, rt string
			var ok1, ok2 bool
			lt, ok1 = a.intTerm(l, c)
			rt, ok2 = a.intTerm(r, c)
			if ok = ok1 && ok2; ok {
				op := " + "
				if tok == token.SUB_ASSIGN {
					op = " - "
				}
				term = "(" + lt + op + rt + ")"
			}
		}
		if ok && a.localVar(id) {
			ns := a.fresh(id.Name)
			return func(c *c11Ctx) { forgetAll(c); c.ints[id.Name] = ns; c.add(ns + " = " + term) }
		}
	case isBoolT(t) && isIdent && (tok == token.ASSIGN || tok == token.DEFINE) && a.localVar(id):
		if lit, ok := r.(*ast.Ident); ok && (lit.Name == "true" || lit.Name == "false") {
			p := a.freshProp()
			f := p
			if lit.Name == "false" {
				f = "(~ " + p + ")"
			}
			return func(c *c11Ctx) { forgetAll(c); c.atoms[id.Name] = p; c.add(f) }
		}
		pos, neg := a.cond(r, c)
		if pos != "" || neg != "" {
			p := a.freshProp()
			var fs []string
			if pos != "" {
				fs = append(fs, "("+p+" -> "+pos+")")
			}
			if neg != "" {
				fs = append(fs, "((~ "+p+") -> "+neg+")")
			}
			return func(c *c11Ctx) { forgetAll(c); c.atoms[id.Name] = p; c.add(fs...) }
		}
	case nilable(t) && a.suspects[key] && (tok == token.ASSIGN || tok == token.DEFINE):
		term := a.allocTerm(r, c)
		// fields of a struct literal: x := &T{f: make(..)} / fields left out
		return func(c *c11Ctx) {
			forgetAll(c)
			if term != "" {
				ns := a.fresh("alloc_" + key)
				c.nils[key] = ns
				c.add("0 <= "+ns+" <= 1", ns+" = "+term)
			}
		}
	}
	return forgetAll
}

// literalFacts: after x := &T{...}, every possibly-nil field path of x gets its allocation status.
func (a *c11An) literalFacts(name string, r ast.Expr, c *c11Ctx) {
	a.literalFields(name, r, func(path string, present bool, val ast.Expr) {
		if !a.suspects[path] {
			return
		}
		term := "0"
		if present {
			term = a.allocTerm(val, c)
		}
		delete(c.nils, path)
		if term != "" {
			ns := a.fresh("alloc_" + path)
			c.nils[path] = ns
			c.add("0 <= "+ns+" <= 1", ns+" = "+term)
		}
	})
}

type c11End struct {
	c    *c11Ctx
	decl map[string]bool
	base int // number of facts the branch context started with (those are the shared ones)
}

// join merges the contexts at the end of the branches of an if / switch into c (which must be the
// context before the branching, and becomes the context after it).
func (a *c11An) join(c *c11Ctx, ends []c11End) {
	if len(ends) == 0 {
		return // every branch left: what follows is unreachable
	}
	if len(ends) == 1 {
		e := ends[0]
		for n := range e.decl {
			e.c.forget(n)
		}
		*c = *e.c
		return
	}
	bm := c.maps()
	type change struct {
		m   int
		key string
	}
	var changes []change
	seen := map[string]bool{}
	for _, e := range ends {
		for n := range e.decl {
			e.c.forget(n)
			c.forget(n)
		}
	}
	for _, e := range ends {
		for mi, m := range e.c.maps() {
			for k, v := range m {
				if bm[mi][k] != v && !seen[fmt.Sprint(mi, k)] {
					seen[fmt.Sprint(mi, k)] = true
					changes = append(changes, change{mi, k})
				}
			}
			for k := range bm[mi] {
				if _, ok := m[k]; !ok && !seen[fmt.Sprint(mi, k)] {
					seen[fmt.Sprint(mi, k)] = true
					changes = append(changes, change{mi, k})
				}
			}
		}
	}
	sort.Slice(changes, func(i, j int) bool {
		if changes[i].m != changes[j].m {
			return changes[i].m < changes[j].m
		}
		return changes[i].key < changes[j].key
	})
	// atoms that differ are dropped
	for k, v := range c.atoms {
		for _, e := range ends {
			if e.c.atoms[k] != v {
				delete(c.atoms, k)
				break
			}
		}
	}
	disj := make([][]string, len(ends))
	for i, e := range ends {
		added := e.c.facts[e.base:]
		if len(added) > 10 {
			added = added[:10]
		}
		disj[i] = append(disj[i], added...)
	}
	joined := false
	for _, ch := range changes {
		all := true
		for _, e := range ends {
			if _, ok := e.c.maps()[ch.m][ch.key]; !ok {
				all = false
			}
		}
		if !all || len(ends) > 6 {
			delete(bm[ch.m], ch.key)
			continue
		}
		ns := a.fresh("j_" + ch.key)
		for i, e := range ends {
			disj[i] = append(disj[i], ns+" = "+e.c.maps()[ch.m][ch.key])
		}
		bm[ch.m][ch.key] = ns
		joined = true
	}
	if joined {
		var ds []string
		for _, d := range disj {
			ds = append(ds, "("+strings.Join(d, " /\\ ")+")")
		}
		c.add("(" + strings.Join(ds, " \\/ ") + ")")
	}
}

func (a *c11An) stmt(st ast.Stmt, c *c11Ctx) {
	switch s := st.(type) {
	case *ast.AssignStmt:
		for _, r := range s.Rhs {
			a.scan(r, c)
		}
		for _, l := range s.Lhs {
			if _, ok := l.(*ast.Ident); !ok {
				// the left-hand side is evaluated too: x.f = .. dereferences x, m[k] = .. writes m
				switch lv := l.(type) {
				case *ast.IndexExpr:
					a.scan(lv.X, c)
					a.scan(lv.Index, c)
					if t := a.typeOf(lv.X); t != nil {
						if _, isMap := t.Underlying().(*types.Map); isMap {
							a.mapWriteCheck(lv, c)
						} else {
							a.indexCheck(lv, c)
						}
					}
				default:
					a.scan(l, c)
				}
			}
		}
		var ups []func(*c11Ctx)
		if len(s.Lhs) == len(s.Rhs) {
			for i, l := range s.Lhs {
				ups = append(ups, a.assign(l, s.Rhs[i], s.Tok, c))
			}
		} else {
			for _, l := range s.Lhs {
				ups = append(ups, a.assign(l, nil, s.Tok, c))
			}
		}
		for _, u := range ups {
			if u != nil {
				u(c)
			}
		}
		if len(s.Lhs) == len(s.Rhs) {
			for i, l := range s.Lhs {
				if id, ok := l.(*ast.Ident); ok && a.localVar(id) {
					a.literalFacts(id.Name, s.Rhs[i], c)
				}
			}
		}
	case *ast.IncDecStmt:
		a.scan(s.X, c)
		if id, ok := s.X.(*ast.Ident); ok {
			if old, ok := c.ints[id.Name]; ok && a.localVar(id) {
				ns := a.fresh(id.Name)
				op := " + 1"
				if s.Tok == token.DEC {
					op = " - 1"
				}
				c.forget(id.Name)
				c.ints[id.Name] = ns
				c.add(ns + " = " + old + op)
			} else {
				c.forget(id.Name)
			}
		} else if ix, ok := s.X.(*ast.IndexExpr); ok {
			a.mapWriteCheck(ix, c)
		}
	case *ast.ExprStmt:
		a.scan(s.X, c)
	case *ast.ReturnStmt:
		for _, r := range s.Results {
			a.scan(r, c)
		}
	case *ast.DeclStmt:
		if gd, ok := s.Decl.(*ast.GenDecl); ok {
			for _, sp := range gd.Specs {
				vs, ok := sp.(*ast.ValueSpec)
				if !ok {
					continue
				}
				for _, v := range vs.Values {
					a.scan(v, c)
				}
				var ups []func(*c11Ctx)
				for i, n := range vs.Names {
					if len(vs.Values) == len(vs.Names) {
						ups = append(ups, a.assign(n, vs.Values[i], token.DEFINE, c))
						continue
					}
					name, t := n.Name, a.typeOf(n)
					local := a.localVar(n)
					ups = append(ups, func(c *c11Ctx) {
						c.forget(name)
						if len(vs.Values) != 0 || !local {
							return
						}
						// zero value
						switch {
						case isStringT(t):
							ns := a.fresh("len_" + name)
							c.strs[name] = ns
							c.add(ns + " = 0")
						case isIntT(t):
							ns := a.fresh(name)
							c.ints[name] = ns
							c.add(ns + " = 0")
						case isBoolT(t):
							p := a.freshProp()
							c.atoms[name] = p
							c.add("(~ " + p + ")")
						case isStrSliceT(t):
							ns := a.fresh(name)
							c.env[name] = ns
							c.add(ns + " = 0")
						case nilable(t) && a.suspects[name]:
							ns := a.fresh("alloc_" + name)
							c.nils[name] = ns
							c.add(ns + " = 0")
						}
					})
				}
				for _, u := range ups {
					if u != nil {
						u(c)
					}
				}
			}
		}
	case *ast.BlockStmt:
		inner := a.block(s.List, c)
		a.join(c, []c11End{{inner, a.declaredIdents(s), len(c.facts)}})
	case *ast.LabeledStmt:
		// a label is a jump target: nothing is known on arrival
		c.havoc(assignedIdents(s.Stmt))
		a.stmt(s.Stmt, c)
	case *ast.IfStmt:
		outerDecl := map[string]bool{}
		if s.Init != nil {
			a.stmt(s.Init, c)
			outerDecl = a.declaredIdents(s.Init)
		}
		a.scan(s.Cond, c)
		pos, neg := a.cond(s.Cond, c)
		tc := c.clone()
		tbase := len(tc.facts)
		tc.add(pos)
		tEnd := a.block(s.Body.List, tc)
		var ends []c11End
		if !terminates(s.Body.List) {
			ends = append(ends, c11End{tEnd, a.declaredIdents(s.Body), tbase})
		}
		ec := c.clone()
		ebase := len(ec.facts)
		ec.add(neg)
		if s.Else != nil {
			switch e := s.Else.(type) {
			case *ast.BlockStmt:
				eEnd := a.block(e.List, ec)
				if !terminates(e.List) {
					ends = append(ends, c11End{eEnd, a.declaredIdents(e), ebase})
				}
			default:
				a.stmt(e, ec)
				ends = append(ends, c11End{ec, a.declaredIdents(e), ebase})
			}
		} else {
			ends = append(ends, c11End{ec, nil, ebase})
		}
		a.join(c, ends)
		for n := range outerDecl {
			c.forget(n)
		}
	case *ast.SwitchStmt:
		outerDecl := map[string]bool{}
		if s.Init != nil {
			a.stmt(s.Init, c)
			outerDecl = a.declaredIdents(s.Init)
		}
		tagTerm, tagKnown, tagStr := "", false, false
		if s.Tag != nil {
			a.scan(s.Tag, c)
			if isStringT(a.typeOf(s.Tag)) {
				tagTerm, tagKnown, tagStr = a.strLen(s.Tag, c), true, true
			} else if isIntT(a.typeOf(s.Tag)) {
				tagTerm, tagKnown = a.intTerm(s.Tag, c)
			}
		}
		var seenNeg []string // negations of earlier cases
		var ends []c11End
		hasDefault := false
		fallsThrough := func(body []ast.Stmt) bool {
			if len(body) == 0 {
				return false
			}
			b, ok := body[len(body)-1].(*ast.BranchStmt)
			return ok && b.Tok == token.FALLTHROUGH
		}
		// the default clause runs when no case matches, wherever it is written: collect the case conditions first
		type clause struct {
			cc    *ast.CaseClause
			entry []string // facts on entry through the case test ("" entries dropped)
		}
		var clauses []clause
		for _, cc0 := range s.Body.List {
			cc := cc0.(*ast.CaseClause)
			if cc.List == nil {
				hasDefault = true
				clauses = append(clauses, clause{cc: cc})
				continue
			}
			var alts, negs []string
			known := true
			for _, e := range cc.List {
				a.scan(e, c)
				if s.Tag != nil {
					if tagStr {
						if lit, ok := a.constStr(e); ok {
							alts = append(alts, fmt.Sprintf("(%s = %d)", tagTerm, len(lit)))
							if lit == "" {
								negs = append(negs, "("+tagTerm+" <> 0)")
							}
						} else {
							known = false
						}
					} else if t, ok := a.intTerm(e, c); ok && tagKnown {
						alts = append(alts, "("+tagTerm+" = "+t+")")
						negs = append(negs, "("+tagTerm+" <> "+t+")")
					} else {
						known = false
					}
				} else {
					p, n := a.cond(e, c)
					if p == "" {
						known = false
					} else {
						alts = append(alts, p)
					}
					negs = append(negs, n)
				}
			}
			var entry []string
			if known && len(alts) > 0 {
				entry = append(entry, "("+strings.Join(alts, " \\/ ")+")")
			}
			entry = append(entry, seenNeg...)
			clauses = append(clauses, clause{cc: cc, entry: entry})
			for _, n := range negs {
				if n != "" {
					seenNeg = append(seenNeg, n)
				}
			}
		}
		prevFalls := false
		var prevAssigned map[string]bool
		for _, cl := range clauses {
			bc := c.clone()
			bbase := len(bc.facts)
			if prevFalls {
				// also entered from the end of the previous body: no case facts, and what that body assigned is unknown
				bc.havoc(prevAssigned)
				bc.dropWritten(map[string]bool{"*": true})
			} else if cl.cc.List == nil {
				bc.add(seenNeg...)
			} else {
				bc.add(cl.entry...)
			}
			bEnd := a.block(cl.cc.Body, bc)
			prevFalls = fallsThrough(cl.cc.Body)
			if prevFalls {
				prevAssigned = assignedIdents(cl.cc)
			} else if !terminates(cl.cc.Body) {
				ends = append(ends, c11End{bEnd, a.declaredIdents(cl.cc), bbase})
			}
		}
		if !hasDefault {
			dc := c.clone()
			dbase := len(dc.facts)
			dc.add(seenNeg...)
			ends = append(ends, c11End{dc, nil, dbase})
		}
		a.join(c, ends)
		for n := range outerDecl {
			c.forget(n)
		}
	case *ast.TypeSwitchStmt:
		a.scan(s, newCtx())
		c.havoc(assignedIdents(s))
		c.dropPaths()
	case *ast.ForStmt:
		outerDecl := map[string]bool{}
		if s.Init != nil {
			a.stmt(s.Init, c)
			outerDecl = a.declaredIdents(s.Init)
		}
		bodyAssigned := assignedIdents(s.Body)
		postAssigned := assignedIdents(s.Post)
		lc := c.clone()
		lc.havoc(bodyAssigned)
		lc.havoc(postAssigned)
		loopWrites := a.bodyWrites(s.Body, 0)
		for _, n := range []ast.Node{s.Post, s.Cond} {
			if n != nil && !isNilNode(n) {
				for k := range a.bodyWrites(n, 0) {
					loopWrites[k] = true
				}
			}
		}
		lc.dropWritten(loopWrites)
		// loop index facts: for i := K; ...; i++ / i--  (i not assigned in the body)
		if as, ok := s.Init.(*ast.AssignStmt); ok && len(as.Lhs) == 1 && len(as.Rhs) == 1 {
			if id, ok := as.Lhs[0].(*ast.Ident); ok && !has(bodyAssigned, id.Name) && isIntT(a.typeOf(id)) && a.localVar(id) {
				if inc, ok := s.Post.(*ast.IncDecStmt); ok {
					if pid, ok := inc.X.(*ast.Ident); ok && pid.Name == id.Name {
						if start, ok := a.intTerm(as.Rhs[0], lc); ok {
							sym := a.fresh(id.Name)
							lc.ints[id.Name] = sym
							if inc.Tok == token.INC {
								lc.add(fmt.Sprintf("%s <= %s", start, sym))
							} else {
								lc.add(fmt.Sprintf("%s <= %s", sym, start))
							}
						}
					}
				}
			}
		}
		if s.Cond != nil {
			a.scan(s.Cond, lc)
			pos, _ := a.cond(s.Cond, lc)
			lc.add(pos)
		}
		a.block(s.Body.List, lc)
		if s.Post != nil {
			pc := lc.clone()
			pc.havoc(bodyAssigned)
			a.stmt(s.Post, pc)
		}
		c.havoc(bodyAssigned)
		c.havoc(postAssigned)
		c.dropWritten(loopWrites)
		for n := range outerDecl {
			c.forget(n)
		}
	case *ast.RangeStmt:
		a.scan(s.X, c)
		bodyAssigned := assignedIdents(s.Body)
		lc := c.clone()
		lc.havoc(bodyAssigned)
		lc.dropWritten(a.bodyWrites(s.Body, 0))
		var bound string
		if x, ok := s.X.(*ast.Ident); ok {
			bound = lc.env[x.Name]
		}
		if bound == "" && isStringT(a.typeOf(s.X)) {
			if k := a.pathKey(s.X); k == "" || !has(bodyAssigned, strings.SplitN(k, ".", 2)[0]) {
				bound = a.strLen(s.X, lc)
			}
		}
		for _, kv := range []ast.Expr{s.Key, s.Value} {
			if id, ok := kv.(*ast.Ident); ok {
				lc.forget(id.Name)
			}
		}
		if k, ok := s.Key.(*ast.Ident); ok && k.Name != "_" && !has(bodyAssigned, k.Name) && bound != "" && a.localVar(k) {
			is := a.fresh(k.Name)
			lc.ints[k.Name] = is
			lc.add(fmt.Sprintf("0 <= %s < %s", is, bound))
		}
		a.block(s.Body.List, lc)
		c.havoc(bodyAssigned)
		c.dropWritten(a.bodyWrites(s.Body, 0))
		for _, kv := range []ast.Expr{s.Key, s.Value} {
			if id, ok := kv.(*ast.Ident); ok {
				c.forget(id.Name)
			}
		}
	case *ast.GoStmt:
		a.scan(s.Call, newCtx())
	case *ast.DeferStmt:
		a.scan(s.Call, newCtx())
	case *ast.SendStmt, *ast.SelectStmt, *ast.CommClause:
		a.scan(s, newCtx())
		c.havoc(assignedIdents(s))
		c.dropPaths()
	default:
		a.scan(s, c)
	}
}

func has(m map[string]bool, k string) bool { _, ok := m[k]; return ok }

func isNilNode(n ast.Node) bool {
	switch v := n.(type) {
	case ast.Stmt:
		return v == nil
	case ast.Expr:
		return v == nil
	}
	return n == nil
}

// ---------------------------------------------------------------- driver

type c11Stats struct {
	Funcs, Reachable int
	ByKind           map[string]int
}

func c11Analyze(repo string) ([]c11Ob, *c11Stats, error) {
	w, err := c11Load(repo)
	if err != nil {
		return nil, nil, err
	}
	st := &c11Stats{ByKind: map[string]int{}}
	var all []c11Ob
	var fns []*types.Func
	for o := range w.decls {
		fns = append(fns, o)
	}
	sort.Slice(fns, func(i, j int) bool { return w.decls[fns[i]].decl.Pos() < w.decls[fns[j]].decl.Pos() })
	for _, o := range fns {
		f := w.decls[o]
		fd := f.decl
		src := exprStr(w.fset, fd)
		h := sha256.Sum256([]byte(src))
		a := &c11An{w: w, fset: w.fset, info: f.info, file: f.file, fn: fd.Name.Name, fnHash: hex.EncodeToString(h[:8]), reach: w.reach[o]}
		a.prepare(fd, o)
		st.Funcs++
		if a.reach {
			st.Reachable++
		}
		c := newCtx()
		for _, fld := range fd.Type.Params.List {
			for _, n := range fld.Names {
				if isStrSliceT(a.typeOf(n)) && a.localVar(n) {
					s := a.fresh(n.Name)
					c.env[n.Name] = s
					c.add("0 <= " + s)
				}
			}
		}
		a.block(fd.Body.List, c)
		all = append(all, a.obs...)
	}
	sort.Slice(all, func(i, j int) bool { return all[i].ID < all[j].ID })
	return all, st, nil
}

func init() {
	registerGen("Gen_C11.v", func(repo string) (string, error) {
		obs, st, err := c11Analyze(repo)
		if err != nil {
			return "", err
		}
		var sb strings.Builder
		sb.WriteString("From Coq Require Import ZArith Lia.\nLocal Open Scope Z_scope.\n")
		seen := map[string]bool{}
		var kept []c11Ob
		for _, o := range obs {
			if seen[o.ID] {
				continue
			}
			seen[o.ID] = true
			kept = append(kept, o)
			st.ByKind[o.Kind]++
		}
		sb.WriteString(fmt.Sprintf("(* %d obligations: %d index/slice on argument slices, %d index/slice on strings, %d nil dereferences, %d nil-map writes; %d of %d functions are reachable from a registered directive *)\n",
			len(kept), st.ByKind["slice"], st.ByKind["string"], st.ByKind["nil"], st.ByKind["map"], st.Reachable, st.Funcs))
		for _, o := range kept {
			fmt.Fprintf(&sb, "(* %s %s:%d %s: %s *)\n%s", o.Kind, o.File, o.Line, o.Func, strings.ReplaceAll(strings.ReplaceAll(o.Expr, "(*", "( *"), "*)", "* )"), o.Lemma)
		}
		fmt.Fprintf(&sb, "Definition c11_obligation_count : nat := %d%%nat.\n", len(kept))
		for _, k := range []string{"slice", "string", "nil", "map"} {
			fmt.Fprintf(&sb, "Definition c11_%s_obligation_count : nat := %s%%nat.\n", k, strconv.Itoa(st.ByKind[k]))
		}
		meta, _ := json.MarshalIndent(kept, "", " ")
		if root := os.Getenv("VERIF_ROOT"); root != "" {
			os.MkdirAll(filepath.Join(root, "run"), 0o755)
			os.WriteFile(filepath.Join(root, "run", "c11_obligations.json"), meta, 0o644)
		}
		return sb.String(), nil
	})
}
