package main

// C14 — backend in-flight / failure accounting under concurrency.
//
// The real Proxy.ServeHTTP runs in one goroutine per request against a pool parsed from a real
// `proxy` block.  Two harness pieces make every interleaving of the atomic operations
// replayable: a wrapper around the parsed Upstream whose Select blocks before and after the
// real Select (so the window between choosing a backend and counting the request can be held
// open), and a barrier http.RoundTripper installed in every host's ReverseProxy that keeps a
// request "being forwarded" until the driver injects its outcome (success, streamed success,
// backend error, client cancel, body too large, panic).  After every driver step all request
// goroutines are blocked and the driver snapshots Conns / Fails / Down() / Full() of every
// host together with the number of requests really inside that host's transport.
//
// A request released from the "post" gate runs host.acquireConn(): it arrives in the transport
// ("rt") when the host is below max_conns at that instant, otherwise it takes the no-host path
// (back at "pre" when keepRetrying says again, else done with 502).  Any state in which more
// than max_conns requests are inside one transport gets the signature c14SigOvershoot (F-C14-1).
//
// Health checker.  Unhealthy is written either by the driver itself (the same atomic store the
// worker does) or — cases with "worker" — by the REAL HealthCheckWorker of the parsed upstream
// (started by NewStaticUpstreams, health_check_interval 1ms): every backend is then a loopback
// server whose health endpoint holds the worker's GET until the driver hands it a verdict, so each
// store of Unhealthy is one driver step.  Cases with "gate" parse `policy c14gate <inner>`: a policy
// registered through the public proxy.RegisterPolicy that blocks at the entry of Policy.Select and
// then delegates to the real policy, so that a verdict can land INSIDE a running Select (after the
// all-unavailable scan of staticUpstream.Select, before the policy's own reads).

import (
	"context"
	"encoding/json"
	"errors"
	"fmt"
	"io"
	"net/http"
	"net/http/httptest"
	"reflect"
	"runtime"
	"strings"
	"sync"
	"sync/atomic"
	"time"

	"github.com/tmpim/casket/casketfile"
	"github.com/tmpim/casket/caskethttp/httpserver"
	"github.com/tmpim/casket/caskethttp/proxy"
)

const (
	c14Unit  = 40 * time.Millisecond // one clock unit of a timed case
	c14Slack = 12 * time.Millisecond // added to every wait: expiry goroutines must have run
	c14Big   = int64(1000000000)     // "1h" in clock units as far as the model is concerned

	c14SigOvershoot = "maxconns-overshoot:select-increment-window"
)

type c14Adv struct {
	T     int    `json:"t"`               // request to advance to its next blocking point; <0: wait
	O     string `json:"o,omitempty"`     // outcome used if it is inside the transport: s e c l p, h = stream headers first
	Again bool   `json:"again,omitempty"` // keepRetrying's answer if it is asked during this step
	Wait  int    `json:"wait,omitempty"`  // clock units (T == -1)
	HH    int    `json:"hh,omitempty"`    // T == -2: health verdict for host HH (worker cases: the host the worker is checking)
	HB    bool   `json:"hb,omitempty"`    // T == -2: unhealthy?
	X     bool   `json:"x,omitempty"`     // the client of request T disconnects now (its context is cancelled); the request does not move
}

type c14In struct {
	Kind    string   `json:"kind"` // sched | maxfails | maxconns | stress
	Hosts   int      `json:"hosts,omitempty"`
	MC      int64    `json:"mc,omitempty"`
	MF      int      `json:"mf,omitempty"`
	FT      int      `json:"ft,omitempty"` // 0 = fail_timeout 0 (no counting), <0 = 1h, >0 = that many clock units
	Unh     []bool   `json:"unh,omitempty"`
	Policy  string   `json:"policy,omitempty"` // first | round_robin (modelled) | random | least_conn | ip_hash | uri_hash | header (replayed from the observed choices, contract checked)
	Gate    bool     `json:"gate,omitempty"`   // policy c14gate <Policy>: block at the entry of Policy.Select
	Worker  bool     `json:"worker,omitempty"` // verdicts go through the real HealthCheckWorker and gated loopback health endpoints
	Fam     string   `json:"fam,omitempty"`    // generator family (histogram only)
	Keep    bool     `json:"keep,omitempty"`   // stress2: fail_timeout 1h (every failure still counted at the end)
	Flip    bool     `json:"flip,omitempty"`   // stress2: a free-running agent stores random health verdicts meanwhile
	Threads int      `json:"threads,omitempty"`
	Steps   []c14Adv `json:"steps,omitempty"`
	N       int64    `json:"n,omitempty"`
	K       int64    `json:"k,omitempty"`
	Reqs    int      `json:"reqs,omitempty"`
	Seed    uint64   `json:"seed,omitempty"`
}

type c14Cmd struct{ o string }
type c14Event struct {
	tid   int
	point string // pre | post | rt | body | done
	host  int
	code  int
}

type c14Thread struct {
	id     int
	gate   chan c14Cmd
	point  string
	host   int
	code   int
	cancel context.CancelFunc
	gone   bool // the client has disconnected (X step): the transport answers context.Canceled
}

type c14HC struct {
	host  int
	reply chan bool
}

type c14Run struct {
	threads []*c14Thread
	events  chan c14Event
	again   bool
	hosts   proxy.HostPool
	trans   []*c14Transport
	hc      chan *c14HC // worker cases: health requests waiting for a verdict
	hcOpen  int32       // 1 while verdicts come from the driver; 0: answer healthy at once
}

// c14GatePolicy is registered as policy "c14gate": it blocks the request at the entry of
// Policy.Select ("mid") and then asks the real policy.
type c14GatePolicy struct {
	inner proxy.Policy
	run   *c14Run
}

func (g *c14GatePolicy) Select(pool proxy.HostPool, r *http.Request) *proxy.UpstreamHost {
	if g.run != nil {
		g.run.block(g.run.threadOf(r), "mid", -1)
	}
	return g.inner.Select(pool, r)
}

func c14Inner(name string) proxy.Policy {
	switch name {
	case "round_robin":
		return &proxy.RoundRobin{}
	case "random":
		return &proxy.Random{}
	case "least_conn":
		return &proxy.LeastConn{}
	case "ip_hash":
		return &proxy.IPHash{}
	case "uri_hash":
		return &proxy.URIHash{}
	case "header":
		return &proxy.Header{Names: []string{"X-C14-Hash"}}
	}
	return &proxy.First{}
}

func init() {
	proxy.RegisterPolicy("c14gate", func(args []string) proxy.Policy {
		name := ""
		if len(args) > 0 {
			name = args[0]
		}
		return &c14GatePolicy{inner: c14Inner(name)}
	})
}

func (r *c14Run) block(th *c14Thread, point string, host int) c14Cmd {
	r.events <- c14Event{tid: th.id, point: point, host: host}
	return <-th.gate
}

func (r *c14Run) threadOf(req *http.Request) *c14Thread {
	var id int
	fmt.Sscan(req.Header.Get("X-C14-Tid"), &id)
	return r.threads[id]
}

// c14Upstream delegates everything to the parsed staticUpstream; Select is bracketed by two
// blocking points and keepRetrying's clock is replaced by the driver's answer.
type c14Upstream struct {
	proxy.Upstream
	run *c14Run
}

func (u *c14Upstream) Select(r *http.Request) *proxy.UpstreamHost {
	th := u.run.threadOf(r)
	u.run.block(th, "pre", -1)
	h := u.Upstream.Select(r)
	idx := -1
	for i, x := range u.run.hosts {
		if x == h {
			idx = i
		}
	}
	if h != nil && idx < 0 {
		idx = -2
	}
	u.run.block(th, "post", idx)
	return h
}
func (u *c14Upstream) GetTryDuration() time.Duration {
	if u.run.again {
		return time.Hour
	}
	return 0
}
func (u *c14Upstream) GetTryInterval() time.Duration { return 0 }

type c14Transport struct {
	run  *c14Run
	host int
	infl int64 // requests really inside this transport (round trip or body streaming)
}

type c14Body struct {
	t    *c14Transport
	th   *c14Thread
	done bool
}

func (b *c14Body) Read(p []byte) (int, error) {
	if b.done {
		return 0, io.EOF
	}
	cmd := b.t.run.block(b.th, "body", b.t.host)
	b.done = true
	atomic.AddInt64(&b.t.infl, -1)
	if cmd.o == "p" {
		panic("c14: injected panic while streaming")
	}
	return 0, io.EOF
}
func (b *c14Body) Close() error { return nil }

func c14Response(req *http.Request, body io.ReadCloser) *http.Response {
	return &http.Response{StatusCode: 200, Status: "200 OK", Proto: "HTTP/1.1", ProtoMajor: 1, ProtoMinor: 1,
		Header: http.Header{"Content-Type": {"text/plain"}}, Body: body, Request: req, ContentLength: -1}
}

func (t *c14Transport) RoundTrip(req *http.Request) (*http.Response, error) {
	th := t.run.threadOf(req)
	atomic.AddInt64(&t.infl, 1)
	cmd := t.run.block(th, "rt", t.host)
	switch cmd.o {
	case "h":
		return c14Response(req, &c14Body{t: t, th: th}), nil
	case "e":
		atomic.AddInt64(&t.infl, -1)
		return nil, errors.New("c14: injected backend error")
	case "c":
		th.cancel()
		<-req.Context().Done()
		atomic.AddInt64(&t.infl, -1)
		return nil, req.Context().Err()
	case "l":
		atomic.AddInt64(&t.infl, -1)
		return nil, httpserver.ErrMaxBytesExceeded
	case "p":
		atomic.AddInt64(&t.infl, -1)
		panic("c14: injected panic in the forward call")
	}
	atomic.AddInt64(&t.infl, -1)
	return c14Response(req, io.NopCloser(strings.NewReader("ok"))), nil
}

func c14Outcome(o string) string {
	switch o {
	case "e":
		return "OError"
	case "c":
		return "OCancel"
	case "l":
		return "OTooLarge"
	case "p":
		return "OPanic"
	}
	return "OSuccess"
}

func c14Block(in *c14In, unit time.Duration, urls []string) (string, int64) {
	names := make([]string, in.Hosts)
	for i := range names {
		names[i] = fmt.Sprintf("http://127.0.0.1:%d", 20000+i)
		if i < len(urls) {
			names[i] = urls[i]
		}
	}
	ft, ftZ := "0s", int64(0)
	switch {
	case in.FT < 0:
		ft, ftZ = "1h", c14Big
	case in.FT > 0:
		ft, ftZ = fmt.Sprintf("%dms", int64(in.FT)*int64(unit/time.Millisecond)), int64(in.FT)
	}
	pol := in.Policy
	if pol == "" {
		pol = "first"
	}
	if pol == "header" && !in.Gate {
		pol = "header X-C14-Hash"
	}
	if in.Gate {
		pol = "c14gate " + pol
	}
	extra := ""
	if in.Worker {
		extra = " health_check /c14hc\n health_check_interval 1ms\n health_check_timeout 30s\n"
	}
	return fmt.Sprintf("proxy / %s {\n policy %s\n max_conns %d\n max_fails %d\n fail_timeout %s\n%s}\n",
		strings.Join(names, " "), pol, in.MC, in.MF, ft, extra), ftZ
}

type c14Fail struct {
	host     int
	units    int
	tRelease time.Time
	tDone    time.Time
}

func c14Skip(obs, class string) Result {
	return Result{Term: "(CStress 0%nat 0%Z 0%nat [] true)", Obs: obs, Class: class, Sig: class}
}

// c14Sched runs one scheduled case with the clock unit stretched by scale. Status (timed cases only):
// 0 = usable; 1 = the failure counters did not match the harness's own books (re-run with a longer
// unit before believing it); 2 = a measured real-time margin was missed (the observation means nothing).
func c14Sched(in *c14In, scale int) (Result, int) {
	if in.Hosts < 1 || in.Threads < 1 || in.MF < 1 {
		return c14Skip("bad input", "sched:bad-input"), 0
	}
	unit, slack := c14Unit*time.Duration(scale), c14Slack*time.Duration(scale)
	run := &c14Run{events: make(chan c14Event, in.Threads+4), hc: make(chan *c14HC, in.Hosts+2), hcOpen: 1}
	var urls []string
	if in.Worker {
		// every backend is a loopback server; its health endpoint holds the worker's GET until the driver answers
		for i := 0; i < in.Hosts; i++ {
			i := i
			srv := httptest.NewServer(http.HandlerFunc(func(w http.ResponseWriter, r *http.Request) {
				bad := false
				if atomic.LoadInt32(&run.hcOpen) == 1 {
					q := &c14HC{host: i, reply: make(chan bool, 1)}
					run.hc <- q
					bad = <-q.reply
				}
				if bad {
					w.WriteHeader(503)
				} else {
					w.WriteHeader(200)
				}
			}))
			defer srv.Close()
			urls = append(urls, srv.URL)
		}
	}
	text, ftZ := c14Block(in, unit, urls)
	ups, err := proxy.NewStaticUpstreams(casketfile.NewDispenser("Testfile", strings.NewReader(text)), "")
	if err != nil || len(ups) != 1 {
		r := c14Skip(fmt.Sprint("setup error ", err), "sched:setup-error")
		r.Direct = fmt.Sprint("proxy block rejected: ", err)
		return r, 0
	}
	var pending *c14HC // worker cases: the health request the worker is waiting on
	stopAll := func() {
		// let the worker finish: every held and every further health request is answered "healthy" at once
		atomic.StoreInt32(&run.hcOpen, 0)
		if pending != nil {
			pending.reply <- false
			pending = nil
		}
		quit := make(chan struct{})
		go func() {
			for {
				select {
				case q := <-run.hc:
					q.reply <- false
				case <-quit:
					return
				}
			}
		}()
		ups[0].Stop()
		close(quit)
	}
	defer stopAll()
	run.hosts = hostsOf(ups[0])
	if in.Gate {
		if g, ok := reflect.ValueOf(ups[0]).Elem().FieldByName("Policy").Interface().(*c14GatePolicy); ok {
			g.run = run
		} else {
			r := c14Skip("gate policy not installed", "sched:setup-error")
			r.Direct = "policy c14gate was not installed by the parser"
			return r, 0
		}
	}
	unh := make([]bool, in.Hosts)
	if !in.Worker {
		copy(unh, in.Unh)
	}
	for i, h := range run.hosts {
		t := &c14Transport{run: run, host: i}
		run.trans = append(run.trans, t)
		h.ReverseProxy.Transport = t
		if unh[i] {
			atomic.StoreInt32(&h.Unhealthy, 1)
		}
	}
	p := proxy.Proxy{Next: handlerFunc(func(w http.ResponseWriter, r *http.Request) (int, error) { return 404, nil }),
		Upstreams: []proxy.Upstream{&c14Upstream{Upstream: ups[0], run: run}}}

	snapshot := func() ([][6]int64, string) {
		var sn [][6]int64
		var it []string
		for i, h := range run.hosts {
			c := atomic.LoadInt64(&h.Conns)
			f := int64(atomic.LoadInt32(&h.Fails))
			n := atomic.LoadInt64(&run.trans[i].infl)
			d, fl, u := h.Down(), h.Full(), atomic.LoadInt32(&h.Unhealthy) != 0
			b2 := func(b bool) int64 {
				if b {
					return 1
				}
				return 0
			}
			sn = append(sn, [6]int64{c, f, n, b2(d), b2(fl), b2(u)})
			it = append(it, fmt.Sprintf("(%s, %s, %s, %s, %s, %s)", cZ(c), cZ(f), cZ(n), cBool(d), cBool(fl), cBool(u)))
		}
		return sn, cList(it)
	}

	stuck := ""
	waitEvent := func(th *c14Thread) c14Event {
		select {
		case ev := <-run.events:
			if ev.tid != th.id && stuck == "" {
				stuck = fmt.Sprintf("event from request %d while stepping request %d", ev.tid, th.id)
			}
			t := run.threads[ev.tid]
			t.point, t.host, t.code = ev.point, ev.host, ev.code
			return ev
		case <-time.After(5 * time.Second):
			if stuck == "" {
				stuck = fmt.Sprintf("request %d did not reach a blocking point within 5s (was at %s)", th.id, th.point)
			}
			th.point = "done"
			return c14Event{tid: th.id, point: "stuck"}
		}
	}

	nextHC := func() {
		select {
		case pending = <-run.hc:
		case <-time.After(5 * time.Second):
			pending = nil
			if stuck == "" {
				stuck = "the health-check worker did not ask for the next host within 5s"
			}
		}
	}
	if in.Worker {
		nextHC() // the worker was started by NewStaticUpstreams: its first check is on its way
	}
	// start every request; each runs up to the entry of Select
	for i := 0; i < in.Threads; i++ {
		ctx, cancel := context.WithCancel(context.Background())
		th := &c14Thread{id: i, gate: make(chan c14Cmd), point: "start", cancel: cancel}
		run.threads = append(run.threads, th)
		req := httptest.NewRequest("GET", "http://example.test/x", nil).WithContext(ctx)
		req.Header.Set("X-C14-Tid", fmt.Sprint(i))
		req.Header.Set("X-C14-Hash", "k")
		req.RemoteAddr = "192.0.2.7:4711"
		go func() {
			code := 0
			defer func() {
				if rec := recover(); rec != nil {
					code = -1
				}
				run.events <- c14Event{tid: th.id, point: "done", code: code}
			}()
			code, _ = p.ServeHTTP(httptest.NewRecorder(), req)
		}()
		waitEvent(th)
	}
	sn0, snap0 := snapshot()

	var trace []string
	var execd []string
	var fails []c14Fail
	fwdHost := map[int]int{}
	nowUnits := 0
	sane, marginOK, booksOK, overshoot, overlap := true, true, true, false, false
	maxActive, nFail, nRefused, nHealth, nLate, nMidFlip, nGone, nGoneEarly := 0, 0, 0, 0, 0, 0, 0, 0
	lastSnap := sn0

	record := func(hs, ev string, tBegin time.Time) {
		sn, snT := snapshot()
		tEnd := time.Now()
		lastSnap = sn
		trace = append(trace, fmt.Sprintf("(%s, %s, %s)", hs, ev, snT))
		execd = append(execd, hs+"→"+ev)
		active := 0
		for _, t := range run.threads {
			if t.point == "mid" || t.point == "post" && t.host >= 0 || t.point == "rt" || t.point == "body" {
				active++
			}
		}
		if active > maxActive {
			maxActive = active
		}
		for i, x := range sn {
			if x[0] != x[2] {
				sane = false
			}
			if in.MC > 0 && x[2] > in.MC {
				overshoot = true
			}
			exp := int64(0)
			for _, f := range fails {
				if f.host != i {
					continue
				}
				age := nowUnits - f.units
				if in.FT < 0 || age < in.FT {
					exp++
					if in.FT > 0 && tEnd.Sub(f.tRelease) >= time.Duration(in.FT)*unit-2*time.Millisecond {
						marginOK = false
					}
				} else if tBegin.Sub(f.tDone) < time.Duration(in.FT)*unit+2*time.Millisecond {
					marginOK = false
				}
			}
			if x[1] != exp {
				booksOK = false
				sane = false
			}
		}
	}

	advance := func(a c14Adv) {
		if a.T == -2 {
			if stuck != "" {
				return
			}
			h := a.HH
			if in.Worker {
				if pending == nil {
					return
				}
				// the worker's GET for this host returns with the verdict; it stores Unhealthy and asks for
				// the next host (or starts its next round): when that request has arrived, the store is done
				h = pending.host
				pending.reply <- a.HB
				nextHC()
			} else {
				if h < 0 || h >= len(run.hosts) {
					return
				}
				v := int32(0)
				if a.HB {
					v = 1
				}
				atomic.StoreInt32(&run.hosts[h].Unhealthy, v)
			}
			nHealth++
			for _, t := range run.threads {
				if t.point == "mid" {
					nMidFlip++
				}
			}
			record(cApp("HHealth", cNat(h), cBool(a.HB)), "EvNone", time.Now())
			return
		}
		if a.T < 0 {
			d := a.Wait
			if d < 0 {
				d = 0
			}
			nowUnits += d
			if in.FT > 0 && d > 0 {
				time.Sleep(time.Duration(d)*unit + slack)
				// the model's expiry goroutines run on time; give late ones a moment to catch up
				// (a wrong duration in the code is off by whole units and does not catch up)
				for deadline := time.Now().Add(2 * slack); time.Now().Before(deadline); time.Sleep(time.Millisecond) {
					late := false
					for i, h := range run.hosts {
						exp := int32(0)
						for _, f := range fails {
							if f.host == i && nowUnits-f.units < in.FT {
								exp++
							}
						}
						if atomic.LoadInt32(&h.Fails) > exp {
							late = true
						}
					}
					if !late {
						break
					}
				}
			}
			record(cApp("HWait", cZ(int64(d))), "EvNone", time.Now())
			return
		}
		if a.T >= len(run.threads) || stuck != "" {
			return
		}
		th := run.threads[a.T]
		evTerm := func(ev c14Event) string {
			switch ev.point {
			case "pre":
				return "EvIdle"
			case "mid":
				return "EvMid"
			case "post":
				return cApp("EvSel", cOptNat(ev.host))
			case "rt":
				return cApp("EvFwd", cNat(ev.host))
			case "done":
				return cApp("EvDone", cZ(int64(ev.code)))
			}
			return "EvNone"
		}
		if a.X {
			// the client goes away while the request is blocked wherever it is: before Select (also: back in the
			// retry loop after keepRetrying), at the entry of Policy.Select, in the window, inside the transport
			if th.point == "done" || th.point == "start" {
				return
			}
			th.cancel()
			th.gone = true
			nGone++
			if th.point != "rt" && th.point != "body" {
				nGoneEarly++
			}
			pt := th.point
			if pt == "body" {
				pt = "rt"
			}
			record(cApp("HCancel", cNat(th.id)), evTerm(c14Event{point: pt, host: th.host}), time.Now())
			return
		}
		switch th.point {
		case "pre":
			for _, o := range run.threads {
				if o != th && o.point == "post" && o.host >= 0 {
					overlap = true
				}
			}
			prev := lastSnap
			th.gate <- c14Cmd{}
			ev := waitEvent(th)
			if ev.point == "post" && ev.host >= 0 && ev.host < len(prev) {
				// chosen although Down() or Full() held in the stable state before: not the window race
				if prev[ev.host][3] != 0 || prev[ev.host][4] != 0 {
					sane = false
				}
			}
			ctor := "HSelect"
			if in.Gate {
				ctor = "HSelScan"
			}
			record(cApp(ctor, cNat(th.id)), evTerm(ev), time.Now())
		case "mid":
			prev := lastSnap
			th.gate <- c14Cmd{}
			ev := waitEvent(th)
			if ev.point == "post" && ev.host >= 0 && ev.host < len(prev) {
				if prev[ev.host][3] != 0 || prev[ev.host][4] != 0 {
					sane = false
				}
			}
			record(cApp("HSelPol", cNat(th.id)), evTerm(ev), time.Now())
		case "post":
			run.again = a.Again
			held := th.host
			th.gate <- c14Cmd{}
			ev := waitEvent(th)
			if ev.point == "rt" {
				fwdHost[th.id] = ev.host
			} else if held >= 0 {
				nRefused++ // acquireConn refused: the host had filled up since Select
			}
			record(cApp("HBegin", cNat(th.id), cBool(a.Again)), evTerm(ev), time.Now())
		case "rt":
			if a.O == "h" && !th.gone {
				th.gate <- c14Cmd{o: "h"}
				waitEvent(th)
				record(cApp("HStream", cNat(th.id)), "EvNone", time.Now())
				return
			}
			fallthrough
		case "body":
			o := a.O
			if th.point == "body" && o != "p" || o == "h" {
				o = "s"
			}
			if th.point == "rt" && th.gone {
				o = "c" // what http.Transport answers when the request's context is (already) cancelled
			}
			run.again = a.Again
			t0 := time.Now()
			th.gate <- c14Cmd{o: o}
			ev := waitEvent(th)
			t1 := time.Now()
			if o == "e" && in.FT != 0 {
				if h := fwdHost[th.id]; h >= 0 && h < len(lastSnap) && lastSnap[h][3] != 0 {
					nLate++ // the host was already down (max_fails or health check) when this failure arrived
				}
				fails = append(fails, c14Fail{host: fwdHost[th.id], units: nowUnits, tRelease: t0, tDone: t1})
				nFail++
			}
			delete(fwdHost, th.id)
			record(cApp("HFinish", cNat(th.id), c14Outcome(o), cBool(a.Again)), evTerm(ev), t1)
		}
	}

	for _, a := range in.Steps {
		advance(a)
	}
	// drain: let every request finish successfully, then (timed cases) let every failure expire
	for guard := 0; guard < 8; guard++ {
		busy := false
		for _, th := range run.threads {
			if th.point != "done" && stuck == "" {
				busy = true
				advance(c14Adv{T: th.id, O: "s"})
			}
		}
		if !busy {
			break
		}
	}
	if in.FT > 0 && nFail > 0 {
		advance(c14Adv{T: -1, Wait: in.FT})
	}
	for _, x := range lastSnap {
		if x[0] != 0 {
			sane = false
		}
	}

	unhT := make([]string, len(unh))
	for i, b := range unh {
		unhT[i] = cBool(b)
	}
	pol := uint64(0)
	switch in.Policy {
	case "round_robin":
		pol = 1
	case "random":
		pol = 2
	case "least_conn":
		pol = 3
	case "ip_hash":
		pol = 4
	case "uri_hash":
		pol = 5
	case "header":
		pol = 6
	}
	term := cApp("CSched", cNat(in.Hosts), cZ(in.MC), cZ(int64(in.MF)), cZ(ftZ), cList(unhT), cN(pol),
		cNat(in.Threads), snap0, cList(trace))
	sig := "sched:" + in.Policy
	if in.Gate || in.Worker {
		sig = "health:" + in.Policy
	}
	if in.Fam == "gone" {
		sig = "gone:" + in.Policy
	}
	if in.FT > 0 {
		sig += ":timed"
	}
	if overlap && overshoot && sane {
		sig = c14SigOvershoot
	}
	ftc := "off"
	if in.FT < 0 {
		ftc = "1h"
	} else if in.FT > 0 {
		ftc = "timed"
	}
	res := Result{Term: term,
		Obs: map[string]interface{}{"steps": execd, "final": lastSnap, "overshoot": overshoot, "window_overlap": overlap,
			"block": text, "clock_unit_ms": int64(unit / time.Millisecond), "refused_acquires": nRefused,
			"failures_while_down": nLate, "verdicts_inside_select": nMidFlip, "clients_gone": nGone, "clients_gone_before_forward": nGoneEarly},
		Sig: sig, Nontrivial: maxActive >= 2 || nFail > 0 || nHealth > 0 || nGone > 0,
		Class: fmt.Sprintf("sched:hosts%d:mc%d:ft-%s:overlap=%v", in.Hosts, in.MC, ftc, overlap)}
	if in.Fam == "gone" {
		gate := "plain"
		if in.Gate {
			gate = "gated"
		}
		res.Class = fmt.Sprintf("gone:%s:%s:mc%d:before-forward=%v:refused=%v", in.Policy, gate, in.MC, nGoneEarly > 0, nRefused > 0)
	} else if in.Fam != "" {
		// the targeted families: what was actually driven (acquireConn refused, a failure arriving while the host
		// was already down, a health verdict landing inside a running Select)
		res.Class = fmt.Sprintf("%s:%s:refused=%v:late-failure=%v:verdict-in-select=%v", in.Fam, in.Policy, nRefused > 0, nLate > 0, nMidFlip > 0)
	}
	if stuck != "" {
		res.Direct = stuck
		res.Sig = "sched:stuck"
	}
	status := 0
	if in.FT > 0 && !marginOK {
		status = 2
	} else if in.FT > 0 && !booksOK {
		status = 1
	}
	return res, status
}

// c14Stress: free-running requests (no gating) through the real ServeHTTP.
func c14Stress(in *c14In) Result {
	sub := &c14In{Hosts: in.Hosts, MC: in.MC, MF: 1000000, FT: 1, Policy: in.Policy}
	text, _ := c14Block(sub, c14Unit, nil)
	ups, err := proxy.NewStaticUpstreams(casketfile.NewDispenser("Testfile", strings.NewReader(text)), "")
	if err != nil || len(ups) != 1 {
		r := c14Skip(fmt.Sprint("setup error ", err), "stress:setup-error")
		r.Direct = fmt.Sprint("proxy block rejected: ", err)
		return r
	}
	defer ups[0].Stop()
	hosts := hostsOf(ups[0])
	type hstat struct{ infl, maxInfl, minConns int64 }
	stats := make([]*hstat, len(hosts))
	for i, h := range hosts {
		i, h := i, h
		st := &hstat{minConns: 1 << 40}
		stats[i] = st
		h.ReverseProxy.Transport = c14RT(func(req *http.Request) (*http.Response, error) {
			n := atomic.AddInt64(&st.infl, 1)
			for {
				m := atomic.LoadInt64(&st.maxInfl)
				if n <= m || atomic.CompareAndSwapInt64(&st.maxInfl, m, n) {
					break
				}
			}
			var k uint64
			fmt.Sscan(req.Header.Get("X-C14-Key"), &k)
			for spin := k % 4; spin > 0; spin-- {
				time.Sleep(time.Duration(k%97) * time.Microsecond)
			}
			c := atomic.LoadInt64(&h.Conns)
			for {
				m := atomic.LoadInt64(&st.minConns)
				if c >= m || atomic.CompareAndSwapInt64(&st.minConns, m, c) {
					break
				}
			}
			atomic.AddInt64(&st.infl, -1)
			switch (k / 7) % 10 {
			case 0, 1:
				return nil, errors.New("c14: injected backend error")
			case 2:
				return nil, context.Canceled
			case 3:
				panic("c14: injected panic")
			}
			return c14Response(req, io.NopCloser(strings.NewReader("ok"))), nil
		})
	}
	p := proxy.Proxy{Next: handlerFunc(func(w http.ResponseWriter, r *http.Request) (int, error) { return 404, nil }), Upstreams: ups}
	var wg sync.WaitGroup
	var answered int64
	rnd := NewRand(in.Seed)
	keys := make([][]uint64, in.Threads)
	for t := range keys {
		for j := 0; j < in.Reqs; j++ {
			keys[t] = append(keys[t], rnd.U64()%1000003)
		}
	}
	start := make(chan struct{})
	for t := 0; t < in.Threads; t++ {
		wg.Add(1)
		go func(t int) {
			defer wg.Done()
			<-start
			for _, k := range keys[t] {
				func() {
					defer func() {
						recover()
						atomic.AddInt64(&answered, 1)
					}()
					req := httptest.NewRequest("GET", "http://example.test/x", nil)
					req.Header.Set("X-C14-Key", fmt.Sprint(k))
					p.ServeHTTP(httptest.NewRecorder(), req)
				}()
			}
		}(t)
	}
	close(start)
	wg.Wait()
	time.Sleep(c14Unit + c14Slack)
	// late expiry goroutines get up to 1.5 s; a missing decrement never gets there
	for deadline := time.Now().Add(1500 * time.Millisecond); time.Now().Before(deadline); time.Sleep(2 * time.Millisecond) {
		left := false
		for _, h := range hosts {
			if atomic.LoadInt32(&h.Fails) != 0 {
				left = true
			}
		}
		if !left {
			break
		}
	}
	var obs []string
	var raw [][4]int64
	over := false
	clean := true
	for i, h := range hosts {
		st := stats[i]
		mn := st.minConns
		if mn == 1<<40 {
			mn = 1
		}
		fc, ff := atomic.LoadInt64(&h.Conns), int64(atomic.LoadInt32(&h.Fails))
		if in.MC > 0 && st.maxInfl > in.MC {
			over = true
		}
		if fc != 0 || ff != 0 || mn < 1 {
			clean = false
		}
		raw = append(raw, [4]int64{st.maxInfl, mn, fc, ff})
		obs = append(obs, fmt.Sprintf("(%s, %s, %s, %s)", cZ(st.maxInfl), cZ(mn), cZ(fc), cZ(ff)))
	}
	all := answered == int64(in.Threads*in.Reqs)
	sig := "stress"
	if over && clean && all {
		sig = c14SigOvershoot
	}
	return Result{Term: cApp("CStress", cNat(in.Hosts), cZ(in.MC), cNat(in.Threads), cList(obs), cBool(all)),
		Obs: map[string]interface{}{"per_host_maxinfl_minconns_finalconns_finalfails": raw, "answered": answered},
		Sig: sig, Nontrivial: true, Key: fmt.Sprintf("stress:%d:%d:%d:%d:%d", in.Hosts, in.MC, in.Threads, in.Reqs, in.Seed),
		Class: fmt.Sprintf("stress:hosts%d:mc%d", in.Hosts, in.MC)}
}

// c14Stress2: thousands of free-running requests on 16 Ps with random outcomes (answered, backend
// error, client cancel, body too large, panic) and random service times.  Judged on invariants only,
// never on timing: Conns read from inside a transport is at least 1, never above max_conns, and
// never below the number of requests inside that transport (read coherently: a sample is used only
// if no request left the transport while it was taken); the transport never holds more than
// max_conns requests; at quiescence Conns is 0 and Fails is the number of failures whose expiry has
// not run — all of the injected errors while fail_timeout is an hour (also the ones that arrived
// while the host was down), none after every timer had time to run.
func c14Stress2(in *c14In) Result {
	defer runtime.GOMAXPROCS(runtime.GOMAXPROCS(16))
	mf := 1000000
	if in.MF > 0 {
		mf = in.MF
	}
	sub := &c14In{Hosts: in.Hosts, MC: in.MC, MF: mf, FT: 1, Policy: in.Policy}
	if in.Keep {
		sub.FT = -1
	}
	text, _ := c14Block(sub, c14Unit, nil)
	ups, err := proxy.NewStaticUpstreams(casketfile.NewDispenser("Testfile", strings.NewReader(text)), "")
	if err != nil || len(ups) != 1 {
		r := c14Skip(fmt.Sprint("setup error ", err), "stress:setup-error")
		r.Direct = fmt.Sprint("proxy block rejected: ", err)
		return r
	}
	defer ups[0].Stop()
	hosts := hostsOf(ups[0])
	type hstat struct{ infl, left, maxInfl, minConns, maxConns, low, nerr, nfwd int64 }
	stats := make([]*hstat, len(hosts))
	upd := func(p *int64, v int64, less bool) {
		for {
			m := atomic.LoadInt64(p)
			if (less && v >= m) || (!less && v <= m) || atomic.CompareAndSwapInt64(p, m, v) {
				return
			}
		}
	}
	for i, h := range hosts {
		h := h
		st := &hstat{minConns: 1 << 40}
		stats[i] = st
		h.ReverseProxy.Transport = c14RT(func(req *http.Request) (*http.Response, error) {
			n := atomic.AddInt64(&st.infl, 1)
			atomic.AddInt64(&st.nfwd, 1)
			upd(&st.maxInfl, n, false)
			var k uint64
			fmt.Sscan(req.Header.Get("X-C14-Key"), &k)
			switch k % 5 {
			case 0:
			case 1:
				runtime.Gosched()
			default:
				time.Sleep(time.Duration(k%211) * time.Microsecond)
			}
			// coherent sample: nobody left the transport between the two reads
			l1 := atomic.LoadInt64(&st.left)
			in1 := atomic.LoadInt64(&st.infl)
			c := atomic.LoadInt64(&h.Conns)
			l2 := atomic.LoadInt64(&st.left)
			upd(&st.minConns, c, true)
			upd(&st.maxConns, c, false)
			if l1 == l2 && c < in1 {
				atomic.AddInt64(&st.low, 1)
			}
			o := (k / 7) % 12
			if o <= 2 {
				atomic.AddInt64(&st.nerr, 1)
			}
			atomic.AddInt64(&st.infl, -1)
			atomic.AddInt64(&st.left, 1)
			switch {
			case o <= 2:
				return nil, errors.New("c14: injected backend error")
			case o == 3:
				return nil, context.Canceled
			case o == 4:
				return nil, httpserver.ErrMaxBytesExceeded
			case o == 5:
				panic("c14: injected panic")
			}
			return c14Response(req, io.NopCloser(strings.NewReader("ok"))), nil
		})
	}
	p := proxy.Proxy{Next: handlerFunc(func(w http.ResponseWriter, r *http.Request) (int, error) { return 404, nil }), Upstreams: ups}
	var wg sync.WaitGroup
	var answered int64
	rnd := NewRand(in.Seed)
	keys := make([][]uint64, in.Threads)
	for t := range keys {
		for j := 0; j < in.Reqs; j++ {
			keys[t] = append(keys[t], rnd.U64()%1000003)
		}
	}
	start := make(chan struct{})
	for t := 0; t < in.Threads; t++ {
		wg.Add(1)
		go func(t int) {
			defer wg.Done()
			<-start
			for _, k := range keys[t] {
				func() {
					defer func() {
						recover()
						atomic.AddInt64(&answered, 1)
					}()
					req := httptest.NewRequest("GET", fmt.Sprintf("http://example.test/x%d", k%13), nil)
					// some clients are gone before their request enters the proxy, some leave at a random moment
					switch (k / 3) % 9 {
					case 0:
						ctx, cancel := context.WithCancel(context.Background())
						cancel()
						req = req.WithContext(ctx)
					case 1:
						ctx, cancel := context.WithCancel(context.Background())
						defer cancel()
						req = req.WithContext(ctx)
						go func(d time.Duration) {
							time.Sleep(d)
							cancel()
						}(time.Duration(k%173) * time.Microsecond)
					}
					req.Header.Set("X-C14-Key", fmt.Sprint(k))
					req.Header.Set("X-C14-Hash", fmt.Sprint(k%11))
					req.RemoteAddr = fmt.Sprintf("192.0.2.%d:4711", k%17)
					p.ServeHTTP(httptest.NewRecorder(), req)
				}()
			}
		}(t)
	}
	stopFlip := make(chan struct{})
	flipDone := make(chan struct{})
	go func() {
		// what the health-check worker does to the hosts, as fast as it can: store a verdict
		defer close(flipDone)
		fr := NewRand(in.Seed + 17)
		for in.Flip {
			select {
			case <-stopFlip:
				return
			default:
			}
			v := int32(0)
			if fr.Chance(40) {
				v = 1
			}
			atomic.StoreInt32(&hosts[fr.Intn(len(hosts))].Unhealthy, v)
			if fr.Chance(50) {
				runtime.Gosched()
			} else {
				time.Sleep(time.Duration(fr.Intn(200)) * time.Microsecond)
			}
		}
	}()
	close(start)
	wg.Wait()
	close(stopFlip)
	<-flipDone
	for _, h := range hosts {
		atomic.StoreInt32(&h.Unhealthy, 0)
	}
	if !in.Keep {
		// every expiry goroutine gets all the time it may need (a loaded machine only makes this slower);
		// a decrement that never comes is still missing after 20 s
		time.Sleep(c14Unit)
		for deadline := time.Now().Add(20 * time.Second); time.Now().Before(deadline); time.Sleep(2 * time.Millisecond) {
			left := false
			for _, h := range hosts {
				if atomic.LoadInt32(&h.Fails) > 0 {
					left = true
				}
			}
			if !left {
				break
			}
		}
	}
	var obs []string
	var raw [][7]int64
	over := false
	clean := true
	var fwd int64
	for i, h := range hosts {
		st := stats[i]
		mn := st.minConns
		if mn == 1<<40 {
			mn = 1
		}
		fc, ff := atomic.LoadInt64(&h.Conns), int64(atomic.LoadInt32(&h.Fails))
		if in.MC > 0 && (st.maxInfl > in.MC || st.maxConns > in.MC) {
			over = true
		}
		want := int64(0)
		if in.Keep {
			want = st.nerr
		}
		if fc != 0 || ff != want || mn < 1 || st.low != 0 {
			clean = false
		}
		fwd += st.nfwd
		raw = append(raw, [7]int64{st.maxInfl, mn, st.maxConns, st.low, fc, ff, st.nerr})
		obs = append(obs, fmt.Sprintf("(%s, %s, %s, %s, %s, %s, %s)", cZ(st.maxInfl), cZ(mn), cZ(st.maxConns), cZ(st.low), cZ(fc), cZ(ff), cZ(st.nerr)))
	}
	nreq := int64(in.Threads * in.Reqs)
	sig := "stress2"
	if over && clean && answered == nreq {
		sig = c14SigOvershoot
	}
	return Result{Term: cApp("CStress2", cNat(in.Hosts), cZ(in.MC), cBool(in.Keep), cZ(nreq), cList(obs), cZ(answered)),
		Obs: map[string]interface{}{"per_host_maxinfl_minconns_maxconns_low_finalconns_finalfails_errors": raw, "answered": answered,
			"requests": nreq, "forwards": fwd, "block": text},
		Sig: sig, Nontrivial: fwd > 0, Key: fmt.Sprintf("stress2:%d:%d:%d:%d:%d:%v:%s:%d", in.Hosts, in.MC, in.Threads, in.Reqs, in.Seed, in.Keep, in.Policy, in.MF) + fmt.Sprint(in.Flip),
		Class: fmt.Sprintf("stress2:hosts%d:mc%d:keep=%v:health-flips=%v", in.Hosts, in.MC, in.Keep, in.Flip)}
}

type c14RT func(*http.Request) (*http.Response, error)

func (f c14RT) RoundTrip(r *http.Request) (*http.Response, error) { return f(r) }

func c14Cfg(in *c14In) Result {
	dir := "max_fails"
	if in.Kind == "maxconns" {
		dir = "max_conns"
	}
	text := fmt.Sprintf("proxy / http://127.0.0.1:20000 {\n %s %d\n}\n", dir, in.N)
	ups, err := proxy.NewStaticUpstreams(casketfile.NewDispenser("Testfile", strings.NewReader(text)), "")
	accepted := err == nil && len(ups) == 1
	obs := false
	if accepted {
		defer ups[0].Stop()
		h := hostsOf(ups[0])[0]
		if in.Kind == "maxconns" {
			atomic.StoreInt64(&h.Conns, in.K)
			obs = h.Full()
		} else {
			atomic.StoreInt32(&h.Fails, int32(in.K))
			obs = h.Down()
		}
	}
	ctor, sig := "CMaxFails", "cfg:max_fails"
	if in.Kind == "maxconns" {
		ctor, sig = "CMaxConns", "cfg:max_conns"
	} else if in.N >= 1<<31 {
		sig = "cfg:max_fails>=2^31"
	}
	return Result{Term: cApp(ctor, cZ(in.N), cZ(in.K), cBool(accepted), cBool(obs)),
		Obs: map[string]interface{}{"accepted": accepted, "observed": obs}, Sig: sig, Nontrivial: accepted, Class: sig}
}

// timed cases spend their time sleeping: the generated ones are run concurrently (8 at a time)
// when the first of them is asked for; each case owns its pool, transports and goroutines.
var (
	c14Batch     []*c14In
	c14BatchRes  = map[*c14In]Result{}
	c14BatchOnce sync.Once
)

func c14RunBatch() {
	var mu sync.Mutex
	var wg sync.WaitGroup
	sem := make(chan struct{}, 8)
	for _, in := range c14Batch {
		in := in
		wg.Add(1)
		sem <- struct{}{}
		go func() {
			defer wg.Done()
			defer func() { <-sem }()
			res := c14RunOne(in)
			mu.Lock()
			c14BatchRes[in] = res
			mu.Unlock()
		}()
	}
	wg.Wait()
}

func c14RunCase(in0 interface{}) Result {
	in := in0.(*c14In)
	if in.Kind == "sched" && in.FT > 0 && len(c14Batch) > 0 {
		c14BatchOnce.Do(c14RunBatch)
		if res, ok := c14BatchRes[in]; ok {
			return res
		}
	}
	return c14RunOne(in)
}

// c14Live: one request through the real http.Transport to a loopback backend.
func c14Live(in *c14In) Result {
	entered := make(chan struct{}, 1)
	release := make(chan struct{})
	mode := in.Policy // s | e | c
	backend := httptest.NewServer(http.HandlerFunc(func(w http.ResponseWriter, r *http.Request) {
		entered <- struct{}{}
		<-release
		if mode == "e" {
			if hj, ok := w.(http.Hijacker); ok {
				if c, _, err := hj.Hijack(); err == nil {
					c.Close()
				}
			}
			return
		}
		w.WriteHeader(200)
		io.WriteString(w, "ok")
	}))
	defer backend.Close()
	var once sync.Once
	unblock := func() { once.Do(func() { close(release) }) }
	defer unblock()
	text := fmt.Sprintf("proxy / %s {\n max_conns 5\n max_fails 1\n fail_timeout 1h\n}\n", backend.URL)
	ups, err := proxy.NewStaticUpstreams(casketfile.NewDispenser("Testfile", strings.NewReader(text)), "")
	if err != nil || len(ups) != 1 {
		r := c14Skip(fmt.Sprint("setup error ", err), "live:setup-error")
		r.Direct = fmt.Sprint("proxy block rejected: ", err)
		return r
	}
	defer ups[0].Stop()
	h := hostsOf(ups[0])[0]
	p := proxy.Proxy{Next: handlerFunc(func(w http.ResponseWriter, r *http.Request) (int, error) { return 404, nil }), Upstreams: ups}
	ctx, cancel := context.WithCancel(context.Background())
	defer cancel()
	req := httptest.NewRequest("GET", "http://example.test/x", nil).WithContext(ctx)
	req.RemoteAddr = "192.0.2.7:4711"
	done := make(chan int, 1)
	go func() {
		code := -1
		defer func() {
			recover()
			done <- code
		}()
		code, _ = p.ServeHTTP(httptest.NewRecorder(), req)
	}()
	direct := ""
	select {
	case <-entered:
	case <-time.After(5 * time.Second):
		direct = "request never reached the backend"
	}
	during := atomic.LoadInt64(&h.Conns)
	if mode == "c" {
		cancel()
	} else {
		unblock()
	}
	code := -2
	select {
	case code = <-done:
	case <-time.After(5 * time.Second):
		direct = "Proxy.ServeHTTP did not return"
	}
	after, fails := atomic.LoadInt64(&h.Conns), int64(atomic.LoadInt32(&h.Fails))
	return Result{Term: cApp("CLive", c14Outcome(mode), cZ(int64(code)), cZ(during), cZ(after), cZ(fails)),
		Obs:    map[string]interface{}{"status": code, "conns_during": during, "conns_after": after, "fails_after": fails},
		Direct: direct, Sig: "live:" + mode, Nontrivial: true, Class: "live:" + mode,
		Key: fmt.Sprintf("live:%s:%d", mode, in.Seed)}
}

// c14NilCount counts the Selects that answered nil (a request waiting in the retry loop makes them).
type c14NilCount struct {
	proxy.Upstream
	nils int64
}

func (u *c14NilCount) Select(r *http.Request) *proxy.UpstreamHost {
	h := u.Upstream.Select(r)
	if h == nil && r.Header.Get("X-C14-Who") == "B" {
		atomic.AddInt64(&u.nils, 1)
	}
	return h
}

// c14LiveGone: the real retry loop (try_duration / try_interval as parsed, real clock) and the real
// http.Transport.  Request A holds the only slot of the backend (max_conns 1); request B finds it full and
// waits in keepRetrying's loop; B's client goes away while it waits; A is answered; B's next attempt
// begins with its context already cancelled.  Observed: B's status, Conns while A is held, Conns when
// everything has returned, and the status of a request C sent afterwards to the idle backend.
func c14LiveGone(in *c14In) Result {
	entered := make(chan string, 4)
	release := make(chan struct{})
	backend := httptest.NewServer(http.HandlerFunc(func(w http.ResponseWriter, r *http.Request) {
		who := r.Header.Get("X-C14-Who")
		entered <- who
		if who == "A" {
			<-release
		}
		w.WriteHeader(200)
		io.WriteString(w, "ok")
	}))
	defer backend.Close()
	var once sync.Once
	unblock := func() { once.Do(func() { close(release) }) }
	defer unblock()
	pol := in.Policy
	if pol == "" {
		pol = "first"
	}
	if pol == "header" {
		pol = "header X-C14-Hash"
	}
	text := fmt.Sprintf("proxy / %s {\n policy %s\n max_conns 1\n max_fails 1\n fail_timeout 1h\n try_duration 4s\n try_interval 2ms\n}\n", backend.URL, pol)
	ups, err := proxy.NewStaticUpstreams(casketfile.NewDispenser("Testfile", strings.NewReader(text)), "")
	if err != nil || len(ups) != 1 {
		r := c14Skip(fmt.Sprint("setup error ", err), "live:setup-error")
		r.Direct = fmt.Sprint("proxy block rejected: ", err)
		return r
	}
	defer ups[0].Stop()
	h := hostsOf(ups[0])[0]
	cnt := &c14NilCount{Upstream: ups[0]}
	p := proxy.Proxy{Next: handlerFunc(func(w http.ResponseWriter, r *http.Request) (int, error) { return 404, nil }), Upstreams: []proxy.Upstream{cnt}}
	start := func(who string, ctx context.Context) chan int {
		req := httptest.NewRequest("GET", "http://example.test/x", nil).WithContext(ctx)
		req.RemoteAddr = "192.0.2.7:4711"
		req.Header.Set("X-C14-Who", who)
		req.Header.Set("X-C14-Hash", "k")
		done := make(chan int, 1)
		go func() {
			code := -1
			defer func() {
				recover()
				done <- code
			}()
			code, _ = p.ServeHTTP(httptest.NewRecorder(), req)
		}()
		return done
	}
	direct := ""
	await := func(c chan int, what string) int {
		select {
		case v := <-c:
			return v
		case <-time.After(8 * time.Second):
			if direct == "" {
				direct = what + " did not return within 8s"
			}
			return -2
		}
	}
	doneA := start("A", context.Background())
	select {
	case <-entered:
	case <-time.After(5 * time.Second):
		direct = "request A never reached the backend"
	}
	during := atomic.LoadInt64(&h.Conns)
	ctxB, cancelB := context.WithCancel(context.Background())
	defer cancelB()
	doneB := start("B", ctxB)
	waitNils := func(n int64) {
		for deadline := time.Now().Add(3 * time.Second); atomic.LoadInt64(&cnt.nils) < n && time.Now().Before(deadline); {
			time.Sleep(time.Millisecond)
		}
	}
	waitNils(1 + int64(in.Seed%3)) // B has been refused and sleeps in keepRetrying
	nb := atomic.LoadInt64(&cnt.nils)
	cancelB()
	waitNils(nb + 1 + int64(in.Seed%2)) // still in the loop with its client gone
	unblock()
	codeA := await(doneA, "request A")
	codeB := await(doneB, "request B (client gone while waiting for a slot)")
	after := atomic.LoadInt64(&h.Conns)
	codeC := await(start("C", context.Background()), "request C")
	if direct == "" && codeA != 0 {
		direct = fmt.Sprintf("request A was answered %d", codeA)
	}
	return Result{Term: cApp("CLiveGone", cZ(int64(codeB)), cZ(during), cZ(after), cZ(int64(codeC))),
		Obs: map[string]interface{}{"status_gone_waiter": codeB, "conns_while_held": during, "conns_at_quiescence": after,
			"status_next_request": codeC, "nil_selects_of_waiter": atomic.LoadInt64(&cnt.nils), "block": text},
		Direct: direct, Sig: "live:gone-while-waiting", Nontrivial: true, Class: "live:gone-while-waiting:" + in.Policy,
		Key: fmt.Sprintf("livegone:%s:%d", in.Policy, in.Seed)}
}

func c14RunOne(in *c14In) Result {
	switch in.Kind {
	case "live":
		return c14Live(in)
	case "livegone":
		return c14LiveGone(in)
	case "sched":
		var res Result
		status := 0
		for scale := 1; scale <= 3; scale++ {
			res, status = c14Sched(in, scale)
			if status == 0 {
				break
			}
		}
		if status == 2 {
			// the machine was too busy to keep the real-time margins even with 120 ms units: nothing observed
			return c14Skip("real-time margins missed in 3 attempts", "sched:timing-invalid")
		}
		return res
	case "stress":
		return c14Stress(in)
	case "stress2":
		return c14Stress2(in)
	case "maxfails", "maxconns":
		return c14Cfg(in)
	}
	panic("bad kind " + in.Kind)
}

// ---- generators ----

func c14Interleavings(a, b int) [][]int {
	if a == 0 && b == 0 {
		return [][]int{{}}
	}
	var out [][]int
	if a > 0 {
		for _, r := range c14Interleavings(a-1, b) {
			out = append(out, append([]int{0}, r...))
		}
	}
	if b > 0 {
		for _, r := range c14Interleavings(a, b-1) {
			out = append(out, append([]int{1}, r...))
		}
	}
	return out
}

func c14Gen(r *Rand, tier string) []interface{} {
	var out []interface{}
	nRandom, nTimed, nStress := 2000, 60, 12
	if tier == "thorough" {
		nRandom, nTimed, nStress = 20000, 500, 100
	}
	// 1. every interleaving of two requests (select, begin, finish each) x outcomes x settings
	type setting struct {
		hosts int
		mc    int64
		ft    int
		pol   string
		again bool
	}
	settings := []setting{{1, 1, -1, "first", false}, {1, 2, -1, "first", false}, {2, 1, -1, "round_robin", false},
		{1, 1, 0, "first", false}, {2, 1, -1, "first", true}, {2, 1, -1, "least_conn", false}}
	inter := c14Interleavings(3, 3)
	if tier == "thorough" {
		inter = c14Interleavings(4, 4)
		settings = append(settings, setting{1, 0, -1, "first", false}, setting{2, 2, -1, "round_robin", true},
			setting{3, 1, -1, "round_robin", true}, setting{1, 1, -1, "first", true})
	}
	for _, st := range settings {
		for _, il := range inter {
			for _, oa := range []string{"s", "e", "c", "l", "p", "h"} {
				for _, ob := range []string{"s", "e"} {
					in := &c14In{Kind: "sched", Hosts: st.hosts, MC: st.mc, MF: 1, FT: st.ft, Policy: st.pol, Threads: 2}
					for _, t := range il {
						o := oa
						if t == 1 {
							o = ob
						}
						in.Steps = append(in.Steps, c14Adv{T: t, O: o, Again: st.again})
					}
					out = append(out, in)
				}
			}
		}
	}
	// 2. random schedules
	outcomes := []string{"s", "s", "s", "s", "e", "e", "e", "e", "c", "l", "p", "h"}
	for i := 0; i < nRandom; i++ {
		in := &c14In{Kind: "sched", Hosts: r.Range(1, 3), Threads: r.Range(1, 5),
			MC: []int64{0, 1, 1, 2, 3}[r.Intn(5)], MF: []int{1, 1, 2, 3}[r.Intn(4)], FT: []int{0, -1, -1, -1}[r.Intn(4)],
			Policy: r.Pick([]string{"first", "round_robin", "least_conn", "random"})}
		for h := 0; h < in.Hosts; h++ {
			in.Unh = append(in.Unh, r.Chance(10))
		}
		n := r.Range(6, 14*in.Threads)
		prev := 0
		for k := 0; k < n; k++ {
			t := r.Intn(in.Threads)
			if r.Chance(40) {
				t = (prev + 1) % in.Threads // lock-step rounds open many windows at once
			}
			prev = t
			in.Steps = append(in.Steps, c14Adv{T: t, O: r.Pick(outcomes), Again: r.Chance(35)})
		}
		out = append(out, in)
	}
	// 3. timed schedules: failures expire after fail_timeout, down exactly while >= max_fails are unexpired
	for i := 0; i < nTimed; i++ {
		in := &c14In{Kind: "sched", Hosts: r.Range(1, 2), Threads: r.Range(2, 4), MC: []int64{0, 0, 2}[r.Intn(3)],
			MF: r.Range(1, 2), FT: r.Range(2, 3), Policy: r.Pick([]string{"first", "round_robin"})}
		waits := 0
		n := r.Range(5, 11)
		for k := 0; k < n; k++ {
			if k > 0 && waits < 4 && r.Chance(22) {
				waits++
				in.Steps = append(in.Steps, c14Adv{T: -1, Wait: r.Range(1, in.FT)})
				continue
			}
			// one whole attempt of one request (select, begin, finish) unless it is interrupted by others
			a := c14Adv{T: r.Intn(in.Threads), O: r.Pick([]string{"e", "e", "e", "e", "s", "c"}), Again: r.Chance(75)}
			m := 3
			if r.Chance(25) {
				m = r.Range(1, 2)
			}
			for j := 0; j < m; j++ {
				in.Steps = append(in.Steps, a)
			}
		}
		out = append(out, in)
		c14Batch = append(c14Batch, in)
	}
	// 3b. staggered failures: two failures of one backend recorded at different times; probes between
	// the two expiry instants (the first must be gone, the second must still count) and after both
	att := func(t int, o string, again bool) []c14Adv {
		a := c14Adv{T: t, O: o, Again: again}
		return []c14Adv{a, a, a}
	}
	for i := 0; i < nTimed/2; i++ {
		ft := r.Range(2, 3)
		a := r.Range(1, ft-1)
		in := &c14In{Kind: "sched", Hosts: r.Range(1, 2), Threads: 3, MC: []int64{0, 0, 3}[r.Intn(3)], FT: ft, Policy: r.Pick([]string{"first", "round_robin"})}
		var st []c14Adv
		if i%2 == 0 {
			// sequential attempts, max_fails >= 2 so that the backend is still used after the first failure
			in.MF = r.Range(2, 3)
			st = append(st, att(0, "e", true)...)
			st = append(st, c14Adv{T: -1, Wait: a})
			if in.Hosts == 2 {
				st = append(st, att(0, "e", true)...) // first/round robin may pick either host; a third failure keeps both busy
			}
			st = append(st, att(1, "e", r.Bool())...)
		} else {
			// two requests already in flight on the backend fail one after the other (max_fails 1: down after the first)
			in.MF = r.Range(1, 2)
			in.Hosts = 1
			st = append(st, c14Adv{T: 0}, c14Adv{T: 0}, c14Adv{T: 1}, c14Adv{T: 1})
			st = append(st, c14Adv{T: 0, O: "e", Again: r.Bool()})
			st = append(st, c14Adv{T: -1, Wait: a})
			st = append(st, c14Adv{T: 1, O: "e", Again: r.Bool()})
		}
		st = append(st, c14Adv{T: -1, Wait: ft - a})
		st = append(st, c14Adv{T: 2, O: "s"}, c14Adv{T: 2, O: "s"}) // probe: Select (and begin) between the two expiries
		st = append(st, c14Adv{T: -1, Wait: a})
		st = append(st, att(2, "s", false)...)
		in.Steps = st
		out = append(out, in)
		c14Batch = append(c14Batch, in)
	}
	// 4. configuration values
	for _, n := range []int64{-1, 0, 1, 2, 3, 100, 1<<31 - 1, 1 << 31, 1<<31 + 1, 1<<32 - 1, 1 << 32, 1<<32 + 1, 1<<32 + 2, 1 << 33, 1<<63 - 1} {
		ks := []int64{0, 1, 2, 3, 1<<31 - 1}
		for _, d := range []int64{-1, 0, 1} {
			if k := n + d; k > 3 && k < 1<<31-1 {
				ks = append(ks, k)
			}
		}
		for _, k := range ks {
			out = append(out, &c14In{Kind: "maxfails", N: n, K: k})
		}
	}
	for _, n := range []int64{-5, -1, 0, 1, 2, 3, 100, 1 << 31, 1 << 32, 1<<63 - 1} {
		for _, k := range []int64{0, 1, 2, 3, 99, 100, 101, 1 << 31, 1<<32 - 1, 1 << 32, 1<<63 - 1} {
			out = append(out, &c14In{Kind: "maxconns", N: n, K: k})
		}
	}
	// 4b. the real transport: answered, connection dropped by the backend, abandoned by the client
	for i := 0; i < nStress; i++ {
		out = append(out, &c14In{Kind: "live", Policy: []string{"s", "e", "c"}[i%3], Seed: uint64(i)})
	}
	// 5. free-running stress
	for i := 0; i < nStress; i++ {
		out = append(out, &c14In{Kind: "stress", Hosts: r.Range(1, 3), MC: []int64{0, 0, 2, 4}[r.Intn(4)],
			Threads: r.Range(4, 16), Reqs: r.Range(20, 60), Policy: r.Pick([]string{"first", "round_robin", "least_conn", "random"}), Seed: r.U64() % 1000000})
	}
	// 6. refused acquisitions for EVERY policy: one more request than the pool has slots (max_conns 1), all
	// of them through Select before any is counted, so acquireConn must refuse at least one; then outcomes
	// and retries in random order.  With the gated policy each Select also stops at the entry of Policy.Select.
	allPols := []string{"first", "round_robin", "random", "least_conn", "ip_hash", "uri_hash", "header"}
	maxHosts, variants := 2, 2
	if tier == "thorough" {
		maxHosts, variants = 3, 8
	}
	for _, pol := range allPols {
		for hosts := 1; hosts <= maxHosts; hosts++ {
			for _, gate := range []bool{false, true} {
				for v := 0; v < variants; v++ {
					again := v%2 == 1
					in := &c14In{Kind: "sched", Hosts: hosts, MC: 1, MF: r.Range(1, 2), FT: []int{-1, -1, 0}[r.Intn(3)], Policy: pol,
						Threads: hosts + 1, Gate: gate, Fam: "refuse"}
					nsel := 1
					if gate && hosts >= 2 {
						nsel = 2
					}
					for k := 0; k < nsel; k++ {
						for _, t := range r.Perm(in.Threads) {
							in.Steps = append(in.Steps, c14Adv{T: t})
						}
					}
					for _, t := range r.Perm(in.Threads) {
						in.Steps = append(in.Steps, c14Adv{T: t, Again: again})
					}
					for k := 0; k < 4*in.Threads; k++ {
						in.Steps = append(in.Steps, c14Adv{T: r.Intn(in.Threads), O: r.Pick([]string{"s", "e", "e", "c", "p", "l"}), Again: again && r.Chance(60)})
					}
					out = append(out, in)
				}
			}
		}
	}
	// 7. a failure that arrives while the host is ALREADY down must be recorded (and, timed, keep the host down
	// for fail_timeout from ITS arrival): down by max_fails, by the driver's store of Unhealthy, or by the verdict
	// of the real health-check worker
	hv := func(h int, b bool) c14Adv { return c14Adv{T: -2, HH: h, HB: b} }
	nLate := 6
	if tier == "thorough" {
		nLate = 40
	}
	for i := 0; i < nLate; i++ {
		for _, pol := range allPols {
			// (i) max_fails: every request is in flight on the one backend, then they fail one after the other
			in := &c14In{Kind: "sched", Hosts: 1, MC: []int64{0, 3}[r.Intn(2)], MF: r.Range(1, 2), FT: -1, Policy: pol, Threads: 3, Fam: "late"}
			for k := 0; k < 2; k++ {
				for t := 0; t < 3; t++ {
					in.Steps = append(in.Steps, c14Adv{T: t})
				}
			}
			for _, t := range r.Perm(3) {
				in.Steps = append(in.Steps, c14Adv{T: t, O: "e", Again: r.Chance(30)})
			}
			out = append(out, in)
			// (ii)/(iii) marked unhealthy while two requests are in flight; they fail; declared healthy again: still down
			// (max_fails reached by the failures that arrived while it was unhealthy); a third request gets no host
			in = &c14In{Kind: "sched", Hosts: 1, MC: 0, MF: r.Range(1, 2), FT: -1, Policy: pol, Threads: 3, Worker: i%2 == 1, Gate: i%3 == 2, Fam: "late"}
			in.Steps = []c14Adv{{T: 0}, {T: 1}, {T: 0}, {T: 1}, hv(0, true), {T: 0, O: "e"}, {T: 1, O: "e"}, hv(0, false), {T: 2}, {T: 2}}
			out = append(out, in)
		}
	}
	for i := 0; i < nTimed/3; i++ {
		// timed: unhealthy at 0, a failure arrives at a while unhealthy, healthy again at once; the probe between
		// fail_timeout and a + fail_timeout must find the host still down, the one after a + fail_timeout up
		ft := r.Range(2, 3)
		a := r.Range(1, ft-1)
		in := &c14In{Kind: "sched", Hosts: 1, MC: 0, MF: 1, FT: ft, Policy: r.Pick(allPols), Threads: 3, Worker: i%2 == 0, Fam: "late"}
		in.Steps = []c14Adv{{T: 0}, {T: 1}, {T: 0}, {T: 1}, {T: 0, O: "e"}, hv(0, true), {T: -1, Wait: a}, {T: 1, O: "e"}, hv(0, false),
			{T: -1, Wait: ft - a}, {T: 2}, {T: 2, Again: true}, {T: -1, Wait: a}, {T: 2, O: "s"}, {T: 2, O: "s"}, {T: 2, O: "s"}}
		out = append(out, in)
		c14Batch = append(c14Batch, in)
	}
	// 8. Select against the health checker: verdicts before, INSIDE (gated policy) and after a Select
	nHealthRandom := 250
	if tier == "thorough" {
		nHealthRandom = 3000
	}
	sel2 := func(t int) []c14Adv { return []c14Adv{{T: t}, {T: t}} }
	for _, pol := range allPols {
		for _, worker := range []bool{false, true} {
			mk := func(steps ...[]c14Adv) {
				in := &c14In{Kind: "sched", Hosts: 2, MC: 0, MF: 1, FT: -1, Policy: pol, Threads: 2, Gate: true, Worker: worker, Fam: "health"}
				for _, st := range steps {
					in.Steps = append(in.Steps, st...)
				}
				out = append(out, in)
			}
			one := func(a c14Adv) []c14Adv { return []c14Adv{a} }
			fwd := []c14Adv{{T: 0}, {T: 0, O: "e"}}
			// marked before the Select: never its answer
			mk(one(hv(0, true)), one(hv(1, false)), sel2(0), fwd)
			mk(one(hv(0, false)), one(hv(1, true)), sel2(0), fwd)
			// marked inside the Select (after the scan): the policy's own read sees it
			mk(one(c14Adv{T: 0}), one(hv(0, true)), one(hv(1, false)), one(c14Adv{T: 0}), fwd)
			mk(one(c14Adv{T: 0}), one(hv(0, true)), one(hv(1, true)), one(c14Adv{T: 0}), one(c14Adv{T: 0, Again: true}), sel2(0))
			// marked after the Select, in the window: still forwarded (and its failure recorded while down)
			mk(sel2(0), one(hv(0, true)), one(hv(1, true)), fwd, sel2(1))
			// everything unhealthy: nil without consulting the policy; declared healthy inside the next Select
			mk(one(hv(0, true)), one(hv(1, true)), one(c14Adv{T: 0}), one(c14Adv{T: 0, Again: true}), one(hv(0, false)), sel2(0), fwd)
			mk(one(hv(0, true)), one(hv(1, false)), one(c14Adv{T: 0}), one(hv(0, false)), one(hv(1, false)), one(c14Adv{T: 0}), fwd)
		}
	}
	for i := 0; i < nHealthRandom; i++ {
		in := &c14In{Kind: "sched", Hosts: r.Range(2, 3), Threads: r.Range(2, 3), MC: []int64{0, 0, 1, 2}[r.Intn(4)], MF: r.Range(1, 2),
			FT: []int{0, -1, -1}[r.Intn(3)], Policy: r.Pick(allPols), Gate: r.Chance(80), Worker: r.Chance(65), Fam: "health"}
		n := r.Range(8, 12*in.Threads)
		for k := 0; k < n; k++ {
			if r.Chance(30) {
				in.Steps = append(in.Steps, hv(r.Intn(in.Hosts), r.Chance(50)))
				continue
			}
			in.Steps = append(in.Steps, c14Adv{T: r.Intn(in.Threads), O: r.Pick(outcomes), Again: r.Chance(40)})
		}
		out = append(out, in)
	}
	// 10. the client goes away at EVERY point of a request's life, for every policy, with max_conns set:
	// (a) a request waits for a slot (every slot of the pool is held, Select answers nil or acquireConn refuses,
	// keepRetrying says again), its client leaves — before its first Select, while it waits in the retry loop, at
	// the entry of Policy.Select (gated), in the window between Select and acquireConn, or inside the transport —,
	// a holder is answered, the waiter's next attempt begins with the context already cancelled; afterwards a
	// prober must find the slot free.  (b) random schedules with disconnects at random moments.
	xs := func(t int) c14Adv { return c14Adv{T: t, X: true} }
	goneVariants := 5
	nGoneRandom := 420
	if tier == "thorough" {
		nGoneRandom = 5000
	}
	for _, pol := range allPols {
		for hosts := 1; hosts <= 2; hosts++ {
			for _, mc := range []int64{1, 2} {
				for _, gate := range []bool{false, true} {
					for v := 0; v < goneVariants; v++ {
						if v == 4 && !gate {
							continue
						}
						slots := hosts * int(mc)
						w, pr := slots, slots+1 // the waiter and the prober
						in := &c14In{Kind: "sched", Hosts: hosts, MC: mc, MF: r.Range(1, 2), FT: []int{-1, 0}[r.Intn(2)], Policy: pol,
							Threads: slots + 2, Gate: gate, Fam: "gone"}
						selN := 1
						if gate {
							selN = 2 // scan, then the policy (when it is consulted)
						}
						var st []c14Adv
						// the holders take every slot one after the other (select, begin): each Select sees the pool as it is
						for t := 0; t < slots; t++ {
							for k := 0; k < selN+1; k++ {
								st = append(st, c14Adv{T: t})
							}
						}
						if v == 3 {
							st = append(st, xs(w)) // gone before its first Select
						}
						// the waiter: every host is full -> nil (no policy call), keepRetrying: again
						st = append(st, c14Adv{T: w}, c14Adv{T: w, Again: true})
						if v == 0 {
							st = append(st, xs(w)) // gone while it waits in the retry loop
						}
						// one holder is answered (which one: random), the slot is free again
						st = append(st, c14Adv{T: r.Intn(slots), O: "s"})
						if v == 4 {
							st = append(st, c14Adv{T: w}, xs(w), c14Adv{T: w}) // gone at the entry of Policy.Select (single host: in the window)
						} else {
							for k := 0; k < selN; k++ {
								st = append(st, c14Adv{T: w})
							}
						}
						if v == 1 {
							st = append(st, xs(w)) // gone in the window (or, gated with one host, already there)
						}
						st = append(st, c14Adv{T: w, Again: r.Bool()}) // acquireConn, into the transport
						if v == 2 {
							st = append(st, xs(w)) // gone during the forward
						}
						st = append(st, c14Adv{T: w, O: "c"})
						// the prober finds the freed slot
						for k := 0; k < selN+2; k++ {
							st = append(st, c14Adv{T: pr, O: "s"})
						}
						in.Steps = st
						out = append(out, in)
					}
				}
			}
		}
	}
	for i := 0; i < nGoneRandom; i++ {
		in := &c14In{Kind: "sched", Hosts: r.Range(1, 3), Threads: r.Range(2, 5), MC: []int64{0, 1, 1, 2, 3}[r.Intn(5)], MF: r.Range(1, 3),
			FT: []int{0, -1, -1}[r.Intn(3)], Policy: r.Pick(allPols), Gate: r.Chance(40), Fam: "gone"}
		n := r.Range(8, 14*in.Threads)
		for k := 0; k < n; k++ {
			t := r.Intn(in.Threads)
			if r.Chance(14) {
				in.Steps = append(in.Steps, xs(t))
				continue
			}
			if r.Chance(4) {
				in.Steps = append(in.Steps, hv(r.Intn(in.Hosts), r.Chance(50)))
				continue
			}
			in.Steps = append(in.Steps, c14Adv{T: t, O: r.Pick(outcomes), Again: r.Chance(55)})
		}
		out = append(out, in)
	}
	// 10b. the same with the real retry loop (try_duration, try_interval, real clock) and the real http.Transport
	for i := 0; i < nStress; i++ {
		out = append(out, &c14In{Kind: "livegone", Policy: allPols[i%len(allPols)], Seed: uint64(i)})
	}
	// 9. free-running stress on 16 Ps: thousands of requests, random outcomes
	for i := 0; i < nStress; i++ {
		in := &c14In{Kind: "stress2", Hosts: r.Range(1, 3), MC: []int64{0, 1, 2, 4}[r.Intn(4)], Threads: r.Range(16, 48), Reqs: r.Range(60, 150),
			Policy: r.Pick(allPols), Seed: r.U64() % 1000000, Keep: i%3 == 2, Flip: i%2 == 0}
		if in.Keep {
			in.MF = []int{0, 2, 5}[r.Intn(3)]
		}
		out = append(out, in)
	}
	return out
}

func init() {
	register(&Property{
		ID: "C14", Imports: "V.Lib V.C14_Model", Judge: "judge",
		Rule: "cases = real Proxy.ServeHTTP goroutines over a parsed proxy block, stepped by the driver through gated Select / barrier transports (every interleaving of 2 requests x outcomes x settings, random schedules of up to 5 requests on up to 3 hosts, timed schedules with real fail_timeout expiry); refused acquisitions for each of the 7 policies (one more request than slots inside the select/acquire window, plain and with the gated policy); the client going away at every point of a request's life (before its first Select, waiting in the retry loop for a slot, at the entry of Policy.Select, in the window, during the forward) for each of the 7 policies with max_conns 1 and 2, a prober finding the slot free afterwards, random schedules with disconnects, and the same through the real retry loop (try_duration/try_interval) and the real http.Transport; failures arriving while the host is already down by max_fails / a store of Unhealthy / the verdict of the real HealthCheckWorker (untimed and timed down-window probes); health verdicts before, inside (policy c14gate blocks at the entry of Policy.Select) and after a running Select, through the real worker held at gated loopback health endpoints or by the driver's own store; max_fails/max_conns parsing; single requests through the real http.Transport (answered / dropped / client cancel); free-running stress (incl. thousands of requests on 16 Ps with random outcomes, coherent in-transport samples of Conns); non-trivial = a schedule in which two requests were simultaneously between Select and completion or a failure was recorded or a health verdict was delivered / accepted config / stress run that forwarded; distinct = distinct Coq case term",
		Gen:  c14Gen,
		Decode: func(raw json.RawMessage) (interface{}, error) {
			in := &c14In{}
			return in, json.Unmarshal(raw, in)
		},
		Run:   c14RunCase,
		Shard: 150,
	})
}
