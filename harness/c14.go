package main

// C14 — backend in-flight / failure accounting under concurrency.
//
// The real Proxy.ServeHTTP runs in one goroutine per request against a pool parsed from a real
// `proxy` block.  Two harness pieces make every interleaving of the atomic operations
// replayable: a wrapper around the parsed Upstream whose Select blocks before and after the
// real Select (so the window between choosing a backend and counting the request can be held
// open), and a barrier http.RoundTripper installed in every host's ReverseProxy that keeps a
// request "being forwarded" until the driver injects its outcome (success, streamed success,
// backend error, client cancel, body too large, panic).  After every driver step all request
// goroutines are blocked and the driver snapshots Conns / Fails / Down() / Full() of every
// host together with the number of requests really inside that host's transport.
//
// A request released from the "post" gate runs host.acquireConn(): it arrives in the transport
// ("rt") when the host is below max_conns at that instant, otherwise it takes the no-host path
// (back at "pre" when keepRetrying says again, else done with 502).  Any state in which more
// than max_conns requests are inside one transport gets the signature c14SigOvershoot (F-C14-1).

import (
	"context"
	"encoding/json"
	"errors"
	"fmt"
	"io"
	"net/http"
	"net/http/httptest"
	"strings"
	"sync"
	"sync/atomic"
	"time"

	"github.com/tmpim/casket/casketfile"
	"github.com/tmpim/casket/caskethttp/httpserver"
	"github.com/tmpim/casket/caskethttp/proxy"
)

const (
	c14Unit  = 40 * time.Millisecond // one clock unit of a timed case
	c14Slack = 12 * time.Millisecond // added to every wait: expiry goroutines must have run
	c14Big   = int64(1000000000)     // "1h" in clock units as far as the model is concerned

	c14SigOvershoot = "maxconns-overshoot:select-increment-window"
)

type c14Adv struct {
	T     int    `json:"t"`               // request to advance to its next blocking point; <0: wait
	O     string `json:"o,omitempty"`     // outcome used if it is inside the transport: s e c l p, h = stream headers first
	Again bool   `json:"again,omitempty"` // keepRetrying's answer if it is asked during this step
	Wait  int    `json:"wait,omitempty"`  // clock units (T < 0)
}

type c14In struct {
	Kind    string   `json:"kind"` // sched | maxfails | maxconns | stress
	Hosts   int      `json:"hosts,omitempty"`
	MC      int64    `json:"mc,omitempty"`
	MF      int      `json:"mf,omitempty"`
	FT      int      `json:"ft,omitempty"` // 0 = fail_timeout 0 (no counting), <0 = 1h, >0 = that many clock units
	Unh     []bool   `json:"unh,omitempty"`
	Policy  string   `json:"policy,omitempty"` // first | round_robin (modelled) | random | least_conn (replayed from the observed choices, contract checked)
	Threads int      `json:"threads,omitempty"`
	Steps   []c14Adv `json:"steps,omitempty"`
	N       int64    `json:"n,omitempty"`
	K       int64    `json:"k,omitempty"`
	Reqs    int      `json:"reqs,omitempty"`
	Seed    uint64   `json:"seed,omitempty"`
}

type c14Cmd struct{ o string }
type c14Event struct {
	tid   int
	point string // pre | post | rt | body | done
	host  int
	code  int
}

type c14Thread struct {
	id     int
	gate   chan c14Cmd
	point  string
	host   int
	code   int
	cancel context.CancelFunc
}

type c14Run struct {
	threads []*c14Thread
	events  chan c14Event
	again   bool
	hosts   proxy.HostPool
	trans   []*c14Transport
}

func (r *c14Run) block(th *c14Thread, point string, host int) c14Cmd {
	r.events <- c14Event{tid: th.id, point: point, host: host}
	return <-th.gate
}

func (r *c14Run) threadOf(req *http.Request) *c14Thread {
	var id int
	fmt.Sscan(req.Header.Get("X-C14-Tid"), &id)
	return r.threads[id]
}

// c14Upstream delegates everything to the parsed staticUpstream; Select is bracketed by two
// blocking points and keepRetrying's clock is replaced by the driver's answer.
type c14Upstream struct {
	proxy.Upstream
	run *c14Run
}

func (u *c14Upstream) Select(r *http.Request) *proxy.UpstreamHost {
	th := u.run.threadOf(r)
	u.run.block(th, "pre", -1)
	h := u.Upstream.Select(r)
	idx := -1
	for i, x := range u.run.hosts {
		if x == h {
			idx = i
		}
	}
	if h != nil && idx < 0 {
		idx = -2
	}
	u.run.block(th, "post", idx)
	return h
}
func (u *c14Upstream) GetTryDuration() time.Duration {
	if u.run.again {
		return time.Hour
	}
	return 0
}
func (u *c14Upstream) GetTryInterval() time.Duration { return 0 }

type c14Transport struct {
	run  *c14Run
	host int
	infl int64 // requests really inside this transport (round trip or body streaming)
}

type c14Body struct {
	t    *c14Transport
	th   *c14Thread
	done bool
}

func (b *c14Body) Read(p []byte) (int, error) {
	if b.done {
		return 0, io.EOF
	}
	cmd := b.t.run.block(b.th, "body", b.t.host)
	b.done = true
	atomic.AddInt64(&b.t.infl, -1)
	if cmd.o == "p" {
		panic("c14: injected panic while streaming")
	}
	return 0, io.EOF
}
func (b *c14Body) Close() error { return nil }

func c14Response(req *http.Request, body io.ReadCloser) *http.Response {
	return &http.Response{StatusCode: 200, Status: "200 OK", Proto: "HTTP/1.1", ProtoMajor: 1, ProtoMinor: 1,
		Header: http.Header{"Content-Type": {"text/plain"}}, Body: body, Request: req, ContentLength: -1}
}

func (t *c14Transport) RoundTrip(req *http.Request) (*http.Response, error) {
	th := t.run.threadOf(req)
	atomic.AddInt64(&t.infl, 1)
	cmd := t.run.block(th, "rt", t.host)
	switch cmd.o {
	case "h":
		return c14Response(req, &c14Body{t: t, th: th}), nil
	case "e":
		atomic.AddInt64(&t.infl, -1)
		return nil, errors.New("c14: injected backend error")
	case "c":
		th.cancel()
		<-req.Context().Done()
		atomic.AddInt64(&t.infl, -1)
		return nil, req.Context().Err()
	case "l":
		atomic.AddInt64(&t.infl, -1)
		return nil, httpserver.ErrMaxBytesExceeded
	case "p":
		atomic.AddInt64(&t.infl, -1)
		panic("c14: injected panic in the forward call")
	}
	atomic.AddInt64(&t.infl, -1)
	return c14Response(req, io.NopCloser(strings.NewReader("ok"))), nil
}

func c14Outcome(o string) string {
	switch o {
	case "e":
		return "OError"
	case "c":
		return "OCancel"
	case "l":
		return "OTooLarge"
	case "p":
		return "OPanic"
	}
	return "OSuccess"
}

func c14Block(in *c14In, unit time.Duration) (string, int64) {
	names := make([]string, in.Hosts)
	for i := range names {
		names[i] = fmt.Sprintf("http://127.0.0.1:%d", 20000+i)
	}
	ft, ftZ := "0s", int64(0)
	switch {
	case in.FT < 0:
		ft, ftZ = "1h", c14Big
	case in.FT > 0:
		ft, ftZ = fmt.Sprintf("%dms", int64(in.FT)*int64(unit/time.Millisecond)), int64(in.FT)
	}
	pol := in.Policy
	if pol == "" {
		pol = "first"
	}
	return fmt.Sprintf("proxy / %s {\n policy %s\n max_conns %d\n max_fails %d\n fail_timeout %s\n}\n",
		strings.Join(names, " "), pol, in.MC, in.MF, ft), ftZ
}

type c14Fail struct {
	host     int
	units    int
	tRelease time.Time
	tDone    time.Time
}

func c14Skip(obs, class string) Result {
	return Result{Term: "(CStress 0%nat 0%Z 0%nat [] true)", Obs: obs, Class: class, Sig: class}
}

// c14Sched runs one scheduled case with the clock unit stretched by scale. Status (timed cases only):
// 0 = usable; 1 = the failure counters did not match the harness's own books (re-run with a longer
// unit before believing it); 2 = a measured real-time margin was missed (the observation means nothing).
func c14Sched(in *c14In, scale int) (Result, int) {
	if in.Hosts < 1 || in.Threads < 1 || in.MF < 1 {
		return c14Skip("bad input", "sched:bad-input"), 0
	}
	unit, slack := c14Unit*time.Duration(scale), c14Slack*time.Duration(scale)
	text, ftZ := c14Block(in, unit)
	ups, err := proxy.NewStaticUpstreams(casketfile.NewDispenser("Testfile", strings.NewReader(text)), "")
	if err != nil || len(ups) != 1 {
		r := c14Skip(fmt.Sprint("setup error ", err), "sched:setup-error")
		r.Direct = fmt.Sprint("proxy block rejected: ", err)
		return r, 0
	}
	defer ups[0].Stop()
	run := &c14Run{events: make(chan c14Event, in.Threads+4), hosts: hostsOf(ups[0])}
	unh := make([]bool, in.Hosts)
	copy(unh, in.Unh)
	for i, h := range run.hosts {
		t := &c14Transport{run: run, host: i}
		run.trans = append(run.trans, t)
		h.ReverseProxy.Transport = t
		if unh[i] {
			atomic.StoreInt32(&h.Unhealthy, 1)
		}
	}
	p := proxy.Proxy{Next: handlerFunc(func(w http.ResponseWriter, r *http.Request) (int, error) { return 404, nil }),
		Upstreams: []proxy.Upstream{&c14Upstream{Upstream: ups[0], run: run}}}

	snapshot := func() ([][5]int64, string) {
		var sn [][5]int64
		var it []string
		for i, h := range run.hosts {
			c := atomic.LoadInt64(&h.Conns)
			f := int64(atomic.LoadInt32(&h.Fails))
			n := atomic.LoadInt64(&run.trans[i].infl)
			d, fl := h.Down(), h.Full()
			b2 := func(b bool) int64 {
				if b {
					return 1
				}
				return 0
			}
			sn = append(sn, [5]int64{c, f, n, b2(d), b2(fl)})
			it = append(it, fmt.Sprintf("(%s, %s, %s, %s, %s)", cZ(c), cZ(f), cZ(n), cBool(d), cBool(fl)))
		}
		return sn, cList(it)
	}

	stuck := ""
	waitEvent := func(th *c14Thread) c14Event {
		select {
		case ev := <-run.events:
			if ev.tid != th.id && stuck == "" {
				stuck = fmt.Sprintf("event from request %d while stepping request %d", ev.tid, th.id)
			}
			t := run.threads[ev.tid]
			t.point, t.host, t.code = ev.point, ev.host, ev.code
			return ev
		case <-time.After(5 * time.Second):
			if stuck == "" {
				stuck = fmt.Sprintf("request %d did not reach a blocking point within 5s (was at %s)", th.id, th.point)
			}
			th.point = "done"
			return c14Event{tid: th.id, point: "stuck"}
		}
	}

	// start every request; each runs up to the entry of Select
	for i := 0; i < in.Threads; i++ {
		ctx, cancel := context.WithCancel(context.Background())
		th := &c14Thread{id: i, gate: make(chan c14Cmd), point: "start", cancel: cancel}
		run.threads = append(run.threads, th)
		req := httptest.NewRequest("GET", "http://example.test/x", nil).WithContext(ctx)
		req.Header.Set("X-C14-Tid", fmt.Sprint(i))
		req.RemoteAddr = "192.0.2.7:4711"
		go func() {
			code := 0
			defer func() {
				if rec := recover(); rec != nil {
					code = -1
				}
				run.events <- c14Event{tid: th.id, point: "done", code: code}
			}()
			code, _ = p.ServeHTTP(httptest.NewRecorder(), req)
		}()
		waitEvent(th)
	}
	sn0, snap0 := snapshot()

	var trace []string
	var execd []string
	var fails []c14Fail
	fwdHost := map[int]int{}
	nowUnits := 0
	sane, marginOK, booksOK, overshoot, overlap := true, true, true, false, false
	maxActive, nFail := 0, 0
	lastSnap := sn0

	record := func(hs, ev string, tBegin time.Time) {
		sn, snT := snapshot()
		tEnd := time.Now()
		lastSnap = sn
		trace = append(trace, fmt.Sprintf("(%s, %s, %s)", hs, ev, snT))
		execd = append(execd, hs+"→"+ev)
		active := 0
		for _, t := range run.threads {
			if t.point == "post" && t.host >= 0 || t.point == "rt" || t.point == "body" {
				active++
			}
		}
		if active > maxActive {
			maxActive = active
		}
		for i, x := range sn {
			if x[0] != x[2] {
				sane = false
			}
			if in.MC > 0 && x[2] > in.MC {
				overshoot = true
			}
			exp := int64(0)
			for _, f := range fails {
				if f.host != i {
					continue
				}
				age := nowUnits - f.units
				if in.FT < 0 || age < in.FT {
					exp++
					if in.FT > 0 && tEnd.Sub(f.tRelease) >= time.Duration(in.FT)*unit-2*time.Millisecond {
						marginOK = false
					}
				} else if tBegin.Sub(f.tDone) < time.Duration(in.FT)*unit+2*time.Millisecond {
					marginOK = false
				}
			}
			if x[1] != exp {
				booksOK = false
				sane = false
			}
		}
	}

	advance := func(a c14Adv) {
		if a.T < 0 {
			d := a.Wait
			if d < 0 {
				d = 0
			}
			nowUnits += d
			if in.FT > 0 && d > 0 {
				time.Sleep(time.Duration(d)*unit + slack)
				// the model's expiry goroutines run on time; give late ones a moment to catch up
				// (a wrong duration in the code is off by whole units and does not catch up)
				for deadline := time.Now().Add(2 * slack); time.Now().Before(deadline); time.Sleep(time.Millisecond) {
					late := false
					for i, h := range run.hosts {
						exp := int32(0)
						for _, f := range fails {
							if f.host == i && nowUnits-f.units < in.FT {
								exp++
							}
						}
						if atomic.LoadInt32(&h.Fails) > exp {
							late = true
						}
					}
					if !late {
						break
					}
				}
			}
			record(cApp("HWait", cZ(int64(d))), "EvNone", time.Now())
			return
		}
		if a.T >= len(run.threads) || stuck != "" {
			return
		}
		th := run.threads[a.T]
		evTerm := func(ev c14Event) string {
			switch ev.point {
			case "pre":
				return "EvIdle"
			case "post":
				return cApp("EvSel", cOptNat(ev.host))
			case "rt":
				return cApp("EvFwd", cNat(ev.host))
			case "done":
				return cApp("EvDone", cZ(int64(ev.code)))
			}
			return "EvNone"
		}
		switch th.point {
		case "pre":
			for _, o := range run.threads {
				if o != th && o.point == "post" && o.host >= 0 {
					overlap = true
				}
			}
			prev := lastSnap
			th.gate <- c14Cmd{}
			ev := waitEvent(th)
			if ev.point == "post" && ev.host >= 0 && ev.host < len(prev) {
				// chosen although Down() or Full() held in the stable state before: not the window race
				if prev[ev.host][3] != 0 || prev[ev.host][4] != 0 {
					sane = false
				}
			}
			record(cApp("HSelect", cNat(th.id)), evTerm(ev), time.Now())
		case "post":
			run.again = a.Again
			th.gate <- c14Cmd{}
			ev := waitEvent(th)
			if ev.point == "rt" {
				fwdHost[th.id] = ev.host
			}
			record(cApp("HBegin", cNat(th.id), cBool(a.Again)), evTerm(ev), time.Now())
		case "rt":
			if a.O == "h" {
				th.gate <- c14Cmd{o: "h"}
				waitEvent(th)
				record(cApp("HStream", cNat(th.id)), "EvNone", time.Now())
				return
			}
			fallthrough
		case "body":
			o := a.O
			if th.point == "body" && o != "p" || o == "h" {
				o = "s"
			}
			run.again = a.Again
			t0 := time.Now()
			th.gate <- c14Cmd{o: o}
			ev := waitEvent(th)
			t1 := time.Now()
			if o == "e" && in.FT != 0 {
				fails = append(fails, c14Fail{host: fwdHost[th.id], units: nowUnits, tRelease: t0, tDone: t1})
				nFail++
			}
			delete(fwdHost, th.id)
			record(cApp("HFinish", cNat(th.id), c14Outcome(o), cBool(a.Again)), evTerm(ev), t1)
		}
	}

	for _, a := range in.Steps {
		advance(a)
	}
	// drain: let every request finish successfully, then (timed cases) let every failure expire
	for guard := 0; guard < 8; guard++ {
		busy := false
		for _, th := range run.threads {
			if th.point != "done" && stuck == "" {
				busy = true
				advance(c14Adv{T: th.id, O: "s"})
			}
		}
		if !busy {
			break
		}
	}
	if in.FT > 0 && nFail > 0 {
		advance(c14Adv{T: -1, Wait: in.FT})
	}
	for _, x := range lastSnap {
		if x[0] != 0 {
			sane = false
		}
	}

	unhT := make([]string, len(unh))
	for i, b := range unh {
		unhT[i] = cBool(b)
	}
	pol := uint64(0)
	switch in.Policy {
	case "round_robin":
		pol = 1
	case "random":
		pol = 2
	case "least_conn":
		pol = 3
	}
	term := cApp("CSched", cNat(in.Hosts), cZ(in.MC), cZ(int64(in.MF)), cZ(ftZ), cList(unhT), cN(pol),
		cNat(in.Threads), snap0, cList(trace))
	sig := "sched:" + in.Policy
	if in.FT > 0 {
		sig += ":timed"
	}
	if overlap && overshoot && sane {
		sig = c14SigOvershoot
	}
	ftc := "off"
	if in.FT < 0 {
		ftc = "1h"
	} else if in.FT > 0 {
		ftc = "timed"
	}
	res := Result{Term: term,
		Obs: map[string]interface{}{"steps": execd, "final": lastSnap, "overshoot": overshoot, "window_overlap": overlap,
			"block": text, "clock_unit_ms": int64(unit / time.Millisecond)},
		Sig: sig, Nontrivial: maxActive >= 2 || nFail > 0,
		Class: fmt.Sprintf("sched:hosts%d:mc%d:ft-%s:overlap=%v", in.Hosts, in.MC, ftc, overlap)}
	if stuck != "" {
		res.Direct = stuck
		res.Sig = "sched:stuck"
	}
	status := 0
	if in.FT > 0 && !marginOK {
		status = 2
	} else if in.FT > 0 && !booksOK {
		status = 1
	}
	return res, status
}

// c14Stress: free-running requests (no gating) through the real ServeHTTP.
func c14Stress(in *c14In) Result {
	sub := &c14In{Hosts: in.Hosts, MC: in.MC, MF: 1000000, FT: 1, Policy: in.Policy}
	text, _ := c14Block(sub, c14Unit)
	ups, err := proxy.NewStaticUpstreams(casketfile.NewDispenser("Testfile", strings.NewReader(text)), "")
	if err != nil || len(ups) != 1 {
		r := c14Skip(fmt.Sprint("setup error ", err), "stress:setup-error")
		r.Direct = fmt.Sprint("proxy block rejected: ", err)
		return r
	}
	defer ups[0].Stop()
	hosts := hostsOf(ups[0])
	type hstat struct{ infl, maxInfl, minConns int64 }
	stats := make([]*hstat, len(hosts))
	for i, h := range hosts {
		i, h := i, h
		st := &hstat{minConns: 1 << 40}
		stats[i] = st
		h.ReverseProxy.Transport = c14RT(func(req *http.Request) (*http.Response, error) {
			n := atomic.AddInt64(&st.infl, 1)
			for {
				m := atomic.LoadInt64(&st.maxInfl)
				if n <= m || atomic.CompareAndSwapInt64(&st.maxInfl, m, n) {
					break
				}
			}
			var k uint64
			fmt.Sscan(req.Header.Get("X-C14-Key"), &k)
			for spin := k % 4; spin > 0; spin-- {
				time.Sleep(time.Duration(k%97) * time.Microsecond)
			}
			c := atomic.LoadInt64(&h.Conns)
			for {
				m := atomic.LoadInt64(&st.minConns)
				if c >= m || atomic.CompareAndSwapInt64(&st.minConns, m, c) {
					break
				}
			}
			atomic.AddInt64(&st.infl, -1)
			switch (k / 7) % 10 {
			case 0, 1:
				return nil, errors.New("c14: injected backend error")
			case 2:
				return nil, context.Canceled
			case 3:
				panic("c14: injected panic")
			}
			return c14Response(req, io.NopCloser(strings.NewReader("ok"))), nil
		})
	}
	p := proxy.Proxy{Next: handlerFunc(func(w http.ResponseWriter, r *http.Request) (int, error) { return 404, nil }), Upstreams: ups}
	var wg sync.WaitGroup
	var answered int64
	rnd := NewRand(in.Seed)
	keys := make([][]uint64, in.Threads)
	for t := range keys {
		for j := 0; j < in.Reqs; j++ {
			keys[t] = append(keys[t], rnd.U64()%1000003)
		}
	}
	start := make(chan struct{})
	for t := 0; t < in.Threads; t++ {
		wg.Add(1)
		go func(t int) {
			defer wg.Done()
			<-start
			for _, k := range keys[t] {
				func() {
					defer func() {
						recover()
						atomic.AddInt64(&answered, 1)
					}()
					req := httptest.NewRequest("GET", "http://example.test/x", nil)
					req.Header.Set("X-C14-Key", fmt.Sprint(k))
					p.ServeHTTP(httptest.NewRecorder(), req)
				}()
			}
		}(t)
	}
	close(start)
	wg.Wait()
	time.Sleep(c14Unit + c14Slack)
	// late expiry goroutines get up to 1.5 s; a missing decrement never gets there
	for deadline := time.Now().Add(1500 * time.Millisecond); time.Now().Before(deadline); time.Sleep(2 * time.Millisecond) {
		left := false
		for _, h := range hosts {
			if atomic.LoadInt32(&h.Fails) != 0 {
				left = true
			}
		}
		if !left {
			break
		}
	}
	var obs []string
	var raw [][4]int64
	over := false
	clean := true
	for i, h := range hosts {
		st := stats[i]
		mn := st.minConns
		if mn == 1<<40 {
			mn = 1
		}
		fc, ff := atomic.LoadInt64(&h.Conns), int64(atomic.LoadInt32(&h.Fails))
		if in.MC > 0 && st.maxInfl > in.MC {
			over = true
		}
		if fc != 0 || ff != 0 || mn < 1 {
			clean = false
		}
		raw = append(raw, [4]int64{st.maxInfl, mn, fc, ff})
		obs = append(obs, fmt.Sprintf("(%s, %s, %s, %s)", cZ(st.maxInfl), cZ(mn), cZ(fc), cZ(ff)))
	}
	all := answered == int64(in.Threads*in.Reqs)
	sig := "stress"
	if over && clean && all {
		sig = c14SigOvershoot
	}
	return Result{Term: cApp("CStress", cNat(in.Hosts), cZ(in.MC), cNat(in.Threads), cList(obs), cBool(all)),
		Obs: map[string]interface{}{"per_host_maxinfl_minconns_finalconns_finalfails": raw, "answered": answered},
		Sig: sig, Nontrivial: true, Key: fmt.Sprintf("stress:%d:%d:%d:%d:%d", in.Hosts, in.MC, in.Threads, in.Reqs, in.Seed),
		Class: fmt.Sprintf("stress:hosts%d:mc%d", in.Hosts, in.MC)}
}

type c14RT func(*http.Request) (*http.Response, error)

func (f c14RT) RoundTrip(r *http.Request) (*http.Response, error) { return f(r) }

func c14Cfg(in *c14In) Result {
	dir := "max_fails"
	if in.Kind == "maxconns" {
		dir = "max_conns"
	}
	text := fmt.Sprintf("proxy / http://127.0.0.1:20000 {\n %s %d\n}\n", dir, in.N)
	ups, err := proxy.NewStaticUpstreams(casketfile.NewDispenser("Testfile", strings.NewReader(text)), "")
	accepted := err == nil && len(ups) == 1
	obs := false
	if accepted {
		defer ups[0].Stop()
		h := hostsOf(ups[0])[0]
		if in.Kind == "maxconns" {
			atomic.StoreInt64(&h.Conns, in.K)
			obs = h.Full()
		} else {
			atomic.StoreInt32(&h.Fails, int32(in.K))
			obs = h.Down()
		}
	}
	ctor, sig := "CMaxFails", "cfg:max_fails"
	if in.Kind == "maxconns" {
		ctor, sig = "CMaxConns", "cfg:max_conns"
	} else if in.N >= 1<<31 {
		sig = "cfg:max_fails>=2^31"
	}
	return Result{Term: cApp(ctor, cZ(in.N), cZ(in.K), cBool(accepted), cBool(obs)),
		Obs: map[string]interface{}{"accepted": accepted, "observed": obs}, Sig: sig, Nontrivial: accepted, Class: sig}
}

// timed cases spend their time sleeping: the generated ones are run concurrently (8 at a time)
// when the first of them is asked for; each case owns its pool, transports and goroutines.
var (
	c14Batch     []*c14In
	c14BatchRes  = map[*c14In]Result{}
	c14BatchOnce sync.Once
)

func c14RunBatch() {
	var mu sync.Mutex
	var wg sync.WaitGroup
	sem := make(chan struct{}, 8)
	for _, in := range c14Batch {
		in := in
		wg.Add(1)
		sem <- struct{}{}
		go func() {
			defer wg.Done()
			defer func() { <-sem }()
			res := c14RunOne(in)
			mu.Lock()
			c14BatchRes[in] = res
			mu.Unlock()
		}()
	}
	wg.Wait()
}

func c14RunCase(in0 interface{}) Result {
	in := in0.(*c14In)
	if in.Kind == "sched" && in.FT > 0 && len(c14Batch) > 0 {
		c14BatchOnce.Do(c14RunBatch)
		if res, ok := c14BatchRes[in]; ok {
			return res
		}
	}
	return c14RunOne(in)
}

// c14Live: one request through the real http.Transport to a loopback backend.
func c14Live(in *c14In) Result {
	entered := make(chan struct{}, 1)
	release := make(chan struct{})
	mode := in.Policy // s | e | c
	backend := httptest.NewServer(http.HandlerFunc(func(w http.ResponseWriter, r *http.Request) {
		entered <- struct{}{}
		<-release
		if mode == "e" {
			if hj, ok := w.(http.Hijacker); ok {
				if c, _, err := hj.Hijack(); err == nil {
					c.Close()
				}
			}
			return
		}
		w.WriteHeader(200)
		io.WriteString(w, "ok")
	}))
	defer backend.Close()
	var once sync.Once
	unblock := func() { once.Do(func() { close(release) }) }
	defer unblock()
	text := fmt.Sprintf("proxy / %s {\n max_conns 5\n max_fails 1\n fail_timeout 1h\n}\n", backend.URL)
	ups, err := proxy.NewStaticUpstreams(casketfile.NewDispenser("Testfile", strings.NewReader(text)), "")
	if err != nil || len(ups) != 1 {
		r := c14Skip(fmt.Sprint("setup error ", err), "live:setup-error")
		r.Direct = fmt.Sprint("proxy block rejected: ", err)
		return r
	}
	defer ups[0].Stop()
	h := hostsOf(ups[0])[0]
	p := proxy.Proxy{Next: handlerFunc(func(w http.ResponseWriter, r *http.Request) (int, error) { return 404, nil }), Upstreams: ups}
	ctx, cancel := context.WithCancel(context.Background())
	defer cancel()
	req := httptest.NewRequest("GET", "http://example.test/x", nil).WithContext(ctx)
	req.RemoteAddr = "192.0.2.7:4711"
	done := make(chan int, 1)
	go func() {
		code := -1
		defer func() {
			recover()
			done <- code
		}()
		code, _ = p.ServeHTTP(httptest.NewRecorder(), req)
	}()
	direct := ""
	select {
	case <-entered:
	case <-time.After(5 * time.Second):
		direct = "request never reached the backend"
	}
	during := atomic.LoadInt64(&h.Conns)
	if mode == "c" {
		cancel()
	} else {
		unblock()
	}
	code := -2
	select {
	case code = <-done:
	case <-time.After(5 * time.Second):
		direct = "Proxy.ServeHTTP did not return"
	}
	after, fails := atomic.LoadInt64(&h.Conns), int64(atomic.LoadInt32(&h.Fails))
	return Result{Term: cApp("CLive", c14Outcome(mode), cZ(int64(code)), cZ(during), cZ(after), cZ(fails)),
		Obs:    map[string]interface{}{"status": code, "conns_during": during, "conns_after": after, "fails_after": fails},
		Direct: direct, Sig: "live:" + mode, Nontrivial: true, Class: "live:" + mode,
		Key: fmt.Sprintf("live:%s:%d", mode, in.Seed)}
}

func c14RunOne(in *c14In) Result {
	switch in.Kind {
	case "live":
		return c14Live(in)
	case "sched":
		var res Result
		status := 0
		for scale := 1; scale <= 3; scale++ {
			res, status = c14Sched(in, scale)
			if status == 0 {
				break
			}
		}
		if status == 2 {
			// the machine was too busy to keep the real-time margins even with 120 ms units: nothing observed
			return c14Skip("real-time margins missed in 3 attempts", "sched:timing-invalid")
		}
		return res
	case "stress":
		return c14Stress(in)
	case "maxfails", "maxconns":
		return c14Cfg(in)
	}
	panic("bad kind " + in.Kind)
}

// ---- generators ----

func c14Interleavings(a, b int) [][]int {
	if a == 0 && b == 0 {
		return [][]int{{}}
	}
	var out [][]int
	if a > 0 {
		for _, r := range c14Interleavings(a-1, b) {
			out = append(out, append([]int{0}, r...))
		}
	}
	if b > 0 {
		for _, r := range c14Interleavings(a, b-1) {
			out = append(out, append([]int{1}, r...))
		}
	}
	return out
}

func c14Gen(r *Rand, tier string) []interface{} {
	var out []interface{}
	nRandom, nTimed, nStress := 2000, 60, 12
	if tier == "thorough" {
		nRandom, nTimed, nStress = 20000, 500, 100
	}
	// 1. every interleaving of two requests (select, begin, finish each) x outcomes x settings
	type setting struct {
		hosts int
		mc    int64
		ft    int
		pol   string
		again bool
	}
	settings := []setting{{1, 1, -1, "first", false}, {1, 2, -1, "first", false}, {2, 1, -1, "round_robin", false},
		{1, 1, 0, "first", false}, {2, 1, -1, "first", true}, {2, 1, -1, "least_conn", false}}
	inter := c14Interleavings(3, 3)
	if tier == "thorough" {
		inter = c14Interleavings(4, 4)
		settings = append(settings, setting{1, 0, -1, "first", false}, setting{2, 2, -1, "round_robin", true},
			setting{3, 1, -1, "round_robin", true}, setting{1, 1, -1, "first", true})
	}
	for _, st := range settings {
		for _, il := range inter {
			for _, oa := range []string{"s", "e", "c", "l", "p", "h"} {
				for _, ob := range []string{"s", "e"} {
					in := &c14In{Kind: "sched", Hosts: st.hosts, MC: st.mc, MF: 1, FT: st.ft, Policy: st.pol, Threads: 2}
					for _, t := range il {
						o := oa
						if t == 1 {
							o = ob
						}
						in.Steps = append(in.Steps, c14Adv{T: t, O: o, Again: st.again})
					}
					out = append(out, in)
				}
			}
		}
	}
	// 2. random schedules
	outcomes := []string{"s", "s", "s", "s", "e", "e", "e", "e", "c", "l", "p", "h"}
	for i := 0; i < nRandom; i++ {
		in := &c14In{Kind: "sched", Hosts: r.Range(1, 3), Threads: r.Range(1, 5),
			MC: []int64{0, 1, 1, 2, 3}[r.Intn(5)], MF: []int{1, 1, 2, 3}[r.Intn(4)], FT: []int{0, -1, -1, -1}[r.Intn(4)],
			Policy: r.Pick([]string{"first", "round_robin", "least_conn", "random"})}
		for h := 0; h < in.Hosts; h++ {
			in.Unh = append(in.Unh, r.Chance(10))
		}
		n := r.Range(6, 14*in.Threads)
		prev := 0
		for k := 0; k < n; k++ {
			t := r.Intn(in.Threads)
			if r.Chance(40) {
				t = (prev + 1) % in.Threads // lock-step rounds open many windows at once
			}
			prev = t
			in.Steps = append(in.Steps, c14Adv{T: t, O: r.Pick(outcomes), Again: r.Chance(35)})
		}
		out = append(out, in)
	}
	// 3. timed schedules: failures expire after fail_timeout, down exactly while >= max_fails are unexpired
	for i := 0; i < nTimed; i++ {
		in := &c14In{Kind: "sched", Hosts: r.Range(1, 2), Threads: r.Range(2, 4), MC: []int64{0, 0, 2}[r.Intn(3)],
			MF: r.Range(1, 2), FT: r.Range(2, 3), Policy: r.Pick([]string{"first", "round_robin"})}
		waits := 0
		n := r.Range(5, 11)
		for k := 0; k < n; k++ {
			if k > 0 && waits < 4 && r.Chance(22) {
				waits++
				in.Steps = append(in.Steps, c14Adv{T: -1, Wait: r.Range(1, in.FT)})
				continue
			}
			// one whole attempt of one request (select, begin, finish) unless it is interrupted by others
			a := c14Adv{T: r.Intn(in.Threads), O: r.Pick([]string{"e", "e", "e", "e", "s", "c"}), Again: r.Chance(75)}
			m := 3
			if r.Chance(25) {
				m = r.Range(1, 2)
			}
			for j := 0; j < m; j++ {
				in.Steps = append(in.Steps, a)
			}
		}
		out = append(out, in)
		c14Batch = append(c14Batch, in)
	}
	// 3b. staggered failures: two failures of one backend recorded at different times; probes between
	// the two expiry instants (the first must be gone, the second must still count) and after both
	att := func(t int, o string, again bool) []c14Adv {
		a := c14Adv{T: t, O: o, Again: again}
		return []c14Adv{a, a, a}
	}
	for i := 0; i < nTimed/2; i++ {
		ft := r.Range(2, 3)
		a := r.Range(1, ft-1)
		in := &c14In{Kind: "sched", Hosts: r.Range(1, 2), Threads: 3, MC: []int64{0, 0, 3}[r.Intn(3)], FT: ft, Policy: r.Pick([]string{"first", "round_robin"})}
		var st []c14Adv
		if i%2 == 0 {
			// sequential attempts, max_fails >= 2 so that the backend is still used after the first failure
			in.MF = r.Range(2, 3)
			st = append(st, att(0, "e", true)...)
			st = append(st, c14Adv{T: -1, Wait: a})
			if in.Hosts == 2 {
				st = append(st, att(0, "e", true)...) // first/round robin may pick either host; a third failure keeps both busy
			}
			st = append(st, att(1, "e", r.Bool())...)
		} else {
			// two requests already in flight on the backend fail one after the other (max_fails 1: down after the first)
			in.MF = r.Range(1, 2)
			in.Hosts = 1
			st = append(st, c14Adv{T: 0}, c14Adv{T: 0}, c14Adv{T: 1}, c14Adv{T: 1})
			st = append(st, c14Adv{T: 0, O: "e", Again: r.Bool()})
			st = append(st, c14Adv{T: -1, Wait: a})
			st = append(st, c14Adv{T: 1, O: "e", Again: r.Bool()})
		}
		st = append(st, c14Adv{T: -1, Wait: ft - a})
		st = append(st, c14Adv{T: 2, O: "s"}, c14Adv{T: 2, O: "s"}) // probe: Select (and begin) between the two expiries
		st = append(st, c14Adv{T: -1, Wait: a})
		st = append(st, att(2, "s", false)...)
		in.Steps = st
		out = append(out, in)
		c14Batch = append(c14Batch, in)
	}
	// 4. configuration values
	for _, n := range []int64{-1, 0, 1, 2, 3, 100, 1<<31 - 1, 1 << 31, 1<<31 + 1, 1<<32 - 1, 1 << 32, 1<<32 + 1, 1<<32 + 2, 1 << 33, 1<<63 - 1} {
		ks := []int64{0, 1, 2, 3, 1<<31 - 1}
		for _, d := range []int64{-1, 0, 1} {
			if k := n + d; k > 3 && k < 1<<31-1 {
				ks = append(ks, k)
			}
		}
		for _, k := range ks {
			out = append(out, &c14In{Kind: "maxfails", N: n, K: k})
		}
	}
	for _, n := range []int64{-5, -1, 0, 1, 2, 3, 100, 1 << 31, 1 << 32, 1<<63 - 1} {
		for _, k := range []int64{0, 1, 2, 3, 99, 100, 101, 1 << 31, 1<<32 - 1, 1 << 32, 1<<63 - 1} {
			out = append(out, &c14In{Kind: "maxconns", N: n, K: k})
		}
	}
	// 4b. the real transport: answered, connection dropped by the backend, abandoned by the client
	for i := 0; i < nStress; i++ {
		out = append(out, &c14In{Kind: "live", Policy: []string{"s", "e", "c"}[i%3], Seed: uint64(i)})
	}
	// 5. free-running stress
	for i := 0; i < nStress; i++ {
		out = append(out, &c14In{Kind: "stress", Hosts: r.Range(1, 3), MC: []int64{0, 0, 2, 4}[r.Intn(4)],
			Threads: r.Range(4, 16), Reqs: r.Range(20, 60), Policy: r.Pick([]string{"first", "round_robin", "least_conn", "random"}), Seed: r.U64() % 1000000})
	}
	return out
}

func init() {
	register(&Property{
		ID: "C14", Imports: "V.Lib V.C14_Model", Judge: "judge",
		Rule: "cases = real Proxy.ServeHTTP goroutines over a parsed proxy block, stepped by the driver through gated Select / barrier transports (every interleaving of 2 requests x outcomes x settings, random schedules of up to 5 requests on up to 3 hosts, timed schedules with real fail_timeout expiry), max_fails/max_conns parsing, single requests through the real http.Transport (answered / dropped / client cancel), free-running stress; non-trivial = a schedule in which two requests were simultaneously between Select and completion or a failure was recorded / accepted config / stress run; distinct = distinct Coq case term",
		Gen:  c14Gen,
		Decode: func(raw json.RawMessage) (interface{}, error) {
			in := &c14In{}
			return in, json.Unmarshal(raw, in)
		},
		Run:   c14RunCase,
		Shard: 150,
	})
}
